(** C05 - the model's Hamiltonian equals the documented formula, entry by
    entry in digit coordinates, and is Hermitian; proved for every number of
    atoms, every basis dimension, every addressing, over any commutative
    ring with an involution and an element 1/2. *)
From Coq Require Import List Arith Bool ZArith Lia Ring.
From PV Require Import Model.Ham Proofs.HamLin.
Import ListNotations.

Section Form.
  Variable R : cops.
  Hypothesis Rring :
    ring_theory (c0 R) (c1 R) (cadd R) (cmul R) (csub R) (copp R) (@eq R).
  Add Ring RRform : Rring.
  Local Notation "x + y" := (cadd R x y).
  Local Notation "x * y" := (cmul R x y).
  Local Notation "- x" := (copp R x).
  Local Notation "0" := (c0 R).
  Local Notation "1" := (c1 R).
  Local Notation conj := (cconj R).
  Local Notation half := (chalf R).

  Hypothesis conj_add : forall x y, conj (x + y) = conj x + conj y.
  Hypothesis conj_mul : forall x y, conj (x * y) = conj x * conj y.
  Hypothesis conj_invol : forall x, conj (conj x) = x.
  Hypothesis conj_1 : conj 1 = 1.
  Hypothesis conj_half : conj half = half.
  Hypothesis half_half : half + half = 1.

  Lemma conj_0 : conj 0 = 0.
  Proof.
    assert (H : conj 0 + conj 0 = conj 0).
    { rewrite <- conj_add. f_equal. ring. }
    transitivity (conj 0 + conj 0 + - conj 0). ring.
    rewrite H. ring.
  Qed.

  Lemma conj_opp : forall x, conj (- x) = - conj x.
  Proof.
    intros x.
    assert (H : conj x + conj (- x) = 0).
    { rewrite <- conj_add. replace (x + - x) with 0 by ring. apply conj_0. }
    transitivity (- conj x + (conj x + conj (- x))). ring.
    rewrite H. ring.
  Qed.

  Lemma conj_b2c : forall b, conj (b2c R b) = b2c R b.
  Proof. destruct b; simpl. apply conj_1. apply conj_0. Qed.

  Lemma conj_sum_list : forall l, conj (sum_list R l) = sum_list R (map conj l).
  Proof.
    induction l as [|x l IH]; simpl.
    - rewrite sum_list_nil. apply conj_0.
    - rewrite !(sum_list_cons R Rring), conj_add, IH. reflexivity.
  Qed.

  Lemma double_half : forall x, - (half * x) + - (half * x) = - x.
  Proof.
    intros x. transitivity (- ((half + half) * x)). ring.
    rewrite half_half. ring.
  Qed.

  Lemma double_half_pos : forall x, half * x + half * x = x.
  Proof.
    intros x. transitivity ((half + half) * x). ring.
    rewrite half_half. ring.
  Qed.

  (** * Hermiticity: for every input whatsoever *)
  Lemma herm_hermitian : forall (E : mat R) I J,
      herm R E J I = conj (herm R E I J).
  Proof.
    intros. unfold herm, madd, mdag. rewrite conj_add, conj_invol. ring.
  Qed.

  Theorem ham_model_hermitian :
    forall d n eb xy hi md on mask mask_end t U chs I J,
      ham_model R d n eb xy hi md on mask mask_end t U chs J I
      = conj (ham_model R d n eb xy hi md on mask mask_end t U chs I J).
  Proof. intros. unfold ham_model, ham_of_dict. apply herm_hermitian. Qed.

  (** * Entries *)
  Lemma evo_entry : forall terms I J,
      evo R terms I J = sum_list R (map (fun p => snd p * fst p I J) terms).
  Proof.
    intros. unfold evo. rewrite msum_entry, map_map. reflexivity.
  Qed.

  (** entry (r, c) of E + E^dagger for E = evo terms *)
  Definition evoE (d : nat) (terms : list (mat R * R)) (r c : list nat) : R :=
    herm R (evo R terms) (flat d r) (flat d c).

  Lemma evoE_unfold : forall d terms r c,
      evoE d terms r c
      = evo R terms (flat d r) (flat d c) + conj (evo R terms (flat d c) (flat d r)).
  Proof. reflexivity. Qed.

  Lemma add4 : forall a b c d : R, a + b + (c + d) = a + c + (b + d).
  Proof. intros. ring. Qed.

  Lemma evoE_app : forall d t1 t2 r c,
      evoE d (t1 ++ t2) r c = evoE d t1 r c + evoE d t2 r c.
  Proof.
    intros. rewrite !evoE_unfold, !evo_entry, !map_app.
    rewrite !(sum_list_app R Rring), conj_add. apply add4.
  Qed.

  Lemma evoE_nil : forall d r c, evoE d [] r c = 0.
  Proof.
    intros. rewrite evoE_unfold, !evo_entry. simpl. rewrite sum_list_nil, conj_0. ring.
  Qed.

  Lemma evo_two : forall A k1 B k2 I J,
      evo R [(A, k1); (B, k2)] I J = k1 * A I J + k2 * B I J.
  Proof.
    intros. rewrite evo_entry. simpl.
    rewrite !(sum_list_cons R Rring), sum_list_nil. ring.
  Qed.

  Lemma evo_one : forall A k1 I J, evo R [(A, k1)] I J = k1 * A I J.
  Proof.
    intros. rewrite evo_entry. simpl.
    rewrite !(sum_list_cons R Rring), sum_list_nil. ring.
  Qed.

  Section Entries.
    Variables (d n : nat) (r c : list nat).
    Hypothesis Hr : length r = n.
    Hypothesis Hc : length c = n.
    Hypothesis Fr : Forall (fun x => x < d) r.
    Hypothesis Fc : Forall (fun x => x < d) c.

    Definition S1 (qs : list nat) (a b : nat) (r c : list nat) : R :=
      sum_list R (map (fun q => b2c R (site1 n q a b r c)) qs).

    Lemma sum_lin3 : forall {A} k1 k2 k3 (f1 f2 f3 : A -> R) l,
        sum_list R (map (fun q => k1 * f1 q + k2 * f2 q + - (k3 * f3 q)) l)
        = k1 * sum_list R (map f1 l) + k2 * sum_list R (map f2 l)
          + - (k3 * sum_list R (map f3 l)).
    Proof.
      induction l; simpl.
      - rewrite !sum_list_nil. ring.
      - rewrite !(sum_list_cons R Rring), IHl. ring.
    Qed.

    Lemma S1_sym : forall qs a b, S1 qs a b c r = S1 qs b a r c.
    Proof.
      intros. unfold S1. apply (sum_list_ext R Rring). intros q _.
      rewrite site1_sym. reflexivity.
    Qed.

    Lemma conj_S1 : forall qs a b r' c', conj (S1 qs a b r' c') = S1 qs a b r' c'.
    Proof.
      intros. unfold S1. rewrite conj_sum_list, map_map.
      apply (sum_list_ext R Rring). intros q _. apply conj_b2c.
    Qed.

    (** the algebra of one drive contribution on the atom list [qs] *)
    Lemma drive_algebra : forall qs camp det a bb,
        conj det = det ->
        camp * S1 qs a bb r c + - (half * det) * S1 qs bb bb r c
        + conj (camp * S1 qs a bb c r + - (half * det) * S1 qs bb bb c r)
        = sum_list R
            (map (fun q =>
                    camp * b2c R (site1 n q a bb r c)
                    + conj camp * b2c R (site1 n q bb a r c)
                    + - (det * b2c R (site1 n q bb bb r c))) qs).
    Proof.
      intros qs camp det a bb Hdet.
      rewrite sum_lin3. fold (S1 qs a bb r c) (S1 qs bb a r c) (S1 qs bb bb r c).
      rewrite conj_add, !conj_mul, conj_opp, conj_mul, conj_half, Hdet, !conj_S1.
      rewrite !S1_sym.
      transitivity (camp * S1 qs a bb r c + conj camp * S1 qs bb a r c
                    + (- (half * (det * S1 qs bb bb r c))
                       + - (half * (det * S1 qs bb bb r c)))).
      ring. rewrite double_half. reflexivity.
    Qed.

    Lemma S1_single : forall q a b r' c',
        b2c R (site1 n q a b r' c') = S1 [q] a b r' c'.
    Proof.
      intros. unfold S1. simpl. rewrite (sum_list_cons R Rring), sum_list_nil. ring.
    Qed.

    Lemma drive_entry : forall eb kv,
        conj (q_det R (snd kv)) = q_det R (snd kv) ->
        match fst kv with KL _ q => q < n | KG _ => True end ->
        evoE d (drive_terms R d n eb kv) r c = contrib_formula R n eb kv r c.
    Proof.
      intros eb [k v] Hdet Hk. simpl in Hdet, Hk.
      unfold contrib_formula, drive_formula. simpl fst. simpl snd.
      rewrite evoE_unfold. unfold drive_terms.
      destruct k as [b|b q]; destruct (drive_states b) as [sa sb].
      - rewrite !evo_two.
        rewrite !(build_global_entry R Rring) by assumption.
        fold (S1 (seq 0 n) (sidx eb sa) (sidx eb sb) r c)
             (S1 (seq 0 n) (sidx eb sb) (sidx eb sb) r c)
             (S1 (seq 0 n) (sidx eb sa) (sidx eb sb) c r)
             (S1 (seq 0 n) (sidx eb sb) (sidx eb sb) c r).
        apply drive_algebra. exact Hdet.
      - rewrite !evo_two.
        rewrite !(build_single_entry R Rring) by assumption.
        rewrite !S1_single.
        apply drive_algebra. exact Hdet.
    Qed.

    Lemma drive_entries : forall eb dict,
        Forall (fun kv => conj (q_det R (snd kv)) = q_det R (snd kv)) dict ->
        Forall (fun kv => match fst kv with KL _ q => q < n | KG _ => True end) dict ->
        evoE d (flat_map (drive_terms R d n eb) dict) r c
        = sum_list R (map (fun kv => contrib_formula R n eb kv r c) dict).
    Proof.
      induction dict as [|kv dict IH]; intros H1 H2; simpl.
      - rewrite evoE_nil, sum_list_nil. reflexivity.
      - pose proof (Forall_inv H1) as Ha. pose proof (Forall_inv_tail H1) as Hb.
        pose proof (Forall_inv H2) as Ha2. pose proof (Forall_inv_tail H2) as Hb2.
        rewrite evoE_app, (sum_list_cons R Rring), IH by assumption.
        rewrite drive_entry by assumption. reflexivity.
    Qed.

    (** interaction *)
    Variables (eb : list nat) (xy : bool) (mask : list nat) (U : nat -> nat -> R).
    Hypothesis Ureal : forall i j, conj (U i j) = U i j.

    Lemma interaction_entry : forall masked r' c',
        length r' = n -> length c' = n ->
        Forall (fun x => x < d) r' -> Forall (fun x => x < d) c' ->
        interaction R d n eb xy masked mask U (flat d r') (flat d c')
        = sum_list R
            (map (fun p : nat * nat =>
                    let (i, j) := p in
                    if xy
                    then U i j * b2c R (site2 n i (sidx eb 0) (sidx eb 1) j (sidx eb 1) (sidx eb 0) r' c')
                    else half * U i j * b2c R (site2 n i (sidx eb 2) (sidx eb 2) j (sidx eb 2) (sidx eb 2) r' c'))
                 (filter (pair_kept xy masked mask) (pairs (seq 0 n)))).
    Proof.
      intros masked r' c' Hr' Hc' Fr' Fc'.
      unfold interaction. rewrite msum_entry, map_map.
      apply (sum_list_ext R Rring). intros [i j] Hp.
      apply filter_In in Hp. destruct Hp as [Hp _].
      apply in_pairs_seq in Hp. destruct Hp as [Hij Hj].
      unfold pair_term, mscale. destruct xy.
      - rewrite (build_pair_entry R Rring) by (try assumption; lia). reflexivity.
      - rewrite (build_same_pair_entry R Rring) by (try assumption; lia). reflexivity.
    Qed.

    Lemma interaction_herm_entry : forall masked,
        interaction R d n eb xy masked mask U (flat d r) (flat d c)
        + conj (interaction R d n eb xy masked mask U (flat d c) (flat d r))
        = inter_formula R n eb xy (pair_kept xy masked mask) U r c.
    Proof.
      intros masked.
      rewrite !interaction_entry by assumption.
      rewrite conj_sum_list, map_map.
      rewrite <- (sum_list_add R Rring).
      unfold inter_formula.
      apply (sum_list_ext R Rring). intros [i j] _.
      destruct xy.
      - rewrite conj_mul, conj_b2c,
          (site2_sym n i (sidx eb 0) (sidx eb 1) j (sidx eb 1) (sidx eb 0) r c).
        reflexivity.
      - rewrite !conj_mul, conj_b2c, conj_half, Ureal,
          (site2_sym n i (sidx eb 2) (sidx eb 2) j (sidx eb 2) (sidx eb 2) r c).
        transitivity
          (half * (U i j * b2c R (site2 n i (sidx eb 2) (sidx eb 2) j (sidx eb 2) (sidx eb 2) r c))
           + half * (U i j * b2c R (site2 n i (sidx eb 2) (sidx eb 2) j (sidx eb 2) (sidx eb 2) r c))).
        ring. apply double_half_pos.
    Qed.

    Lemma filter_ext' : forall {A} (f g : A -> bool) l,
        (forall x, f x = g x) -> filter f l = filter g l.
    Proof.
      induction l; simpl; intros H. reflexivity.
      rewrite H, IHl by assumption. reflexivity.
    Qed.

    Lemma filter_false' : forall {A} (l : list A), filter (fun _ => false) l = [].
    Proof. induction l; simpl; auto. Qed.

    Lemma inter_formula_ext : forall f g,
        (forall p, f p = g p) ->
        inter_formula R n eb xy f U r c = inter_formula R n eb xy g U r c.
    Proof.
      intros f g H. unfold inter_formula. rewrite (filter_ext' f g) by exact H.
      reflexivity.
    Qed.

    Lemma inter_entries : forall hi md on,
        evoE d (inter_terms R d n eb xy hi md on mask U) r c
        = inter_formula R n eb xy (coupled_now xy hi md on mask) U r c.
    Proof.
      intros hi md on. unfold inter_terms.
      destruct hi.
      - destruct md.
        + rewrite evoE_unfold, !evo_two. destruct on; simpl b2c.
          * rewrite (inter_formula_ext _ (pair_kept xy false mask)).
            2:{ intros p. reflexivity. }
            rewrite <- (interaction_herm_entry false).
            rewrite conj_add, !conj_mul, conj_1, conj_0. ring.
          * rewrite (inter_formula_ext _ (pair_kept xy true mask)).
            2:{ intros p. reflexivity. }
            rewrite <- (interaction_herm_entry true).
            rewrite conj_add, !conj_mul, conj_1, conj_0. ring.
        + rewrite evoE_unfold, !evo_one.
          rewrite (inter_formula_ext _ (pair_kept xy false mask)).
          2:{ intros p. reflexivity. }
          rewrite <- (interaction_herm_entry false).
          rewrite conj_mul, conj_1. ring.
      - rewrite evoE_nil. unfold inter_formula.
        rewrite (filter_ext' _ (fun _ => false)) by (intros; reflexivity).
        rewrite filter_false'. reflexivity.
    Qed.

    (** * The Hamiltonian built from a nested dict is the documented formula
          for the dict's entries *)
    Theorem ham_of_dict_formula : forall hi md on dict,
        Forall (fun kv => conj (q_det R (snd kv)) = q_det R (snd kv)) dict ->
        Forall (fun kv => match fst kv with KL _ q => q < n | KG _ => True end) dict ->
        ham_of_dict R d n eb xy hi md on mask U dict (flat d r) (flat d c)
        = ham_formula_of R n eb xy hi md on mask U dict r c.
    Proof.
      intros hi md on dict H1 H2.
      unfold ham_of_dict, ham_formula_of.
      change (evoE d (inter_terms R d n eb xy hi md on mask U
                      ++ flat_map (drive_terms R d n eb) dict) r c
              = inter_formula R n eb xy (coupled_now xy hi md on mask) U r c
                + sum_list R (map (fun kv => contrib_formula R n eb kv r c) dict)).
      rewrite evoE_app, inter_entries, drive_entries by assumption.
      reflexivity.
    Qed.

  End Entries.

End Form.
