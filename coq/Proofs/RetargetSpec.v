(** C10: the phase-jump gap between consecutive pulses of different phase, and
    what a retarget instruction looks like. *)
From Coq Require Import ZArith List Bool Lia ZifyBool.
From Coq Require Import Uint63 FloatOps SpecFloat PrimFloat.
From PV Require Import Model.Base Model.Sched Model.Seq.
From PV Require Import Proofs.SchedInv Proofs.SchedOps Proofs.DurationSpec Proofs.ConflictSpec.
Import ListNotations.
Open Scope Z_scope.

Ltac inv H := inversion H; subst; clear H.
Tactic Notation "mbindok" hyp(H) ident(s1) ident(a) ident(H1) :=
  apply bind_inv in H;
  let er := fresh "er" in
  let Hr := fresh "Hr" in
  destruct H as [(s1 & a & H1 & H) | (er & H1 & Hr)]; [|discriminate Hr].

Section WithEnv.
Variable e : env.

(** * Phase-jump time *)
Theorem phase_jump_gap p n bs proto dp block s s' sl c lst rest lps lp :
  Forall (chan_ok e) s ->
  make_next_pulse_slot e p n bs proto dp block s = (s', Ok sl) ->
  proto <> 1 ->
  find_chan n s = Some c -> ch_slots c = lst :: rest ->
  last_pulse_slot true (ch_slots c) = Some (lps, lp) ->
  f_ne (p_phase lp)
       (corrected_phase p dp
          (find_add_delay n (s_tg lst) (proto =? 2) (fold_max bs (s_tf lst)) s)) = true ->
  Z.max (c_pj (ch_cfg c)) (2 * c_rise (ch_cfg c) * (if in_eom c then 1 else 0))
    + pfall (in_eom c) lp <= s_ti sl - s_tf lps.
Proof.
  intros Hok H Hp Hc Hs Hl Hne.
  destruct (next_slot_start _ _ _ _ _ _ _ _ _ _ Hok H) as (c0 & lst0 & rest0 & _ & Hc0 & Hs0 & X).
  rewrite Hc in Hc0. inv Hc0. rewrite Hs in Hs0. inv Hs0.
  pose proof (find_chan_ok e _ _ _ Hok Hc) as (Hg & _).
  unfold start_bound in X.
  destruct (proto =? 1) eqn:E1; [lia|].
  rewrite Hl, Hne in X.
  destruct X as (_ & _ & X1 & X2).
  match type of X1 with
  | Z.max ?a ?b <= 0 -> _ =>
      destruct (Z_le_gt_dec (Z.max a b) 0) as [L|G];
      [rewrite (X1 L); lia
      |destruct (X2 ltac:(lia)) as (dd & Hd & ->); apply adjust_duration_spec in Hd; auto; lia]
  end.
Qed.

(** * wait_for_fall brings the channel to rest *)
Lemma wait_for_fall_spec n s s' c :
  Forall (chan_ok e) s -> find_chan n s = Some c ->
  wait_for_fall e n s = (s', Ok tt) ->
  exists c', find_chan n s' = Some c' /\ ch_cfg c' = ch_cfg c /\
             ch_duration c true <= ch_duration c' false /\
             last_target (ch_slots c') = last_target (ch_slots c) /\
             (ch_duration c true <= ch_duration c false -> s' = s) /\
             (forall l r, ch_slots c = l :: r ->
                exists l' r', ch_slots c' = l' :: r' /\ s_tg l' = s_tg l).
Proof.
  intros Hok Hc H. unfold wait_for_fall in H.
  mbindok H s1 c0 H1; apply the_chan_inv in H1; destruct H1 as [-> H1].
  rewrite Hc in H1. inv H1.
  destruct (ch_duration c0 true - ch_duration c0 false >? 0) eqn:E.
  - mbindok H s2 d H2; apply lift_inv in H2; destruct H2 as [-> H2].
    pose proof (find_chan_ok e _ _ _ Hok Hc) as (Hg & _).
    symmetry in H2. apply adjust_duration_spec in H2; auto.
    destruct H2 as (D1 & D2 & D3 & D4).
    apply add_delay_ok in H.
    destruct H as (c1 & lst & rest & d' & k & Hc1 & Hs1 & Hv & Hc' & Hk).
    rewrite Hc in Hc1. inv Hc1.
    apply validate_duration_fixed in Hv; auto. subst d'.
    eexists. split; [exact Hc'|]. cbn.
    split; [reflexivity|].
    split.
    { assert (F : ch_duration c1 false = s_tf lst) by (unfold ch_duration; rewrite Hs1; reflexivity).
      lia. }
    split.
    { unfold is_target; cbn. destruct k; [congruence|reflexivity|reflexivity]. }
    split; [intros; lia|].
    intros l r Hl. rewrite Hs1 in Hl. inv Hl. eexists _, _. split; [reflexivity|]. reflexivity.
  - apply ret_inv in H. destruct H as [-> _].
    exists c0. split; auto. split; auto. split; [lia|]. split; auto. split; auto.
    intros l r Hl. eauto.
Qed.

Lemma last_target_le l h r : desc l -> l = h :: r -> last_target l <= s_tf h \/ last_target l = 0.
Proof.
  intros Hd ->. cbn [last_target]. destruct (is_target h); [left; lia|].
  assert (G : forall l, desc l -> forall x, (forall y, In y l -> s_tf y <= x) ->
              last_target l <= x \/ last_target l = 0).
  { clear. induction l as [|a l IH]; intros Hd x Hx; cbn [last_target]; [right; auto|].
    destruct (is_target a); [left; apply Hx; left; auto|].
    apply IH; [destruct Hd; auto|]. intros y Hy. apply Hx. right; auto. }
  apply G; [destruct Hd; auto|]. intros y Hy. eapply desc_head_max; eauto.
Qed.

(** * A retarget instruction *)
Theorem retarget_spec qs n s s' c l0 r0 :
  Forall (chan_ok e) s -> find_chan n s = Some c -> ch_slots c = l0 :: r0 ->
  0 <= c_minret (ch_cfg c) ->
  list_Z_eqb (s_tg l0) qs = false ->
  add_target e qs n s = (s', Ok tt) ->
  exists c' t rest',
    find_chan n s' = Some c' /\ ch_slots c' = t :: rest' /\
    s_kind t = KTarget /\ s_tg t = qs /\
    ch_duration c true <= s_ti t /\
    (c_minret (ch_cfg c) <= s_tf t - last_target (ch_slots c) \/ last_target (ch_slots c) = 0
       /\ c_minret (ch_cfg c) <= s_tf t) /\
    (c_fixret (ch_cfg c) <> 0 -> c_fixret (ch_cfg c) <= s_tf t - s_ti t).
Proof.
  intros Hok Hc Hs Hmr Hne H. unfold add_target in H.
  mbindok H s1 c0 H1; apply the_chan_inv in H1; destruct H1 as [-> H1].
  rewrite Hc in H1. inv H1. rewrite Hs in H.
  mbindok H s2 u2 H2. destruct u2.
  pose proof H2 as Hw. apply safe_wait_for_fall in Hw; auto.
  assert (Hok2 : Forall (chan_ok e) s2) by (eapply sx_ok; eauto).
  destruct (wait_for_fall_spec n s s2 c0 Hok Hc H2) as (c1 & Hc1 & Hcfg & Hrest & Hlt & _ & Htg).
  destruct (Htg _ _ Hs) as (l1 & r1 & Hs1 & Htg1).
  mbindok H s3 lst H3; apply last_slot_inv in H3; destruct H3 as [-> H3].
  destruct H3 as (cx & restx & Hcx & Hsx). rewrite Hc1 in Hcx. inv Hcx.
  rewrite Hs1 in Hsx. inv Hsx.
  mbindok H s4 c3 H4; apply the_chan_inv in H4; destruct H4 as [-> H4].
  rewrite Hc1 in H4. inv H4.
  rewrite Htg1, Hne in H.
  pose proof (find_chan_ok e _ _ _ Hok2 Hc1) as (Hg & Ht & _).
  assert (Hd : desc (ch_slots c3)) by (eapply tiled_desc; eauto).
  destruct (last_target_le _ _ _ Hd Hs1) as [Hle|Hz].
  - set (ti := s_tf lst) in *.
    set (elapsed := ti - last_target (ch_slots c3)) in *.
    set (delta0 := Zclip (c_minret (ch_cfg c3) - elapsed) 0 (c_minret (ch_cfg c3))) in *.
    set (delta := if negb (c_fixret (ch_cfg c3) =? 0) then Z.max delta0 (c_fixret (ch_cfg c3)) else delta0) in *.
    mbindok H s5 delta' H5.
    assert (Hd' : s5 = s2 /\ delta <= delta').
    { destruct (delta =? 0) eqn:E0; cbn [negb] in H5.
      - apply ret_inv in H5. destruct H5 as [-> H5]. inv H5. split; auto. lia.
      - apply lift_inv in H5. destruct H5 as [-> H5]. split; auto.
        symmetry in H5. apply adjust_duration_spec in H5; auto. tauto. }
    destruct Hd' as [-> Hdd].
    mbindok H s6 u6 H6; apply lift_inv in H6; destruct H6 as [-> H6].
    unfold append_slot in H. inv H.
    eexists _, _, _. split; [erewrite find_upd_same; [reflexivity|exact Hc1|reflexivity]|].
    cbn. split; [reflexivity|]. split; [reflexivity|]. split; [reflexivity|].
    assert (F : ch_duration c3 false = ti) by (unfold ch_duration; rewrite Hs1; reflexivity).
    cbn [s_ti s_tf s_kind s_tg].
    split; [lia|].
    rewrite <- Hcfg, <- Hlt.
    assert (D0 : c_minret (ch_cfg c3) - elapsed <= delta0 /\ 0 <= delta0).
    { rewrite <- Hcfg in Hmr. unfold delta0, Zclip. unfold elapsed. lia. }
    assert (D1 : delta0 <= delta).
    { unfold delta. destruct (negb _); lia. }
    split; [left; unfold elapsed in D0; lia|].
    intros Hf. unfold delta in Hdd. destruct (c_fixret (ch_cfg c3) =? 0) eqn:Ef; [lia|].
    cbn [negb] in Hdd. lia.
  - set (ti := s_tf lst) in *.
    set (elapsed := ti - last_target (ch_slots c3)) in *.
    set (delta0 := Zclip (c_minret (ch_cfg c3) - elapsed) 0 (c_minret (ch_cfg c3))) in *.
    set (delta := if negb (c_fixret (ch_cfg c3) =? 0) then Z.max delta0 (c_fixret (ch_cfg c3)) else delta0) in *.
    mbindok H s5 delta' H5.
    assert (Hd' : s5 = s2 /\ delta <= delta').
    { destruct (delta =? 0) eqn:E0; cbn [negb] in H5.
      - apply ret_inv in H5. destruct H5 as [-> H5]. inv H5. split; auto. lia.
      - apply lift_inv in H5. destruct H5 as [-> H5]. split; auto.
        symmetry in H5. apply adjust_duration_spec in H5; auto. tauto. }
    destruct Hd' as [-> Hdd].
    mbindok H s6 u6 H6; apply lift_inv in H6; destruct H6 as [-> H6].
    unfold append_slot in H. inv H.
    eexists _, _, _. split; [erewrite find_upd_same; [reflexivity|exact Hc1|reflexivity]|].
    cbn. split; [reflexivity|]. split; [reflexivity|]. split; [reflexivity|].
    assert (F : ch_duration c3 false = ti) by (unfold ch_duration; rewrite Hs1; reflexivity).
    cbn [s_ti s_tf s_kind s_tg].
    split; [lia|].
    rewrite <- Hcfg, <- Hlt.
    pose proof (tiled_head_tf _ _ _ (eq_ind _ (tiled (ch_cfg c3)) Ht _ Hs1)) as [Hn _].
    assert (D0 : c_minret (ch_cfg c3) - elapsed <= delta0 /\ 0 <= delta0).
    { rewrite <- Hcfg in Hmr. unfold delta0, Zclip. unfold elapsed. lia. }
    assert (D1 : delta0 <= delta).
    { unfold delta. destruct (negb _); lia. }
    split; [right; split; [exact Hz|]; unfold elapsed in D0; lia|].
    intros Hf. unfold delta in Hdd. destruct (c_fixret (ch_cfg c3) =? 0) eqn:Ef; [lia|].
    cbn [negb] in Hdd. lia.
Qed.

(** retargeting to the same atoms: nothing is inserted when the channel is at
    rest (no pending fall time) ... *)
Theorem retarget_same_partial qs n s s' r c l0 r0 :
  Forall (chan_ok e) s -> find_chan n s = Some c -> ch_slots c = l0 :: r0 ->
  list_Z_eqb (s_tg l0) qs = true ->
  ch_duration c true <= ch_duration c false ->
  add_target e qs n s = (s', r) -> s' = s /\ r = Ok tt.
Proof.
  intros Hok Hc Hs Heq Hrest H. unfold add_target in H.
  apply bind_inv in H. destruct H as [(s1 & c0 & H1 & H)|(er & H1 & _)].
  2:{ unfold the_chan in H1. rewrite Hc in H1. discriminate. }
  apply the_chan_inv in H1. destruct H1 as [-> H1]. rewrite Hc in H1. inv H1.
  rewrite Hs in H.
  assert (W : wait_for_fall e n s = (s, Ok tt)).
  { unfold wait_for_fall, bind, the_chan. rewrite Hc.
    destruct (ch_duration c0 true - ch_duration c0 false >? 0) eqn:E; [lia|reflexivity]. }
  unfold bind in H at 1. rewrite W in H.
  unfold bind in H at 1. unfold last_slot, bind, the_chan in H. rewrite Hc, Hs in H.
  cbn [ret] in H. rewrite Hc in H. rewrite Heq in H. inv H. auto.
Qed.

End WithEnv.
