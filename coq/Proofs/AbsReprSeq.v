(** C04 - whole-document round trip of a sequence (header, channel
    declarations, operations, measurement) from the per-call round trips. *)
From Coq Require Import ZArith List Bool String Ascii Lia.
From Coq Require Import PrimFloat.
From PV Require Import Model.Base Model.AbsJson Gen.AbsSig Gen.AbsSchema Model.AbsRepr Proofs.AbsReprRT Proofs.AbsReprOps.
Import ListNotations.
Open Scope string_scope.
Open Scope list_scope.
Open Scope Z_scope.

(** * A whole sequence: header, channel declarations, operations, measurement *)

Definition decl_call (p : string * string) : call :=
  mkCall "declare_channel" [VStr (fst p); VStr (snd p)] [("initial_target", VNone)].

Definition reserved : list string :=
  ["__init__"; "declare_channel"; "measure"; "config_slm_mask"; "set_magnetic_field"].

Definition plain_seq (name : string) (reg dev : json) (layout : option json)
           (vars : list (string * (bool * Z))) (qids : list val)
           (chs : list (string * string)) (ops : list call) (meas : option string) : seqin :=
  mkSeqin name
          (mkCall "__init__" [] [("register", VJson reg); ("device", VJson dev)]
           :: map decl_call chs ++ ops
           ++ match meas with Some b => [mkCall "measure" [VStr b] []] | None => [] end)
          vars qids layout false [] None None.

Definition vctx (vars : list (string * (bool * Z))) : vars_ctx :=
  map (fun v => (fst v, snd (snd v))) vars.

Lemma concatM_nil_all : forall {A B} (f : A -> option (list B)) l,
    Forall (fun a => f a = Some []) l -> concatM f l = Some [].
Proof.
  induction 1; [reflexivity|]. rewrite concatM_cons, H, IHForall. reflexivity.
Qed.

Lemma not_reserved : forall n k, str_in n reserved = false -> str_in k reserved = true ->
    String.eqb n k = false.
Proof.
  intros n k Hn Hk. destruct (String.eqb n k) eqn:E; [|reflexivity].
  apply String.eqb_eq in E. subst. congruence.
Qed.

Section Extractors.
  Variable s : seqin.

  Lemma other_channel : forall c, str_in (c_name c) reserved = false -> enc_call_channel c = Some [].
  Proof. intros c H. unfold enc_call_channel. rewrite (not_reserved _ "declare_channel" H); reflexivity. Qed.
  Lemma other_measure : forall c, str_in (c_name c) reserved = false -> enc_call_measure c = Some [].
  Proof. intros c H. unfold enc_call_measure. rewrite (not_reserved _ "measure" H); reflexivity. Qed.
  Lemma other_slm : forall c, str_in (c_name c) reserved = false -> enc_call_slm_legacy s c = Some [].
  Proof. intros c H. unfold enc_call_slm_legacy. rewrite (not_reserved _ "config_slm_mask" H); reflexivity. Qed.
  Lemma other_nchannel : forall c, str_in (c_name c) reserved = false -> norm_call_channel c = Some [].
  Proof. intros c H. unfold norm_call_channel. rewrite (not_reserved _ "declare_channel" H); reflexivity. Qed.
  Lemma other_nmeasure : forall c, str_in (c_name c) reserved = false -> norm_call_measure c = Some [].
  Proof. intros c H. unfold norm_call_measure. rewrite (not_reserved _ "measure" H); reflexivity. Qed.
  Lemma other_nslm : forall c, str_in (c_name c) reserved = false -> norm_call_slm_legacy s c = Some [].
  Proof. intros c H. unfold norm_call_slm_legacy. rewrite (not_reserved _ "config_slm_mask" H); reflexivity. Qed.

  Lemma decls_channel : forall chs,
      concatM enc_call_channel (map decl_call chs) = Some (map (fun p => (fst p, JStr (snd p))) chs).
  Proof.
    induction chs as [|p r IH]; [reflexivity|]. simpl map. rewrite concatM_cons, IH. reflexivity.
  Qed.
  Lemma decls_nchannel : forall chs,
      concatM norm_call_channel (map decl_call chs)
      = Some (map (fun p => mkCall "declare_channel" [VStr (fst p); VStr (snd p)] []) chs).
  Proof.
    induction chs as [|p r IH]; [reflexivity|]. simpl map. rewrite concatM_cons, IH. reflexivity.
  Qed.
  Lemma decls_nothing : forall (f : call -> option (list json)) chs,
      (forall p, f (decl_call p) = Some []) -> concatM f (map decl_call chs) = Some [].
  Proof.
    intros. apply concatM_nil_all. apply Forall_forall. intros c Hc.
    apply in_map_iff in Hc. destruct Hc as [p [E _]]. subst. apply H.
  Qed.
  Lemma decls_nothing_c : forall (f : call -> option (list call)) chs,
      (forall p, f (decl_call p) = Some []) -> concatM f (map decl_call chs) = Some [].
  Proof.
    intros. apply concatM_nil_all. apply Forall_forall. intros c Hc.
    apply in_map_iff in Hc. destruct Hc as [p [E _]]. subst. apply H.
  Qed.
End Extractors.

Lemma others_nothing : forall {B} (f : call -> option (list B)) ops,
    (forall c, str_in (c_name c) reserved = false -> f c = Some []) ->
    Forall (fun c => str_in (c_name c) reserved = false) ops ->
    concatM f ops = Some [].
Proof.
  intros B f ops Hf H. apply concatM_nil_all.
  eapply Forall_impl; [|exact H]. intros c Hc. apply Hf. exact Hc.
Qed.

Lemma length_repeat_Z : forall {A} (x : A) n, 0 <= n -> Z.of_nat (List.length (repeat x (Z.to_nat n))) = n.
Proof. intros. rewrite repeat_length. apply Z2Nat.id. assumption. Qed.

Lemma seg : forall {B} (f : call -> option (list B)) i decls ops meas,
    concatM f (i :: decls ++ ops ++ meas) =
    (do a <- f i; do b <- concatM f decls; do c <- concatM f ops; do d <- concatM f meas;
     Some (a ++ b ++ c ++ d)).
Proof.
  intros. rewrite concatM_cons. destruct (f i); simpl; [|reflexivity].
  rewrite !concatM_app. destruct (concatM f decls); simpl; [|reflexivity].
  destruct (concatM f ops); simpl; [|reflexivity].
  destruct (concatM f meas); reflexivity.
Qed.

Definition var_json (v : string * (bool * Z)) : string * json :=
  (fst v, JObj [("type", JStr (if fst (snd v) then "int" else "float"));
                ("value", JArr (repeat (if fst (snd v) then JInt 0 else JFlt zero) (Z.to_nat (snd (snd v)))))]).

Lemma enc_vars_plain : forall s vars, s_defaults s = None ->
    mapM (enc_var s) vars = Some (map var_json vars).
Proof.
  intros s vars H. induction vars as [|[n [b z]] r IH]; [reflexivity|].
  change (mapM (enc_var s) ((n, (b, z)) :: r)) with
      (do x <- enc_var s (n, (b, z)); do xs <- mapM (enc_var s) r; Some (x :: xs)).
  rewrite IH. unfold enc_var. rewrite H. reflexivity.
Qed.

Definition var_call (v : string * (bool * Z)) : call :=
  mkCall "declare_variable" [VStr (fst v)]
         [("size", VInt (snd (snd v))); ("dtype", VClass (if fst (snd v) then "int" else "float"))].

Lemma dec_vars_plain : forall vars, Forall (fun v : string * (bool * Z) => 0 <= snd (snd v)) vars ->
    mapM dec_var_decl (map var_json vars)
    = Some (map (fun v => (var_call v, (fst v, snd (snd v)))) vars).
Proof.
  induction 1 as [|[n [b z]] r Hz Hr IH]; [reflexivity|].
  simpl map. simpl mapM. rewrite IH.
  unfold dec_var_decl, var_json. simpl. rewrite repeat_length, Z2Nat.id by exact Hz.
  destruct b; reflexivity.
Qed.

Lemma has_call_false : forall n l, (forall c, In c l -> String.eqb (c_name c) n = false) ->
    existsb (fun c => String.eqb (c_name c) n) l = false.
Proof.
  induction l as [|c r IH]; intros H; [reflexivity|]. simpl.
  rewrite (H c (or_introl eq_refl)). apply IH. intros. apply H. right. assumption.
Qed.

Lemma dec_channels : forall chs : list (string * string),
    mapM (fun kv : string * json =>
            do id <- lit_of_json (snd kv);
            Some (mkCall "declare_channel" [VStr (fst kv); id] []))
         (map (fun p => (fst p, JStr (snd p))) chs)
    = Some (map (fun p => mkCall "declare_channel" [VStr (fst p); VStr (snd p)] []) chs).
Proof.
  induction chs as [|p r IH]; [reflexivity|]. simpl map. simpl mapM. rewrite IH. reflexivity.
Qed.

(** ** Whole-document round trip: a sequence made of a header, channel
    declarations, any operations that round-trip individually, and an
    optional measurement decodes to exactly the specified calls, the
    same device, register and layout. *)
Theorem plain_seq_roundtrip :
  forall name reg dev layout vars qids chs ops meas,
    NoDup (map fst chs) -> NoDup (map fst vars) ->
    Forall (fun v : string * (bool * Z) => 0 <= snd (snd v)) vars ->
    Forall (fun c => str_in (c_name c) reserved = false) ops ->
    let S := plain_seq name reg dev layout vars qids chs ops meas in
    Forall (rt_call S (vctx vars)) ops ->
    exists doc d cs,
      encode_seq S = Some doc /\ decode_seq doc = Some d /\ norm_seq S = Some cs
      /\ d_calls d = cs /\ d_device d = dev /\ d_register d = reg /\ d_layout d = layout.
Proof.
  intros name reg dev layout vars qids chs ops meas Nc Nv Pv Ro S Rt.
  destruct (ops_roundtrip S (vctx vars) ops Rt) as [jops [cops [E1 [E2 E3]]]].
  set (mcalls := match meas with Some b => [mkCall "measure" [VStr b] []] | None => [] end).
  set (icall := mkCall "__init__" [] [("register", VJson reg); ("device", VJson dev)]).
  assert (Hcalls : s_calls S = icall :: map decl_call chs ++ ops ++ mcalls) by reflexivity.
  (* the four passes of the serializer over the call log *)
  assert (Hch : concatM enc_call_channel (s_calls S) = Some (map (fun p => (fst p, JStr (snd p))) chs)).
  { rewrite Hcalls, seg, decls_channel, (others_nothing enc_call_channel ops other_channel Ro).
    destruct meas; cbn; rewrite ?app_nil_r; reflexivity. }
  assert (Hop : concatM (enc_call_ops S) (s_calls S) = Some jops).
  { rewrite Hcalls, seg, (decls_nothing (enc_call_ops S) chs (fun p => eq_refl)), E1.
    destruct meas; cbn; rewrite ?app_nil_r; reflexivity. }
  assert (Hme : concatM enc_call_measure (s_calls S)
                = Some (match meas with Some b => [JStr b] | None => [] end)).
  { rewrite Hcalls, seg, (decls_nothing enc_call_measure chs (fun p => eq_refl)),
      (others_nothing enc_call_measure ops other_measure Ro).
    destruct meas; cbn; reflexivity. }
  assert (Hsl : concatM (enc_call_slm_legacy S) (s_calls S) = Some []).
  { rewrite Hcalls, seg, (decls_nothing (enc_call_slm_legacy S) chs (fun p => eq_refl)),
      (others_nothing (enc_call_slm_legacy S) ops (other_slm S) Ro).
    destruct meas; cbn; reflexivity. }
  assert (Hmag : has_call "set_magnetic_field" S = false).
  { unfold has_call. apply has_call_false. intros c Hc. rewrite Hcalls in Hc.
    destruct Hc as [Hc|Hc]; [subst; reflexivity|].
    apply in_app_or in Hc. destruct Hc as [Hc|Hc].
    - apply in_map_iff in Hc. destruct Hc as [p [Hp _]]. subst. reflexivity.
    - apply in_app_or in Hc. destruct Hc as [Hc|Hc].
      + rewrite Forall_forall in Ro. apply (not_reserved _ _ (Ro c Hc)). reflexivity.
      + unfold mcalls in Hc. destruct meas; [|destruct Hc].
        destruct Hc as [Hc|[]]. subst. reflexivity. }
  (* the same passes of the specification *)
  assert (Nch : concatM norm_call_channel (s_calls S)
                = Some (map (fun p => mkCall "declare_channel" [VStr (fst p); VStr (snd p)] []) chs)).
  { rewrite Hcalls, seg, decls_nchannel, (others_nothing norm_call_channel ops other_nchannel Ro).
    destruct meas; cbn; rewrite ?app_nil_r; reflexivity. }
  assert (Nop : concatM (norm_call_ops S) (s_calls S) = Some cops).
  { rewrite Hcalls, seg, (decls_nothing_c (norm_call_ops S) chs (fun p => eq_refl)), E3.
    destruct meas; cbn; rewrite ?app_nil_r; reflexivity. }
  assert (Nme : concatM norm_call_measure (s_calls S)
                = Some (match meas with Some b => [mkCall "measure" [VStr b] []] | None => [] end)).
  { rewrite Hcalls, seg, (decls_nothing_c norm_call_measure chs (fun p => eq_refl)),
      (others_nothing norm_call_measure ops other_nmeasure Ro).
    destruct meas; cbn; reflexivity. }
  assert (Nsl : concatM (norm_call_slm_legacy S) (s_calls S) = Some []).
  { rewrite Hcalls, seg, (decls_nothing_c (norm_call_slm_legacy S) chs (fun p => eq_refl)),
      (others_nothing (norm_call_slm_legacy S) ops (other_nslm S) Ro).
    destruct meas; cbn; reflexivity. }
  (* dictionaries of channels and variables keep every entry *)
  assert (Dch : dupdate [] (map (fun p : string * string => (fst p, JStr (snd p))) chs)
                = map (fun p => (fst p, JStr (snd p))) chs).
  { apply (dupdate_fresh _ []). simpl. unfold keys. rewrite map_map. exact Nc. }
  assert (Dv : dupdate [] (map var_json vars) = map var_json vars).
  { apply (dupdate_fresh _ []). simpl. unfold keys. rewrite map_map. exact Nv. }
  unfold encode_seq, norm_seq.
  rewrite Hch, Hop, Hme, Hsl, Hmag, Nch, Nop, Nme, Nsl.
  change (s_vars S) with vars. change (s_layout S) with layout.
  change (s_qubits S) with (@None (list (string * Z))). change (s_name S) with name.
  rewrite (enc_vars_plain S vars eq_refl).
  change (init_call S) with (Some [("register", VJson reg); ("device", VJson dev)]).
  cbn -[dupdate decode_seq var_json last_opt last_list]. rewrite Dch, Dv.
  assert (Vc : map snd (map (fun v : string * (bool * Z) => (var_call v, (fst v, snd (snd v)))) vars)
               = vctx vars) by (unfold vctx; rewrite map_map; reflexivity).
  destruct layout as [lay|]; destruct meas as [b|]; cbn -[var_json decode_seq];
    (eexists; eexists; eexists; split; [reflexivity|]; split;
     [ cbn -[var_json]; rewrite dec_channels, (dec_vars_plain vars Pv); cbn -[var_json vctx];
       rewrite Vc, E2; cbn; reflexivity
     | split; [reflexivity| cbn; rewrite ?map_map; repeat split; reflexivity ] ]).
Qed.

(** the hypotheses of [plain_seq_roundtrip] are satisfiable *)
Lemma plain_seq_example :
  let vars := [("n", (true, 1))] in
  let ops := [mkCall "delay" [] [("duration", VItem "n" 1 (KInt (-1))); ("channel", VStr "ch");
                                 ("at_rest", VBool false)]] in
  let S := plain_seq "s" (JArr []) (JStr "MockDevice") None vars [VStr "q0"] [("ch", "rydberg_global")] ops
                     (Some "ground-rydberg") in
  Forall (rt_call S (vctx vars)) ops
  /\ (match encode_seq S with
      | Some doc => match decode_seq doc, norm_seq S with
                    | Some d, Some cs => calls_eqb (d_calls d) cs && valid gen_seq_defs 40 doc 40 gen_seq_root
                    | _, _ => false
                    end
      | None => false
      end) = true.
Proof.
  split.
  - constructor; [|constructor]. apply rt_delay. reflexivity.
  - vm_compute. reflexivity.
Qed.
