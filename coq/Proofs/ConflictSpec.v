(** C03: where the scheduler places a pulse.  Soundness of the backwards
    scans of _find_add_delay, exactness of 'no-delay', minimality of the
    inserted delay, and estimate = inserted. *)
From Coq Require Import ZArith List Bool Lia ZifyBool.
From Coq Require Import Uint63 FloatOps SpecFloat PrimFloat.
From PV Require Import Model.Base Model.Sched Model.Seq.
From PV Require Import Proofs.SchedInv Proofs.SchedOps Proofs.DurationSpec.
Import ListNotations.
Open Scope Z_scope.

Ltac inv H := inversion H; subst; clear H.
Tactic Notation "mbindok" hyp(H) ident(s1) ident(a) ident(H1) :=
  apply bind_inv in H;
  let er := fresh "er" in
  let Hr := fresh "Hr" in
  destruct H as [(s1 & a & H1 & H) | (er & H1 & Hr)]; [|discriminate Hr].

(** * The scan of one other channel *)

(** it never lowers the current bound, and when it raises it, it raises it
    exactly to the end (including fall time) of a conflicting pulse *)
Lemma fad_scan_tight rise2 ineom tg wfa cur l :
  fad_scan rise2 ineom tg wfa cur l = cur \/
  exists q p, In q l /\ s_kind q = KPulse p /\ (intersects (s_tg q) tg || wfa) = true /\
              fad_scan rise2 ineom tg wfa cur l = s_tf q + pfall ineom p /\
              cur < s_tf q + pfall ineom p.
Proof.
  induction l as [|op l IH]; cbn [fad_scan]; [left; reflexivity|].
  destruct (s_kind op) as [| |p] eqn:Ek.
  - destruct (_ <=? cur); [left; reflexivity|].
    destruct IH as [IH|(q & p & H1 & H2)]; [left; auto|right; exists q, p; split; [right; auto|tauto]].
  - destruct (_ <=? cur); [left; reflexivity|].
    destruct IH as [IH|(q & p & H1 & H2)]; [left; auto|right; exists q, p; split; [right; auto|tauto]].
  - destruct (s_tf op + pfall ineom p <=? cur) eqn:E; [left; reflexivity|].
    destruct (intersects (s_tg op) tg || wfa) eqn:Ei.
    + right. exists op, p. split; [left; auto|]. repeat split; auto. lia.
    + destruct IH as [IH|(q & p' & H1 & H2)]; [left; auto|right; exists q, p'; split; [right; auto|tauto]].
Qed.

(** soundness w.r.t. the most recent pulse of the scanned channel: if it
    conflicts (shares a target, or wait-for-all), the result is at least its
    end including fall time - provided no pulse of that channel has a fall time
    above 2*rise_time, which is what the early exit at non-pulse slots assumes *)
Lemma fad_scan_sound rise2 ineom tg wfa l : forall cur q p,
  desc l -> falls_bounded rise2 ineom l ->
  last_pulse_slot false l = Some (q, p) ->
  (intersects (s_tg q) tg || wfa) = true ->
  s_tf q + pfall ineom p <= fad_scan rise2 ineom tg wfa cur l.
Proof.
  induction l as [|op l IH]; intros cur q p Hd Hf Hl Hc; cbn [last_pulse_slot] in Hl; [discriminate|].
  cbn [fad_scan].
  assert (Hd' : desc l) by (destruct Hd; auto).
  assert (Hf' : falls_bounded rise2 ineom l) by (intros sl p0 Hin; apply Hf; right; auto).
  assert (Hin : forall q p, last_pulse_slot false l = Some (q, p) -> In q l /\ s_kind q = KPulse p).
  { clear. induction l as [|a l IH]; intros q p El; cbn [last_pulse_slot] in El; [discriminate|].
    destruct (s_kind a) eqn:Ea; try (destruct (IH _ _ El); split; [right|]; auto; fail).
    cbn in El. inv El. split; [left|]; auto. }
  destruct (s_kind op) as [| |p0] eqn:Ek.
  - destruct (s_tf op + rise2 <=? cur) eqn:E; [|eapply IH; eauto].
    destruct (Hin _ _ Hl) as [Hq Hk].
    pose proof (desc_head_max _ _ Hd _ Hq). pose proof (Hf' _ _ Hq Hk). lia.
  - destruct (s_tf op + rise2 <=? cur) eqn:E; [|eapply IH; eauto].
    destruct (Hin _ _ Hl) as [Hq Hk].
    pose proof (desc_head_max _ _ Hd _ Hq). pose proof (Hf' _ _ Hq Hk). lia.
  - cbn in Hl. inv Hl.
    destruct (s_tf q + pfall ineom p <=? cur) eqn:E; [lia|].
    rewrite Hc. lia.
Qed.

(** * All other channels *)
Definition chan_falls_bounded (c : chan) : Prop :=
  falls_bounded (2 * c_rise (ch_cfg c)) (in_eom c) (ch_slots c).

Theorem find_add_delay_sound n tg wfa chs : forall cur c q p,
  In c chs -> ch_name c <> n ->
  desc (ch_slots c) -> chan_falls_bounded c ->
  last_pulse_slot false (ch_slots c) = Some (q, p) ->
  (intersects (s_tg q) tg || wfa) = true ->
  s_tf q + pfall (in_eom c) p <= find_add_delay n tg wfa cur chs.
Proof.
  induction chs as [|a chs IH]; intros cur c q p Hin Hn Hd Hf Hl Hc; [destruct Hin|].
  cbn [find_add_delay]. destruct Hin as [->|Hin].
  - destruct (ch_name c =? n) eqn:E; [lia|].
    etransitivity; [|apply find_add_delay_ge].
    eapply fad_scan_sound; eauto.
  - destruct (ch_name a =? n); eapply IH; eauto.
Qed.

(** the result is the start bound itself or exactly the end of some
    conflicting pulse of another channel: no delay without a reason *)
Theorem find_add_delay_tight n tg wfa chs : forall cur,
  find_add_delay n tg wfa cur chs = cur \/
  exists c q p, In c chs /\ ch_name c <> n /\ In q (ch_slots c) /\ s_kind q = KPulse p /\
                (intersects (s_tg q) tg || wfa) = true /\
                find_add_delay n tg wfa cur chs = s_tf q + pfall (in_eom c) p.
Proof.
  induction chs as [|a chs IH]; intros cur; cbn [find_add_delay]; [left; reflexivity|].
  destruct (ch_name a =? n) eqn:E.
  - destruct (IH cur) as [H|(c & q & p & H1 & H2)]; [left; auto|].
    right. exists c, q, p. split; [right; auto|tauto].
  - set (cur' := fad_scan (2 * c_rise (ch_cfg a)) (in_eom a) tg wfa cur (ch_slots a)).
    destruct (IH cur') as [H|(c & q & p & H1 & H2)].
    + rewrite H. unfold cur'.
      destruct (fad_scan_tight (2 * c_rise (ch_cfg a)) (in_eom a) tg wfa cur (ch_slots a))
        as [T|(q & p & T1 & T2 & T3 & T4 & _)]; [left; auto|].
      right. exists a, q, p. split; [left; auto|]. repeat split; auto. lia.
    + right. exists c, q, p. split; [right; auto|tauto].
Qed.

(** with 'no-delay' other channels are not looked at *)

(** * Rounding of the automatic delay is minimal *)
Theorem adjust_duration_minimal g d d' x :
  cfg_ok g -> adjust_duration g d = Ok d' ->
  d <= x -> c_min g <= x -> (c_clock g | x) -> d' <= x.
Proof.
  intros Hg H Hx Hm [k Hk]. apply adjust_duration_spec in H; auto.
  destruct H as (_ & _ & [j Hj] & H4). destruct Hg as [Hc _]. subst x d'.
  assert (X : j * c_clock g < (k + 1) * c_clock g) by lia.
  apply Z.mul_lt_mono_pos_r in X; [|exact Hc].
  apply Z.mul_le_mono_nonneg_r; lia.
Qed.

(** * Where the next pulse slot goes *)
Section Place.
Variable e : env.

(** the start instant computed by make_next_pulse_slot, as a formula *)
Definition start_bound (c : chan) (s : sched) (p : pulse) (n : Z) (bs : list Z)
           (proto : Z) (dp : option drift) (t0 : Z) (tg : list Z) : Z * Z :=
  let cur0 := fold_max bs t0 in
  if proto =? 1 then (cur0, 0)
  else
    let cur := find_add_delay n tg (proto =? 2) cur0 s in
    match last_pulse_slot true (ch_slots c) with
    | Some (lps, lp) =>
        if f_ne (p_phase lp) (corrected_phase p dp cur) then
          (cur, Z.max (c_pj (ch_cfg c)) (2 * c_rise (ch_cfg c) * (if in_eom c then 1 else 0))
                + pfall (in_eom c) lp - (t0 - s_tf lps))
        else (cur, 0)
    | None => (cur, 0)
    end.

Theorem next_slot_start p n bs proto dp block s s' sl :
  Forall (chan_ok e) s ->
  make_next_pulse_slot e p n bs proto dp block s = (s', Ok sl) ->
  exists c lst rest,
    s' = s /\ find_chan n s = Some c /\ ch_slots c = lst :: rest /\
    let '(cur, pjb) := start_bound c s p n bs proto dp (s_tf lst) (s_tg lst) in
    let need := Z.max (cur - s_tf lst) pjb in
    s_tf sl = s_ti sl + p_dur p /\ s_tg sl = s_tg lst /\
    (need <= 0 -> s_ti sl = s_tf lst) /\
    (0 < need -> exists dd, adjust_duration (ch_cfg c) need = Ok dd /\ s_ti sl = s_tf lst + dd).
Proof.
  intros Hok H. unfold make_next_pulse_slot in H.
  mbindok H s1 lst H1; apply last_slot_inv in H1; destruct H1 as [-> H1].
  destruct H1 as (c & rest & Hc & Hs).
  mbindok H s2 c' H2; apply the_chan_inv in H2; destruct H2 as [-> H2].
  rewrite Hc in H2. inv H2.
  mbindok H s3 s0 H3; apply get_inv in H3; destruct H3 as [-> H3]. inv H3.
  exists c', lst, rest.
  unfold start_bound.
  match type of H with
  | (let '(cur, pjb) := ?X in _) _ = _ => destruct X as [cur pjb] eqn:EX
  end.
  assert (Hcur : s_tf lst <= cur).
  { pose proof (fold_max_ge bs (s_tf lst)) as G.
    destruct (proto =? 1); [inv EX; auto|].
    pose proof (find_add_delay_ge n (s_tg lst) (proto =? 2) s
                  (fold_max bs (s_tf lst))) as G2.
    destruct (last_pulse_slot true (ch_slots c')) as [[lps lp]|]; [|inv EX; lia].
    destruct (f_ne _ _); inv EX; lia. }
  mbindok H s4 dd' H4.
  mbindok H s5 u H5; apply lift_inv in H5; destruct H5 as [-> H5].
  apply ret_inv in H. destruct H as [-> H]. inv H. cbn [s_ti s_tf s_tg].
  destruct (Z.max (cur - s_tf lst) pjb >? 0) eqn:E.
  - apply lift_inv in H4. destruct H4 as [-> H4].
    split; auto. split; auto. split; auto. split; [lia|]. split; auto.
    split; [lia|]. intros _. exists dd'. split; auto.
  - apply ret_inv in H4. destruct H4 as [-> H4]. inv H4.
    split; auto. split; auto. split; auto. split; [lia|]. split; auto.
    split; [intros; lia|lia].
Qed.

(** 'no-delay': exactly the channel's current end or the phase-shift barrier *)
Corollary no_delay_exact p n bs dp block s s' sl :
  Forall (chan_ok e) s ->
  make_next_pulse_slot e p n bs 1 dp block s = (s', Ok sl) ->
  exists c lst rest,
    find_chan n s = Some c /\ ch_slots c = lst :: rest /\
    let b := fold_max bs (s_tf lst) in
    (b <= s_tf lst -> s_ti sl = s_tf lst) /\
    (s_tf lst < b -> exists dd, adjust_duration (ch_cfg c) (b - s_tf lst) = Ok dd /\
                                s_ti sl = s_tf lst + dd).
Proof.
  intros Hok H. destruct (next_slot_start _ _ _ _ _ _ _ _ _ Hok H) as (c & lst & rest & _ & Hc & Hs & X).
  exists c, lst, rest. split; auto. split; auto.
  unfold start_bound in X. cbn [Z.eqb Pos.eqb] in X. cbn zeta in *.
  destruct X as (_ & _ & X1 & X2).
  split.
  - intros Hb. apply X1. lia.
  - intros Hb. replace (fold_max bs (s_tf lst) - s_tf lst)
      with (Z.max (fold_max bs (s_tf lst) - s_tf lst) 0) by lia. apply X2. lia.
Qed.

(** the start is never before the phase-shift barriers *)
Corollary start_after_barriers p n bs proto dp block s s' sl b :
  Forall (chan_ok e) s ->
  make_next_pulse_slot e p n bs proto dp block s = (s', Ok sl) ->
  In b bs -> b <= s_ti sl.
Proof.
  intros Hok H Hin.
  destruct (next_slot_start _ _ _ _ _ _ _ _ _ Hok H) as (c & lst & rest & _ & Hc & Hs & X).
  assert (Hb : forall l a, In b l -> b <= fold_max l a).
  { clear. unfold fold_max. induction l as [|x l IH]; intros a []; cbn [fold_left].
    - subst. pose proof (fold_max_ge l (Z.max a b)). unfold fold_max in H. lia.
    - auto. }
  specialize (Hb bs (s_tf lst) Hin).
  pose proof (find_chan_ok e _ _ _ Hok Hc) as (Hg & _).
  unfold start_bound in X.
  destruct (proto =? 1).
  - destruct X as (_ & _ & X1 & X2).
    destruct (Z_le_gt_dec (Z.max (fold_max bs (s_tf lst) - s_tf lst) 0) 0) as [L|G].
    + rewrite (X1 L). lia.
    + destruct (X2 ltac:(lia)) as (dd & Hd & ->). apply adjust_duration_spec in Hd; auto. lia.
  - pose proof (find_add_delay_ge n (s_tg lst) (proto =? 2) s (fold_max bs (s_tf lst))) as G0.
    set (cur := find_add_delay n (s_tg lst) (proto =? 2) (fold_max bs (s_tf lst)) s) in *.
    destruct (last_pulse_slot true (ch_slots c)) as [[lps lp]|];
      [destruct (f_ne _ _)|];
      destruct X as (_ & _ & X1 & X2);
      match goal with
      | X1 : Z.max ?a ?b <= 0 -> _ |- _ =>
          destruct (Z_le_gt_dec (Z.max a b) 0) as [L|G];
          [rewrite (X1 L); lia
          |destruct (X2 ltac:(lia)) as (dd & Hd & ->); apply adjust_duration_spec in Hd; auto; lia]
      end.
Qed.

(** 'min-delay' / 'wait-for-all': never before the most recent conflicting
    pulse of any other channel has ended including its fall time *)
Corollary start_after_conflicts p n bs proto dp block s s' sl c2 q p2 :
  Forall (chan_ok e) s ->
  make_next_pulse_slot e p n bs proto dp block s = (s', Ok sl) ->
  proto <> 1 ->
  In c2 s -> ch_name c2 <> n -> chan_falls_bounded c2 ->
  last_pulse_slot false (ch_slots c2) = Some (q, p2) ->
  (intersects (s_tg q) (s_tg sl) || (proto =? 2)) = true ->
  s_tf q + pfall (in_eom c2) p2 <= s_ti sl.
Proof.
  intros Hok H Hp Hin Hn Hf Hl Hc.
  destruct (next_slot_start _ _ _ _ _ _ _ _ _ Hok H) as (c & lst & rest & _ & Hcc & Hs & X).
  pose proof (find_chan_ok e _ _ _ Hok Hcc) as (Hg & _).
  assert (Hd2 : desc (ch_slots c2)).
  { rewrite Forall_forall in Hok. destruct (Hok _ Hin) as (_ & Ht & _). eapply tiled_desc; eauto. }
  unfold start_bound in X.
  destruct (proto =? 1) eqn:E1; [lia|].
  set (cur := find_add_delay n (s_tg lst) (proto =? 2) (fold_max bs (s_tf lst)) s) in *.
  assert (G : s_tf q + pfall (in_eom c2) p2 <= cur).
  { unfold cur. eapply find_add_delay_sound; eauto.
    destruct (last_pulse_slot true (ch_slots c)) as [[lps lp]|]; [destruct (f_ne _ _)|];
      destruct X as (_ & Htg & _); rewrite <- Htg; exact Hc. }
  destruct (last_pulse_slot true (ch_slots c)) as [[lps lp]|];
    [destruct (f_ne _ _)|];
    destruct X as (_ & _ & X1 & X2);
    match goal with
    | X1 : Z.max ?a ?b <= 0 -> _ |- _ =>
        destruct (Z_le_gt_dec (Z.max a b) 0) as [L|G2];
        [rewrite (X1 L); lia
        |destruct (X2 ltac:(lia)) as (dd & Hd & ->); apply adjust_duration_spec in Hd; auto; lia]
    end.
Qed.

(** estimate_added_delay and add compute the same slot: the check against the
    device's maximum duration is the only difference *)
Theorem estimate_eq_inserted p n bs proto dp s s1 s2 sl1 sl2 :
  make_next_pulse_slot e p n bs proto dp false s = (s1, Ok sl1) ->
  make_next_pulse_slot e p n bs proto dp true s = (s2, Ok sl2) ->
  sl1 = sl2.
Proof.
  unfold make_next_pulse_slot. intros H G.
  mbindok H a1 lst H1. mbindok G b1 lst' G1. rewrite H1 in G1. inv G1.
  mbindok H a2 c H2. mbindok G b2 c' G2. rewrite H2 in G2. inv G2.
  mbindok H a3 s0 H3. mbindok G b3 s0' G3. rewrite H3 in G3. inv G3.
  match type of H with
  | (let '(cur, pjb) := ?X in _) _ = _ => destruct X as [cur pjb]
  end.
  mbindok H a4 dd H4. mbindok G b4 dd' G4. rewrite H4 in G4. inv G4.
  mbindok H a5 u H5. mbindok G b5 u' G5.
  apply lift_inv in H5. destruct H5 as [-> _]. apply lift_inv in G5. destruct G5 as [-> _].
  apply ret_inv in H. apply ret_inv in G. destruct H as [_ H]. destruct G as [_ G]. congruence.
Qed.

End Place.
