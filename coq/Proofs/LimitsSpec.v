(** C01: what the reachable timelines satisfy with respect to the channel
    and device limits, and the accept/reject characterisation of pulses. *)
From Coq Require Import ZArith List Bool Lia ZifyBool.
From Coq Require Import Uint63 FloatOps SpecFloat PrimFloat.
From PV Require Import Model.Base Model.Sched Model.Seq Proofs.SchedInv Proofs.SeqInv.
Import ListNotations.
Open Scope Z_scope.

Lemma tiled_in g l s :
  tiled g l -> In s l ->
  first_ok s \/ (0 <= s_ti s /\ (c_clock g | s_ti s) /\ (c_clock g | s_tf s) /\ len_ok g s).
Proof.
  induction l as [|a r IH]; [intros _ []|].
  cbn [tiled]. intros [Ha Ht] [<-|Hin]; [|auto].
  destruct r as [|p r']; [left; auto|right].
  destruct Ha as (_ & H0 & _ & H1 & H2 & H3). auto.
Qed.

(** every pulse of every reachable timeline: whole number of clock periods,
    at least the channel's minimum duration, ends within the device maximum *)
Theorem scheduled_pulse_durations v ops c sl p :
  senv_ok v -> In c (q_sched (run v ops)) -> In sl (ch_slots c) -> s_kind sl = KPulse p ->
  s_tf sl - s_ti sl = p_dur p /\ c_min (ch_cfg c) <= p_dur p /\
  (c_clock (ch_cfg c) | p_dur p) /\ le_opt (s_tf sl) (d_maxseq (v_dev v)).
Proof.
  intros Hv Hc Hs Hk.
  pose proof (run_ok v ops Hv) as Hok. unfold seq_ok in Hok.
  rewrite Forall_forall in Hok. destruct (Hok c Hc) as (Hg & Ht & Hb & _).
  rewrite Forall_forall in Hb. specialize (Hb sl Hs).
  destruct (tiled_in _ _ _ Ht Hs) as [[Hk' _]|(H0 & H1 & H2 & H3)]; [congruence|].
  unfold len_ok in H3. rewrite Hk in H3. destruct H3 as [H3 H4].
  repeat split; auto.
  rewrite <- H3. apply Z.divide_sub_r; auto.
Qed.

Theorem sequence_within_device_max v ops c sl :
  senv_ok v -> In c (q_sched (run v ops)) -> In sl (ch_slots c) ->
  le_opt (s_tf sl) (d_maxseq (v_dev v)).
Proof.
  intros Hv Hc Hs.
  pose proof (run_ok v ops Hv) as Hok. unfold seq_ok in Hok.
  rewrite Forall_forall in Hok. destruct (Hok c Hc) as (_ & _ & Hb & _).
  rewrite Forall_forall in Hb. exact (Hb sl Hs).
Qed.

(** ... and its amplitude (maximum over its samples) is not above the
    channel's maximum amplitude, whenever that maximum is defined *)
Theorem scheduled_amplitude_within_max v ops c sl p m :
  senv_ok v -> In c (q_sched (run v ops)) -> In sl (ch_slots c) -> s_kind sl = KPulse p ->
  c_maxamp (ch_cfg c) = Some m -> f_gt (p_amax p) m = false.
Proof.
  intros Hv Hc Hs Hk Hm.
  pose proof (run_ok v ops Hv) as Hok. unfold seq_ok in Hok.
  rewrite Forall_forall in Hok. destruct (Hok c Hc) as (_ & _ & _ & _ & Ha).
  rewrite Forall_forall in Ha. specialize (Ha sl Hs).
  unfold amp_ok in Ha. rewrite Hk in Ha. unfold pamp_ok in Ha. rewrite Hm in Ha. exact Ha.
Qed.

(** accept / reject characterisation of Channel.validate_pulse on the sample
    summary of a pulse (maximum amplitude, maximum rounded |detuning|, average) *)
Theorem validate_pulse_iff g u :
  validate_pulse g u = Ok tt <->
  (match c_maxamp g with Some m => f_gt (u_amax u) m = false | None => True end) /\
  (match c_maxdet g with Some m => f_gt (f_round6 (u_dabsmax u)) m = false | None => True end) /\
  (f_lt zero (u_avg u) && f_lt (u_avg u) (c_minavg g) = false).
Proof.
  unfold validate_pulse. split.
  - intros H.
    destruct (c_maxamp g) as [m|].
    + destruct (f_gt (u_amax u) m) eqn:E1; [discriminate|].
      destruct (c_maxdet g) as [m2|].
      * destruct (f_gt (f_round6 (u_dabsmax u)) m2) eqn:E2; [discriminate|].
        destruct (f_lt zero (u_avg u) && f_lt (u_avg u) (c_minavg g)); [discriminate|auto].
      * destruct (f_lt zero (u_avg u) && f_lt (u_avg u) (c_minavg g)); [discriminate|auto].
    + destruct (c_maxdet g) as [m2|].
      * destruct (f_gt (f_round6 (u_dabsmax u)) m2) eqn:E2; [discriminate|].
        destruct (f_lt zero (u_avg u) && f_lt (u_avg u) (c_minavg g)); [discriminate|auto].
      * destruct (f_lt zero (u_avg u) && f_lt (u_avg u) (c_minavg g)); [discriminate|auto].
  - intros (H1 & H2 & H3).
    destruct (c_maxamp g) as [m|]; [rewrite H1|];
      (destruct (c_maxdet g) as [m2|]; [rewrite H2|]); rewrite H3; reflexivity.
Qed.

(** undefined limits of a virtual channel constrain nothing *)
Theorem undefined_limits_constrain_nothing g u :
  c_maxamp g = None -> c_maxdet g = None ->
  validate_pulse g u = Ok tt <-> (f_lt zero (u_avg u) && f_lt (u_avg u) (c_minavg g) = false).
Proof.
  intros H1 H2. rewrite validate_pulse_iff, H1, H2. tauto.
Qed.

(** DMM.validate_pulse: additionally never positive and above both bottoms *)
Theorem validate_pulse_dmm_iff g w u :
  validate_pulse_dmm g w u = Ok tt <->
  validate_pulse g u = Ok tt /\
  f_gt (f_round6 (u_dmax u)) zero = false /\
  (match c_bottom g with Some b => f_lt (fst w * f_round6 (u_dmin u))%float b = false | None => True end) /\
  (match c_totbottom g with Some b => f_lt (snd w * f_round6 (u_dmin u))%float b = false | None => True end).
Proof.
  unfold validate_pulse_dmm. split.
  - intros H. destruct (validate_pulse g u) as [[]|]; [|discriminate]. cbn [rbind] in H.
    destruct (f_gt (f_round6 (u_dmax u)) zero); [discriminate|].
    destruct (c_bottom g) as [b|].
    + destruct (f_lt (fst w * f_round6 (u_dmin u)) b); [discriminate|].
      destruct (c_totbottom g) as [b2|]; [|auto].
      destruct (f_lt (snd w * f_round6 (u_dmin u)) b2); [discriminate|auto].
    + destruct (c_totbottom g) as [b2|]; [|auto].
      destruct (f_lt (snd w * f_round6 (u_dmin u)) b2); [discriminate|auto].
  - intros (H0 & H1 & H2 & H3). rewrite H0. cbn [rbind]. rewrite H1.
    destruct (c_bottom g) as [b|]; [rewrite H2|];
      (destruct (c_totbottom g) as [b2|]; [rewrite H3|]); reflexivity.
Qed.

(** the pulse handed to the scheduler was accepted by the channel, and its
    duration is the requested one rounded up to the next clock multiple *)
Theorem adjusted_pulse_spec v c u pr p :
  cfg_ok (ch_cfg c) -> c_dmm (ch_cfg c) = false ->
  validate_and_adjust v c u pr = Ok p ->
  validate_pulse (ch_cfg c) u = Ok tt /\
  u_dur u <= p_dur p < u_dur u + c_clock (ch_cfg c) /\
  (c_clock (ch_cfg c) | p_dur p) /\
  ((c_clock (ch_cfg c) | u_dur u) -> p_dur p = u_dur u) /\
  c_min (ch_cfg c) <= u_dur u /\
  match c_max (ch_cfg c) with Some m => u_dur u <= m | None => True end.
Proof.
  intros Hg Hd H. unfold validate_and_adjust in H. rewrite Hd in H.
  destruct (validate_pulse (ch_cfg c) u) as [[]|]; [|discriminate]. cbn [rbind] in H.
  destruct (validate_duration (ch_cfg c) (u_dur u)) as [d'|] eqn:E; [|discriminate].
  cbn [rbind] in H.
  destruct (negb (d' =? u_dur u) && negb (u_ext u)); [discriminate|].
  inversion H; subst; clear H. cbn [p_dur].
  apply validate_duration_spec in E; auto.
  destruct E as (E1 & E2 & E3 & E4 & E5 & E6). repeat split; auto.
Qed.

(** converse: a pulse inside every limit whose waveforms can be extended is
    accepted *)
Theorem within_limits_accepted v c u pr :
  cfg_ok (ch_cfg c) -> c_dmm (ch_cfg c) = false ->
  validate_pulse (ch_cfg c) u = Ok tt ->
  c_min (ch_cfg c) <= u_dur u ->
  match c_max (ch_cfg c) with Some m => u_dur u <= m | None => True end ->
  (u_ext u = true \/ (c_clock (ch_cfg c) | u_dur u)) ->
  exists p, validate_and_adjust v c u pr = Ok p.
Proof.
  intros Hg Hd Hv Hmin Hmax Hext. unfold validate_and_adjust. rewrite Hd, Hv. cbn [rbind].
  destruct (validate_duration_accepts _ _ Hg Hmin Hmax) as [d' E]. rewrite E. cbn [rbind].
  assert (X : negb (d' =? u_dur u) && negb (u_ext u) = false).
  { destruct Hext as [->|Hdiv]; [destruct (negb _); reflexivity|].
    apply validate_duration_spec in E; auto.
    destruct E as (_ & _ & _ & _ & E5 & _). rewrite (E5 Hdiv), Z.eqb_refl. reflexivity. }
  rewrite X. eauto.
Qed.

(** REFUTED clause: "duration between the channel's minimum and maximum":
    the rounded duration may exceed max_duration when that maximum is not a
    clock multiple (witness: clock 4, max 10, duration 10 -> 12) *)
Definition cfg_witness : ccfg :=
  {| c_local := false; c_basis := 0; c_dmm := false; c_clock := 4; c_min := 1;
     c_max := Some 10; c_rise := 0; c_pj := 0; c_minret := 0; c_fixret := 0;
     c_maxtg := None; c_maxamp := None; c_maxdet := None; c_minavg := zero;
     c_bottom := None; c_totbottom := None; c_eom := None |}.

Theorem rounded_duration_within_max_refuted :
  exists g d d', cfg_ok g /\ validate_duration g d = Ok d' /\
                 match c_max g with Some m => d' > m | None => False end.
Proof.
  exists cfg_witness, 10, 12. split; [split; reflexivity|]. split; reflexivity.
Qed.

(** what does hold: within the maximum whenever the maximum is a clock multiple *)
Theorem rounded_duration_within_max_partial g d d' m :
  cfg_ok g -> c_max g = Some m -> (c_clock g | m) ->
  validate_duration g d = Ok d' -> d' <= m.
Proof.
  intros Hg Hm [k Hk] H. apply validate_duration_spec in H; auto.
  destruct H as (_ & H2 & H3 & [j Hj] & _ & H6). rewrite Hm in H6.
  destruct Hg as [Hc _]. subst m d'.
  assert (X : j * c_clock g < (k + 1) * c_clock g) by lia.
  apply Z.mul_lt_mono_pos_r in X; [|exact Hc].
  apply Z.mul_le_mono_nonneg_r; lia.
Qed.
