(** C12 - lemmas about Model.DevGeo: acceptance is exactly the conjunction of
    the geometric clauses, the reported culprits are exactly the violating
    pairs / atoms in register order, the parameter validation accepts exactly
    the documented combinations, the greedy trap generation only adds
    well-separated candidates. *)
From Coq Require Import ZArith List Bool Lia Sorted.
From Coq Require Import Uint63 FloatOps SpecFloat PrimFloat.
From PV Require Import Model.Base Model.DevGeo.
Import ListNotations.
Open Scope Z_scope.

(** * Culprit lists *)

Lemma pairs_from_spec : forall mind i rest j p a b,
  In (a, b) (pairs_from mind i j p rest) <->
  a = i /\ j <= b /\ exists q, nth_error rest (Z.to_nat (b - j)) = Some q
                            /\ invalid_dist mind (dist p q) = true.
Proof.
  induction rest as [|q0 r IH]; intros j p a b; simpl.
  - split; [tauto|]. intros (_ & _ & q & H & _). destruct (Z.to_nat (b - j)); discriminate.
  - assert (Hrec : In (a, b) (pairs_from mind i (j + 1) p r) <->
                   a = i /\ j + 1 <= b /\ exists q, nth_error r (Z.to_nat (b - (j + 1))) = Some q
                                                /\ invalid_dist mind (dist p q) = true) by apply IH.
    assert (Hshift : forall q, j + 1 <= b ->
              (nth_error (q0 :: r) (Z.to_nat (b - j)) = Some q <->
               nth_error r (Z.to_nat (b - (j + 1))) = Some q)).
    { intros q Hb. replace (Z.to_nat (b - j)) with (S (Z.to_nat (b - (j + 1)))) by lia. simpl. tauto. }
    destruct (invalid_dist mind (dist p q0)) eqn:E; simpl.
    + split.
      * intros [H | H].
        -- inversion H; subst. split; [reflexivity|]. split; [lia|].
           exists q0. replace (b - b) with 0 by lia. simpl. auto.
        -- apply Hrec in H. destruct H as (Ha & Hb & q & Hq & Hi).
           split; [assumption|]. split; [lia|]. exists q. split; [apply Hshift; assumption | assumption].
      * intros (Ha & Hb & q & Hq & Hi).
        destruct (Z.eq_dec b j) as [->|Hne].
        -- left. subst. reflexivity.
        -- right. apply Hrec. split; [assumption|]. split; [lia|]. exists q.
           split; [apply Hshift; [lia | assumption] | assumption].
    + split.
      * intros H. apply Hrec in H. destruct H as (Ha & Hb & q & Hq & Hi).
        split; [assumption|]. split; [lia|]. exists q. split; [apply Hshift; assumption | assumption].
      * intros (Ha & Hb & q & Hq & Hi).
        destruct (Z.eq_dec b j) as [->|Hne].
        -- replace (j - j) with 0 in Hq by lia. simpl in Hq. inversion Hq; subst. congruence.
        -- apply Hrec. split; [assumption|]. split; [lia|]. exists q.
           split; [apply Hshift; [lia | assumption] | assumption].
Qed.

Lemma bad_pairs_spec : forall mind l k a b,
  In (a, b) (bad_pairs mind k l) <->
  k <= a /\ a < b /\ exists p q, nth_error l (Z.to_nat (a - k)) = Some p
                             /\ nth_error l (Z.to_nat (b - k)) = Some q
                             /\ invalid_dist mind (dist p q) = true.
Proof.
  induction l as [|p0 r IH]; intros k a b; simpl.
  - split; [tauto|]. intros (_ & _ & p & q & H & _). destruct (Z.to_nat (a - k)); discriminate.
  - rewrite in_app_iff, pairs_from_spec, IH. split.
    + intros [(Ha & Hb & q & Hq & Hi) | (Ha & Hb & p & q & Hp & Hq & Hi)].
      * subst. split; [lia|]. split; [lia|]. exists p0, q.
        replace (k - k) with 0 by lia. simpl.
        replace (Z.to_nat (b - k)) with (S (Z.to_nat (b - (k + 1)))) by lia. simpl. auto.
      * split; [lia|]. split; [lia|]. exists p, q.
        replace (Z.to_nat (a - k)) with (S (Z.to_nat (a - (k + 1)))) by lia.
        replace (Z.to_nat (b - k)) with (S (Z.to_nat (b - (k + 1)))) by lia. simpl. auto.
    + intros (Ha & Hb & p & q & Hp & Hq & Hi).
      destruct (Z.eq_dec a k) as [->|Hne].
      * left. split; [reflexivity|]. split; [lia|].
        replace (k - k) with 0 in Hp by lia. simpl in Hp. inversion Hp; subst.
        replace (Z.to_nat (b - k)) with (S (Z.to_nat (b - (k + 1)))) in Hq by lia. simpl in Hq.
        exists q. auto.
      * right. split; [lia|]. split; [lia|]. exists p, q.
        replace (Z.to_nat (a - k)) with (S (Z.to_nat (a - (k + 1)))) in Hp by lia.
        replace (Z.to_nat (b - k)) with (S (Z.to_nat (b - (k + 1)))) in Hq by lia. simpl in Hp, Hq. auto.
Qed.

(** register order: lexicographic, strictly increasing (hence no duplicates) *)
Definition lexlt (x y : Z * Z) : Prop := fst x < fst y \/ (fst x = fst y /\ snd x < snd y).

Lemma pairs_from_sorted : forall mind i rest j p,
  StronglySorted lexlt (pairs_from mind i j p rest).
Proof.
  induction rest as [|q0 r IH]; intros j p; simpl; [constructor|].
  destruct (invalid_dist mind (dist p q0)); [|apply IH].
  constructor; [apply IH|]. apply Forall_forall. intros [a b] H.
  apply pairs_from_spec in H. destruct H as (-> & Hb & _). right. simpl. lia.
Qed.

Lemma StronglySorted_app : forall (A : Type) (R : A -> A -> Prop) l1 l2,
  StronglySorted R l1 -> StronglySorted R l2 ->
  (forall x y, In x l1 -> In y l2 -> R x y) -> StronglySorted R (l1 ++ l2).
Proof.
  induction l1 as [|a l1 IH]; intros l2 H1 H2 H; simpl; [assumption|].
  inversion H1 as [|? ? Hs Hf]; subst. constructor.
  - apply IH; auto. intros; apply H; simpl; auto.
  - apply Forall_forall. intros x Hx. apply in_app_iff in Hx. destruct Hx as [Hx|Hx].
    + rewrite Forall_forall in Hf. auto.
    + apply H; simpl; auto.
Qed.

Lemma bad_pairs_sorted : forall mind l k, StronglySorted lexlt (bad_pairs mind k l).
Proof.
  induction l as [|p0 r IH]; intros k; simpl; [constructor|].
  apply StronglySorted_app; [apply pairs_from_sorted | apply IH |].
  intros [a b] [c d] H1 H2. apply pairs_from_spec in H1. apply bad_pairs_spec in H2.
  destruct H1 as (-> & _). destruct H2 as (H2 & _). left. simpl. lia.
Qed.

Lemma far_ids_spec : forall R l k i,
  In i (far_ids R k l) <->
  k <= i /\ exists p, nth_error l (Z.to_nat (i - k)) = Some p /\ too_far R p = true.
Proof.
  induction l as [|p0 r IH]; intros k i; simpl.
  - split; [tauto|]. intros (_ & p & H & _). destruct (Z.to_nat (i - k)); discriminate.
  - assert (Hrec := IH (k + 1) i).
    destruct (too_far R p0) eqn:E; simpl.
    + split.
      * intros [H|H].
        -- subst. split; [lia|]. exists p0. replace (i - i) with 0 by lia. simpl. auto.
        -- apply Hrec in H. destruct H as (Hk & p & Hp & Hf). split; [lia|]. exists p.
           replace (Z.to_nat (i - k)) with (S (Z.to_nat (i - (k + 1)))) by lia. simpl. auto.
      * intros (Hk & p & Hp & Hf). destruct (Z.eq_dec i k) as [->|Hne]; [left; reflexivity|].
        right. apply Hrec. split; [lia|]. exists p.
        replace (Z.to_nat (i - k)) with (S (Z.to_nat (i - (k + 1)))) in Hp by lia. simpl in Hp. auto.
    + split.
      * intros H. apply Hrec in H. destruct H as (Hk & p & Hp & Hf). split; [lia|]. exists p.
        replace (Z.to_nat (i - k)) with (S (Z.to_nat (i - (k + 1)))) by lia. simpl. auto.
      * intros (Hk & p & Hp & Hf). destruct (Z.eq_dec i k) as [->|Hne].
        -- replace (k - k) with 0 in Hp by lia. simpl in Hp. inversion Hp; subst. congruence.
        -- apply Hrec. split; [lia|]. exists p.
           replace (Z.to_nat (i - k)) with (S (Z.to_nat (i - (k + 1)))) in Hp by lia. simpl in Hp. auto.
Qed.

Lemma far_ids_sorted : forall R l k, StronglySorted Z.lt (far_ids R k l).
Proof.
  induction l as [|p0 r IH]; intros k; simpl; [constructor|].
  destruct (too_far R p0); [|apply IH]. constructor; [apply IH|].
  apply Forall_forall. intros i H. apply far_ids_spec in H. lia.
Qed.

(** * Acceptance is exactly the conjunction of the clauses *)

Definition count_ok (dv : gdev) (kind : Z) (pts : list pt) : Prop :=
  kind = KATOMS ->
  match g_max_atoms dv with
  | Some m => zlen pts <= m
  | None => g_virtual dv = true
  end.

(** every pair of distinct positions respects the minimal distance (up to the
    documented precision) and the two atoms are distinct *)
Definition pairs_ok (dv : gdev) (pts : list pt) : Prop :=
  forall i j p q, (i < j)%nat -> nth_error pts i = Some p -> nth_error pts j = Some q ->
                  invalid_dist (g_min_dist dv) (dist p q) = false.

Definition radius_ok (dv : gdev) (pts : list pt) : Prop :=
  match g_max_radial dv with
  | Some R => forall p, In p pts -> too_far R p = false
  | None => g_virtual dv = true
  end.

Definition fits_coords (dv : gdev) (kind : Z) (pts : list pt) : Prop :=
  count_ok dv kind pts /\ pairs_ok dv pts /\ radius_ok dv pts.

Lemma bad_pairs_nil_iff : forall dv pts,
  bad_pairs (g_min_dist dv) 0 pts = [] <-> pairs_ok dv pts.
Proof.
  intros dv pts. split.
  - intros H i j p q Hij Hp Hq.
    destruct (invalid_dist (g_min_dist dv) (dist p q)) eqn:E; [|reflexivity].
    assert (Hin : In (Z.of_nat i, Z.of_nat j) (bad_pairs (g_min_dist dv) 0 pts)).
    { apply bad_pairs_spec. split; [lia|]. split; [lia|]. exists p, q.
      rewrite !Z.sub_0_r, !Nat2Z.id. auto. }
    rewrite H in Hin. destruct Hin.
  - intros H. destruct (bad_pairs (g_min_dist dv) 0 pts) as [|[a b] r] eqn:E; [reflexivity|].
    assert (Hin : In (a, b) (bad_pairs (g_min_dist dv) 0 pts)) by (rewrite E; simpl; auto).
    apply bad_pairs_spec in Hin. destruct Hin as (Ha & Hab & p & q & Hp & Hq & Hi).
    rewrite Z.sub_0_r in Hp, Hq.
    rewrite (H (Z.to_nat a) (Z.to_nat b) p q) in Hi; [discriminate | lia | assumption | assumption].
Qed.

Lemma far_ids_nil_iff : forall R pts,
  far_ids R 0 pts = [] <-> (forall p, In p pts -> too_far R p = false).
Proof.
  intros R pts. split.
  - intros H p Hp. destruct (too_far R p) eqn:E; [|reflexivity].
    apply In_nth_error in Hp. destruct Hp as [n Hn].
    assert (Hin : In (Z.of_nat n) (far_ids R 0 pts)).
    { apply far_ids_spec. split; [lia|]. exists p. rewrite Z.sub_0_r, Nat2Z.id. auto. }
    rewrite H in Hin. destruct Hin.
  - intros H. destruct (far_ids R 0 pts) as [|a r] eqn:E; [reflexivity|].
    assert (Hin : In a (far_ids R 0 pts)) by (rewrite E; simpl; auto).
    apply far_ids_spec in Hin. destruct Hin as (_ & p & Hp & Hf).
    apply nth_error_In in Hp. rewrite (H p Hp) in Hf. discriminate.
Qed.

Lemma validate_coords_ok_iff : forall dv kind pts,
  validate_coords dv kind pts = GOk <-> fits_coords dv kind pts.
Proof.
  intros dv kind pts. unfold validate_coords, fits_coords, count_ok, radius_ok.
  rewrite <- bad_pairs_nil_iff.
  destruct (kind =? KATOMS) eqn:Ek.
  - apply Z.eqb_eq in Ek.
    destruct (g_max_atoms dv) as [m|].
    + destruct (m <? zlen pts) eqn:Em.
      * apply Z.ltb_lt in Em. split; [discriminate|]. intros (H & _). specialize (H Ek). lia.
      * apply Z.ltb_ge in Em.
        destruct (bad_pairs (g_min_dist dv) 0 pts) eqn:Eb.
        -- destruct (g_max_radial dv) as [R|].
           ++ rewrite <- far_ids_nil_iff. destruct (far_ids R 0 pts) eqn:Ef.
              ** split; auto.
              ** split; [discriminate|]. intros (_ & _ & H). discriminate.
           ++ destruct (g_virtual dv); split; auto; try discriminate.
              intros (_ & _ & H). discriminate.
        -- split; [discriminate|]. intros (_ & H & _). discriminate.
    + destruct (g_virtual dv) eqn:Ev.
      * destruct (bad_pairs (g_min_dist dv) 0 pts) eqn:Eb.
        -- destruct (g_max_radial dv) as [R|].
           ++ rewrite <- far_ids_nil_iff. destruct (far_ids R 0 pts) eqn:Ef.
              ** split; auto.
              ** split; [discriminate|]. intros (_ & _ & H). discriminate.
           ++ split; auto.
        -- split; [discriminate|]. intros (_ & H & _). discriminate.
      * split; [discriminate|]. intros (H & _). specialize (H Ek). discriminate.
  - apply Z.eqb_neq in Ek.
    destruct (bad_pairs (g_min_dist dv) 0 pts) eqn:Eb.
    + destruct (g_max_radial dv) as [R|].
      * rewrite <- far_ids_nil_iff. destruct (far_ids R 0 pts) eqn:Ef.
        -- split; auto. intros _. split; [intros; contradiction | auto].
        -- split; [discriminate|]. intros (_ & _ & H). discriminate.
      * destruct (g_virtual dv); split; auto; try discriminate.
        -- intros _. split; [intros; contradiction | auto].
        -- intros (_ & _ & H). discriminate.
    + split; [discriminate|]. intros (_ & H & _). discriminate.
Qed.

Definition fits_layout (dv : gdev) (ly : glayout) : Prop :=
  l_is_layout ly = true /\ l_dim ly <= g_dim dv /\ g_min_traps dv <= zlen (l_traps ly)
  /\ (forall m, g_max_traps dv = Some m -> zlen (l_traps ly) <= m)
  /\ fits_coords dv KTRAPS (l_traps ly).

Lemma validate_layout_ok_iff : forall dv ly,
  validate_layout dv ly = GOk <-> fits_layout dv ly.
Proof.
  intros dv ly. unfold validate_layout, fits_layout.
  destruct (l_is_layout ly); simpl.
  2:{ split; [discriminate|]. intros (H & _). discriminate. }
  destruct (g_dim dv <? l_dim ly) eqn:Ed.
  { apply Z.ltb_lt in Ed. split; [discriminate|]. intros (_ & H & _). lia. }
  apply Z.ltb_ge in Ed.
  destruct (zlen (l_traps ly) <? g_min_traps dv) eqn:El.
  { apply Z.ltb_lt in El. split; [discriminate|]. intros (_ & _ & H & _). lia. }
  apply Z.ltb_ge in El.
  destruct (g_max_traps dv) as [m|].
  - destruct (m <? zlen (l_traps ly)) eqn:Em.
    + apply Z.ltb_lt in Em. split; [discriminate|]. intros (_ & _ & _ & H & _).
      specialize (H m eq_refl). lia.
    + apply Z.ltb_ge in Em. rewrite validate_coords_ok_iff. split.
      * intros H. split; [reflexivity|]. split; [assumption|]. split; [assumption|].
        split; [|assumption]. intros m' Hm'. inversion Hm'; subst. assumption.
      * intros (_ & _ & _ & _ & H). assumption.
  - rewrite validate_coords_ok_iff. split.
    + intros H. split; [reflexivity|]. split; [assumption|]. split; [assumption|].
      split; [|assumption]. intros m' Hm'. discriminate.
    + intros (_ & _ & _ & _ & H). assumption.
Qed.

(** the register fills at most int(n_traps * max_layout_filling) traps *)
Definition filling_ok (dv : gdev) (n_qubits n_traps : Z) : Prop :=
  n_qubits <= max_qubits dv n_traps.

Lemma validate_filling_ok_iff : forall dv n t,
  validate_filling dv n t = GOk <-> filling_ok dv n t.
Proof.
  intros dv n t. unfold validate_filling, filling_ok.
  destruct (max_qubits dv t <? n) eqn:E.
  - apply Z.ltb_lt in E. split; [discriminate | lia].
  - apply Z.ltb_ge in E. split; auto.
Qed.

Definition fits_register (dv : gdev) (rg : greg) : Prop :=
  r_is_reg rg = true /\ r_dim rg <= g_dim dv /\ fits_coords dv KATOMS (r_pts rg)
  /\ (forall ly, r_layout rg = Some ly ->
        fits_layout dv ly /\ filling_ok dv (zlen (r_pts rg)) (zlen (l_traps ly))).

Lemma validate_register_iff : forall dv rg,
  validate_register dv rg = GOk <-> fits_register dv rg.
Proof.
  intros dv rg. unfold validate_register, fits_register.
  destruct (r_is_reg rg); simpl.
  2:{ split; [discriminate|]. intros (H & _). discriminate. }
  destruct (g_dim dv <? r_dim rg) eqn:Ed.
  { apply Z.ltb_lt in Ed. split; [discriminate|]. intros (_ & H & _). lia. }
  apply Z.ltb_ge in Ed.
  destruct (validate_coords dv KATOMS (r_pts rg)) eqn:Ec.
  - apply validate_coords_ok_iff in Ec.
    destruct (r_layout rg) as [ly|].
    + destruct (validate_layout dv ly) eqn:El.
      * apply validate_layout_ok_iff in El. rewrite validate_filling_ok_iff. split.
        -- intros H. split; [reflexivity|]. split; [assumption|]. split; [assumption|].
           intros ly' Hly'. inversion Hly'; subst. split; assumption.
        -- intros (_ & _ & _ & H). destruct (H ly eq_refl). assumption.
      * split; [discriminate|]. intros (_ & _ & _ & H). destruct (H ly eq_refl) as [H1 _].
        apply validate_layout_ok_iff in H1. congruence.
    + split; auto. intros _. split; [reflexivity|]. split; [assumption|]. split; [assumption|].
      intros ly' Hly'. discriminate.
  - split; [discriminate|]. intros (_ & _ & H & _). apply validate_coords_ok_iff in H. congruence.
Qed.

Lemma validate_mappable_iff : forall dv ly n,
  validate_mappable dv ly n = GOk <-> fits_layout dv ly /\ filling_ok dv n (zlen (l_traps ly)).
Proof.
  intros dv ly n. unfold validate_mappable.
  destruct (validate_layout dv ly) eqn:El.
  - apply validate_layout_ok_iff in El. rewrite validate_filling_ok_iff. tauto.
  - split; [discriminate|]. intros (H & _). apply validate_layout_ok_iff in H. congruence.
Qed.

(** * What a rejection reports *)

(** a pair of positions of the list that violates the distance clause *)
Definition violating_pair (dv : gdev) (pts : list pt) (i j : Z) : Prop :=
  0 <= i /\ i < j /\ exists p q, nth_error pts (Z.to_nat i) = Some p
                             /\ nth_error pts (Z.to_nat j) = Some q
                             /\ invalid_dist (g_min_dist dv) (dist p q) = true.

Definition violating_atom (R : Z) (pts : list pt) (i : Z) : Prop :=
  0 <= i /\ exists p, nth_error pts (Z.to_nat i) = Some p /\ too_far R p = true.

Lemma coords_distance_error_exact : forall dv kind pts k bp,
  validate_coords dv kind pts = GErr (GDist k bp) ->
  k = kind /\ bp <> [] /\ StronglySorted lexlt bp
  /\ forall i j, In (i, j) bp <-> violating_pair dv pts i j.
Proof.
  intros dv kind pts k bp H. unfold validate_coords in H.
  destruct (if kind =? KATOMS
            then match g_max_atoms dv with
                 | Some m => if m <? zlen pts then GErr (GAtoms (zlen pts)) else GOk
                 | None => if g_virtual dv then GOk else GErr GType
                 end
            else GOk) eqn:E0.
  2:{ inversion H; subst.
      destruct (kind =? KATOMS); [|discriminate].
      destruct (g_max_atoms dv) as [m|].
      - destruct (m <? zlen pts); discriminate.
      - destruct (g_virtual dv); discriminate. }
  destruct (bad_pairs (g_min_dist dv) 0 pts) as [|x r] eqn:Eb.
  - destruct (g_max_radial dv) as [R|].
    + destruct (far_ids R 0 pts); discriminate.
    + destruct (g_virtual dv); discriminate.
  - inversion H; subst. split; [reflexivity|]. split; [discriminate|].
    split; [rewrite <- Eb; apply bad_pairs_sorted|].
    intros i j. rewrite <- Eb, bad_pairs_spec. unfold violating_pair. rewrite !Z.sub_0_r. tauto.
Qed.

Lemma coords_radius_error_exact : forall dv kind pts k ids,
  validate_coords dv kind pts = GErr (GRadius k ids) ->
  k = kind /\ ids <> [] /\ StronglySorted Z.lt ids /\ pairs_ok dv pts
  /\ exists R, g_max_radial dv = Some R /\ forall i, In i ids <-> violating_atom R pts i.
Proof.
  intros dv kind pts k ids H. unfold validate_coords in H.
  destruct (if kind =? KATOMS
            then match g_max_atoms dv with
                 | Some m => if m <? zlen pts then GErr (GAtoms (zlen pts)) else GOk
                 | None => if g_virtual dv then GOk else GErr GType
                 end
            else GOk) eqn:E0.
  2:{ inversion H; subst.
      destruct (kind =? KATOMS); [|discriminate].
      destruct (g_max_atoms dv) as [m|].
      - destruct (m <? zlen pts); discriminate.
      - destruct (g_virtual dv); discriminate. }
  destruct (bad_pairs (g_min_dist dv) 0 pts) as [|x r] eqn:Eb; [|discriminate].
  destruct (g_max_radial dv) as [R|].
  - destruct (far_ids R 0 pts) as [|y s] eqn:Ef; [discriminate|].
    inversion H; subst. split; [reflexivity|]. split; [discriminate|].
    split; [rewrite <- Ef; apply far_ids_sorted|].
    split; [apply bad_pairs_nil_iff; assumption|].
    exists R. split; [reflexivity|]. intros i. rewrite <- Ef, far_ids_spec.
    unfold violating_atom. rewrite !Z.sub_0_r. tauto.
  - destruct (g_virtual dv); discriminate.
Qed.

Lemma coords_atoms_error_exact : forall dv kind pts n,
  validate_coords dv kind pts = GErr (GAtoms n) ->
  kind = KATOMS /\ n = zlen pts /\ exists m, g_max_atoms dv = Some m /\ m < n.
Proof.
  intros dv kind pts n H. unfold validate_coords in H.
  destruct (kind =? KATOMS) eqn:Ek.
  - apply Z.eqb_eq in Ek. destruct (g_max_atoms dv) as [m|].
    + destruct (m <? zlen pts) eqn:Em.
      * inversion H; subst. apply Z.ltb_lt in Em. split; [reflexivity|]. split; [reflexivity|].
        exists m. auto.
      * destruct (bad_pairs (g_min_dist dv) 0 pts); [|discriminate].
        destruct (g_max_radial dv) as [R|].
        -- destruct (far_ids R 0 pts); discriminate.
        -- destruct (g_virtual dv); discriminate.
    + destruct (g_virtual dv); [|discriminate].
      destruct (bad_pairs (g_min_dist dv) 0 pts); [|discriminate].
      destruct (g_max_radial dv) as [R|].
      * destruct (far_ids R 0 pts); discriminate.
      * discriminate.
  - destruct (bad_pairs (g_min_dist dv) 0 pts); [|discriminate].
    destruct (g_max_radial dv) as [R|].
    + destruct (far_ids R 0 pts); discriminate.
    + destruct (g_virtual dv); discriminate.
Qed.

Lemma validate_coords_not_wrap : forall dv kind pts e,
  validate_coords dv kind pts <> GErr (GWrap e).
Proof.
  intros dv kind pts e. unfold validate_coords.
  destruct (kind =? KATOMS).
  - destruct (g_max_atoms dv) as [m|].
    + destruct (m <? zlen pts); [discriminate|].
      destruct (bad_pairs (g_min_dist dv) 0 pts); [|discriminate].
      destruct (g_max_radial dv) as [R|].
      * destruct (far_ids R 0 pts); discriminate.
      * destruct (g_virtual dv); discriminate.
    + destruct (g_virtual dv); [|discriminate].
      destruct (bad_pairs (g_min_dist dv) 0 pts); [|discriminate].
      destruct (g_max_radial dv) as [R|].
      * destruct (far_ids R 0 pts); discriminate.
      * discriminate.
  - destruct (bad_pairs (g_min_dist dv) 0 pts); [|discriminate].
    destruct (g_max_radial dv) as [R|].
    + destruct (far_ids R 0 pts); discriminate.
    + destruct (g_virtual dv); discriminate.
Qed.

(** the culprits of a rejected register: atoms are reported unwrapped, traps
    of the layout wrapped; in both cases exactly the violating ones *)
Lemma register_culprits_exact : forall dv rg,
  (forall k bp, validate_register dv rg = GErr (GDist k bp) ->
     k = KATOMS /\ StronglySorted lexlt bp
     /\ forall i j, In (i, j) bp <-> violating_pair dv (r_pts rg) i j)
  /\ (forall k ids, validate_register dv rg = GErr (GRadius k ids) ->
     k = KATOMS /\ StronglySorted Z.lt ids
     /\ exists R, g_max_radial dv = Some R /\ forall i, In i ids <-> violating_atom R (r_pts rg) i)
  /\ (forall k bp, validate_register dv rg = GErr (GWrap (GDist k bp)) ->
     exists ly, r_layout rg = Some ly /\ k = KTRAPS /\ StronglySorted lexlt bp
     /\ forall i j, In (i, j) bp <-> violating_pair dv (l_traps ly) i j)
  /\ (forall k ids, validate_register dv rg = GErr (GWrap (GRadius k ids)) ->
     exists ly, r_layout rg = Some ly /\ k = KTRAPS /\ StronglySorted Z.lt ids
     /\ exists R, g_max_radial dv = Some R /\ forall i, In i ids <-> violating_atom R (l_traps ly) i).
Proof.
  intros dv rg. unfold validate_register.
  destruct (r_is_reg rg); simpl.
  2:{ repeat split; intros; discriminate. }
  destruct (g_dim dv <? r_dim rg).
  { repeat split; intros; discriminate. }
  destruct (validate_coords dv KATOMS (r_pts rg)) as [|e] eqn:Ec.
  - destruct (r_layout rg) as [ly|].
    2:{ repeat split; intros; discriminate. }
    destruct (validate_layout dv ly) as [|e'] eqn:El.
    + unfold validate_filling. destruct (max_qubits dv (zlen (l_traps ly)) <? zlen (r_pts rg));
        repeat split; intros; discriminate.
    + assert (Hl : validate_coords dv KTRAPS (l_traps ly) = GErr e' \/
                   (forall k bp, e' <> GDist k bp) /\ (forall k ids, e' <> GRadius k ids)).
      { unfold validate_layout in El.
        destruct (l_is_layout ly); simpl in El; [|inversion El; right; split; intros; discriminate].
        destruct (g_dim dv <? l_dim ly); [inversion El; right; split; intros; discriminate|].
        destruct (zlen (l_traps ly) <? g_min_traps dv); [inversion El; right; split; intros; discriminate|].
        destruct (match g_max_traps dv with Some m => m <? zlen (l_traps ly) | None => false end);
          [inversion El; right; split; intros; discriminate|].
        left. assumption. }
      split; [intros; discriminate|]. split; [intros; discriminate|]. split.
      * intros k bp H. inversion H; subst. exists ly. split; [reflexivity|].
        destruct Hl as [Hl|[Hl _]]; [|exfalso; eapply Hl; reflexivity].
        apply coords_distance_error_exact in Hl. tauto.
      * intros k ids H. inversion H; subst. exists ly. split; [reflexivity|].
        destruct Hl as [Hl|[_ Hl]]; [|exfalso; eapply Hl; reflexivity].
        apply coords_radius_error_exact in Hl. tauto.
  - split; [|split; [|split]].
    + intros k bp H. inversion H; subst. apply coords_distance_error_exact in Ec. tauto.
    + intros k ids H. inversion H; subst. apply coords_radius_error_exact in Ec. tauto.
    + intros k bp H. inversion H; subst.
      destruct (validate_coords_not_wrap dv KATOMS (r_pts rg) (GDist k bp) Ec).
    + intros k ids H. inversion H; subst.
      destruct (validate_coords_not_wrap dv KATOMS (r_pts rg) (GRadius k ids) Ec).
Qed.
