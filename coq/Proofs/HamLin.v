(** C05 - linear-algebra lemmas for the Hamiltonian model: the Kronecker
    flat-index lemma, the entries of the operators [_build_operator] produces,
    sums. *)
From Coq Require Import List Arith Bool ZArith Lia Ring.
From PV Require Import Model.Ham.
Import ListNotations.

(** * Facts that need no law of the number type (they hold for floats too) *)
Section NoLaws.
  Variable R : cops.

  Lemma flat_lt : forall d r,
      Forall (fun x => x < d) r -> flat d r < d ^ length r.
  Proof.
    induction r as [|a r IH]; simpl; intros H.
    - lia.
    - inversion H; subst. specialize (IH H3). nia.
  Qed.

  (** qutip.tensor places the entry (r, c) of the Kronecker product of
      [ops] at the flat indices of the digit vectors, first factor most
      significant. *)
  Lemma tensor_flat_index : forall d ops r c,
      length r = length ops -> length c = length ops ->
      Forall (fun x => x < d) r -> Forall (fun x => x < d) c ->
      tensor R d ops (flat d r) (flat d c) = entry R ops r c.
  Proof.
    induction ops as [|A ops IH]; intros r c Hr Hc Fr Fc.
    - destruct r; destruct c; try discriminate; reflexivity.
    - destruct r as [|x r]; [discriminate|].
      destruct c as [|y c]; [discriminate|].
      simpl in Hr, Hc. injection Hr as Hr. injection Hc as Hc.
      inversion Fr; subst. inversion Fc; subst.
      pose proof (flat_lt d r H2) as Lr. pose proof (flat_lt d c H4) as Lc.
      simpl. rewrite Hr, Hc in *.
      set (m := d ^ length ops) in *.
      assert (Hm : m <> 0) by lia.
      rewrite !Nat.div_add_l by exact Hm.
      rewrite !Nat.div_small by assumption.
      rewrite !Nat.add_0_r.
      rewrite (Nat.add_comm (x * m)), (Nat.add_comm (y * m)).
      rewrite !Nat.mod_add by exact Hm.
      rewrite !Nat.mod_small by assumption.
      rewrite IH by assumption. reflexivity.
  Qed.

  Lemma msum_fold : forall (l : list (mat R)) (M : mat R) I J,
      fold_left (madd R) l M I J
      = fold_left (cadd R) (map (fun A => A I J) l) (M I J).
  Proof.
    induction l as [|A l IH]; intros M I J; simpl.
    - reflexivity.
    - rewrite IH. reflexivity.
  Qed.

  Lemma msum_entry : forall (l : list (mat R)) I J,
      msum R l I J = sum_list R (map (fun A => A I J) l).
  Proof. intros. unfold msum, sum_list. rewrite msum_fold. reflexivity. Qed.

End NoLaws.

(** * Lists *)
Lemma forallb_map' : forall {A B} (f : B -> bool) (g : A -> B) l,
    forallb f (map g l) = forallb (fun x => f (g x)) l.
Proof. induction l; simpl; congruence. Qed.

Lemma forallb_ext' : forall {A} (f g : A -> bool) l,
    (forall x, In x l -> f x = g x) -> forallb f l = forallb g l.
Proof.
  induction l; simpl; intros H. reflexivity.
  rewrite H by (left; reflexivity). rewrite IHl. reflexivity.
  intros; apply H; right; assumption.
Qed.

Lemma upd_length : forall {A} (l : list A) k x, length (upd l k x) = length l.
Proof.
  induction l; destruct k; simpl; intros; try reflexivity. rewrite IHl. reflexivity.
Qed.

Lemma nth_upd : forall {A} (l : list A) i x k d,
    i < length l -> nth k (upd l i x) d = if k =? i then x else nth k l d.
Proof.
  induction l as [|a l IH]; intros i x k d Hi; simpl in Hi. lia.
  destruct i, k; simpl; try reflexivity.
  apply IH. lia.
Qed.

Lemma nth_repeat' : forall {A} (a : A) n k, nth k (repeat a n) a = a.
Proof. induction n; destruct k; simpl; auto. Qed.

Lemma upd_map : forall {A B} (f : A -> B) l k x,
    upd (map f l) k (f x) = map f (upd l k x).
Proof.
  induction l; destruct k; simpl; intros; try reflexivity. rewrite IHl. reflexivity.
Qed.

Lemma map_repeat' : forall {A B} (f : A -> B) a n,
    map f (repeat a n) = repeat (f a) n.
Proof. induction n; simpl; congruence. Qed.

(** * Boolean operator lists *)
Fixpoint bentry (ops : list bmat) (r c : list nat) : bool :=
  match ops, r, c with
  | A :: o, x :: r', y :: c' => A x y && bentry o r' c'
  | _, _, _ => true
  end.

Lemma bentry_nth : forall l r c,
    length r = length l -> length c = length l ->
    bentry l r c
    = forallb (fun k => nth k l ident_b (nth k r 0) (nth k c 0))
              (seq 0 (length l)).
Proof.
  induction l as [|A l IH]; intros r c Hr Hc.
  - reflexivity.
  - destruct r as [|x r]; [discriminate|]. destruct c as [|y c]; [discriminate|].
    simpl in Hr, Hc. injection Hr as Hr. injection Hc as Hc.
    simpl length. simpl seq. simpl forallb. simpl bentry.
    rewrite <- seq_shift, forallb_map'. rewrite (IH r c Hr Hc). reflexivity.
Qed.

Lemma in_seq0 : forall n k, In k (seq 0 n) <-> k < n.
Proof. intros. rewrite in_seq. lia. Qed.

(** one operator at site i, identity elsewhere *)
Lemma bentry_single : forall n i (A : bmat) r c,
    i < n -> length r = n -> length c = n ->
    bentry (upd (repeat ident_b n) i A) r c
    = A (nth i r 0) (nth i c 0) && others_eq n [i] r c.
Proof.
  intros n i A r c Hi Hr Hc.
  rewrite bentry_nth by (rewrite upd_length, repeat_length; assumption).
  rewrite upd_length, repeat_length.
  apply Bool.eq_iff_eq_true. unfold others_eq.
  rewrite andb_true_iff, !forallb_forall. split.
  - intros H. split.
    + specialize (H i (proj2 (in_seq0 n i) Hi)).
      rewrite nth_upd in H by (rewrite repeat_length; assumption).
      rewrite Nat.eqb_refl in H. exact H.
    + intros k Hk. specialize (H k Hk).
      rewrite nth_upd in H by (rewrite repeat_length; assumption).
      unfold memb. simpl. destruct (k =? i) eqn:E; simpl. reflexivity.
      rewrite nth_repeat' in H. exact H.
  - intros [H1 H2] k Hk.
    rewrite nth_upd by (rewrite repeat_length; assumption).
    destruct (k =? i) eqn:E.
    + apply Nat.eqb_eq in E; subst. exact H1.
    + specialize (H2 k Hk). unfold memb in H2. simpl in H2. rewrite E in H2.
      simpl in H2. rewrite nth_repeat'. exact H2.
Qed.

(** two operators at distinct sites *)
Lemma bentry_pair : forall n i j (A B : bmat) r c,
    i < n -> j < n -> i <> j -> length r = n -> length c = n ->
    bentry (upd (upd (repeat ident_b n) i A) j B) r c
    = A (nth i r 0) (nth i c 0) && B (nth j r 0) (nth j c 0)
      && others_eq n [i; j] r c.
Proof.
  intros n i j A B r c Hi Hj Hij Hr Hc.
  assert (L1 : length (upd (repeat ident_b n) i A) = n)
    by (rewrite upd_length, repeat_length; reflexivity).
  rewrite bentry_nth by (rewrite upd_length, L1; assumption).
  rewrite upd_length, L1.
  assert (E : forall k, nth k (upd (upd (repeat ident_b n) i A) j B) ident_b
                = if k =? j then B else if k =? i then A else ident_b).
  { intros k. rewrite nth_upd by (rewrite L1; assumption).
    destruct (k =? j); [reflexivity|].
    rewrite nth_upd by (rewrite repeat_length; assumption).
    destruct (k =? i); [reflexivity|]. apply nth_repeat'. }
  apply Bool.eq_iff_eq_true. unfold others_eq.
  rewrite !andb_true_iff, !forallb_forall. split.
  - intros H. repeat split.
    + specialize (H i (proj2 (in_seq0 n i) Hi)). rewrite E in H.
      rewrite Nat.eqb_refl in H.
      destruct (i =? j) eqn:F; [apply Nat.eqb_eq in F; contradiction|]. exact H.
    + specialize (H j (proj2 (in_seq0 n j) Hj)). rewrite E in H.
      rewrite Nat.eqb_refl in H. exact H.
    + intros k Hk. specialize (H k Hk). rewrite E in H.
      unfold memb. simpl.
      destruct (k =? j) eqn:F1; destruct (k =? i) eqn:F2; simpl; try reflexivity.
      exact H.
  - intros [[H1 H2] H3] k Hk. rewrite E.
    destruct (k =? j) eqn:F1.
    + apply Nat.eqb_eq in F1; subst. exact H2.
    + destruct (k =? i) eqn:F2.
      * apply Nat.eqb_eq in F2; subst. exact H1.
      * specialize (H3 k Hk). unfold memb in H3. simpl in H3.
        rewrite F1, F2 in H3. simpl in H3. exact H3.
Qed.

Lemma others_eq_sym : forall n s r c, others_eq n s r c = others_eq n s c r.
Proof.
  intros. unfold others_eq. apply forallb_ext'. intros k _.
  rewrite (Nat.eqb_sym (nth k r 0)). reflexivity.
Qed.

Lemma site1_sym : forall n i a b r c, site1 n i a b c r = site1 n i b a r c.
Proof.
  intros. unfold site1. rewrite (others_eq_sym n [i] c r).
  rewrite (andb_comm (nth i c 0 =? a)). reflexivity.
Qed.

Lemma site2_sym : forall n i a b j a' b' r c,
    site2 n i a b j a' b' c r = site2 n i b a j b' a' r c.
Proof.
  intros. unfold site2. rewrite (others_eq_sym n [i; j] c r).
  destruct (nth i c 0 =? a), (nth i r 0 =? b), (nth j c 0 =? a'),
    (nth j r 0 =? b'), (others_eq n [i; j] r c); reflexivity.
Qed.

(** pairs of a range are ordered and in range *)
Lemma in_pairs : forall l i j,
    In (i, j) (pairs l) ->
    exists l1 l2 l3, l = l1 ++ i :: l2 ++ j :: l3.
Proof.
  induction l as [|x l IH]; simpl; intros i j H. contradiction.
  apply in_app_or in H. destruct H as [H|H].
  - apply in_map_iff in H. destruct H as [y [E Hy]]. inversion E; subst.
    apply in_split in Hy. destruct Hy as [l2 [l3 ->]].
    exists [], l2, l3. reflexivity.
  - destruct (IH i j H) as [l1 [l2 [l3 ->]]].
    exists (x :: l1), l2, l3. reflexivity.
Qed.

Lemma in_pairs_seq : forall n i j,
    In (i, j) (pairs (seq 0 n)) -> i < j /\ j < n.
Proof.
  intros n i j H. destruct (in_pairs _ _ _ H) as [l1 [l2 [l3 E]]].
  assert (Hn : length (seq 0 n) = n) by apply seq_length.
  assert (Hi : nth (length l1) (seq 0 n) 0 = i).
  { rewrite E. rewrite app_nth2 by lia. rewrite Nat.sub_diag. reflexivity. }
  assert (Hj : nth (length l1 + S (length l2)) (seq 0 n) 0 = j).
  { rewrite E. rewrite app_nth2 by lia.
    replace (length l1 + S (length l2) - length l1) with (S (length l2)) by lia.
    simpl. rewrite app_nth2 by lia. rewrite Nat.sub_diag. reflexivity. }
  assert (Ln : length l1 + S (length l2) < n).
  { rewrite <- Hn, E. rewrite !app_length. simpl. rewrite app_length. simpl. lia. }
  rewrite seq_nth in Hi by lia. rewrite seq_nth in Hj by lia. lia.
Qed.

(** * Facts that need the ring laws *)
Section Laws.
  Variable R : cops.
  Hypothesis Rring :
    ring_theory (c0 R) (c1 R) (cadd R) (cmul R) (csub R) (copp R) (@eq R).
  Add Ring RRlin : Rring.
  Local Notation "x + y" := (cadd R x y).
  Local Notation "x * y" := (cmul R x y).
  Local Notation "- x" := (copp R x).
  Local Notation "0" := (c0 R).
  Local Notation "1" := (c1 R).

  Lemma entry_of_b : forall bops r c,
      entry R (map (of_b R) bops) r c = b2c R (bentry bops r c).
  Proof.
    induction bops as [|A o IH]; intros r c.
    - reflexivity.
    - destruct r as [|x r]; [reflexivity|]. destruct c as [|y c]; [reflexivity|].
      simpl. rewrite IH. unfold of_b.
      destruct (A x y); destruct (bentry o r c); simpl; ring.
  Qed.

  Lemma fold_add_acc : forall l a,
      fold_left (cadd R) l a = a + fold_left (cadd R) l 0.
  Proof.
    induction l as [|x l IH]; intros a; simpl.
    - ring.
    - rewrite (IH (a + x)), (IH (0 + x)). ring.
  Qed.

  Lemma sum_list_cons : forall x l, sum_list R (x :: l) = x + sum_list R l.
  Proof.
    intros. unfold sum_list. simpl. rewrite fold_add_acc. ring.
  Qed.

  Lemma sum_list_nil : sum_list R [] = 0.
  Proof. reflexivity. Qed.

  Lemma sum_list_app : forall l1 l2,
      sum_list R (l1 ++ l2) = sum_list R l1 + sum_list R l2.
  Proof.
    induction l1; intros; simpl.
    - rewrite sum_list_nil. ring.
    - rewrite !sum_list_cons, IHl1. ring.
  Qed.

  Lemma sum_list_scale : forall {A} k (f : A -> R) l,
      sum_list R (map (fun x => k * f x) l) = k * sum_list R (map f l).
  Proof.
    induction l; simpl.
    - rewrite sum_list_nil. ring.
    - rewrite !sum_list_cons, IHl. ring.
  Qed.

  Lemma sum_list_add : forall {A} (f g : A -> R) l,
      sum_list R (map (fun x => f x + g x) l)
      = sum_list R (map f l) + sum_list R (map g l).
  Proof.
    induction l; simpl.
    - rewrite !sum_list_nil. ring.
    - rewrite !sum_list_cons, IHl. ring.
  Qed.

  Lemma sum_list_ext : forall {A} (f g : A -> R) l,
      (forall x, In x l -> f x = g x) ->
      sum_list R (map f l) = sum_list R (map g l).
  Proof.
    induction l; simpl; intros H. reflexivity.
    rewrite !sum_list_cons, H by (left; reflexivity).
    rewrite IHl. reflexivity. intros; apply H; right; assumption.
  Qed.

  Lemma sum_list_zero : forall {A} (l : list A),
      sum_list R (map (fun _ => 0) l) = 0.
  Proof.
    induction l; simpl. reflexivity. rewrite sum_list_cons, IHl. ring.
  Qed.

  (** entries of the operators the implementation builds *)
  Lemma build_single_entry : forall d n i a b r c,
      i < n -> length r = n -> length c = n ->
      Forall (fun x => x < d) r -> Forall (fun x => x < d) c ->
      build_op R d n [(sigma R a b, [i])] (flat d r) (flat d c)
      = b2c R (site1 n i a b r c).
  Proof.
    intros d n i a b r c Hi Hr Hc Fr Fc.
    unfold build_op, op_list. simpl fold_left.
    unfold ident, sigma. rewrite <- map_repeat', upd_map.
    rewrite tensor_flat_index;
      try (rewrite map_length, upd_length, repeat_length; assumption);
      try assumption.
    rewrite entry_of_b, bentry_single by assumption.
    unfold site1, sigma_b. reflexivity.
  Qed.

  Lemma build_pair_entry : forall d n i j a b a' b' r c,
      i < n -> j < n -> i <> j -> length r = n -> length c = n ->
      Forall (fun x => x < d) r -> Forall (fun x => x < d) c ->
      build_op R d n [(sigma R a b, [i]); (sigma R a' b', [j])]
               (flat d r) (flat d c)
      = b2c R (site2 n i a b j a' b' r c).
  Proof.
    intros d n i j a b a' b' r c Hi Hj Hij Hr Hc Fr Fc.
    unfold build_op, op_list. simpl fold_left.
    unfold ident, sigma. rewrite <- map_repeat', !upd_map.
    rewrite tensor_flat_index;
      try (rewrite map_length, !upd_length, repeat_length; assumption);
      try assumption.
    rewrite entry_of_b, bentry_pair by assumption.
    unfold site2, sigma_b. rewrite <- !andb_assoc. reflexivity.
  Qed.

  (** [("sigma_rr", [q1, q2])]: the same operator on two sites *)
  Lemma build_same_pair_entry : forall d n i j a b r c,
      i < n -> j < n -> i <> j -> length r = n -> length c = n ->
      Forall (fun x => x < d) r -> Forall (fun x => x < d) c ->
      build_op R d n [(sigma R a b, [i; j])] (flat d r) (flat d c)
      = b2c R (site2 n i a b j a b r c).
  Proof.
    intros d n i j a b r c Hi Hj Hij Hr Hc Fr Fc.
    unfold build_op, op_list. simpl fold_left.
    unfold ident, sigma. rewrite <- map_repeat', !upd_map.
    rewrite tensor_flat_index;
      try (rewrite map_length, !upd_length, repeat_length; assumption);
      try assumption.
    rewrite entry_of_b, bentry_pair by assumption.
    unfold site2, sigma_b. rewrite <- !andb_assoc. reflexivity.
  Qed.

  (** [(operator, "global")]: sum over the sites *)
  Lemma build_global_entry : forall d n a b r c,
      length r = n -> length c = n ->
      Forall (fun x => x < d) r -> Forall (fun x => x < d) c ->
      build_global R d n (sigma R a b) (flat d r) (flat d c)
      = sum_list R (map (fun q => b2c R (site1 n q a b r c)) (seq 0 n)).
  Proof.
    intros d n a b r c Hr Hc Fr Fc.
    unfold build_global. rewrite msum_entry, map_map.
    apply sum_list_ext. intros q Hq. apply in_seq0 in Hq.
    apply build_single_entry; assumption.
  Qed.

End Laws.
