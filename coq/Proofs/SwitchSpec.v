(** C18: switching device.  What strict mode compares (regenerated from the
    source), why that is not enough (witness), and why a sequence rebuilt on
    another device satisfies that device's limits (it is a reachable state). *)
From Coq Require Import ZArith List Bool String.
From Coq Require Import PrimFloat.
From PV Require Import Model.Base Model.Sched Model.Seq Gen.Switch.
From PV Require Import Proofs.SchedInv Proofs.SeqInv Proofs.LimitsSpec Proofs.AlignWitness Proofs.RetargetWitness.
Import ListNotations.
Open Scope Z_scope.

Lemma strict_compares :
  strict_params = ["mod_bandwidth"; "fixed_retarget_t"; "clock_period"]%string /\
  strict_params_conditional = ["min_retarget_interval"]%string /\
  replays_calls_through_public_api = true.
Proof. vm_compute. auto. Qed.

(** two channels that agree on every parameter strict mode compares (same
    bandwidth hence rise time, clock period, retarget times) but differ in
    min_duration: the same calls give different timelines *)
Definition scfg (mn : Z) : ccfg :=
  {| c_local := true; c_basis := 1; c_dmm := false; c_clock := 4; c_min := mn;
     c_max := None; c_rise := 120; c_pj := 240; c_minret := 0; c_fixret := 0;
     c_maxtg := None; c_maxamp := None; c_maxdet := None; c_minavg := zero;
     c_bottom := None; c_totbottom := None; c_eom := None |}.
Definition senv_of (mn : Z) : senv :=
  {| v_dev := {| d_chans := [(0, scfg mn)]; d_dmms := []; d_maxseq := None;
                 d_reusable := false; d_slm := false |};
     v_qids := [0]; v_maps := []; v_oracle := [(0, 0, (4, 0))] |}.
Definition spulse (ph : float) : upulse :=
  {| u_dur := 100; u_ext := true; u_phase := ph; u_post := zero; u_amax := one;
     u_dabsmax := zero; u_avg := one; u_dmax := zero; u_dmin := zero; u_dd := false;
     u_sum := [one; one; zero; zero] |}.
(** second pulse with no-delay after a short phase-shift barrier: the wait is
    rounded up to min_duration *)
Definition sops : list op :=
  [ODeclare 0 0 (Some [0]); OAdd (spulse zero) 0 0; OPhaseShift one [0] 1; ODelay 4 0 false;
   OPhaseShift one [0] 1; OAdd (spulse zero) 0 1].

Definition ends_of (s : seq) : list Z := map (fun c => ch_duration c false) (q_sched s).

Theorem strict_sound_refuted :
  exists g g' ops,
    c_clock g = c_clock g' /\ c_rise g = c_rise g' /\ c_fixret g = c_fixret g' /\
    c_minret g = c_minret g' /\ c_eom g = c_eom g' /\
    ends_of (run (senv_of (c_min g)) ops) <> ends_of (run (senv_of (c_min g')) ops).
Proof.
  exists (scfg 4), (scfg 80), sops. repeat split; try reflexivity.
  vm_compute. discriminate.
Qed.

(** whatever calls are replayed on the new device, the result is a reachable
    state of that device: tiled, clock-aligned, within its maximum duration,
    every pulse a whole number of its clock periods and at least its minimum *)
Theorem rebuilt_sequence_within_new_limits v' calls :
  senv_ok v' ->
  Forall (chan_ok (env_of v')) (q_sched (run v' calls)) /\
  forall c sl p, In c (q_sched (run v' calls)) -> In sl (ch_slots c) -> s_kind sl = KPulse p ->
    s_tf sl - s_ti sl = p_dur p /\ c_min (ch_cfg c) <= p_dur p /\
    (c_clock (ch_cfg c) | p_dur p) /\ le_opt (s_tf sl) (d_maxseq (v_dev v')).
Proof.
  intros Hv. split; [apply run_ok; auto|].
  intros c sl p Hc Hs Hk. eapply scheduled_pulse_durations; eauto.
Qed.

