(** C14 - the filter laws lifted to the list model of [Channel.modulate]
    (zero padding, edge padding, slicing), for every ordered commutative ring
    and every kernel family satisfying the stated hypotheses. *)
From Coq Require Import ZArith List Bool Arith Lia Ring Ring_theory.
From PV Require Import Model.Base Model.Modul Proofs.ModulLaws.
Import ListNotations.

(** * polymorphic list facts *)
Lemma py_slice_length : forall A (l : list A) a b,
  length (py_slice l a b)
  = Z.to_nat (py_norm (Z.of_nat (length l)) b - py_norm (Z.of_nat (length l)) a).
Proof.
  intros A l a b. unfold py_slice.
  rewrite firstn_length, skipn_length.
  unfold py_norm.
  destruct (a <? 0)%Z eqn:Ea; destruct (b <? 0)%Z eqn:Eb; lia.
Qed.

Lemma In_firstn : forall A (x : A) n l, In x (firstn n l) -> In x l.
Proof.
  intros A x n. induction n; intros l H; simpl in H; [contradiction|].
  destruct l as [|a r]; [contradiction|].
  destruct H as [H|H]; [left; exact H | right; apply IHn; exact H].
Qed.

Lemma Forall_py_slice : forall A (P : A -> Prop) (l : list A) a b,
  Forall P l -> Forall P (py_slice l a b).
Proof.
  intros A P l a b H. unfold py_slice.
  apply Forall_forall. intros x Hx.
  rewrite Forall_forall in H. apply H.
  apply In_firstn in Hx.
  pose proof (firstn_skipn (Z.to_nat (py_norm (Z.of_nat (length l)) a)) l) as E.
  rewrite <- E. apply in_or_app. right. exact Hx.
Qed.

Lemma Forall_map_seq : forall A (P : A -> Prop) (f : nat -> A) n,
  (forall i, (i < n)%nat -> P (f i)) -> Forall P (map f (seq 0 n)).
Proof.
  intros A P f n H. apply Forall_forall. intros x Hx.
  apply in_map_iff in Hx. destruct Hx as [i [<- Hi]].
  apply in_seq in Hi. apply H. lia.
Qed.

Section Chan.
  Variable T : Type.
  Variables t0 t1 : T.
  Variables tadd tmul tsub : T -> T -> T.
  Variable topp : T -> T.
  Variable tle : T -> T -> Prop.
  Hypothesis OR : ordered_ring T t0 t1 tadd tmul tsub topp tle.

  Let Tring := or_ring _ _ _ _ _ _ _ _ OR.
  Add Ring TRc : Tring.

  Local Notation "a [+] b" := (tadd a b) (at level 50, left associativity).
  Local Notation "a [*] b" := (tmul a b) (at level 40, left associativity).
  Local Notation "a [<=] b" := (tle a b) (at level 70).
  Local Notation Sumn := (sumn T t0 tadd).
  Local Notation Lsum := (lsum T t0 tadd).
  Local Notation Cconvf := (cconvf T t0 tadd tmul).
  Local Notation Cconv := (cconv T t0 tadd tmul).
  Local Notation Sig := (sig_of T t0).
  Local Notation Pad0 := (pad0 T t0).
  Local Notation PadE := (pad_edge T).
  Local Notation Modulate := (chan_modulate T t0 tadd tmul).

  (** linear combination of two signals, sample by sample *)
  Fixpoint lin (a b : T) (x y : list T) : list T :=
    match x, y with
    | u :: x', v :: y' => (a [*] u [+] b [*] v) :: lin a b x' y'
    | _, _ => []
    end.

  (** ** sums over lists *)
  Lemma lsum_app : forall l r, Lsum (l ++ r) = Lsum l [+] Lsum r.
  Proof. induction l; intros; simpl; [ring | rewrite IHl; ring]. Qed.

  Lemma lsum_repeat0 : forall p, Lsum (repeat t0 p) = t0.
  Proof. induction p; simpl; [reflexivity | rewrite IHp; ring]. Qed.

  Lemma lsum_pad0 : forall p x, Lsum (Pad0 p x) = Lsum x.
  Proof. intros. unfold pad0. rewrite !lsum_app, lsum_repeat0. ring. Qed.

  Lemma lsum_map_seq : forall n (f : nat -> T),
    Lsum (map f (seq 0 n)) = Sumn n f.
  Proof.
    induction n; intros f; [reflexivity|].
    rewrite seq_S, map_app, lsum_app, IHn. simpl. ring.
  Qed.

  Lemma lsum_sumn : forall l, Lsum l = Sumn (length l) (Sig l).
  Proof.
    induction l as [|a l IH]; [reflexivity|].
    simpl length.
    rewrite (sumn_S_first T t0 t1 tadd tmul tsub topp tle OR).
    simpl. rewrite IH. reflexivity.
  Qed.

  (** ** the convolution on lists *)
  Lemma cconv_length : forall w x, length (Cconv w x) = length x.
  Proof. intros. unfold cconv. rewrite map_length, seq_length. reflexivity. Qed.

  Lemma nth_cconv : forall w x n, (n < length x)%nat ->
    nth n (Cconv w x) t0 = Cconvf w (length x) (Sig x) n.
  Proof.
    intros w x n Hn. unfold cconv.
    rewrite (nth_indep _ t0 (Cconvf w (length x) (Sig x) 0%nat))
      by (rewrite map_length, seq_length; exact Hn).
    rewrite map_nth, seq_nth by exact Hn. reflexivity.
  Qed.

  Lemma lsum_cconv : forall w x,
    Sumn (length x) w = t1 -> Lsum (Cconv w x) = Lsum x.
  Proof.
    intros w x Hw. unfold cconv.
    rewrite lsum_map_seq.
    rewrite (cconvf_sum T t0 t1 tadd tmul tsub topp tle OR w (length x) (Sig x) Hw).
    symmetry. apply lsum_sumn.
  Qed.

  Lemma sig_Forall : forall (P : T -> Prop) x j,
    Forall P x -> (j < length x)%nat -> P (Sig x j).
  Proof. intros P x j H Hj. unfold sig_of. apply Forall_nth; assumption. Qed.

  Lemma cconv_nonneg : forall w x,
    (forall k, (k < length x)%nat -> t0 [<=] w k) ->
    Forall (fun v => t0 [<=] v) x -> Forall (fun v => t0 [<=] v) (Cconv w x).
  Proof.
    intros w x Hw Hx. unfold cconv. apply Forall_map_seq. intros n Hn.
    apply (cconvf_nonneg T t0 t1 tadd tmul tsub topp tle OR); [exact Hw|].
    intros j Hj. apply (sig_Forall (fun v => t0 [<=] v)); assumption.
  Qed.

  Lemma cconv_le_max : forall w x M,
    (forall k, (k < length x)%nat -> t0 [<=] w k) -> Sumn (length x) w = t1 ->
    Forall (fun v => v [<=] M) x -> Forall (fun v => v [<=] M) (Cconv w x).
  Proof.
    intros w x M Hw H1 Hx. unfold cconv. apply Forall_map_seq. intros n Hn.
    apply (cconvf_le_max T t0 t1 tadd tmul tsub topp tle OR); try assumption.
    intros j Hj. apply (sig_Forall (fun v => v [<=] M)); assumption.
  Qed.

  Lemma cconv_ge_min : forall w x m,
    (forall k, (k < length x)%nat -> t0 [<=] w k) -> Sumn (length x) w = t1 ->
    Forall (fun v => m [<=] v) x -> Forall (fun v => m [<=] v) (Cconv w x).
  Proof.
    intros w x m Hw H1 Hx. unfold cconv. apply Forall_map_seq. intros n Hn.
    apply (cconvf_ge_min T t0 t1 tadd tmul tsub topp tle OR); try assumption.
    intros j Hj. apply (sig_Forall (fun v => m [<=] v)); assumption.
  Qed.

  (** ** linear combinations *)
  Lemma lin_length : forall a b x y, length x = length y ->
    length (lin a b x y) = length x.
  Proof.
    intros a b x. induction x as [|u x IH]; intros [|v y] H; simpl in *;
      try reflexivity; try discriminate.
    rewrite IH; [reflexivity | lia].
  Qed.

  Lemma sig_lin : forall a b x y j, length x = length y ->
    Sig (lin a b x y) j = a [*] Sig x j [+] b [*] Sig y j.
  Proof.
    intros a b x. unfold sig_of.
    induction x as [|u x IH]; intros [|v y] j H; simpl in *; try discriminate.
    - destruct j; ring.
    - destruct j; [reflexivity|]. apply IH. lia.
  Qed.

  Lemma lin_map_seq : forall a b (f g : nat -> T) n s,
    lin a b (map f (seq s n)) (map g (seq s n))
    = map (fun i => a [*] f i [+] b [*] g i) (seq s n).
  Proof.
    intros a b f g n. induction n; intros s; simpl; [reflexivity|].
    rewrite IHn. reflexivity.
  Qed.

  Lemma lin_app : forall a b x x' y y', length x = length y ->
    lin a b (x ++ x') (y ++ y') = lin a b x y ++ lin a b x' y'.
  Proof.
    intros a b x. induction x as [|u x IH]; intros x' [|v y] y' H;
      simpl in *; try discriminate; [reflexivity|].
    rewrite IH; [reflexivity | lia].
  Qed.

  Lemma lin_repeat0 : forall a b p,
    lin a b (repeat t0 p) (repeat t0 p) = repeat t0 p.
  Proof.
    intros a b. induction p; simpl; [reflexivity|].
    rewrite IHp. f_equal. ring.
  Qed.

  Lemma lin_pad0 : forall a b p x y, length x = length y ->
    lin a b (Pad0 p x) (Pad0 p y) = Pad0 p (lin a b x y).
  Proof.
    intros a b p x y H. unfold pad0.
    rewrite lin_app by reflexivity.
    rewrite lin_app by exact H.
    rewrite lin_repeat0. reflexivity.
  Qed.

  Lemma cconv_linear : forall w a b x y, length x = length y ->
    Cconv w (lin a b x y) = lin a b (Cconv w x) (Cconv w y).
  Proof.
    intros w a b x y H. unfold cconv.
    rewrite lin_length by exact H. rewrite <- H.
    rewrite lin_map_seq.
    apply map_ext. intros n.
    rewrite <- (cconvf_linear T t0 t1 tadd tmul tsub topp tle OR).
    unfold cconvf. apply (sumn_ext T t0 tadd). intros j Hj.
    rewrite sig_lin by exact H. reflexivity.
  Qed.

  (** ** edge padding keeps bounds *)
  Lemma Forall_pad_edge : forall (P : T -> Prop) p x,
    Forall P x -> Forall P (PadE p x).
  Proof.
    intros P p x H. unfold pad_edge. destruct x as [|a r]; [constructor|].
    assert (Pa : P a) by (inversion H; assumption).
    assert (Pl : P (last (a :: r) a)).
    { rewrite Forall_forall in H. apply H.
      destruct (exists_last (l := a :: r)) as [l' [z E]]; [discriminate|].
      rewrite E, last_last. rewrite <- E. rewrite E. apply in_or_app. right. left. reflexivity. }
    apply Forall_app. split.
    - apply Forall_forall. intros v Hv. apply repeat_spec in Hv. subst; exact Pa.
    - apply Forall_app. split; [exact H|].
      apply Forall_forall. intros v Hv. apply repeat_spec in Hv. subst; exact Pl.
  Qed.

  Lemma Forall_pad0 : forall (P : T -> Prop) p x,
    P t0 -> Forall P x -> Forall P (Pad0 p x).
  Proof.
    intros P p x P0 H. unfold pad0.
    apply Forall_app. split; [|apply Forall_app; split; [exact H|]];
      apply Forall_forall; intros v Hv; apply repeat_spec in Hv; subst; exact P0.
  Qed.

  (** ** [Channel.modulate] *)
  Variable kern : bool -> nat -> nat -> T.
  Hypothesis kern_nonneg : forall e N k, (k < N)%nat -> t0 [<=] kern e N k.
  Hypothesis kern_sum : forall e N, (0 < N)%nat -> Sumn N (kern e N) = t1.

  Variable has_bw : bool.
  Variable tr : nat.
  Variable etr : option nat.

  Lemma kern_sum' : forall e (x : list T), Sumn (length x) (kern e (length x)) = t1 \/ x = [].
  Proof.
    intros e x. destruct x as [|a r]; [right; reflexivity|left].
    apply kern_sum. simpl; lia.
  Qed.

  (** the padding the code selects *)
  Definition sel_pad (eom : bool) : option nat :=
    if eom then etr else if has_bw then Some tr else None.

  Lemma modulate_plain_spec : forall x eom y,
    Modulate has_bw tr etr kern x false eom = Ok y ->
    match sel_pad eom with
    | Some p => y = Cconv (kern eom (length (Pad0 p x))) (Pad0 p x)
    | None => y = x
    end.
  Proof.
    intros x eom y H. unfold chan_modulate, sel_pad in *.
    destruct eom.
    - destruct etr; [|discriminate]. inversion H; reflexivity.
    - destruct has_bw; simpl in *; inversion H; reflexivity.
  Qed.

  Lemma pad0_length : forall p (x : list T), length (Pad0 p x) = (length x + 2 * p)%nat.
  Proof. intros. unfold pad0. rewrite !app_length, !repeat_length. lia. Qed.

  Theorem modulate_length : forall x eom y,
    Modulate has_bw tr etr kern x false eom = Ok y ->
    length y = (length x + 2 * match sel_pad eom with Some p => p | None => 0 end)%nat.
  Proof.
    intros x eom y H. apply modulate_plain_spec in H.
    destruct (sel_pad eom); subst.
    - rewrite cconv_length, pad0_length. reflexivity.
    - lia.
  Qed.

  Theorem modulate_preserves_sum : forall x eom y,
    Modulate has_bw tr etr kern x false eom = Ok y -> Lsum y = Lsum x.
  Proof.
    intros x eom y H. apply modulate_plain_spec in H.
    destruct (sel_pad eom) as [p|]; subst; [|reflexivity].
    destruct (kern_sum' eom (Pad0 p x)) as [E|E].
    - rewrite lsum_cconv by exact E. apply lsum_pad0.
    - rewrite E. simpl. rewrite <- (lsum_pad0 p x), E. reflexivity.
  Qed.

  Theorem modulate_nonneg : forall x eom y,
    Modulate has_bw tr etr kern x false eom = Ok y ->
    Forall (fun v => t0 [<=] v) x -> Forall (fun v => t0 [<=] v) y.
  Proof.
    intros x eom y H Hx. apply modulate_plain_spec in H.
    destruct (sel_pad eom) as [p|]; subst; [|exact Hx].
    apply cconv_nonneg.
    - intros k Hk. apply kern_nonneg; exact Hk.
    - apply Forall_pad0; [apply (or_refl _ _ _ _ _ _ _ _ OR) | exact Hx].
  Qed.

  Theorem modulate_le_max : forall x eom y M,
    Modulate has_bw tr etr kern x false eom = Ok y ->
    t0 [<=] M -> Forall (fun v => v [<=] M) x -> Forall (fun v => v [<=] M) y.
  Proof.
    intros x eom y M H HM Hx. apply modulate_plain_spec in H.
    destruct (sel_pad eom) as [p|]; subst; [|exact Hx].
    destruct (kern_sum' eom (Pad0 p x)) as [E|E].
    - apply cconv_le_max; [intros k Hk; apply kern_nonneg; exact Hk | exact E |].
      apply Forall_pad0; assumption.
    - rewrite E. constructor.
  Qed.

  Theorem modulate_linear : forall a b x x' eom y y',
    length x = length x' ->
    Modulate has_bw tr etr kern x false eom = Ok y ->
    Modulate has_bw tr etr kern x' false eom = Ok y' ->
    Modulate has_bw tr etr kern (lin a b x x') false eom = Ok (lin a b y y').
  Proof.
    intros a b x x' eom y y' HL H H'.
    pose proof H as H0.
    apply modulate_plain_spec in H. apply modulate_plain_spec in H'.
    unfold chan_modulate, sel_pad in *.
    assert (G : forall p,
      Cconv (kern eom (length (Pad0 p (lin a b x x')))) (Pad0 p (lin a b x x'))
      = lin a b (Cconv (kern eom (length (Pad0 p x))) (Pad0 p x))
                (Cconv (kern eom (length (Pad0 p x'))) (Pad0 p x'))).
    { intros p. rewrite <- lin_pad0 by exact HL.
      rewrite lin_length by (rewrite !pad0_length; lia).
      replace (length (Pad0 p x')) with (length (Pad0 p x))
        by (rewrite !pad0_length; lia).
      apply cconv_linear. rewrite !pad0_length. lia. }
    destruct eom.
    - destruct etr as [p|]; [|discriminate].
      subst. rewrite G. reflexivity.
    - destruct has_bw; simpl in *; subst; [|reflexivity].
      rewrite G. reflexivity.
  Qed.

  (** with [keep_ends] the output also stays between the input's extremes *)
  Theorem modulate_keep_ends_bounds : forall x eom y m M,
    Modulate has_bw tr etr kern x true eom = Ok y ->
    Forall (fun v => m [<=] v /\ v [<=] M) x ->
    Forall (fun v => m [<=] v /\ v [<=] M) y.
  Proof.
    intros x eom y m M H Hx. unfold chan_modulate in H.
    assert (G : forall p,
      match x with
      | [] => if (p + tr =? 0)%nat then Ok [] else Err EValue
      | _ :: _ =>
          Ok (py_slice (Cconv (kern eom (length (PadE (p + tr) x))) (PadE (p + tr) x))
                       (Z.of_nat tr) (- Z.of_nat tr))
      end = Ok y -> Forall (fun v => m [<=] v /\ v [<=] M) y).
    { intros p G. destruct x as [|a r].
      - destruct (p + tr =? 0)%nat; inversion G; constructor.
      - inversion G; subst. apply Forall_py_slice.
        set (s := PadE (p + tr) (a :: r)).
        assert (Hs : Forall (fun v => m [<=] v /\ v [<=] M) s)
          by (apply Forall_pad_edge; exact Hx).
        assert (Hne : Sumn (length s) (kern eom (length s)) = t1).
        { destruct (kern_sum' eom s) as [E|E]; [exact E|].
          unfold s, pad_edge in E. destruct (repeat a (p + tr)); discriminate. }
        assert (Hlo : Forall (fun v => m [<=] v) (Cconv (kern eom (length s)) s)).
        { apply cconv_ge_min; [intros k Hk; apply kern_nonneg; exact Hk | exact Hne |].
          eapply Forall_impl; [|exact Hs]. intros v [A _]; exact A. }
        assert (Hhi : Forall (fun v => v [<=] M) (Cconv (kern eom (length s)) s)).
        { apply cconv_le_max; [intros k Hk; apply kern_nonneg; exact Hk | exact Hne |].
          eapply Forall_impl; [|exact Hs]. intros v [_ B]; exact B. }
        rewrite Forall_forall in *. intros v Hv. split; [apply Hlo | apply Hhi]; exact Hv. }
    destruct eom.
    - destruct etr as [p|]; [|discriminate]. apply (G p). exact H.
    - destruct has_bw; simpl in H.
      + apply (G tr). exact H.
      + inversion H; subst. exact Hx.
  Qed.

  (** the integer model of the lengths agrees with the list model *)
  Theorem chan_modulate_len_correct : forall x keep_ends eom,
    match Modulate has_bw tr etr kern x keep_ends eom with
    | Ok y =>
        chan_modulate_len has_bw (Z.of_nat tr)
          (match etr with Some p => Some (Z.of_nat p) | None => None end)
          (Z.of_nat (length x)) keep_ends eom = Ok (Z.of_nat (length y))
    | Err e =>
        chan_modulate_len has_bw (Z.of_nat tr)
          (match etr with Some p => Some (Z.of_nat p) | None => None end)
          (Z.of_nat (length x)) keep_ends eom = Err e
    end.
  Proof.
    intros x keep_ends eom. unfold chan_modulate, chan_modulate_len.
    assert (G : forall e p,
      match (if keep_ends
             then match x with
                  | [] => if (p + tr =? 0)%nat then Ok [] else Err EValue
                  | _ :: _ =>
                      Ok (py_slice (Cconv (kern e (length (PadE (p + tr) x))) (PadE (p + tr) x))
                                   (Z.of_nat tr) (- Z.of_nat tr))
                  end
             else Ok (Cconv (kern e (length (Pad0 p x))) (Pad0 p x))) with
      | Ok y =>
          (if keep_ends
           then if (Z.of_nat (length x) =? 0)%Z
                then (if (Z.of_nat p + Z.of_nat tr =? 0)%Z then Ok 0%Z else Err EValue)
                else Ok (py_norm (Z.of_nat (length x) + 2 * (Z.of_nat p + Z.of_nat tr)) (- Z.of_nat tr)
                         - py_norm (Z.of_nat (length x) + 2 * (Z.of_nat p + Z.of_nat tr)) (Z.of_nat tr))%Z
           else Ok (Z.of_nat (length x) + 2 * Z.of_nat p)%Z) = Ok (Z.of_nat (length y))
      | Err e0 =>
          (if keep_ends
           then if (Z.of_nat (length x) =? 0)%Z
                then (if (Z.of_nat p + Z.of_nat tr =? 0)%Z then Ok 0%Z else Err EValue)
                else Ok (py_norm (Z.of_nat (length x) + 2 * (Z.of_nat p + Z.of_nat tr)) (- Z.of_nat tr)
                         - py_norm (Z.of_nat (length x) + 2 * (Z.of_nat p + Z.of_nat tr)) (Z.of_nat tr))%Z
           else Ok (Z.of_nat (length x) + 2 * Z.of_nat p)%Z) = Err e0
      end).
    { intros e p. destruct keep_ends.
      - destruct x as [|a r].
        + simpl length. simpl (Z.of_nat 0 =? 0)%Z.
          destruct (p + tr =? 0)%nat eqn:E.
          * apply Nat.eqb_eq in E.
            replace (Z.of_nat p + Z.of_nat tr =? 0)%Z with true
              by (symmetry; apply Z.eqb_eq; lia). reflexivity.
          * apply Nat.eqb_neq in E.
            replace (Z.of_nat p + Z.of_nat tr =? 0)%Z with false
              by (symmetry; apply Z.eqb_neq; lia). reflexivity.
        + replace (Z.of_nat (length (a :: r)) =? 0)%Z with false
            by (symmetry; apply Z.eqb_neq; simpl length; lia).
          f_equal. rewrite py_slice_length, cconv_length.
          assert (L : length (PadE (p + tr) (a :: r)) = (length (a :: r) + 2 * (p + tr))%nat).
          { unfold pad_edge. rewrite !app_length, !repeat_length. lia. }
          rewrite L.
          replace (Z.of_nat (length (a :: r) + 2 * (p + tr)))
            with (Z.of_nat (length (a :: r)) + 2 * (Z.of_nat p + Z.of_nat tr))%Z by lia.
          rewrite Z2Nat.id; [reflexivity|].
          unfold py_norm.
          destruct (- Z.of_nat tr <? 0)%Z eqn:E1; destruct (Z.of_nat tr <? 0)%Z eqn:E2; lia.
      - f_equal. rewrite cconv_length, pad0_length. lia. }
    destruct eom.
    - destruct etr as [p|]; [apply (G true p) | reflexivity].
    - destruct has_bw; simpl; [apply (G false tr) | reflexivity].
  Qed.

  (** ** tail of an isolated pulse: [e] samples beyond the end of the input
      the output is bounded by the peak times the kernel mass on the offsets
      [e+1 .. e+len] (this is what the fall time has to cover) *)
  Definition far_set (e L : nat) (k : nat) : bool :=
    (e <? k)%nat && (k <=? e + L)%nat.

  Theorem modulate_tail_bound : forall x eom y p e B,
    Modulate has_bw tr etr kern x false eom = Ok y ->
    sel_pad eom = Some p -> (e < p)%nat -> t0 [<=] B ->
    Forall (fun v => topp B [<=] v /\ v [<=] B) x ->
    let N := (length x + 2 * p)%nat in
    let out := nth (p + length x + e) y t0 in
    let tm := Sumn N (fun k => if far_set e (length x) k then kern eom N k else t0) in
    topp (B [*] tm) [<=] out /\ out [<=] B [*] tm.
  Proof.
    intros x eom y p e B H Hp He HB Hx N out tm.
    apply modulate_plain_spec in H. rewrite Hp in H.
    assert (HN : length (Pad0 p x) = N) by (rewrite pad0_length; reflexivity).
    rewrite HN in H.
    assert (Hn : (p + length x + e < N)%nat) by (unfold N; lia).
    unfold out. subst y.
    rewrite nth_cconv by (rewrite HN; exact Hn). rewrite HN.
    apply (cconvf_tail T t0 t1 tadd tmul tsub topp tle OR (kern eom N) N
             (far_set e (length x)) (Sig (Pad0 p x)) B (p + length x + e)%nat).
    - intros k Hk. apply kern_nonneg; exact Hk.
    - exact Hn.
    - exact HB.
    - intros j Hj. apply (sig_Forall (fun v => topp B [<=] v /\ v [<=] B)).
      + apply Forall_pad0; [|exact Hx]. split.
        * pose proof (opp_le T t0 t1 tadd tmul tsub topp tle OR t0 B HB) as Q.
          replace (topp t0) with t0 in Q by ring. exact Q.
        * exact HB.
      + rewrite HN; exact Hj.
    - intros j Hj Hfar. unfold sig_of, pad0.
      destruct (lt_dec j p) as [J1|J1].
      + rewrite app_nth1 by (rewrite repeat_length; exact J1).
        apply nth_repeat.
      + rewrite app_nth2 by (rewrite repeat_length; lia). rewrite repeat_length.
        destruct (lt_dec (j - p) (length x)) as [J2|J2].
        * exfalso.
          rewrite cidx_val in Hfar by lia.
          replace (j <=? p + length x + e)%nat with true in Hfar
            by (symmetry; apply Nat.leb_le; lia).
          unfold far_set in Hfar.
          apply andb_false_iff in Hfar. destruct Hfar as [F|F].
          -- apply Nat.ltb_ge in F. lia.
          -- apply Nat.leb_gt in F. lia.
        * rewrite app_nth2 by lia.
          destruct (lt_dec (j - p - length x) p) as [J3|J3].
          -- apply nth_repeat.
          -- apply nth_overflow. rewrite repeat_length. lia.
  Qed.
End Chan.
