(** C08 - where the faithful model does NOT satisfy the idealised statement:
    witnesses, evaluated in the kernel. *)
From Coq Require Import ZArith List Bool Lia.
From Coq Require Import PrimFloat.
From PV Require Import Model.Base Model.Param Proofs.ParamCache Proofs.ParamBuild.
Import ListNotations.
Open Scope Z_scope.

Definition r_ofun (_ : Z) (x : float) := x.
Definition r_opow (x _ : float) := x.
Definition r_pcheck (_ _ : list pcall) (_ : pcall) : res unit := Ok tt.
Definition r_setreg (s : Z) (_ : list (Z * Z)) : res Z := Ok s.

(** a concrete builder that only remembers the ORDER in which channels come
    into existence: declare_channel appends the channel's code, and
    config_detuning_map (call 14) appends 9 *)
Definition r_order (s : Z) (c : ccall) : res Z :=
  match c with
  | (1, VS nm :: _) => Ok (s * 10 + nm)
  | (14, _) => Ok (s * 10 + 9)
  | _ => Ok s
  end.

Definition r_heap : heap := [HVar 7; HItem 7 (KI 0)].
Definition r_ps : pstate := mkPs [mkVar 7 true 1 0 None] r_heap.
Definition r_env : list (Z * list num) := [(7, [NI 100])].

Definition c_delay := mkPcall 4 [ARef 1%nat; ALit (VS 1); ALit (VN (NI 0))].
Definition c_detmap := mkPcall 14 [ALit (VS 0); ALit (VS 100)].

(** declare a; delay(x, a); config_detuning_map(m, dmm_0); declare b *)
Definition r_hist_late : list (icall) :=
  [IDeclare false (VS 1) (VS 10) (ALit VNone);
   IStore c_delay c_delay;
   IStore c_detmap c_detmap;
   IDeclare false (VS 2) (VS 11) (ALit VNone)].

Definition r_t0 {S} (live : S) : tmpl S := mkTmpl S true live [] [] [7].

(** *** R1. A channel declared after the first parametrized call is logged
    among the regular calls and therefore replayed BEFORE the stored calls:
    [build] yields the channels in the order a, b, dmm_0 while issuing the
    calls directly yields a, dmm_0, b. *)
Lemma late_declare_reordered_refuted :
  exists t vs1 r,
    trun Z r_order r_pcheck (r_t0 0) r_heap r_hist_late = (t, true) /\
    Forall plain r_hist_late /\
    Forall flat_call (map issued r_hist_late) /\
    assign_all (ps_vars r_ps) (env_known Z t r_env) = (vs1, Ok tt) /\
    snd (build r_ofun r_opow Z r_order r_setreg t 0 None r_ps None r_env) = Ok r /\
    direct_run r_ofun r_opow Z r_order true vs1 r_heap 0 (map issued r_hist_late) = Ok 192 /\
    r = 129.
Proof.
  eexists. eexists. eexists.
  split; [vm_compute; reflexivity|].
  split.
  { repeat constructor; simpl; eauto. }
  split.
  { repeat constructor. }
  split; [vm_compute; reflexivity|].
  split; [vm_compute; reflexivity|].
  split; vm_compute; reflexivity.
Qed.

(** a builder that counts the Parametrized objects it is handed unbuilt *)
Fixpoint r_unbuilt (v : value) : Z :=
  match v with
  | VO cls args =>
      (if cls =? CLS_UNBUILT then 1 else 0) +
      (fix go (l : list value) : Z := match l with [] => 0 | x :: r => r_unbuilt x + go r end) args
  | _ => 0
  end.
Definition r_count (s : Z) (c : ccall) : res Z :=
  Ok (s + fold_left (fun a v => a + r_unbuilt v) (snd c) 0).

(** declare r; target_index([k0, 0], r) *)
Definition c_tidx := mkPcall 3 [AList [LRef 1%nat; LLit (VN (NI 0))]; ALit (VS 1)].
Definition r_hist_nested : list icall :=
  [IDeclare false (VS 1) (VS 10) (ALit VNone); IStore c_tidx c_tidx].

(** *** R2. A variable inside a literal list makes the sequence parametrized
    and is stored, but [build] only builds top-level arguments: the stored
    call is replayed with the Variable object still inside the list. *)
Lemma nested_variable_not_built_refuted :
  exists t vs1,
    trun Z r_count r_pcheck (r_t0 0) r_heap r_hist_nested = (t, true) /\
    Forall plain r_hist_nested /\
    no_late_declare true r_hist_nested /\
    assign_all (ps_vars r_ps) (env_known Z t r_env) = (vs1, Ok tt) /\
    snd (build r_ofun r_opow Z r_count r_setreg t 0 None r_ps None r_env) = Ok 1 /\
    direct_run r_ofun r_opow Z r_count true vs1 r_heap 0 (map issued r_hist_nested) = Ok 0.
Proof.
  eexists. eexists.
  split; [vm_compute; reflexivity|].
  split.
  { repeat constructor; simpl; eauto. }
  split.
  { simpl. repeat split; auto; discriminate. }
  split; [vm_compute; reflexivity|].
  split; vm_compute; reflexivity.
Qed.

(** *** The hypotheses of [build_eq_direct] are satisfiable: the same
    history with the channel declared first satisfies all of them, and the
    two sides agree. *)
Definition r_hist_good : list icall :=
  [IDeclare false (VS 1) (VS 10) (ALit VNone);
   IDeclare false (VS 2) (VS 11) (ALit VNone);
   IStore c_delay c_delay;
   IStore c_detmap c_detmap].

Example build_eq_direct_applies :
  exists t,
    trun Z r_order r_pcheck (r_t0 0) r_heap r_hist_good = (t, true) /\
    Forall plain r_hist_good /\ no_late_declare true r_hist_good /\
    Forall flat_call (map issued r_hist_good) /\
    Inv Z t r_ps /\ t_building t = false /\ cross_check Z t r_env = true /\
    snd (build r_ofun r_opow Z r_order r_setreg t 0 None r_ps None r_env) = Ok 129.
Proof.
  eexists.
  split; [vm_compute; reflexivity|].
  split; [repeat constructor; simpl; eauto|].
  split; [simpl; repeat split; auto; discriminate|].
  split; [repeat constructor|].
  split.
  { constructor; simpl.
    - intros id o E. destruct id as [|[|[|id]]]; simpl in E; discriminate.
    - intros i o E. destruct i as [|[|[|i]]]; simpl in E; discriminate.
    - intros i o n E. destruct i as [|[|[|i]]]; simpl in E; discriminate.
    - intros c [I|[I|[]]] j J; subst; simpl in J.
      + destruct J as [J|[J|[J|[]]]]; inversion J. simpl. lia.
      + destruct J as [J|[J|[]]]; inversion J. }
  split; [reflexivity|].
  split; vm_compute; reflexivity.
Qed.
