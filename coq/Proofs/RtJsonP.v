(** C17 - lemmas about the generic dataclass codec of Model/RtJson.v:
    what [pop_defaults] leaves in the dictionary, what the decoders' field
    loop collects, what the dataclass constructor builds from it; and the
    resulting generic round-trip statement [decode_generic]. *)
From Coq Require Import ZArith List Bool String Lia.
From PV Require Import Model.Base Model.RtJson.
Import ListNotations.
Open Scope string_scope.
Open Scope list_scope.

Lemma seqb_refl : forall s, String.eqb s s = true.
Proof. intros; apply String.eqb_refl. Qed.

Lemma seqb_sym : forall a b, String.eqb a b = String.eqb b a.
Proof.
  intros. destruct (String.eqb_spec a b); destruct (String.eqb_spec b a); congruence.
Qed.

Lemma mem_s_In : forall k l, mem_s k l = true <-> In k l.
Proof.
  unfold mem_s; intros; rewrite existsb_exists; split.
  - intros [x [Hi He]]. apply String.eqb_eq in He; subst; auto.
  - intros; exists k; split; auto. apply seqb_refl.
Qed.

Lemma mem_s_false : forall k l, mem_s k l = false <-> ~ In k l.
Proof.
  intros; rewrite <- mem_s_In. destruct (mem_s k l); split; intros; congruence.
Qed.

Lemma nodup_s_NoDup : forall l, nodup_s l = true -> NoDup l.
Proof.
  induction l; simpl; intros; [constructor|].
  apply andb_true_iff in H as [H1 H2]. constructor; auto.
  apply negb_true_iff in H1. apply mem_s_false in H1; auto.
Qed.

(** ** dictionaries *)
Lemma get_remove_key : forall p l k,
  get k (remove_key p l) = if String.eqb k p then None else get k l.
Proof.
  induction l as [|[k' v] r IH]; simpl; intros.
  - destruct (String.eqb k p); auto.
  - destruct (String.eqb_spec p k').
    + subst. rewrite IH. destruct (String.eqb_spec k k'); auto.
    + simpl. rewrite IH. destruct (String.eqb_spec k k'); auto.
      subst. destruct (String.eqb_spec k' p); congruence.
Qed.

Lemma get_app : forall k a b,
  get k (a ++ b) = match get k a with Some v => Some v | None => get k b end.
Proof.
  induction a as [|[k' v] r IH]; simpl; intros; auto.
  destruct (String.eqb k k'); auto.
Qed.

Lemma get_None_keys : forall k l, get k l = None <-> ~ In k (keys l).
Proof.
  induction l as [|[k' v] r IH]; simpl; split; intros; auto.
  - destruct (String.eqb_spec k k'); [discriminate|].
    intros [E|E]; [congruence|]. apply IH in H; auto.
  - destruct (String.eqb_spec k k'); [subst; tauto|]. apply IH; tauto.
Qed.

Lemma get_Some_keys : forall k l v, get k l = Some v -> In k (keys l).
Proof.
  intros. destruct (in_dec string_dec k (keys l)); auto.
  apply get_None_keys in n; congruence.
Qed.

Lemma has_key_keys : forall k l, has_key k l = true <-> In k (keys l).
Proof.
  unfold has_key; intros. destruct (get k l) eqn:E.
  - split; auto. intros _. eapply get_Some_keys; eauto.
  - split; [discriminate|]. intros. apply get_None_keys in E; tauto.
Qed.

(** ** [pop_defaults] *)
Definition elided (t : table) (params : kvs) (k : string) : bool :=
  match get k params, default_of t k with
  | Some v, Some d => pyeq v d
  | _, _ => false
  end.

Lemma elided_remove_other : forall t params p k,
  k <> p -> elided t (remove_key p params) k = elided t params k.
Proof.
  intros; unfold elided. rewrite get_remove_key.
  destruct (String.eqb_spec k p); congruence.
Qed.

Lemma get_pop : forall strict t opt params e,
  pop_defaults strict t opt params = Some e ->
  forall k, get k e = if mem_s k opt && elided t params k then None else get k params.
Proof.
  induction opt as [|p r IH]; simpl; intros params e H k.
  - inversion H; subst; auto.
  - destruct (get p params) as [v|] eqn:Gp.
    + destruct (default_of t p) as [d|] eqn:Dp; [|discriminate].
      destruct (pyeq v d) eqn:Ev.
      * rewrite (IH _ _ H k). rewrite get_remove_key.
        destruct (String.eqb_spec k p).
        -- subst. simpl. unfold elided at 2. rewrite Gp, Dp, Ev. simpl.
           destruct (mem_s p r && elided t (remove_key p params) p); auto.
        -- simpl. rewrite elided_remove_other by auto. auto.
      * rewrite (IH _ _ H k).
        destruct (String.eqb_spec k p); simpl; auto.
        subst. unfold elided. rewrite Gp, Dp, Ev.
        rewrite andb_false_r. auto.
    + destruct strict; [discriminate|].
      rewrite (IH _ _ H k).
      destruct (String.eqb_spec k p); simpl; auto.
      subst. unfold elided. rewrite Gp. rewrite andb_false_r; auto.
Qed.

(** the encoder does not fail when every optional key is a field with a
    default (and, for the strict form, listed once) *)
Lemma pop_ok_strict : forall t opt params,
  nodup_s opt = true ->
  (forall p, In p opt -> has_key p params = true /\ has_default t p = true) ->
  exists e, pop_defaults true t opt params = Some e.
Proof.
  induction opt as [|p r IH]; simpl; intros params Hn H; eauto.
  apply andb_true_iff in Hn as [Hn1 Hn2].
  destruct (H p (or_introl eq_refl)) as [Hk Hd].
  unfold has_key in Hk. destruct (get p params) eqn:G; [|discriminate].
  unfold has_default in Hd. destruct (default_of t p) eqn:D; [|discriminate].
  destruct (pyeq p0 p1).
  - apply IH; auto. intros q Hq. destruct (H q (or_intror Hq)) as [A B]. split; auto.
    unfold has_key in *. rewrite get_remove_key.
    destruct (String.eqb_spec q p); auto.
    subst. apply negb_true_iff in Hn1. apply mem_s_false in Hn1. tauto.
  - apply IH; auto; intros q Hq; apply H; auto.
Qed.

Lemma pop_ok_lax : forall t opt params,
  (forall p, In p opt -> has_key p params = true -> has_default t p = true) ->
  exists e, pop_defaults false t opt params = Some e.
Proof.
  induction opt as [|p r IH]; simpl; intros params H; eauto.
  destruct (get p params) eqn:G.
  - assert (Hd : has_default t p = true) by (apply H; auto; unfold has_key; rewrite G; auto).
    unfold has_default in Hd. destruct (default_of t p) eqn:D; [|discriminate].
    destruct (pyeq p0 p1).
    + apply IH. intros q Hq Hk. apply H; auto.
      unfold has_key in *. rewrite get_remove_key in Hk.
      destruct (String.eqb q p); auto; discriminate.
    + apply IH. intros; apply H; auto.
  - apply IH. intros; apply H; auto.
Qed.

(** ** tables *)
Lemma find_f_In : forall t f,
  NoDup (names t) -> In f t -> find_f (f_name f) t = Some f.
Proof.
  induction t as [|g r IH]; simpl; intros f Hn Hi; [tauto|].
  inversion Hn; subst.
  destruct Hi as [E|Hi].
  - subst. rewrite seqb_refl. auto.
  - destruct (String.eqb_spec (f_name f) (f_name g)).
    + exfalso. apply H1. rewrite <- e. apply in_map; auto.
    + apply IH; auto.
Qed.

Lemma default_of_In : forall t f,
  NoDup (names t) -> In f t -> default_of t (f_name f) = f_default f.
Proof. intros. unfold default_of. rewrite find_f_In; auto. Qed.

(** ** the field loop *)
Definition loop_takes (ta : table) (skip : list string) (obj : kvs) (f : fdesc) : bool :=
  f_init f && negb (mem_s (f_name f) skip)
  && negb (negb (has_key (f_name f) obj) && has_default ta (f_name f)).

Lemma field_loop_spec : forall ta skip obj conv t,
  NoDup (names t) ->
  (forall f, In f t -> loop_takes ta skip obj f = true ->
             exists v w, get (f_name f) obj = Some v /\ conv (f_name f) v = Some w) ->
  exists ps,
    field_loop ta t skip obj conv = Some ps
    /\ (forall k, ~ In k (names t) -> get k ps = None)
    /\ (forall f, In f t ->
          get (f_name f) ps =
          if loop_takes ta skip obj f then
            match get (f_name f) obj with Some v => conv (f_name f) v | None => None end
          else None).
Proof.
  induction t as [|g r IH]; intros Hn H.
  - exists []. simpl. repeat split; auto. intros; tauto.
  - inversion Hn; subst.
    destruct IH as [ps [E [Hout Hin]]]; auto.
    { intros; apply H; simpl; auto. }
    simpl. fold (loop_takes ta skip obj g).
    destruct (loop_takes ta skip obj g) eqn:T.
    + destruct (H g (or_introl eq_refl) T) as [v [w [Gv Cw]]].
      rewrite Gv, Cw, E. eexists; split; [reflexivity|]. split.
      * intros k Hk. simpl. destruct (String.eqb_spec k (f_name g)).
        -- subst. simpl in Hk. tauto.
        -- apply Hout. simpl in Hk. tauto.
      * intros f [Ef|Hf].
        -- subst. simpl. rewrite seqb_refl, T, Gv. auto.
        -- simpl. destruct (String.eqb_spec (f_name f) (f_name g)).
           ++ exfalso. apply H2. rewrite <- e. apply in_map; auto.
           ++ apply Hin; auto.
    + exists ps; split; auto. split.
      * intros k Hk. apply Hout. simpl in Hk; tauto.
      * intros f [Ef|Hf].
        -- subst. rewrite T. apply Hout; auto.
        -- apply Hin; auto.
Qed.

(** ** the constructor *)
Definition fval (f : fdesc) (params : kvs) : option pv :=
  if f_init f then
    match get (f_name f) params with Some v => Some v | None => f_default f end
  else f_default f.

Lemma construct_fields_F2 : forall (g : string * pv -> pv) params t a,
  Forall2 (fun f kv => fst kv = f_name f /\ fval f params = Some (g kv)) t a ->
  construct_fields t params = Some (map (fun kv => (fst kv, g kv)) a).
Proof.
  induction 1; simpl; auto.
  destruct H as [Hk Hv]. unfold fval in Hv. rewrite Hv, IHForall2, Hk. auto.
Qed.

Lemma Forall2_from_keys : forall (P : fdesc -> string * pv -> Prop) t a,
  keys a = names t ->
  (forall f kv, In f t -> In kv a -> fst kv = f_name f -> P f kv) ->
  Forall2 (fun f kv => fst kv = f_name f /\ P f kv) t a.
Proof.
  induction t as [|f r IH]; intros a Hk H; destruct a as [|kv a]; try discriminate.
  - constructor.
  - simpl in Hk. inversion Hk. constructor.
    + split; auto. apply H; simpl; auto.
    + apply IH; auto. intros; apply H; simpl; auto.
Qed.

Lemma get_of_keys_nodup : forall a kv,
  NoDup (keys a) -> In kv a -> get (fst kv) a = Some (snd kv).
Proof.
  induction a as [|[k v] r IH]; simpl; intros kv Hn Hi; [tauto|].
  inversion Hn; subst. destruct Hi as [E|Hi].
  - subst. simpl. rewrite seqb_refl. auto.
  - destruct (String.eqb_spec (fst kv) k).
    + exfalso. apply H1. rewrite <- e. apply in_map; auto.
    + apply IH; auto.
Qed.

(** ** Generic round trip.  [a] is the attribute dictionary of an instance of
    a dataclass with table [t]; [obj] is what reaches the decoder; [p0] are
    the parameters the decoder computed separately for the fields in [skip].
    If, field by field, the value the constructor ends up with is [dv k v],
    then decoding yields the instance with [dv] applied to every field. *)
Theorem decode_generic :
  forall cls t skip obj conv p0 a (dv : string -> pv -> pv),
  nodup_s (names t) = true ->
  keys a = names t ->
  (forall k, In k (keys p0) -> In k skip /\ In k (init_names t)) ->
  (forall f v, In f t -> get (f_name f) a = Some v ->
     let k := f_name f in
     if f_init f then
       if mem_s k skip then
         match get k p0 with Some x => Some x | None => f_default f end = Some (dv k v)
       else
         match get k obj with
         | Some x => conv k x = Some (dv k v)
         | None => f_default f = Some (dv k v)
         end
     else f_default f = Some (dv k v)) ->
  exists ps,
    field_loop t t skip obj conv = Some ps
    /\ construct cls t (p0 ++ ps)
       = Some (PDict (("__class__", PStr cls)
                      :: map (fun kv => (fst kv, dv (fst kv) (snd kv))) a)).
Proof.
  intros cls t skip obj conv p0 a dv Hnd Hk Hp0 Hf.
  pose proof (nodup_s_NoDup _ Hnd) as ND.
  assert (NDa : NoDup (keys a)) by (rewrite Hk; auto).
  assert (Hval : forall f, In f t -> exists v, get (f_name f) a = Some v).
  { intros f Hi. destruct (get (f_name f) a) eqn:G; eauto.
    apply get_None_keys in G. exfalso. apply G. rewrite Hk. apply in_map; auto. }
  destruct (field_loop_spec t skip obj conv t ND) as [ps [E [Hout Hin]]].
  { intros f Hi T. destruct (Hval f Hi) as [v Gv].
    specialize (Hf f v Hi Gv). simpl in Hf.
    unfold loop_takes in T. apply andb_true_iff in T as [T1 T3].
    apply andb_true_iff in T1 as [T1 T2].
    rewrite T1 in Hf. apply negb_true_iff in T2. rewrite T2 in Hf.
    destruct (get (f_name f) obj) eqn:G; eauto.
    exfalso. apply negb_true_iff in T3.
    unfold has_key in T3. rewrite G in T3. simpl in T3.
    unfold has_default in T3. rewrite (default_of_In t f ND Hi), Hf in T3. discriminate. }
  exists ps; split; auto.
  unfold construct.
  assert (Hkeys : forallb (fun k => mem_s k (init_names t)) (keys (p0 ++ ps)) = true).
  { apply forallb_forall. intros k Hi. apply mem_s_In.
    unfold keys in Hi. rewrite map_app in Hi. apply in_app_or in Hi as [Hi|Hi].
    - apply Hp0; auto.
    - destruct (in_dec string_dec k (names t)) as [Hn|Hn].
      + unfold names in Hn. apply in_map_iff in Hn as [f [Ef Hfi]]. subst k.
        assert (G : get (f_name f) ps <> None).
        { intro G. apply get_None_keys in G. auto. }
        rewrite (Hin f Hfi) in G.
        destruct (loop_takes t skip obj f) eqn:T; [|congruence].
        unfold loop_takes in T. apply andb_true_iff in T as [T _].
        apply andb_true_iff in T as [T _].
        unfold init_names. apply in_map. apply filter_In; auto.
      + exfalso. specialize (Hout k Hn). apply get_None_keys in Hout. auto. }
  rewrite Hkeys.
  rewrite (construct_fields_F2 (fun kv => dv (fst kv) (snd kv)) (p0 ++ ps) t a); auto.
  apply Forall2_from_keys; auto.
  intros f kv Hi Hkv Hfst.
  assert (Gv : get (f_name f) a = Some (snd kv)).
  { rewrite <- Hfst. apply get_of_keys_nodup; auto. }
  specialize (Hf f (snd kv) Hi Gv). simpl in Hf.
  unfold fval. rewrite Hfst.
  destruct (f_init f) eqn:Fi; auto.
  rewrite get_app.
  destruct (mem_s (f_name f) skip) eqn:Sk.
  - destruct (get (f_name f) p0) eqn:G0; auto.
    rewrite (Hin f Hi). unfold loop_takes. rewrite Fi, Sk. simpl. auto.
  - assert (G0 : get (f_name f) p0 = None).
    { apply get_None_keys. intro Hc. apply Hp0 in Hc as [Hc _].
      apply mem_s_In in Hc. congruence. }
    rewrite G0, (Hin f Hi). unfold loop_takes. rewrite Fi, Sk. simpl.
    destruct (get (f_name f) obj) eqn:Go.
    + unfold has_key. rewrite Go. simpl. rewrite Hf. auto.
    + unfold has_key. rewrite Go. simpl.
      unfold has_default. rewrite (default_of_In t f ND Hi), Hf. simpl. auto.
Qed.

(** ** The dataclass codec in one statement: encode by popping the optional
    keys that [==] their default, decode by the field loop and the
    constructor.  Holds for every table with unique field names, every list
    of optional keys and every instance (all field values arbitrary). *)
Definition norm_attrs (t : table) (opt : list string) (a : kvs) : kvs :=
  map (fun kv => (fst kv,
                  if mem_s (fst kv) opt && elided t a (fst kv)
                  then match default_of t (fst kv) with Some d => d | None => snd kv end
                  else snd kv)) a.

Theorem dataclass_roundtrip : forall strict cls t opt a e,
  nodup_s (names t) = true ->
  keys a = names t ->
  (forall f, In f t -> f_init f = false -> get (f_name f) a = f_default f) ->
  pop_defaults strict t opt a = Some e ->
  exists ps,
    field_loop t t [] e (fun _ v => Some v) = Some ps
    /\ construct cls t ps
       = Some (PDict (("__class__", PStr cls) :: norm_attrs t opt a)).
Proof.
  intros strict cls t opt a e Hnd Hk Hni Hpop.
  pose proof (nodup_s_NoDup _ Hnd) as ND.
  destruct (decode_generic cls t [] e (fun _ v => Some v) [] a
              (fun k v => if mem_s k opt && elided t a k
                          then match default_of t k with Some d => d | None => v end
                          else v)) as [ps [E C]]; auto.
  - simpl; tauto.
  - intros f v Hi Gv. simpl.
    pose proof (get_pop _ _ _ _ _ Hpop (f_name f)) as Ge.
    destruct (f_init f) eqn:Fi.
    + rewrite Ge.
      destruct (mem_s (f_name f) opt && elided t a (f_name f)) eqn:El.
      * apply andb_true_iff in El as [_ El]. unfold elided in El.
        rewrite Gv in El. destruct (default_of t (f_name f)) eqn:D; [|discriminate].
        rewrite <- (default_of_In t f ND Hi). auto.
      * rewrite Gv. auto.
    + rewrite <- (Hni f Hi Fi), Gv.
      destruct (mem_s (f_name f) opt && elided t a (f_name f)) eqn:El; auto.
      destruct (default_of t (f_name f)) eqn:D; auto.
      rewrite (default_of_In t f ND Hi), <- (Hni f Hi Fi), Gv in D. congruence.
  - exists ps. split; auto.
Qed.

(** every field of the decoded instance is the original value or a value
    that Python's [==] identifies with it (the class default) *)
Theorem norm_attrs_equal_fields : forall t opt a,
  NoDup (keys a) ->
  Forall2 (fun x y => fst x = fst y
                      /\ (snd y = snd x \/ pyeq (snd x) (snd y) = true))
          a (norm_attrs t opt a).
Proof.
  intros t opt a ND. unfold norm_attrs.
  assert (G : forall l, (forall kv, In kv l -> get (fst kv) a = Some (snd kv)) ->
              Forall2 (fun x y => fst x = fst y /\ (snd y = snd x \/ pyeq (snd x) (snd y) = true))
                l (map (fun kv => (fst kv,
                  if mem_s (fst kv) opt && elided t a (fst kv)
                  then match default_of t (fst kv) with Some d => d | None => snd kv end
                  else snd kv)) l)).
  { induction l; simpl; intros; constructor.
    - split; auto. simpl.
      destruct (mem_s (fst a0) opt && elided t a (fst a0)) eqn:El; auto.
      apply andb_true_iff in El as [_ El]. unfold elided in El.
      rewrite (H a0 (or_introl eq_refl)) in El.
      destruct (default_of t (fst a0)); auto.
    - apply IHl. intros; apply H; auto. }
  apply G. intros. apply get_of_keys_nodup; auto.
Qed.
