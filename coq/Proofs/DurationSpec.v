(** Reported durations: the duration of a channel is the end of its newest
    slot, which is the maximum over all its slots; with fall time it is
    additionally the end of the ramp-down of the most recent pulse, provided
    pulse fall times never exceed twice the channel's rise time (the
    assumption the early exit of the backwards scan relies on). *)
From Coq Require Import ZArith List Bool Lia ZifyBool.
From Coq Require Import Uint63 FloatOps SpecFloat PrimFloat.
From PV Require Import Model.Base Model.Sched Proofs.SchedInv.
Import ListNotations.
Open Scope Z_scope.

(** ends are non-increasing from the newest slot backwards *)
Fixpoint desc (l : list slot) : Prop :=
  match l with
  | [] => True
  | s :: r => match r with [] => True | p :: _ => s_tf p <= s_tf s end /\ desc r
  end.

Lemma tiled_desc g l : tiled g l -> desc l.
Proof.
  induction l as [|s r IH]; cbn [tiled desc]; auto.
  intros [H Ht]. split; auto.
  destruct r as [|p r']; auto.
  destruct H as (H1 & _ & H3 & _). lia.
Qed.

Lemma desc_head_max s r : desc (s :: r) -> forall x, In x r -> s_tf x <= s_tf s.
Proof.
  revert s. induction r as [|p r IH]; intros s [H Hd] x Hin; [destruct Hin|].
  destruct Hin as [<-|Hin]; [exact H|].
  specialize (IH p Hd x Hin). lia.
Qed.

Lemma duration_is_max_end e c s r :
  chan_ok e c -> ch_slots c = s :: r ->
  ch_duration c false = s_tf s /\ forall x, In x (ch_slots c) -> s_tf x <= ch_duration c false.
Proof.
  intros (_ & Ht & _) Hs. unfold ch_duration. rewrite Hs. split; auto.
  intros x [<-|Hin]; [lia|].
  apply tiled_desc in Ht. rewrite Hs in Ht. eapply desc_head_max; eauto.
Qed.

(** the backwards scan of get_duration(include_fall_time=True) *)
Definition falls_bounded (rise2 : Z) (ineom : bool) (l : list slot) : Prop :=
  forall sl p, In sl l -> s_kind sl = KPulse p -> pfall ineom p <= rise2.

Lemma gd_scan_spec rise2 ineom l : forall temp,
  desc l -> falls_bounded rise2 ineom l ->
  (forall x, In x l -> s_tf x <= temp) ->
  gd_scan rise2 ineom temp l =
  match last_pulse_slot false l with
  | Some (sl, p) => Z.max temp (s_tf sl + pfall ineom p)
  | None => temp
  end.
Proof.
  induction l as [|op r IH]; intros temp Hd Hf Hle; cbn [gd_scan last_pulse_slot]; auto.
  destruct (s_kind op) as [| |p] eqn:Ek.
  - (* target *)
    assert (Hd' : desc r) by (destruct Hd; auto).
    assert (Hf' : falls_bounded rise2 ineom r) by (intros sl p Hin; apply Hf; right; auto).
    assert (Hle' : forall x, In x r -> s_tf x <= temp) by (intros x Hin; apply Hle; right; auto).
    destruct (temp - s_tf op >=? rise2) eqn:E; [|apply IH; auto].
    destruct (last_pulse_slot false r) as [[sl p]|] eqn:El; auto.
    assert (Hin : In sl r /\ s_kind sl = KPulse p).
    { clear - El. induction r as [|a r IH]; cbn [last_pulse_slot] in El; [discriminate|].
      destruct (s_kind a) eqn:Ea; try (destruct (IH El); split; [right|]; auto; fail).
      cbn in El. inversion El; subst. split; [left|]; auto. }
    destruct Hin as [Hin Hk].
    pose proof (desc_head_max _ _ Hd _ Hin).
    pose proof (Hf sl p (or_intror Hin) Hk). lia.
  - (* delay *)
    assert (Hd' : desc r) by (destruct Hd; auto).
    assert (Hf' : falls_bounded rise2 ineom r) by (intros sl p Hin; apply Hf; right; auto).
    assert (Hle' : forall x, In x r -> s_tf x <= temp) by (intros x Hin; apply Hle; right; auto).
    destruct (temp - s_tf op >=? rise2) eqn:E; [|apply IH; auto].
    destruct (last_pulse_slot false r) as [[sl p]|] eqn:El; auto.
    assert (Hin : In sl r /\ s_kind sl = KPulse p).
    { clear - El. induction r as [|a r IH]; cbn [last_pulse_slot] in El; [discriminate|].
      destruct (s_kind a) eqn:Ea; try (destruct (IH El); split; [right|]; auto; fail).
      cbn in El. inversion El; subst. split; [left|]; auto. }
    destruct Hin as [Hin Hk].
    pose proof (desc_head_max _ _ Hd _ Hin).
    pose proof (Hf sl p (or_intror Hin) Hk). lia.
  - cbn. reflexivity.
Qed.

Theorem duration_with_fall_spec e c :
  chan_ok e c ->
  falls_bounded (2 * c_rise (ch_cfg c)) (in_eom c) (ch_slots c) ->
  ch_duration c true =
  match last_pulse_slot false (ch_slots c) with
  | Some (sl, p) => Z.max (ch_duration c false) (s_tf sl + pfall (in_eom c) p)
  | None => ch_duration c false
  end.
Proof.
  intros (Hg & Ht & Hb) Hf. unfold ch_duration.
  destruct (ch_slots c) as [|op r] eqn:Hs; [reflexivity|].
  apply gd_scan_spec; auto.
  - eapply tiled_desc; eauto.
  - intros x [<-|Hin]; [lia|]. apply tiled_desc in Ht. eapply desc_head_max; eauto.
Qed.

(** the sequence duration is the maximum over the channels *)
Lemma fold_max_spec (f : chan -> Z) l : forall a,
  let m := fold_left (fun a c => Z.max a (f c)) l a in
  a <= m /\ (forall c, In c l -> f c <= m) /\ (m = a \/ exists c, In c l /\ m = f c).
Proof.
  induction l as [|c l IH]; intros a; cbn [fold_left].
  - split; [lia|]. split; [intros c []|auto].
  - destruct (IH (Z.max a (f c))) as (H1 & H2 & H3). cbn zeta in *.
    split; [lia|]. split.
    + intros c' [<-|Hin]; [lia|auto].
    + destruct H3 as [H3|(c' & Hin & H3)].
      * destruct (Z.max_spec a (f c)) as [[_ E]|[_ E]].
        -- right. exists c. split; [left; auto|]. rewrite H3. exact E.
        -- left. rewrite H3. exact E.
      * right. exists c'. split; [right|]; auto.
Qed.

Theorem sequence_duration_is_max s fall m :
  sched_duration s None fall = Ok m ->
  (forall c, In c s -> ch_duration c fall <= m) /\
  (m = 0 \/ exists c, In c s /\ m = ch_duration c fall).
Proof.
  cbn. intros H. inversion H; subst. clear H.
  destruct (fold_max_spec (fun c => ch_duration c fall) s 0) as (H1 & H2 & H3). auto.
Qed.
