(** Lifting of the schedule invariants to the sequence state machine
    (Model/Seq.v): every building call and every query, successful or not,
    only extends channel timelines (prefix-wise: new channels are appended)
    and keeps every timeline tiled, clock-aligned and within the device's
    maximum sequence duration.  By induction: every reachable state. *)
From Coq Require Import ZArith List Bool Lia ZifyBool.
From Coq Require Import Uint63 FloatOps SpecFloat PrimFloat.
From PV Require Import Model.Base Model.Sched Model.Seq Proofs.SchedInv Proofs.SchedOps.
Import ListNotations.
Open Scope Z_scope.

Ltac inv H := inversion H; subst; clear H.
Tactic Notation "mbind" hyp(H) ident(s1) ident(a) ident(H1) :=
  apply bind_inv in H;
  let er := fresh "er" in
  destruct H as [(s1 & a & H1 & H) | (er & H1 & ->)].

Tactic Notation "mbindok" hyp(H) ident(s1) ident(a) ident(H1) :=
  apply bind_inv in H;
  let er := fresh "er" in
  let Hr := fresh "Hr" in
  destruct H as [(s1 & a & H1 & H) | (er & H1 & Hr)]; [|discriminate Hr].

(** prefix-wise extension of a schedule: same channels position by position,
    each one extended, possibly followed by newly declared channels *)
Section WithSenv.
Variable v : senv.
Notation e := (env_of v).

Inductive sxp : sched -> sched -> Prop :=
| sxp_nil l : sxp [] l
| sxp_cons a b s s' : chan_ext e a b -> sxp s s' -> sxp (a :: s) (b :: s').

Lemma sxp_refl s : sxp s s.
Proof. induction s; constructor; auto. apply chan_ext_refl. Qed.

Lemma sxp_trans a b c : sxp a b -> sxp b c -> sxp a c.
Proof.
  intros H. revert c. induction H; intros c' H'.
  - constructor.
  - inv H'. constructor; eauto using chan_ext_trans.
Qed.

Lemma sx_sxp s s' : sx e s s' -> sxp s s'.
Proof. induction 1; constructor; auto. Qed.

Lemma sxp_app s l : sxp s (s ++ l).
Proof. induction s; cbn; constructor; auto. apply chan_ext_refl. Qed.

(** what sxp means for an individual channel *)
Lemma sxp_find n s s' c :
  sxp s s' -> find_chan n s = Some c ->
  exists c', find_chan n s' = Some c' /\ chan_ext e c c'.
Proof.
  induction 1 as [|a b s s' Hab Hs IH]; cbn [find_chan]; [discriminate|].
  assert (En : ch_name b = ch_name a) by (destruct Hab; auto).
  rewrite En. destruct (ch_name a =? n).
  - intros E; inv E. eauto.
  - auto.
Qed.

Definition senv_ok : Prop :=
  env_ok e /\
  Forall (fun x => cfg_ok (snd x) /\ cfg_amp_ok (snd x)) (d_chans (v_dev v)) /\
  Forall (fun x => cfg_ok (snd x) /\ cfg_amp_ok (snd x)) (d_dmms (v_dev v)).

Definition seq_ok (s : seq) : Prop := Forall (chan_ok e) (q_sched s).

Definition qsafe {A} (m : QM A) : Prop :=
  forall s s' r, seq_ok s -> m s = (s', r) ->
                 sxp (q_sched s) (q_sched s') /\ seq_ok s'.

(** computations that do not touch the schedule *)
Definition qkeep {A} (m : QM A) : Prop :=
  forall s s' r, m s = (s', r) -> q_sched s' = q_sched s.

Lemma qkeep_qsafe {A} (m : QM A) : qkeep m -> qsafe m.
Proof.
  intros Hk s s' r Hok H. apply Hk in H. unfold seq_ok. rewrite H.
  split; [apply sxp_refl|exact Hok].
Qed.

Lemma qsafe_bind {A B} (m : QM A) (f : A -> QM B) :
  qsafe m -> (forall a, qsafe (f a)) -> qsafe (bind m f).
Proof.
  intros Hm Hf s s' r Hok H. mbind H s1 a H1.
  - destruct (Hm _ _ _ Hok H1) as [X1 O1].
    destruct (Hf a _ _ _ O1 H) as [X2 O2].
    split; [eapply sxp_trans; eauto|auto].
  - eapply Hm; eauto.
Qed.

(** bind with a post-condition on the intermediate result *)
Lemma qsafe_bind_post {A B} (m : QM A) (f : A -> QM B) (P : seq -> A -> Prop) :
  qsafe m ->
  (forall s s1 a, m s = (s1, Ok a) -> P s1 a) ->
  (forall a s s' r, seq_ok s -> P s a -> f a s = (s', r) ->
                    sxp (q_sched s) (q_sched s') /\ seq_ok s') ->
  qsafe (bind m f).
Proof.
  intros Hm HP Hf s s' r Hok H. mbind H s1 a H1.
  - destruct (Hm _ _ _ Hok H1) as [X1 O1].
    destruct (Hf a _ _ _ O1 (HP _ _ _ H1) H) as [X2 O2].
    split; [eapply sxp_trans; eauto|auto].
  - eapply Hm; eauto.
Qed.

Lemma qkeep_bind {A B} (m : QM A) (f : A -> QM B) :
  qkeep m -> (forall a, qkeep (f a)) -> qkeep (bind m f).
Proof.
  intros Hm Hf s s' r H. mbind H s1 a H1.
  - apply Hm in H1. apply Hf in H. congruence.
  - eapply Hm; eauto.
Qed.

Lemma qkeep_ret {A} (a : A) : qkeep (ret a : QM A).
Proof. intros s s' r H. apply ret_inv in H. destruct H as [-> _]. auto. Qed.
Lemma qkeep_fail {A} er : qkeep (fail er : QM A).
Proof. intros s s' r H. apply fail_inv in H. destruct H as [-> _]. auto. Qed.
Lemma qkeep_lift {A} (x : res A) : qkeep (lift x : QM A).
Proof. intros s s' r H. apply lift_inv in H. destruct H as [-> _]. auto. Qed.
Lemma qkeep_get : qkeep (get : QM seq).
Proof. intros s s' r H. apply get_inv in H. destruct H as [-> _]. auto. Qed.
Lemma qkeep_guard b er : qkeep (guard b er).
Proof. unfold guard. destruct b; [apply qkeep_fail|apply qkeep_ret]. Qed.
Lemma qkeep_modify f : (forall s, q_sched (f s) = q_sched s) -> qkeep (modify f).
Proof. intros Hf s s' r H. unfold modify in H. inv H. auto. Qed.

Lemma qkeep_log o : qkeep (log_call o).
Proof. apply qkeep_modify. reflexivity. Qed.
Lemma qkeep_bim : qkeep block_if_measured.
Proof.
  unfold block_if_measured. apply qkeep_bind; [apply qkeep_get|].
  intros s. destruct (q_measured s); [apply qkeep_fail|apply qkeep_ret].
Qed.
Lemma qkeep_mne : qkeep mark_non_empty.
Proof. apply qkeep_modify. reflexivity. Qed.

Lemma qkeep_declared n : qkeep (declared n).
Proof.
  unfold declared. apply qkeep_bind; [apply qkeep_get|]. intros s.
  destruct (find_chan n (q_sched s)); [apply qkeep_ret|apply qkeep_fail].
Qed.

Lemma qkeep_validate_channel n b : qkeep (validate_channel n b).
Proof.
  unfold validate_channel. apply qkeep_bind; [apply qkeep_declared|]. intros c.
  apply qkeep_bind; [apply qkeep_guard|]. intros _. apply qkeep_ret.
Qed.

Lemma qkeep_upd_ref b q f : qkeep (upd_ref b q f).
Proof. apply qkeep_modify. reflexivity. Qed.

Lemma qkeep_mapM {A} (f : A -> QM unit) l : (forall a, qkeep (f a)) -> qkeep (mapM_ f l).
Proof.
  intros Hf. induction l as [|a l IH]; cbn [mapM_]; [apply qkeep_ret|].
  apply qkeep_bind; auto.
Qed.

Lemma qsafe_mapM {A} (f : A -> QM unit) l : (forall a, qsafe (f a)) -> qsafe (mapM_ f l).
Proof.
  intros Hf. induction l as [|a l IH]; cbn [mapM_]; [apply qkeep_qsafe, qkeep_ret|].
  apply qsafe_bind; auto.
Qed.

Lemma qkeep_phase_shift phi qs b : qkeep (phase_shift_ v phi qs b).
Proof.
  unfold phase_shift_. apply qkeep_bind; [apply qkeep_get|]. intros s.
  destruct (assoc b (q_refs s)); [|apply qkeep_fail].
  apply qkeep_bind; [apply qkeep_guard|]. intros _.
  apply qkeep_mapM. intros q. apply qkeep_upd_ref.
Qed.

(** schedule-level computations lifted to the sequence *)
Lemma qsafe_onsched {A} (m : SM A) : safe e m -> qsafe (onsched m).
Proof.
  intros Hm s s' r Hok H. unfold onsched in H.
  destruct (m (q_sched s)) as [x r0] eqn:E. inv H. cbn.
  pose proof (Hm _ _ _ Hok E) as X. split; [apply sx_sxp; auto|].
  unfold seq_ok; cbn. eapply sx_ok; eauto.
Qed.

Lemma qkeep_onsched_pure {A} (m : SM A) : pure_m m -> qkeep (onsched m).
Proof.
  intros Hm s s' r H. unfold onsched in H.
  destruct (m (q_sched s)) as [x r0] eqn:E. inv H. cbn. eapply Hm; eauto.
Qed.

Ltac qk :=
  repeat first
    [ apply qkeep_ret | apply qkeep_fail | apply qkeep_lift | apply qkeep_get
    | apply qkeep_guard | apply qkeep_log | apply qkeep_bim | apply qkeep_mne
    | apply qkeep_declared | apply qkeep_validate_channel | apply qkeep_upd_ref
    | apply qkeep_phase_shift
    | apply qkeep_onsched_pure; auto with msafe
    | apply qkeep_modify; reflexivity
    | apply qkeep_mapM; intros
    | apply qkeep_bind; [|intros] ].

(** * The building calls *)
Lemma qsafe_target ids nq n : qsafe (target_ v ids nq n).
Proof.
  unfold target_.
  apply qsafe_bind; [apply qkeep_qsafe; qk|]. intros _.
  apply qsafe_bind; [apply qkeep_qsafe; qk|]. intros c.
  apply qsafe_bind; [apply qkeep_qsafe; qk|]. intros _.
  apply qsafe_bind; [apply qkeep_qsafe; qk|]. intros _.
  apply qsafe_bind; [apply qkeep_qsafe; qk|]. intros _.
  apply qsafe_bind; [apply qkeep_qsafe; qk|]. intros ids'.
  apply qsafe_bind; [apply qkeep_qsafe; qk|]. intros _.
  apply qsafe_bind; [apply qkeep_qsafe; qk|]. intros s.
  apply qsafe_bind; [apply qkeep_qsafe; qk|]. intros _.
  apply qsafe_onsched. apply safe_add_target.
Qed.

Lemma qsafe_delay d n ar : qsafe (delay_ v d n ar).
Proof.
  unfold delay_.
  apply qsafe_bind; [apply qkeep_qsafe; qk|]. intros _.
  apply qsafe_bind; [apply qkeep_qsafe; qk|]. intros c.
  apply qsafe_bind.
  - destruct ar; [apply qsafe_onsched, safe_wait_for_fall|apply qkeep_qsafe; qk].
  - intros _. destruct (d =? 0); [apply qkeep_qsafe; qk|].
    apply qsafe_onsched, safe_add_delay.
Qed.

(** the pulse handed to the scheduler fits its channel *)
Lemma validate_and_adjust_fits c u pr p :
  cfg_ok (ch_cfg c) -> validate_and_adjust v c u pr = Ok p -> pulse_fits (ch_cfg c) p.
Proof.
  intros Hg H. unfold validate_and_adjust in H.
  assert (Hamp : match c_maxamp (ch_cfg c) with Some m => f_gt (u_amax u) m = false | None => True end).
  { assert (Hv : forall g, validate_pulse g u = Ok tt ->
                 match c_maxamp g with Some m => f_gt (u_amax u) m = false | None => True end).
    { intros g Hv. unfold validate_pulse in Hv. destruct (c_maxamp g) as [m|]; [|exact I].
      destruct (f_gt (u_amax u) m); [discriminate|reflexivity]. }
    destruct (c_dmm (ch_cfg c)).
    - destruct (ch_map c) as [mp|]; [|discriminate].
      destruct (assoc mp (v_maps v)) as [w|]; [|discriminate].
      unfold validate_pulse_dmm in H.
      destruct (validate_pulse (ch_cfg c) u) as [[]|] eqn:Ev; [|discriminate]. apply Hv; auto.
    - destruct (validate_pulse (ch_cfg c) u) as [[]|] eqn:Ev; [|discriminate]. apply Hv; auto. }
  match type of H with rbind ?X _ = _ => destruct X; [|discriminate] end.
  cbn [rbind] in H.
  destruct (validate_duration (ch_cfg c) (u_dur u)) as [d'|] eqn:E; [|discriminate].
  cbn [rbind] in H.
  destruct (negb (d' =? u_dur u) && negb (u_ext u)); [discriminate|].
  inv H. unfold pulse_fits; cbn.
  apply validate_duration_spec in E; auto.
  destruct E as (E1 & E2 & E3 & E4 & _). split; [lia|]. split; [auto|].
  unfold pamp_ok; cbn. exact Hamp.
Qed.

Lemma declared_inv n s s' r :
  declared n s = (s', r) ->
  s' = s /\ match r with Ok c => find_chan n (q_sched s) = Some c | Err _ => True end.
Proof.
  unfold declared. intros H. mbind H s1 s0 H1.
  - apply get_inv in H1. destruct H1 as [-> H1]. inv H1.
    destruct (find_chan n (q_sched _)).
    + apply ret_inv in H. destruct H as [-> ->]. auto.
    + apply fail_inv in H. destruct H as [-> ->]. auto.
  - apply get_inv in H1. destruct H1 as [_ H1]. discriminate.
Qed.

Lemma add_prepare_spec u n s s' c last p bs :
  add_prepare v u n s = (s', Ok (c, last, p, bs)) ->
  s' = s /\ find_chan n (q_sched s) = Some c /\
  (cfg_ok (ch_cfg c) -> pulse_fits (ch_cfg c) p).
Proof.
  intros H. unfold add_prepare in H.
  mbindok H s1 c0 H1.
  apply declared_inv in H1. destruct H1 as [-> Hc].
  mbindok H s2 l0 H2.
  assert (s2 = s).
  { unfold onsched in H2. destruct (last_slot n (q_sched s)) as [x r0] eqn:E.
    apply pure_last_slot in E. subst x. inv H2. destruct s; reflexivity. }
  subst s2.
  mbindok H s3 s0 H3. apply get_inv in H3. destruct H3 as [-> H3]. inv H3.
  mbindok H s4 u4 H4.
  assert (s4 = s).
  { unfold guard in H4. destruct (_ && _) in H4.
    - apply fail_inv in H4. tauto.
    - apply ret_inv in H4. tauto. }
  subst s4.
  mbindok H s5 p5 H5. apply lift_inv in H5. destruct H5 as [-> H5].
  apply ret_inv in H. destruct H as [-> H]. inv H.
  split; auto. split; auto. intros Hg. eapply validate_and_adjust_fits; eauto.
Qed.

Lemma qkeep_add_prepare u n : qkeep (add_prepare v u n).
Proof. unfold add_prepare. qk. Qed.

Lemma qsafe_add u n proto dp : qsafe (add_ v u n proto dp).
Proof.
  unfold add_.
  apply qsafe_bind; [apply qkeep_qsafe; qk|]. intros _.
  apply (qsafe_bind_post _ _
           (fun s x => let '(c, _, p, _) := x in
                       find_chan n (q_sched s) = Some c /\
                       (cfg_ok (ch_cfg c) -> pulse_fits (ch_cfg c) p))).
  - apply qkeep_qsafe, qkeep_add_prepare.
  - intros s s1 [[[c last] p] bs] H. apply add_prepare_spec in H.
    destruct H as (-> & H1 & H2). auto.
  - intros [[[c last] p] bs] s s' r Hok [Hc Hp] H.
    assert (Hg : cfg_ok (ch_cfg c)).
    { pose proof (find_chan_ok e _ _ _ Hok Hc) as (Hg & _). exact Hg. }
    specialize (Hp Hg).
    revert s s' r Hok Hc H.
    change (forall s s' r, seq_ok s -> find_chan n (q_sched s) = Some c ->
              (onsched (add_pulse e p n bs proto dp) ;;;
               (new <- onsched (last_slot n) ;;
                (mapM_ (fun q => upd_ref (c_basis (ch_cfg c)) q
                                   (fun r => update_last_used r (s_tf new))) (s_tg last) ;;;
                 (if f_ne match dp with
                          | Some d => (p_post p - calc_phase_drift d (s_ti new))%float
                          | None => p_post p end zero
                  then phase_shift_ v match dp with
                          | Some d => (p_post p - calc_phase_drift d (s_ti new))%float
                          | None => p_post p end (s_tg last) (c_basis (ch_cfg c))
                  else ret tt)))) s = (s', r) ->
              sxp (q_sched s) (q_sched s') /\ seq_ok s').
    intros s s' r Hok Hc H.
    mbind H s1 u1 H1.
    + assert (X : sxp (q_sched s) (q_sched s1) /\ seq_ok s1).
      { unfold onsched in H1.
        destruct (add_pulse e p n bs proto dp (q_sched s)) as [x r0] eqn:E. inv H1. cbn.
        assert (sx e (q_sched s) x).
        { eapply add_pulse_sx; eauto. intros c0 Hc0. rewrite Hc in Hc0. inv Hc0. auto. }
        split; [apply sx_sxp; auto|]. unfold seq_ok; cbn. eapply sx_ok; eauto. }
      destruct X as [X1 O1].
      assert (K : qkeep (new <- onsched (last_slot n) ;;
                (mapM_ (fun q => upd_ref (c_basis (ch_cfg c)) q
                                   (fun r => update_last_used r (s_tf new))) (s_tg last) ;;;
                 (if f_ne match dp with
                          | Some d => (p_post p - calc_phase_drift d (s_ti new))%float
                          | None => p_post p end zero
                  then phase_shift_ v match dp with
                          | Some d => (p_post p - calc_phase_drift d (s_ti new))%float
                          | None => p_post p end (s_tg last) (c_basis (ch_cfg c))
                  else ret tt)))).
      { qk. destruct (f_ne _ zero); qk. }
      apply K in H. unfold seq_ok. rewrite H. split; auto.
    + unfold onsched in H1.
      destruct (add_pulse e p n bs proto dp (q_sched s)) as [x r0] eqn:E. inv H1. cbn.
      assert (sx e (q_sched s) x).
      { eapply add_pulse_sx; eauto. intros c0 Hc0. rewrite Hc in Hc0. inv Hc0. auto. }
      split; [apply sx_sxp; auto|]. unfold seq_ok; cbn. eapply sx_ok; eauto.
Qed.

(** appending the first slot of a freshly declared channel *)
Lemma find_chan_app_new n l c :
  find_chan n l = None -> ch_name c = n -> find_chan n (l ++ [c]) = Some c.
Proof.
  induction l as [|a l IH]; cbn [find_chan app].
  - intros _ ->. rewrite Z.eqb_refl. reflexivity.
  - destruct (ch_name a =? n); [discriminate|auto].
Qed.

Lemma assoc_in {A} k (l : list (Z * A)) a : assoc k l = Some a -> In (k, a) l.
Proof.
  induction l as [|[k' a'] l IH]; cbn [assoc]; [discriminate|].
  destruct (k' =? k) eqn:E.
  - intros X; inv X. apply Z.eqb_eq in E. subst. left; auto.
  - intros X. right; auto.
Qed.

Lemma new_chan_first_slot name id cfg m qs s :
  senv_ok -> cfg_ok cfg /\ cfg_amp_ok cfg -> seq_ok s -> find_chan name (q_sched s) = None ->
  let s1 := set_sched s (q_sched s ++ [new_chan name id cfg m]) in
  seq_ok s1 /\ sxp (q_sched s) (q_sched s1) /\
  forall s2 r, onsched (append_slot name {| s_kind := KTarget; s_ti := -1; s_tf := 0; s_tg := qs |}) s1 = (s2, r) ->
               sxp (q_sched s1) (q_sched s2) /\ seq_ok s2.
Proof.
  intros (He & _) [Hg Hga] Hok Hn s1.
  assert (O1 : seq_ok s1).
  { unfold seq_ok, s1; cbn. apply Forall_app. split; auto. constructor; [|constructor].
    unfold SchedInv.chan_ok, new_chan; cbn. split; [auto|]. split; [auto|]. split; [constructor|]. split; [auto|constructor]. }
  split; auto. split; [unfold s1; cbn; apply sxp_app|].
  intros s2 r H. unfold onsched in H.
  match type of H with (let (_, _) := ?X in _) = _ => destruct X as [x r0] eqn:E end.
  inv H. cbn.
  assert (sx e (q_sched s1) x).
  { replace x with (fst (append_slot name {| s_kind := KTarget; s_ti := -1; s_tf := 0; s_tg := qs |} (q_sched s1)))
      by (rewrite E; reflexivity).
    eapply append_slot_sx.
    - unfold s1; cbn. apply find_chan_app_new; auto.
    - unfold fits, new_chan, first_ok, amp_ok; cbn. auto. }
  split; [apply sx_sxp; auto|]. unfold seq_ok; cbn. eapply sx_ok; eauto.
Qed.

Lemma qkeep_set_mag b : qkeep (set_magnetic_field b).
Proof.
  unfold set_magnetic_field. qk.
  - destruct (negb (q_inxy a)); qk.
  - destruct b as [[bx by_] bz]. qk.
Qed.

Lemma qkeep_ensure_basis b : qkeep (ensure_basis v b).
Proof.
  unfold ensure_basis. apply qkeep_modify. intros s.
  destruct (assoc b (q_refs s)); reflexivity.
Qed.

Lemma qkeep_qk_xy cfg (s0 : seq) :
  qkeep (if c_basis cfg =? 2 then
           (if negb (q_inxy s0) then set_magnetic_field default_mag else ret tt) ;;;
           modify (fun s => set_inxy s true)
         else modify (fun s => set_inising s true)).
Proof.
  destruct (c_basis cfg =? 2); qk.
  destruct (negb (q_inxy s0)); [apply qkeep_set_mag|qk].
Qed.

Lemma qsafe_declare name chid init : senv_ok -> qsafe (declare_channel v name chid init).
Proof.
  intros Hv. unfold declare_channel.
  apply qsafe_bind; [apply qkeep_qsafe; qk|]. intros _.
  apply qsafe_bind; [apply qkeep_qsafe; qk|]. intros _.
  intros s s' r Hok H.
  mbind H s1 s0 H1; apply get_inv in H1; destruct H1 as [-> H1]; [|split; [apply sxp_refl|auto]].
  inv H1.
  mbind H s2 u2 H2.
  2:{ apply qkeep_guard in H2. unfold seq_ok. rewrite H2. split; [apply sxp_refl|auto]. }
  destruct (find_chan name (q_sched s)) eqn:Hn.
  { apply fail_inv in H2. destruct H2 as [_ H2]. discriminate. }
  apply ret_inv in H2. destruct H2 as [-> _].
  destruct (assoc chid (d_chans (v_dev v))) as [cfg|] eqn:Ha.
  2:{ apply fail_inv in H. destruct H as [-> _]. split; [apply sxp_refl|auto]. }
  assert (Hg : cfg_ok cfg /\ cfg_amp_ok cfg).
  { destruct Hv as (_ & Hc & _). rewrite Forall_forall in Hc.
    apply assoc_in in Ha. apply (Hc _ Ha). }
  mbind H s3 u3 H3.
  2:{ apply qkeep_guard in H3. unfold seq_ok. rewrite H3. split; [apply sxp_refl|auto]. }
  apply qkeep_guard in H3.
  mbind H s4 u4 H4.
  2:{ assert (K : q_sched s' = q_sched s3).
      { apply (qkeep_qk_xy cfg s) in H4. exact H4. }
      unfold seq_ok. rewrite K, H3. split; [apply sxp_refl|auto]. }
  assert (K4 : q_sched s4 = q_sched s).
  { rewrite <- H3. apply (qkeep_qk_xy cfg s) in H4. exact H4. }
  assert (Hok4 : seq_ok s4) by (unfold seq_ok; rewrite K4; auto).
  assert (Hn4 : find_chan name (q_sched s4) = None) by (rewrite K4; auto).
  mbind H s5 u5 H5; [|inv H5].
  unfold modify in H5. inv H5.
  destruct (new_chan_first_slot name chid cfg None (all_qids_sorted v) s4 Hv Hg Hok4 Hn4)
    as (O5 & X5 & Hfirst).
  set (s5 := set_sched s4 (q_sched s4 ++ [new_chan name chid cfg None])) in *.
  assert (X05 : sxp (q_sched s) (q_sched s5)) by (rewrite <- K4; auto).
  mbind H s6 u6 H6.
  2:{ apply qkeep_ensure_basis in H6. unfold seq_ok. rewrite H6. split; auto. }
  apply qkeep_ensure_basis in H6.
  assert (O6 : seq_ok s6) by (unfold seq_ok; rewrite H6; auto).
  assert (X06 : sxp (q_sched s) (q_sched s6)) by (rewrite H6; auto).
  assert (Hmid : forall s7 r7,
    (if negb (c_local cfg)
     then onsched (append_slot name {| s_kind := KTarget; s_ti := -1; s_tf := 0;
                                       s_tg := all_qids_sorted v |})
     else match init with
          | Some qs => target_ v (Ok qs) (Z.of_nat (length (to_set qs))) name
          | None => ret tt
          end) s6 = (s7, r7) -> sxp (q_sched s6) (q_sched s7) /\ seq_ok s7).
  { intros s7 r7 G. destruct (negb (c_local cfg)).
    - assert (E6 : s6 = set_sched s6 (q_sched s5)) by (rewrite <- H6; destruct s6; reflexivity).
      (* the append acts on the schedule only *)
      unfold onsched in G. rewrite H6 in G.
      match type of G with (let (_, _) := ?X in _) = _ => destruct X as [x r0] eqn:E end.
      injection G as G1 G2. subst s7. cbn.
      specialize (Hfirst (set_sched s5 x) r0).
      unfold onsched in Hfirst. rewrite E in Hfirst. specialize (Hfirst eq_refl).
      cbn in Hfirst. rewrite H6. exact Hfirst.
    - destruct init as [qs|].
      + eapply qsafe_target; eauto.
      + apply ret_inv in G. destruct G as [-> _]. split; [apply sxp_refl|auto]. }
  mbind H s7 u7 H7.
  - destruct (Hmid _ _ H7) as [X7 O7].
    apply qkeep_log in H. unfold seq_ok. rewrite H.
    split; [eapply sxp_trans; eauto|auto].
  - destruct (Hmid _ _ H7) as [X7 O7].
    split; [eapply sxp_trans; eauto|auto].
Qed.

Lemma qsafe_config_detmap mapid dmm : senv_ok -> qsafe (config_detuning_map v mapid dmm).
Proof.
  intros Hv. unfold config_detuning_map.
  destruct (assoc dmm (d_dmms (v_dev v))) as [cfg|] eqn:Ha; [|apply qkeep_qsafe; qk].
  assert (Hg : cfg_ok cfg /\ cfg_amp_ok cfg).
  { destruct Hv as (_ & _ & Hc). rewrite Forall_forall in Hc.
    apply assoc_in in Ha. apply (Hc _ Ha). }
  apply qsafe_bind; [apply qkeep_qsafe; qk|]. intros s0.
  apply qsafe_bind; [apply qkeep_qsafe; qk|]. intros _.
  apply qsafe_bind; [apply qkeep_qsafe; qk|]. intros _.
  apply qsafe_bind; [apply qkeep_qsafe; qk|]. intros _.
  intros s s' r Hok H.
  mbind H s1 sg H1; apply get_inv in H1; destruct H1 as [-> H1]; [|split; [apply sxp_refl|auto]].
  inv H1.
  set (name := dmm + dmm_count s dmm) in *.
  mbind H s2 u2 H2.
  2:{ apply qkeep_guard in H2. unfold seq_ok. rewrite H2. split; [apply sxp_refl|auto]. }
  destruct (find_chan name (q_sched s)) eqn:Hn.
  { apply fail_inv in H2. destruct H2 as [_ H2]. discriminate. }
  apply ret_inv in H2. destruct H2 as [-> _].
  mbind H s5 u5 H5; [|inv H5].
  unfold modify in H5. inv H5.
  destruct (new_chan_first_slot name dmm cfg (Some mapid) (all_qids_sorted v) s Hv Hg Hok Hn)
    as (O5 & X5 & Hfirst).
  set (s5 := set_sched s (q_sched s ++ [new_chan name dmm cfg (Some mapid)])) in *.
  mbind H s6 u6 H6.
  2:{ apply qkeep_ensure_basis in H6. unfold seq_ok. rewrite H6. split; auto. }
  apply qkeep_ensure_basis in H6.
  unfold onsched in H. rewrite H6 in H.
  match type of H with (let (_, _) := ?X in _) = _ => destruct X as [x r0] eqn:E end.
  injection H as G1 G2. subst s'. cbn.
  specialize (Hfirst (set_sched s5 x) r0).
  unfold onsched in Hfirst. rewrite E in Hfirst. specialize (Hfirst eq_refl).
  cbn in Hfirst. destruct Hfirst as [F1 F2].
  split; [eapply sxp_trans; eauto|exact F2].
Qed.

Lemma qkeep_chan_duration n f : qkeep (chan_duration n f).
Proof. unfold chan_duration. qk. Qed.

Lemma qsafe_enable_eom_mode n a d oo o c : qsafe (enable_eom_mode v n a d oo o c).
Proof.
  unfold enable_eom_mode.
  apply qsafe_bind; [apply qkeep_qsafe; qk|]. intros _.
  apply qsafe_bind; [apply qkeep_qsafe; qk|]. intros ch.
  apply qsafe_bind; [apply qkeep_qsafe; qk|]. intros _.
  apply qsafe_bind; [apply qkeep_qsafe; qk|]. intros _.
  apply qsafe_bind; [apply qkeep_qsafe; qk|]. intros _.
  apply qsafe_bind; [apply qkeep_qsafe, qkeep_chan_duration|]. intros ti.
  apply qsafe_bind; [apply qsafe_onsched, safe_enable_eom|]. intros _.
  apply qsafe_bind; [|intros _; apply qkeep_qsafe; qk].
  destruct c; apply qkeep_qsafe; qk.
Qed.

Lemma qsafe_modify_eom n a d oo o c : qsafe (modify_eom_setpoint v n a d oo o c).
Proof.
  unfold modify_eom_setpoint.
  apply qsafe_bind; [apply qkeep_qsafe; qk|]. intros _.
  apply qsafe_bind; [apply qkeep_qsafe; qk|]. intros ch.
  apply qsafe_bind; [apply qkeep_qsafe; qk|]. intros _.
  apply qsafe_bind; [apply qkeep_qsafe; qk|]. intros _.
  apply qsafe_bind; [apply qsafe_onsched, safe_disable_eom|]. intros _.
  apply qsafe_bind; [apply qkeep_qsafe; qk|]. intros c1.
  apply qsafe_bind; [apply qkeep_qsafe, qkeep_chan_duration|]. intros ti.
  apply qsafe_bind; [apply qsafe_onsched, safe_enable_eom|]. intros _.
  apply qsafe_bind; [|intros _; apply qkeep_qsafe; qk].
  destruct c; apply qkeep_qsafe; qk.
Qed.

Lemma qsafe_disable_eom_mode n c : qsafe (disable_eom_mode v n c).
Proof.
  unfold disable_eom_mode.
  apply qsafe_bind; [apply qkeep_qsafe; qk|]. intros _.
  apply qsafe_bind; [apply qkeep_qsafe; qk|]. intros ch.
  apply qsafe_bind; [apply qkeep_qsafe; qk|]. intros _.
  apply qsafe_bind; [apply qsafe_onsched, safe_disable_eom|]. intros _.
  apply qsafe_bind; [|intros _; apply qkeep_qsafe; qk].
  destruct c; apply qkeep_qsafe; qk.
Qed.

Lemma qsafe_add_eom_pulse n d ph po proto c : qsafe (add_eom_pulse v n d ph po proto c).
Proof.
  unfold add_eom_pulse.
  apply qsafe_bind; [apply qkeep_qsafe; qk|]. intros _.
  apply qsafe_bind; [apply qkeep_qsafe; qk|]. intros ch.
  apply qsafe_bind; [apply qkeep_qsafe; qk|]. intros _.
  apply qsafe_bind; [apply qkeep_qsafe; qk|]. intros _.
  destruct (ch_eoms ch) as [|b rest]; [apply qkeep_qsafe; qk|].
  apply qsafe_bind; [apply qkeep_qsafe; qk|]. intros _.
  apply qsafe_bind; [apply qsafe_add|]. intros _.
  apply qkeep_qsafe; qk.
Qed.

Lemma qsafe_align chs ar : qsafe (align v chs ar).
Proof.
  unfold align.
  apply qsafe_bind; [apply qkeep_qsafe; qk|]. intros _.
  apply qsafe_bind; [apply qkeep_qsafe; qk|]. intros s.
  apply qsafe_bind; [apply qkeep_qsafe; qk|]. intros _.
  apply qsafe_bind; [apply qkeep_qsafe; qk|]. intros _.
  apply qsafe_bind; [apply qkeep_qsafe; qk|]. intros _.
  apply qsafe_bind; [|intros _; apply qkeep_qsafe; qk].
  apply qsafe_mapM. intros n.
  apply qsafe_bind; [apply qkeep_qsafe; qk|]. intros c.
  destruct (_ >? 0); [|apply qkeep_qsafe; qk].
  apply qsafe_bind; [apply qkeep_qsafe; qk|]. intros d.
  apply qsafe_delay.
Qed.

Lemma qkeep_measure b : qkeep (measure v b).
Proof. unfold measure. qk. Qed.

Lemma pure_mnps p n bs proto dp block : pure_m (make_next_pulse_slot e p n bs proto dp block).
Proof.
  unfold make_next_pulse_slot.
  apply pure_bind; [auto with msafe|]. intros last.
  apply pure_bind; [auto with msafe|]. intros c.
  apply pure_bind; [auto with msafe|]. intros s.
  match goal with |- pure_m (let '(cur, pjb) := ?X in _) => destruct X as [cur pjb] end.
  apply pure_bind.
  - destruct (_ >? 0); auto with msafe.
  - intros dd'. apply pure_bind; [auto with msafe|]. intros _. auto with msafe.
Qed.

Lemma qkeep_estimate u n proto : qkeep (estimate_added_delay v u n proto).
Proof.
  unfold estimate_added_delay. qk.
  destruct a1 as [[[c last] p] bs]. qk. apply pure_mnps.
Qed.

(** * Every call *)
Ltac qk2 :=
  repeat first
    [ apply qkeep_measure | apply qkeep_set_mag | apply qkeep_estimate | apply pure_mnps
    | progress qk
    | match goal with |- qkeep (match ?x with _ => _ end) => destruct x end ].

Lemma qsafe_step o : senv_ok -> qsafe (step_m v o).
Proof.
  intros Hv. destruct o; cbn [step_m].
  - apply qsafe_bind; [apply qsafe_declare; auto|]. intros _. apply qkeep_qsafe; qk.
  - apply qsafe_bind; [apply qsafe_target|]. intros _. apply qkeep_qsafe; qk.
  - apply qsafe_bind; [apply qsafe_target|]. intros _. apply qkeep_qsafe; qk.
  - apply qsafe_bind; [apply qsafe_delay|]. intros _. apply qkeep_qsafe; qk.
  - apply qsafe_bind; [apply qkeep_qsafe; qk|]. intros _.
    apply qsafe_bind; [apply qkeep_qsafe; qk|]. intros c.
    apply qsafe_bind; [apply qkeep_qsafe; qk|]. intros _.
    apply qsafe_bind; [apply qsafe_add|]. intros _. apply qkeep_qsafe; qk.
  - apply qsafe_bind; [apply qsafe_align|]. intros _. apply qkeep_qsafe; qk.
  - apply qkeep_qsafe; qk2.
  - apply qkeep_qsafe; qk2.
  - apply qsafe_bind; [apply qsafe_enable_eom_mode|]. intros _. apply qkeep_qsafe; qk.
  - apply qsafe_bind; [apply qsafe_modify_eom|]. intros _. apply qkeep_qsafe; qk.
  - apply qsafe_bind; [apply qsafe_disable_eom_mode|]. intros _. apply qkeep_qsafe; qk.
  - apply qsafe_bind; [apply qsafe_add_eom_pulse|]. intros _. apply qkeep_qsafe; qk.
  - apply qkeep_qsafe; qk2.
  - apply qsafe_bind; [apply qkeep_qsafe; qk|]. intros _.
    apply qsafe_bind; [apply qsafe_config_detmap; auto|]. intros _. apply qkeep_qsafe; qk.
  - apply qsafe_bind; [apply qkeep_qsafe; qk|]. intros _.
    apply qsafe_bind; [apply qkeep_qsafe; qk|]. intros c.
    apply qsafe_bind; [apply qkeep_qsafe; qk|]. intros _.
    apply qsafe_bind; [apply qsafe_add|]. intros _. apply qkeep_qsafe; qk.
  - apply qkeep_qsafe; qk2.
  - apply qkeep_qsafe; qk2.
  - apply qkeep_qsafe; qk2.
  - apply qkeep_qsafe; qk2.
  - apply qkeep_qsafe; qk2.
  - apply qkeep_qsafe; qk2.
Qed.

Lemma seq0_ok : seq_ok seq0.
Proof. constructor. Qed.

Lemma step_ok s o :
  senv_ok -> seq_ok s ->
  sxp (q_sched s) (q_sched (fst (step v s o))) /\ seq_ok (fst (step v s o)).
Proof.
  intros Hv Hok. unfold step. destruct (step_m v o s) as [s' r] eqn:E.
  eapply qsafe_step; eauto.
Qed.

Lemma run_from_ok ops : senv_ok -> forall s, seq_ok s ->
  sxp (q_sched s) (q_sched (fold_left (fun s o => fst (step v s o)) ops s)) /\
  seq_ok (fold_left (fun s o => fst (step v s o)) ops s).
Proof.
  intros Hv. induction ops as [|o ops IH]; intros s Hok; cbn [fold_left].
  - split; [apply sxp_refl|auto].
  - destruct (step_ok s o Hv Hok) as [X O].
    destruct (IH _ O) as [X2 O2]. split; [eapply sxp_trans; eauto|auto].
Qed.

Lemma run_ok ops : senv_ok -> seq_ok (run v ops).
Proof. intros Hv. apply run_from_ok; auto. apply seq0_ok. Qed.

End WithSenv.
