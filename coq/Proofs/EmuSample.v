(** C11 - sampling: [np.searchsorted] on the cumulative sums returns index [i]
    exactly for draws in ( c_{i-1}, c_i ], so index [i] is hit with probability
    [p_i]; detection errors flip a bit iff its draw is below the rate selected
    by the bit's value.  The order lemmas are proved for an abstract strict
    weak order (floats without NaN are one; the run-time instance is checked
    for sortedness inside Coq on every case), the counting statements over [Z]. *)
From Coq Require Import ZArith List Bool Lia.
From PV Require Import Model.Base Model.Emu Proofs.EmuMeas.
Import ListNotations.
Open Scope Z_scope.

Section Order.
  Variable T : Type.
  Variable ltb : T -> T -> bool.
  Variable dflt : T.
  Hypothesis ltb_irrefl : forall a, ltb a a = false.
  (** a <= b -> b <= c -> a <= c *)
  Hypothesis geb_trans : forall a b c, ltb b a = false -> ltb c b = false -> ltb c a = false.
  (** a <= b -> b < c -> a < c *)
  Hypothesis le_lt_trans : forall a b c, ltb b a = false -> ltb b c = true -> ltb a c = true.

  Definition nthT (arr : list T) (j : Z) : T := nth (Z.to_nat j) arr dflt.

  Lemma sortedb_head : forall a r, sortedb ltb (a :: r) = true ->
    forall x, In x r -> ltb x a = false.
  Proof.
    intros a r. revert a. induction r as [|b r IH]; intros a H x Hin; [inversion Hin|].
    cbn [sortedb] in H. apply andb_true_iff in H. destruct H as [H1 H2].
    apply negb_true_iff in H1. destruct Hin as [<- | Hin]; [exact H1|].
    apply (geb_trans a b x); [exact H1 | apply (IH b H2 x Hin)].
  Qed.

  Lemma sortedb_tail : forall a r, sortedb ltb (a :: r) = true -> sortedb ltb r = true.
  Proof.
    intros a r H. destruct r; [reflexivity|].
    cbn [sortedb] in H. apply andb_true_iff in H. apply H.
  Qed.

  Lemma sortedb_nth : forall arr, sortedb ltb arr = true ->
    forall i j, (i <= j < length arr)%nat -> ltb (nth j arr dflt) (nth i arr dflt) = false.
  Proof.
    induction arr as [|a r IH]; intros H i j Hij; [simpl in Hij; lia|].
    destruct i as [|i].
    - destruct j as [|j]; [simpl; apply ltb_irrefl|].
      simpl. apply (sortedb_head a r H). apply nth_In. simpl in Hij. lia.
    - destruct j as [|j]; [lia|]. simpl.
      apply IH; [apply (sortedb_tail a r H) | simpl in Hij; lia].
  Qed.

  Lemma sorted_le : forall arr, sortedb ltb arr = true ->
    forall i j, 0 <= i <= j -> j < Z.of_nat (length arr) ->
    ltb (nthT arr j) (nthT arr i) = false.
  Proof. intros. unfold nthT. apply sortedb_nth; [assumption | lia]. Qed.

  Definition bracket (arr : list T) (key : T) (i : Z) : Prop :=
    0 <= i <= Z.of_nat (length arr)
    /\ (forall j, 0 <= j < i -> ltb (nthT arr j) key = true)
    /\ (forall j, i <= j < Z.of_nat (length arr) -> ltb (nthT arr j) key = false).

  Definition inv (arr : list T) (key : T) (imin imax : Z) : Prop :=
    0 <= imin <= imax /\ imax <= Z.of_nat (length arr)
    /\ (forall j, 0 <= j < imin -> ltb (nthT arr j) key = true)
    /\ (forall j, imax <= j < Z.of_nat (length arr) -> ltb (nthT arr j) key = false).

  (** numpy's binary search keeps its invariant on a sorted array *)
  Lemma bsearch_inv : forall arr key, sortedb ltb arr = true ->
    forall fuel imin imax, inv arr key imin imax -> imax - imin < Z.of_nat fuel ->
    bracket arr key (bsearch ltb arr key fuel imin imax).
  Proof.
    intros arr key Hs. induction fuel as [|f IH]; intros imin imax Hinv Hf.
    - destruct Hinv as [? _]. simpl in Hf. lia.
    - cbn [bsearch]. destruct Hinv as (H0 & H1 & Hlo & Hhi).
      destruct (Z.ltb_spec imin imax) as [Hlt|Hge].
      + set (mid := imin + (imax - imin) / 2).
        assert (Hmid : imin <= mid < imax).
        { unfold mid. pose proof (Z.div_pos (imax - imin) 2 ltac:(lia) ltac:(lia)).
          assert ((imax - imin) / 2 < imax - imin) by (apply Z.div_lt_upper_bound; lia). lia. }
        rewrite (nth_error_nth' arr dflt) by lia.
        change (nth (Z.to_nat mid) arr dflt) with (nthT arr mid).
        destruct (ltb (nthT arr mid) key) eqn:E.
        * apply IH.
          -- repeat split; try lia.
             ++ intros j Hj. apply (le_lt_trans (nthT arr j) (nthT arr mid) key).
                ** apply sorted_le; [assumption | lia | lia].
                ** exact E.
             ++ exact Hhi.
          -- lia.
        * apply IH.
          -- repeat split; try lia.
             ++ exact Hlo.
             ++ intros j Hj. destruct (ltb (nthT arr j) key) eqn:E2; [|reflexivity].
                assert (ltb (nthT arr mid) key = true) as Q.
                { apply (le_lt_trans (nthT arr mid) (nthT arr j) key).
                  - apply sorted_le; [assumption | lia | lia].
                  - exact E2. }
                congruence.
          -- unfold mid in *. lia.
      + assert (imin = imax) by lia. subst imax.
        repeat split; try lia; assumption.
  Qed.

  Theorem searchsorted_bracket : forall arr key, sortedb ltb arr = true ->
    bracket arr key (searchsorted ltb arr key).
  Proof.
    intros arr key Hs. unfold searchsorted. apply bsearch_inv; [assumption | |lia].
    repeat split; try lia; intros; lia.
  Qed.

  (** index [i] is returned exactly when the key lies in ( c_{i-1}, c_i ] *)
  Theorem searchsorted_iff : forall arr key i, sortedb ltb arr = true ->
    0 <= i <= Z.of_nat (length arr) ->
    (searchsorted ltb arr key = i
     <-> (i = 0 \/ ltb (nthT arr (i - 1)) key = true)
         /\ (i = Z.of_nat (length arr) \/ ltb (nthT arr i) key = false)).
  Proof.
    intros arr key i Hs Hi.
    destruct (searchsorted_bracket arr key Hs) as (Hr & Hlo & Hhi).
    set (r := searchsorted ltb arr key) in *. split.
    - intros <-. split.
      + destruct (Z.eq_dec r 0); [left; assumption | right; apply Hlo; lia].
      + destruct (Z.eq_dec r (Z.of_nat (length arr))); [left; assumption | right; apply Hhi; lia].
    - intros [Ha Hb].
      destruct (Z.lt_trichotomy r i) as [Hlt | [Heq | Hgt]]; [|assumption|].
      + destruct Ha as [-> | Ha]; [lia|].
        rewrite Hhi in Ha by lia. discriminate.
      + destruct Hb as [-> | Hb]; [lia|].
        rewrite Hlo in Hb by lia. discriminate.
  Qed.

  (** * Detection errors *)
  Theorem flip_bit_iff : forall rate0 rate1 bit u, bit = 0 \/ bit = 1 ->
    (flip_bit ltb rate0 rate1 bit u <> bit
     <-> ltb u (if bit =? 1 then rate1 else rate0) = true).
  Proof.
    intros rate0 rate1 bit u Hb. unfold flip_bit.
    destruct (ltb u (if bit =? 1 then rate1 else rate0)); split; intros H;
      try reflexivity; try discriminate; try congruence.
    destruct Hb; subst; lia.
  Qed.

  Theorem flip_bit_is_bit : forall rate0 rate1 bit u, bit = 0 \/ bit = 1 ->
    flip_bit ltb rate0 rate1 bit u = 0 \/ flip_bit ltb rate0 rate1 bit u = 1.
  Proof.
    intros. unfold flip_bit. destruct (ltb u _); destruct H; subst; auto.
  Qed.
End Order.

(** * The integers are an instance: the hypotheses are satisfiable *)
Lemma Zltb_irrefl : forall a, Z.ltb a a = false.
Proof. intros. apply Z.ltb_irrefl. Qed.
Lemma Zgeb_trans : forall a b c, Z.ltb b a = false -> Z.ltb c b = false -> Z.ltb c a = false.
Proof. intros a b c H1 H2. apply Z.ltb_ge in H1, H2. apply Z.ltb_ge. lia. Qed.
Lemma Zle_lt_trans : forall a b c, Z.ltb b a = false -> Z.ltb b c = true -> Z.ltb a c = true.
Proof. intros a b c H1 H2. apply Z.ltb_ge in H1. apply Z.ltb_lt in H2. apply Z.ltb_lt. lia. Qed.

(** * Counting: with integer weights [ws] summing to [N], exactly [ws_i] of the
    [N] equally likely draws 1..N select index [i]. *)
Definition in_oc (a b u : Z) : bool := (a <? u) && (u <=? b).

Lemma count_interval : forall n s a b,
  Z.of_nat (length (filter (in_oc a b) (zrange_from s n)))
  = Z.max 0 (Z.min b (s + Z.of_nat n - 1) - Z.max a (s - 1)).
Proof.
  induction n as [|n IH]; intros s a b.
  - simpl. lia.
  - cbn [zrange_from filter]. unfold in_oc at 1.
    destruct (Z.ltb_spec a s); destruct (Z.leb_spec s b); cbn [andb length];
      rewrite ?Nat2Z.inj_succ, IH; lia.
Qed.

Fixpoint cumsum_z_from (acc : Z) (l : list Z) : list Z :=
  match l with [] => [] | x :: r => (acc + x) :: cumsum_z_from (acc + x) r end.

Lemma cumsum_from_eq : forall l acc, cumsum_from Z.add acc l = cumsum_z_from acc l.
Proof. induction l; intros; simpl; [reflexivity | rewrite IHl; reflexivity]. Qed.

Lemma cumsum_eq : forall l, cumsum Z.add l = cumsum_z_from 0 l.
Proof. destruct l; [reflexivity|]. simpl. rewrite cumsum_from_eq. reflexivity. Qed.

Lemma cumsum_z_length : forall l acc, length (cumsum_z_from acc l) = length l.
Proof. induction l; intros; simpl; [reflexivity | rewrite IHl; reflexivity]. Qed.

(** c_i = acc + w_0 + ... + w_i *)
Lemma cumsum_z_nth : forall l acc i, (i < length l)%nat ->
  nth i (cumsum_z_from acc l) 0 = acc + zsum (firstn (S i) l).
Proof.
  induction l as [|x l IH]; intros acc i Hi; [simpl in Hi; lia|].
  destruct i as [|i].
  - simpl. lia.
  - cbn [cumsum_z_from nth]. rewrite IH by (simpl in Hi; lia).
    cbn [firstn zsum fold_right]. fold (zsum (firstn (S i) l)). lia.
Qed.

Lemma zsum_firstn_nonneg : forall l k, Forall (fun w => 0 <= w) l -> 0 <= zsum (firstn k l).
Proof.
  induction l as [|x l IH]; intros k H; destruct k; cbn [firstn zsum fold_right]; try lia.
  pose proof (Forall_inv H) as Hx. cbv beta in Hx. pose proof (Forall_inv_tail H) as Hr.
  specialize (IH k Hr). unfold zsum in IH. lia.
Qed.

Lemma zsum_nonneg : forall l, Forall (fun w => 0 <= w) l -> 0 <= zsum l.
Proof.
  intros l H. pose proof (zsum_firstn_nonneg l (length l) H) as Q.
  rewrite firstn_all in Q. exact Q.
Qed.

Lemma zsum_firstn_le : forall l k, Forall (fun w => 0 <= w) l -> zsum (firstn k l) <= zsum l.
Proof.
  induction l as [|x l IH]; intros k H; destruct k; cbn [firstn zsum fold_right]; try lia.
  - pose proof (zsum_nonneg (x :: l) H) as Q. cbn [zsum fold_right] in Q. exact Q.
  - pose proof (Forall_inv_tail H) as Hr. specialize (IH k Hr). unfold zsum in IH. lia.
Qed.

Lemma zsum_firstn_S : forall l i, (i < length l)%nat ->
  zsum (firstn (S i) l) = zsum (firstn i l) + nth i l 0.
Proof.
  induction l as [|x l IH]; intros i Hi; [simpl in Hi; lia|].
  destruct i as [|i]; [simpl; lia|].
  change (firstn (S (S i)) (x :: l)) with (x :: firstn (S i) l).
  change (firstn (S i) (x :: l)) with (x :: firstn i l).
  change (nth (S i) (x :: l) 0) with (nth i l 0).
  change (zsum (x :: firstn (S i) l)) with (x + zsum (firstn (S i) l)).
  change (zsum (x :: firstn i l)) with (x + zsum (firstn i l)).
  rewrite IH by (simpl in Hi; lia). lia.
Qed.

Lemma cumsum_z_sorted : forall l acc, Forall (fun w => 0 <= w) l ->
  sortedb Z.ltb (cumsum_z_from acc l) = true.
Proof.
  induction l as [|x l IH]; intros acc H; [reflexivity|].
  pose proof (Forall_inv_tail H) as Hr. cbn [cumsum_z_from].
  destruct l as [|y l]; [reflexivity|].
  cbn [cumsum_z_from sortedb]. apply andb_true_iff. split.
  - pose proof (Forall_inv Hr) as Hy. cbv beta in Hy. apply negb_true_iff. apply Z.ltb_ge. lia.
  - apply (IH (acc + x) Hr).
Qed.

(** index [i] of a distribution with integer weights is selected by exactly
    [w_i] of the draws 1..N: its sampling probability is w_i / N *)
Theorem sampling_hits : forall ws N i,
  Forall (fun w => 0 <= w) ws -> zsum ws = N -> (i < length ws)%nat ->
  Z.of_nat (length (filter (fun u => searchsorted Z.ltb (cumsum Z.add ws) u =? Z.of_nat i)
                           (zrange_from 1 (Z.to_nat N))))
  = nth i ws 0.
Proof.
  intros ws N i Hpos HN Hi.
  rewrite cumsum_eq.
  set (cs := cumsum_z_from 0 ws).
  assert (Hs : sortedb Z.ltb cs = true) by (apply cumsum_z_sorted; assumption).
  assert (Hlen : length cs = length ws) by apply cumsum_z_length.
  set (a := zsum (firstn i ws)). set (b := zsum (firstn (S i) ws)).
  assert (Hab : b = a + nth i ws 0) by (apply zsum_firstn_S; assumption).
  assert (Ha0 : 0 <= a) by (apply zsum_firstn_nonneg; assumption).
  assert (HbN : b <= N) by (subst N; apply zsum_firstn_le; assumption).
  assert (Hwi : 0 <= nth i ws 0).
  { rewrite Forall_forall in Hpos. apply Hpos. apply nth_In. assumption. }
  rewrite (filter_ext_in _ (in_oc a b)).
  - rewrite count_interval. lia.
  - intros u Hu. apply zrange_from_In in Hu.
    pose proof (searchsorted_iff Z Z.ltb 0 Zltb_irrefl Zgeb_trans Zle_lt_trans cs u (Z.of_nat i) Hs
                  ltac:(lia)) as Hiff.
    unfold in_oc.
    assert (Hci : nthT Z 0 cs (Z.of_nat i) = b).
    { unfold nthT, cs. rewrite Nat2Z.id. rewrite cumsum_z_nth by assumption. reflexivity. }
    assert (Hcp : i <> 0%nat -> nthT Z 0 cs (Z.of_nat i - 1) = a).
    { intros Hne. unfold nthT, cs. replace (Z.to_nat (Z.of_nat i - 1)) with (pred i) by lia.
      rewrite cumsum_z_nth by lia. replace (S (pred i)) with i by lia. reflexivity. }
    destruct (Z.eqb_spec (searchsorted Z.ltb cs u) (Z.of_nat i)) as [E|E].
    + apply Hiff in E. destruct E as [E1 E2].
      assert (a < u).
      { destruct E1 as [E1|E1].
        - assert (i = 0%nat) by lia. subst i. unfold a. simpl. lia.
        - destruct i; [unfold a; simpl; lia|]. rewrite Hcp in E1 by lia. apply Z.ltb_lt in E1. lia. }
      assert (u <= b).
      { destruct E2 as [E2|E2]; [lia|]. rewrite Hci in E2. apply Z.ltb_ge in E2. lia. }
      destruct (Z.ltb_spec a u); destruct (Z.leb_spec u b); try lia; reflexivity.
    + destruct (Z.ltb_spec a u); destruct (Z.leb_spec u b); try reflexivity.
      exfalso. apply E. apply Hiff. split.
      * destruct i; [left; reflexivity|]. right. rewrite Hcp by lia. apply Z.ltb_lt. lia.
      * right. rewrite Hci. apply Z.ltb_ge. lia.
Qed.

(** a bit is flipped by exactly [P] of the [N] equally likely draws 0..N-1
    when its rate is P/N *)
Theorem flip_count : forall P N bit r0 r1, 0 <= P <= N ->
  (if bit =? 1 then r1 else r0) = P -> bit = 0 \/ bit = 1 ->
  Z.of_nat (length (filter (fun u => negb (flip_bit Z.ltb r0 r1 bit u =? bit))
                           (zrange_from 0 (Z.to_nat N)))) = P.
Proof.
  intros P N bit r0 r1 HP Hr Hb.
  rewrite (filter_ext_in _ (in_oc (-1) (P - 1))).
  - rewrite count_interval. lia.
  - intros u Hu. apply zrange_from_In in Hu. unfold flip_bit, in_oc. rewrite Hr.
    destruct (Z.ltb_spec u P); destruct (Z.ltb_spec (-1) u); destruct (Z.leb_spec u (P - 1));
      try lia; destruct Hb; subst bit; reflexivity.
Qed.

Example sampling_example :
  map (fun i => length (filter (fun u => searchsorted Z.ltb (cumsum Z.add [2; 0; 3; 1]) u =? i)
                               (zrange_from 1 6))) [0; 1; 2; 3]
  = [2; 0; 3; 1]%nat.
Proof. vm_compute. reflexivity. Qed.
