(** C08 - a mappable register is resolved to exactly the requested traps, in
    declared qubit order; index-based targeting resolves against that order. *)
From Coq Require Import ZArith List Bool Lia.
From PV Require Import Model.Base Model.Param.
Import ListNotations.
Open Scope Z_scope.

Lemma zmem_In' : forall x l, zmem x l = true <-> In x l.
Proof.
  unfold zmem. intros. rewrite existsb_exists. split.
  - intros [y [I E]]. apply Z.eqb_eq in E. now subst.
  - intros I. exists x. split; auto. apply Z.eqb_refl.
Qed.

Lemma zmem_false : forall x l, zmem x l = false <-> ~ In x l.
Proof.
  intros. rewrite <- zmem_In'. destruct (zmem x l); split; intros; try discriminate; auto.
  exfalso; auto.
Qed.

Lemma zsubset_incl : forall a b, zsubset a b = true <-> incl a b.
Proof.
  unfold zsubset, incl. intros. rewrite forallb_forall. split; intros H x I.
  - apply zmem_In'. auto.
  - apply zmem_In'. auto.
Qed.

Lemma zassoc_in : forall q id, In id (map fst q) -> exists t, zassoc q id = Some t.
Proof.
  induction q as [|[a b] q IH]; simpl; intros id I; [contradiction|].
  destruct (a =? id) eqn:E; eauto.
  destruct I as [I|I]; [apply Z.eqb_neq in E; congruence|auto].
Qed.

Lemma zassoc_In : forall q id t, zassoc q id = Some t -> In (id, t) q.
Proof.
  induction q as [|[a b] q IH]; simpl; intros id t H; [discriminate|].
  destruct (a =? id) eqn:E.
  - apply Z.eqb_eq in E. inversion H; subst. now left.
  - right. auto.
Qed.

Section Ordered.
  Variable qubits : list (Z * Z).
  Let chosen := map fst qubits.
  Let g := fun id : Z => if zmem id chosen
                         then match zassoc qubits id with Some t => [(id, t)] | None => [] end
                         else [].

  Lemma ordered_fst : forall l, map fst (flat_map g l) = filter (fun id => zmem id chosen) l.
  Proof.
    induction l as [|x l IH]; simpl; auto.
    rewrite map_app, IH. unfold g at 1.
    destruct (zmem x chosen) eqn:M; simpl; auto.
    apply zmem_In' in M. destruct (zassoc_in qubits x M) as [t ->]. reflexivity.
  Qed.

  Lemma ordered_requested : forall l id t,
      In (id, t) (flat_map g l) -> zassoc qubits id = Some t.
  Proof.
    intros l id t I. apply in_flat_map in I as [x [_ I]]. unfold g in I.
    destruct (zmem x chosen); [|contradiction].
    destruct (zassoc qubits x) eqn:Z; [|contradiction].
    destruct I as [I|[]]. inversion I; subst. exact Z.
  Qed.
End Ordered.

Lemma filter_all : forall A (f : A -> bool) l, (forall x, In x l -> f x = true) -> filter f l = l.
Proof.
  induction l; simpl; intros H; auto. rewrite H by now left. f_equal. apply IHl.
  intros; apply H; now right.
Qed.

Lemma filter_none : forall A (f : A -> bool) l, (forall x, In x l -> f x = false) -> filter f l = [].
Proof.
  induction l; simpl; intros H; auto. rewrite H by now left. apply IHl.
  intros; apply H; now right.
Qed.

Lemma NoDup_app_disjoint : forall (a b : list Z) x, NoDup (a ++ b) -> In x a -> In x b -> False.
Proof.
  induction a as [|y a IH]; simpl; intros b x N Ia Ib; [contradiction|].
  inversion N as [|? ? N1 N2]; subst.
  destruct Ia as [->|Ia].
  - apply N1. apply in_or_app. now right.
  - eapply IH; eauto.
Qed.

Lemma nth_error_firstn_lt : forall A (l : list A) n i,
    (i < n)%nat -> nth_error (firstn n l) i = nth_error l i.
Proof.
  induction l; destruct n; destruct i; simpl; intros; auto; try lia.
  apply IHl. lia.
Qed.

Lemma znodup_NoDup : forall l, znodup l = true -> NoDup l.
Proof.
  induction l as [|x l IH]; simpl; intros H; constructor.
  - apply andb_true_iff in H as [H _]. apply negb_true_iff in H. now apply zmem_false.
  - apply andb_true_iff in H as [_ H]. auto.
Qed.

(** *** T7. On success the register holds exactly the first [n] pre-declared
    ids, in declared order, each on the trap that was requested for it;
    the traps are distinct traps of the layout; and index [i] denotes the
    [i]-th declared id. *)
Theorem mappable_resolve : forall declared ntraps qubits reg,
    NoDup declared -> NoDup (map fst qubits) ->
    build_register declared ntraps qubits = Ok reg ->
    map fst reg = firstn (length qubits) declared /\
    length reg = length qubits /\
    (forall id t, In (id, t) reg -> zassoc qubits id = Some t /\ In (id, t) qubits) /\
    NoDup (map snd reg) /\
    (forall id t, In (id, t) reg -> 0 <= t < ntraps) /\
    (forall i, 0 <= i < Z.of_nat (length qubits) ->
               exists id, resolve_index reg i = Ok id /\
                          nth_error declared (Z.to_nat i) = Some id).
Proof.
  intros declared ntraps qubits reg ND NQ B.
  unfold build_register in B.
  set (chosen := map fst qubits) in *.
  set (n := length chosen) in *.
  set (pre := firstn n declared) in *.
  destruct (zsubset chosen declared) eqn:S1; simpl in B; [|discriminate].
  destruct (zsubset chosen pre) eqn:S2; simpl in B; [|discriminate].
  destruct (zsubset pre chosen) eqn:S3; simpl in B; [|discriminate].
  match type of B with context [flat_map ?G declared] => set (ordered := flat_map G declared) in * end.
  destruct (znodup (map snd ordered)) eqn:S4; simpl in B; [|discriminate].
  destruct (forallb _ (map snd ordered)) eqn:S5; simpl in B; [|discriminate].
  assert (R : reg = ordered) by (destruct ordered; inversion B; auto).
  subst reg. clear B.
  apply zsubset_incl in S1, S2, S3.
  assert (Ln : length qubits = n) by (unfold n, chosen; now rewrite map_length).
  assert (F : map fst ordered = pre).
  { unfold ordered, chosen. rewrite (ordered_fst qubits declared). fold chosen.
    rewrite <- (firstn_skipn n declared) at 1. fold pre.
    rewrite filter_app.
    rewrite filter_all.
    2:{ intros x I. apply zmem_In'. auto. }
    rewrite filter_none; [apply app_nil_r|].
    intros x I. apply zmem_false. intros C. apply S2 in C.
    rewrite <- (firstn_skipn n declared) in ND. fold pre in ND.
    eapply NoDup_app_disjoint; eauto. }
  assert (Lp : length pre = n).
  { assert (n <= length pre)%nat.
    { unfold n. apply NoDup_incl_length; auto. }
    unfold pre in *. rewrite firstn_length in *. lia. }
  assert (Lo : length ordered = n).
  { rewrite <- (map_length fst ordered), F. exact Lp. }
  rewrite Ln.
  split; [exact F|]. split; [exact Lo|].
  split.
  { intros id t I. pose proof (ordered_requested qubits declared id t I) as Z0.
    split; auto. now apply zassoc_In. }
  split; [now apply znodup_NoDup|].
  split.
  { intros id t I. rewrite forallb_forall in S5.
    assert (It : In t (map snd ordered)) by (apply in_map_iff; exists (id, t); auto).
    specialize (S5 t It). apply andb_true_iff in S5 as [A B].
    apply Z.leb_le in A. apply Z.ltb_lt in B. lia. }
  intros i Hi. unfold resolve_index. rewrite Lo.
  replace (i <? 0) with false by (symmetry; apply Z.ltb_ge; lia).
  replace ((i <? 0) || (Z.of_nat n <=? i)) with false.
  2:{ symmetry. apply orb_false_iff. split; [apply Z.ltb_ge; lia|apply Z.leb_gt; lia]. }
  assert (Hn : (Z.to_nat i < n)%nat) by lia.
  destruct (nth_error ordered (Z.to_nat i)) as [p|] eqn:E.
  2:{ apply nth_error_None in E. lia. }
  exists (fst p). split; auto.
  assert (E2 : nth_error (map fst ordered) (Z.to_nat i) = Some (fst p))
    by (rewrite nth_error_map, E; reflexivity).
  rewrite F in E2. unfold pre in E2.
  rewrite nth_error_firstn_lt in E2 by exact Hn. exact E2.
Qed.

(** rejection: asking for ids that are not a prefix of the declared ids *)
Theorem mappable_rejects_non_prefix : forall declared ntraps qubits,
    ~ (incl (map fst qubits) (firstn (length qubits) declared) /\
       incl (firstn (length qubits) declared) (map fst qubits)) ->
    exists e, build_register declared ntraps qubits = Err e.
Proof.
  intros declared ntraps qubits H. unfold build_register.
  destruct (zsubset (map fst qubits) declared); simpl; eauto.
  rewrite map_length.
  destruct (zsubset (map fst qubits) (firstn (length qubits) declared)) eqn:A; simpl; eauto.
  destruct (zsubset (firstn (length qubits) declared) (map fst qubits)) eqn:B; simpl; eauto.
  exfalso. apply H. split; now apply zsubset_incl.
Qed.

(** *** T8. find_indices accepts exactly the lists of declared ids - a list
    mentioning EVERY declared id included - and returns for each id its
    position in the declared order; together with [mappable_resolve] an index
    obtained this way denotes the same id in every built register that
    contains it. *)
Lemma zindex_spec : forall l x i, zindex l x = Some i ->
    0 <= i /\ nth_error l (Z.to_nat i) = Some x.
Proof.
  induction l as [|y l IH]; simpl; intros x i H; [discriminate|].
  destruct (y =? x) eqn:E.
  - inversion H; subst. apply Z.eqb_eq in E. subst. split; [lia|reflexivity].
  - destruct (zindex l x) as [j|] eqn:Z0; [|discriminate]. inversion H; subst.
    destruct (IH x j Z0) as [Hj Hn]. split; [lia|].
    replace (Z.to_nat (j + 1)) with (S (Z.to_nat j)) by lia. exact Hn.
Qed.

Lemma zindex_in : forall l x, In x l -> exists i, zindex l x = Some i.
Proof.
  induction l as [|y l IH]; simpl; intros x I; [contradiction|].
  destruct (y =? x) eqn:E; eauto.
  destruct I as [I|I]; [apply Z.eqb_neq in E; congruence|].
  destruct (IH x I) as [i ->]. eauto.
Qed.

Theorem find_indices_spec : forall declared ids,
    (incl ids declared ->
     exists idx, find_indices declared ids = Ok idx /\ length idx = length ids /\
       forall k id, nth_error ids k = Some id ->
         exists i, nth_error idx k = Some i /\ 0 <= i /\ nth_error declared (Z.to_nat i) = Some id) /\
    (~ incl ids declared -> find_indices declared ids = Err EValue).
Proof.
  intros declared ids. unfold find_indices. split.
  - intros I. rewrite (proj2 (zsubset_incl ids declared) I). simpl.
    induction ids as [|x ids IH]; simpl.
    + exists []. repeat split; auto. intros [|k] id H; discriminate.
    + destruct (zindex_in declared x (I x (or_introl eq_refl))) as [i Zi]. rewrite Zi.
      destruct IH as [idx [E [L S]]]; [intros y Hy; apply I; now right|].
      rewrite E. exists (i :: idx). repeat split; simpl; auto.
      intros [|k] id H; simpl in *.
      * inversion H; subst. exists i. destruct (zindex_spec _ _ _ Zi). auto.
      * apply S. exact H.
  - intros N. destruct (zsubset ids declared) eqn:Z0; simpl; auto.
    exfalso. apply N. now apply zsubset_incl.
Qed.

Example find_indices_all_declared :
  find_indices [7; 3; 9] [9; 7; 3; 9] = Ok [2; 0; 1; 2] /\ find_indices [5] [5] = Ok [0].
Proof. vm_compute. split; reflexivity. Qed.
