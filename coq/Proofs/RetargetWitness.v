(** C10: "retargeting to the same atoms inserts nothing" is false of the
    faithful model whenever the previous pulse has a pending fall time. *)
From Coq Require Import ZArith List Bool.
From Coq Require Import PrimFloat.
From PV Require Import Model.Base Model.Sched Model.Seq.
Import ListNotations.
Open Scope Z_scope.

Definition rcfg : ccfg :=
  {| c_local := true; c_basis := 1; c_dmm := false; c_clock := 1; c_min := 1;
     c_max := None; c_rise := 120; c_pj := 240; c_minret := 0; c_fixret := 0;
     c_maxtg := None; c_maxamp := None; c_maxdet := None; c_minavg := zero;
     c_bottom := None; c_totbottom := None; c_eom := None |}.

(** the pulse scheduled at t = 0 on channel 0 has a fall time of 100 ns *)
Definition renv : senv :=
  {| v_dev := {| d_chans := [(0, rcfg)]; d_dmms := []; d_maxseq := None;
                 d_reusable := false; d_slm := false |};
     v_qids := [0]; v_maps := []; v_oracle := [(0, 0, (100, 0))] |}.

Definition rpulse : upulse :=
  {| u_dur := 100; u_ext := true; u_phase := zero; u_post := zero; u_amax := one;
     u_dabsmax := zero; u_avg := one; u_dmax := zero; u_dmin := zero; u_dd := false;
     u_sum := [one; one; zero; zero] |}.

Definition rpre : list op := [ODeclare 0 0 (Some [0]); OAdd rpulse 0 0].

Definition nslots (s : seq) : list nat := map (fun c => length (ch_slots c)) (q_sched s).

Theorem retarget_same_inserts_nothing_refuted :
  exists v pre qs ch,
    let s := run v pre in
    (exists c l r, find_chan ch (q_sched s) = Some c /\ ch_slots c = l :: r /\ s_tg l = qs) /\
    snd (step v s (OTarget qs ch)) = Ok unit_sv /\
    nslots (fst (step v s (OTarget qs ch))) <> nslots s.
Proof.
  exists renv, rpre, [0], 0. cbn zeta.
  split.
  - vm_compute. eexists _, _, _. split; [reflexivity|]. split; reflexivity.
  - split; vm_compute; [reflexivity|discriminate].
Qed.
