(** C07: phase references.  Structure of the per-qubit phase tracker, the
    phase a pulse is scheduled with, the phase-shift barrier, and the algebra
    of a virtual-Z rotation on the emulated qubit. *)
From Coq Require Import ZArith List Bool Lia ZifyBool Ring.
From Coq Require Import Uint63 FloatOps SpecFloat PrimFloat.
From PV Require Import Model.Base Model.Sched Model.Seq.
From PV Require Import Proofs.SchedInv Proofs.SchedOps Proofs.SeqInv Proofs.ConflictSpec Proofs.Atomic.
Import ListNotations.
Open Scope Z_scope.

Ltac inv H := inversion H; subst; clear H.
Tactic Notation "mbindok" hyp(H) ident(s1) ident(a) ident(H1) :=
  apply bind_inv in H;
  let er := fresh "er" in
  let Hr := fresh "Hr" in
  destruct H as [(s1 & a & H1 & H) | (er & H1 & Hr)]; [|discriminate Hr].

(** * The tracker of one qubit in one basis *)
Fixpoint strictly_desc (l : list Z) : Prop :=
  match l with
  | [] => True
  | a :: r => match r with [] => True | b :: _ => b < a end /\ strictly_desc r
  end.

Definition ref_ok (r : qref) : Prop :=
  r_times r <> [] /\ length (r_phases r) = length (r_times r) /\
  strictly_desc (r_times r) /\ r_last_time r <= r_used r.

Lemma qref0_ok : ref_ok qref0.
Proof. unfold ref_ok, qref0; cbn. repeat split; auto; try discriminate; lia. Qed.

Lemma memZ_head_or_not t l :
  strictly_desc l -> (forall x, In x l -> x <= t) ->
  memZ t l = true -> exists r, l = t :: r.
Proof.
  destruct l as [|a r]; cbn [memZ existsb]; [discriminate|].
  intros [Hd Hr] Hle Hm.
  destruct (Z.eqb_spec t a) as [->|Hne]; [eauto|]. exfalso.
  cbn [orb] in Hm.
  assert (Ha : a <= t) by (apply Hle; left; auto).
  (* every later element is < a <= t, so t cannot occur *)
  assert (G : forall l b, strictly_desc (b :: l) -> forall x, In x l -> x < b).
  { clear. induction l as [|c l IH]; intros b Hd x Hin; [destruct Hin|].
    cbn [strictly_desc] in Hd. destruct Hd as [H1 H2].
    destruct Hin as [->|Hin]; [exact H1|].
    specialize (IH c H2 x Hin). lia. }
  unfold memZ in Hm. apply existsb_exists in Hm. destruct Hm as (x & Hin & Hx).
  apply Z.eqb_eq in Hx. subst x.
  pose proof (G r a (conj Hd Hr) t Hin). lia.
Qed.

Lemma strictly_desc_bound l :
  strictly_desc l -> forall x, In x l -> x <= hd 0 l.
Proof.
  induction l as [|a r IH]; intros Hd x Hin; [destruct Hin|].
  destruct Hin as [->|Hin]; [cbn; lia|].
  destruct Hd as [H1 H2]. destruct r as [|b r']; [destruct Hin|].
  specialize (IH H2 x Hin). cbn [hd] in *. lia.
Qed.

(** a phase shift composes additively (mod 2 pi) on the newest reference and
    never disturbs the order of the recorded times *)
Theorem increment_phase_spec r phi :
  ref_ok r ->
  ref_ok (increment_phase r phi) /\
  r_last_phase (increment_phase r phi) = f_mod2pi (r_last_phase r + phi)%float /\
  r_last_time (increment_phase r phi) = r_used r /\
  r_used (increment_phase r phi) = r_used r.
Proof.
  intros (Hne & Hlen & Hd & Hu). unfold increment_phase.
  destruct (memZ (r_used r) (r_times r)) eqn:Em.
  - assert (Hle : forall x, In x (r_times r) -> x <= r_used r).
    { intros x Hx. pose proof (strictly_desc_bound _ Hd x Hx). unfold r_last_time in Hu. lia. }
    destruct (memZ_head_or_not _ _ Hd Hle Em) as (rest & Ht).
    destruct (r_phases r) as [|p ps] eqn:Ep; [rewrite Ht in Hlen; discriminate|].
    rewrite Ht. cbn. rewrite Z.eqb_refl.
    unfold ref_ok, r_last_phase, r_last_time; cbn.
    rewrite Ht in Hlen, Hd. cbn in Hlen. cbn [strictly_desc] in Hd. destruct Hd as [Hd1 Hd2].
    repeat split; auto; try discriminate; try lia.
  - unfold ref_ok, r_last_phase, r_last_time; cbn.
    repeat split; auto; try discriminate; try lia.
    destruct (r_times r) as [|a rest] eqn:Et; [congruence|].
    unfold r_last_time in Hu. rewrite Et in Hu. cbn in Hu.
    destruct (Z.eq_dec a (r_used r)) as [E|E]; [|lia].
    subst a. cbn in Em. rewrite Z.eqb_refl in Em. discriminate.
Qed.

Theorem update_last_used_spec r t :
  ref_ok r ->
  ref_ok (update_last_used r t) /\
  r_last_phase (update_last_used r t) = r_last_phase r /\
  r_used r <= r_used (update_last_used r t) /\ t <= r_used (update_last_used r t).
Proof.
  intros (Hne & Hlen & Hd & Hu). unfold update_last_used, ref_ok, r_last_phase, r_last_time in *; cbn.
  repeat split; auto; lia.
Qed.

(** * The phase a pulse is scheduled with: programmed phase plus the
      reference of its targets, reduced mod 2 pi *)
Theorem scheduled_phase v c u pr p :
  c_dmm (ch_cfg c) = false ->
  validate_and_adjust v c u pr = Ok p ->
  p_phase p = f_mod2pi (u_phase u +
                        match pr with
                        | Some r => if f_ne r zero then r else zero
                        | None => zero
                        end)%float /\
  p_post p = f_mod2pi (u_post u).
Proof.
  intros Hd H. unfold validate_and_adjust in H. rewrite Hd in H.
  destruct (validate_pulse (ch_cfg c) u) as [[]|]; [|discriminate]. cbn [rbind] in H.
  destruct (validate_duration (ch_cfg c) (u_dur u)) as [d'|]; [|discriminate]. cbn [rbind] in H.
  destruct (negb (d' =? u_dur u) && negb (u_ext u)); [discriminate|].
  inv H. cbn. split; auto. destruct pr as [r|]; [destruct (f_ne r zero)|]; reflexivity.
Qed.

(** * The barrier: what add_prepare hands to the scheduler *)
Lemma add_prepare_barriers v u n s s' c last p bs :
  add_prepare v u n s = (s', Ok (c, last, p, bs)) ->
  bs = map (fun q => match get_ref s (c_basis (ch_cfg c)) q with
                     | Some r => r_last_time r | None => 0 end) (s_tg last) /\
  (exists rest, ch_slots c = last :: rest) /\ find_chan n (q_sched s) = Some c.
Proof.
  intros H. unfold add_prepare in H.
  mbindok H s1 c0 H1. apply declared_inv in H1. destruct H1 as [-> Hc].
  mbindok H s2 l0 H2.
  assert (Hx : s2 = s /\ exists rest, ch_slots c0 = l0 :: rest).
  { unfold onsched in H2. destruct (last_slot n (q_sched s)) as [x r0] eqn:E.
    pose proof E as E'. apply pure_last_slot in E. subst x. inv H2.
    apply last_slot_inv in E'. destruct E' as [_ (cx & rest & Hcx & Hs)].
    rewrite Hc in Hcx. inv Hcx. split; [destruct s; reflexivity|eauto]. }
  destruct Hx as [-> Hrest].
  mbindok H s3 s0 H3. apply get_inv in H3. destruct H3 as [-> H3]. inv H3.
  mbindok H s4 u4 H4.
  assert (s4 = s).
  { unfold guard in H4. destruct (_ && _) in H4.
    - apply fail_inv in H4. tauto.
    - apply ret_inv in H4. tauto. }
  subst s4.
  mbindok H s5 p5 H5. apply lift_inv in H5. destruct H5 as [-> H5].
  apply ret_inv in H. destruct H as [-> H]. inv H. auto.
Qed.

(** a successful add_pulse schedules exactly the slot make_next_pulse_slot computes *)
Lemma add_pulse_ok e p n bs proto dp s s' :
  add_pulse e p n bs proto dp s = (s', Ok tt) ->
  exists sl, make_next_pulse_slot e p n bs proto dp true s = (s, Ok sl).
Proof.
  intros H. unfold add_pulse in H.
  mbindok H s1 lst H1. apply pure_last_slot in H1. subst s1.
  mbindok H s2 sl H2. pose proof H2 as H2'.
  pose proof (pure_mnps_e e p n bs proto dp true) as P.
  apply P in H2'. subst s2. eauto.
Qed.

(** no pulse is scheduled to start before the latest phase shift of any of
    its targets *)
Theorem pulse_after_latest_phase_shift v u n proto dp s s' c last p bs q r :
  seq_ok v s ->
  add_prepare v u n s = (s, Ok (c, last, p, bs)) ->
  add_pulse (env_of v) p n bs proto dp (q_sched s) = (s', Ok tt) ->
  In q (s_tg last) -> get_ref s (c_basis (ch_cfg c)) q = Some r ->
  exists sl, make_next_pulse_slot (env_of v) p n bs proto dp true (q_sched s) = (q_sched s, Ok sl) /\
             r_last_time r <= s_ti sl.
Proof.
  intros Hok Hp Ha Hq Hr.
  destruct (add_prepare_barriers _ _ _ _ _ _ _ _ _ Hp) as (Hbs & _ & _).
  destruct (add_pulse_ok _ _ _ _ _ _ _ _ Ha) as (sl & Hm).
  exists sl. split; auto.
  eapply start_after_barriers; [exact Hok|exact Hm|].
  subst bs. apply in_map_iff. exists q. rewrite Hr. auto.
Qed.

(** * Virtual Z on the emulated qubit (2x2 algebra over any commutative ring
      with a unit-modulus phase factor) *)
Section VirtualZ.
Variable R : Type.
Variables (r0 r1 : R) (radd rmul rsub : R -> R -> R) (ropp : R -> R).
Variable Rth : ring_theory r0 r1 radd rmul rsub ropp (@eq R).
Add Ring Rring : Rth.
Notation "a + b" := (radd a b).
Notation "a * b" := (rmul a b).
Notation "- a" := (ropp a).

(** entries (gg, ge, eg, ee) of a 2x2 matrix *)
Definition mat := (R * R * R * R)%type.
Definition mmul (A B : mat) : mat :=
  let '(a, b, c, d) := A in let '(e, f, g, h) := B in
  (a * e + b * g, a * f + b * h, c * e + d * g, c * f + d * h).

(** the propagator of a resonant pulse of rotation angle theta (c = cos
    theta/2, s = sin theta/2) and phase phi (u = e^{i phi}, ub = e^{-i phi}) *)
Variable i : R.
Definition U (c s u ub : R) : mat := (c, - (i * s * ub), - (i * s * u), c).
Definition Zrot (w : R) : mat := (r1, r0, r0, w).

(** shifting the phase reference by w = e^{i phi'} is a rotation about z:
    Z(w) U(phi) Z(w)^-1 = U(phi + phi') *)
Theorem virtual_z c s u ub w wb :
  w * wb = r1 ->
  mmul (mmul (Zrot w) (U c s u ub)) (Zrot wb) = U c s (u * w) (ub * wb).
Proof.
  intros Hw. unfold mmul, Zrot, U. repeat f_equal; try ring.
  transitivity (c * (w * wb)); [ring|rewrite Hw; ring].
Qed.

(** Ramsey: two pi/2 pulses (c^2 = s^2 = h, 2h = 1) whose phases differ by
    phi drive |g> to |e> with probability h^2 (2 + u + ub) = cos^2(phi/2) *)
Theorem ramsey_amplitude c s u ub h :
  i * i = - r1 -> u * ub = r1 -> c * c = h -> s * s = h ->
  let a := (let '(_, _, eg, _) := mmul (U c s u ub) (U c s r1 r1) in eg) in
  let ab := (- (i * s * c * (ub + r1))) in   (* complex conjugate of a, i |-> -i *)
  a = - (i * s * c * (u + r1)) /\
  - (a * ab) = h * h * (r1 + r1 + u + ub).
Proof.
  intros Hi Hu Hc Hs. cbn zeta. unfold mmul, U. split; [ring|].
  transitivity ((- (i * i)) * (s * s) * (c * c) * (u * ub + u + ub + r1)); [ring|].
  rewrite Hi, Hu, Hc, Hs. ring.
Qed.

End VirtualZ.
