(** C12 - lemmas about device construction, the hexagonal pattern behind
    Register.max_connectivity (Eisenstein integers), the greedy trap
    generation, and the statements of the property that the faithful model
    refutes (witnesses evaluated in the kernel). *)
From Coq Require Import ZArith List Bool Lia.
From Coq Require Import Uint63 FloatOps SpecFloat PrimFloat.
From PV Require Import Model.Base Model.DevGeo Proofs.DevGeoP.
Import ListNotations.
Open Scope Z_scope.

(** * Device construction *)

Definition param_ok (virtual : bool) (param : Z) (v : ival) : Prop :=
  match v with
  | INone => optional_param virtual param = true
  | IInt z => if param =? P_MIN_DIST then 0 <= z else 0 < z
  | IFlt f => param = P_MIN_DIST /\ f_ge f zero = true
  end.

(** the documented constraints on the geometry-related parameters *)
Definition valid_params (p : dparams) : Prop :=
  (p_dim p = 2 \/ p_dim p = 3)
  /\ (exists z, p_ryd p = IInt z /\ 50 <= z <= 100)
  /\ param_ok (p_virtual p) P_MIN_DIST (p_min_dist p)
  /\ param_ok (p_virtual p) P_MAX_ATOMS (p_max_atoms p)
  /\ param_ok (p_virtual p) P_MAX_RADIAL (p_max_radial p)
  /\ param_ok (p_virtual p) P_MAX_SEQ (p_max_seq p)
  /\ param_ok (p_virtual p) P_MAX_RUNS (p_max_runs p)
  /\ param_ok (p_virtual p) P_MIN_TRAPS (p_min_traps p)
  /\ param_ok (p_virtual p) P_MAX_TRAPS (p_max_traps p)
  /\ (f_lt zero (p_max_fill p) = true /\ f_le (p_max_fill p) one = true)
  /\ (forall o, p_opt_fill p = Some o -> f_lt zero o = true /\ f_le o (p_max_fill p) = true)
  /\ (forall mx mn, p_max_traps p = IInt mx -> p_min_traps p = IInt mn ->
        mn <= mx
        /\ forall ma cap, p_max_atoms p = IInt ma ->
             f_trunc (p_max_fill p * f_of_Z mx)%float = Some cap -> ma <= cap)
  /\ (p_slm p = true -> p_n_dmm p <> 0).

Lemma dbind_ok : forall r k, dbind r k = DOk <-> r = DOk /\ k = DOk.
Proof. intros [|e] k; simpl; split; try tauto; intros [H _] || intros H; discriminate. Qed.

Lemma check_param_ok_iff : forall v param x,
  check_param v param x = DOk <-> param_ok v param x.
Proof.
  intros v param x. unfold check_param, param_ok. destruct x as [|z|f].
  - destruct (optional_param v param); split; auto; discriminate.
  - destruct (param =? P_MIN_DIST).
    + destruct (0 <=? z) eqn:E; [apply Z.leb_le in E | apply Z.leb_gt in E]; split; auto; try discriminate; lia.
    + destruct (0 <? z) eqn:E; [apply Z.ltb_lt in E | apply Z.ltb_ge in E]; split; auto; try discriminate; lia.
  - destruct (param =? P_MIN_DIST) eqn:E.
    + apply Z.eqb_eq in E. destruct (f_ge f zero); split; auto; try discriminate. intros [_ H]; discriminate.
    + apply Z.eqb_neq in E. split; [discriminate|]. intros [H _]. contradiction.
Qed.

Lemma post_init_iff : forall p, post_init p = DOk <-> valid_params p.
Proof.
  intros p. unfold post_init, valid_params.
  rewrite !dbind_ok, !check_param_ok_iff.
  assert (H1 : (if (p_dim p =? 2) || (p_dim p =? 3) then DOk else DErr DDimChoice) = DOk
               <-> (p_dim p = 2 \/ p_dim p = 3)).
  { destruct ((p_dim p =? 2) || (p_dim p =? 3)) eqn:A.
    - apply orb_true_iff in A. rewrite !Z.eqb_eq in A. tauto.
    - apply orb_false_iff in A. rewrite !Z.eqb_neq in A. split; [discriminate | lia]. }
  assert (H2 : match p_ryd p with
               | IInt z => if (49 <? z) && (z <? 101) then DOk else DErr DRydLevel
               | _ => DErr DRydType end = DOk
               <-> exists z, p_ryd p = IInt z /\ 50 <= z <= 100).
  { destruct (p_ryd p) as [|z|f].
    - split; [discriminate|]. intros (z & H & _); discriminate.
    - destruct ((49 <? z) && (z <? 101)) eqn:A.
      + apply andb_true_iff in A. rewrite !Z.ltb_lt in A.
        split; [intros _; exists z; split; [reflexivity|lia] | reflexivity].
      + apply andb_false_iff in A. rewrite !Z.ltb_ge in A. split; [discriminate|].
        intros (z' & H & Hz). inversion H; subst. lia.
    - split; [discriminate|]. intros (z & H & _); discriminate. }
  assert (H3 : (if f_lt zero (p_max_fill p) && f_le (p_max_fill p) one then DOk else DErr DMaxFill) = DOk
               <-> (f_lt zero (p_max_fill p) = true /\ f_le (p_max_fill p) one = true)).
  { destruct (f_lt zero (p_max_fill p)); destruct (f_le (p_max_fill p) one); simpl; split; auto;
      try discriminate; intros [A B]; discriminate. }
  assert (H4 : match p_opt_fill p with
               | None => DOk
               | Some o => if f_lt zero o && f_le o (p_max_fill p) then DOk else DErr DOptFill end = DOk
               <-> forall o, p_opt_fill p = Some o -> f_lt zero o = true /\ f_le o (p_max_fill p) = true).
  { destruct (p_opt_fill p) as [o|].
    - destruct (f_lt zero o) eqn:A; destruct (f_le o (p_max_fill p)) eqn:B; simpl; split;
        try discriminate; try (intros _ o' H; inversion H; subst; auto);
        intros H; destruct (H o eq_refl); congruence.
    - split; auto. intros _ o H; discriminate. }
  assert (H5 : match ival_Z (p_max_traps p), ival_Z (p_min_traps p) with
               | Some mx, Some mn =>
                   if mx <? mn then DErr DTrapsOrder
                   else match ival_Z (p_max_atoms p) with
                        | Some ma =>
                            match f_trunc (p_max_fill p * f_of_Z mx)%float with
                            | Some cap => if cap <? ma then DErr (DTrapsAtoms cap) else DOk
                            | None => DOk
                            end
                        | None => DOk
                        end
               | _, _ => DOk end = DOk
               <-> forall mx mn, p_max_traps p = IInt mx -> p_min_traps p = IInt mn ->
                     mn <= mx
                     /\ forall ma cap, p_max_atoms p = IInt ma ->
                          f_trunc (p_max_fill p * f_of_Z mx)%float = Some cap -> ma <= cap).
  { destruct (p_max_traps p) as [|mx|fx]; simpl.
    - split; auto. intros _ mx mn H; discriminate.
    - destruct (p_min_traps p) as [|mn|fn]; simpl.
      + split; auto. intros _ mx' mn' _ H; discriminate.
      + destruct (mx <? mn) eqn:A.
        * apply Z.ltb_lt in A. split; [discriminate|]. intros H.
          destruct (H mx mn eq_refl eq_refl). lia.
        * apply Z.ltb_ge in A. destruct (p_max_atoms p) as [|ma|fa]; simpl.
          -- split; auto. intros _ mx' mn' Hx Hn. inversion Hx; inversion Hn; subst.
             split; [assumption|]. intros ma cap H; discriminate.
          -- destruct (f_trunc (p_max_fill p * f_of_Z mx)%float) as [cap|] eqn:C.
             ++ destruct (cap <? ma) eqn:B.
                ** apply Z.ltb_lt in B. split; [discriminate|]. intros H.
                   destruct (H mx mn eq_refl eq_refl) as [_ H']. specialize (H' ma cap eq_refl C). lia.
                ** apply Z.ltb_ge in B. split; auto. intros _ mx' mn' Hx Hn.
                   inversion Hx; inversion Hn; subst. split; [assumption|].
                   intros ma' cap' Ha Hc. inversion Ha; subst. rewrite C in Hc. inversion Hc; subst. assumption.
             ++ split; auto. intros _ mx' mn' Hx Hn. inversion Hx; inversion Hn; subst.
                split; [assumption|]. intros ma' cap' _ Hc. rewrite C in Hc. discriminate.
          -- split; auto. intros _ mx' mn' Hx Hn. inversion Hx; inversion Hn; subst.
             split; [assumption|]. intros ma cap H; discriminate.
      + split; auto. intros _ mx' mn' _ H; discriminate.
    - split; auto. intros _ mx mn H; discriminate. }
  assert (H6 : (if p_slm p && (p_n_dmm p =? 0) then DErr DSlm else DOk) = DOk
               <-> (p_slm p = true -> p_n_dmm p <> 0)).
  { destruct (p_slm p); simpl.
    - destruct (p_n_dmm p =? 0) eqn:A; [apply Z.eqb_eq in A | apply Z.eqb_neq in A]; split; auto;
        try discriminate. intros H. specialize (H eq_refl). contradiction.
    - split; auto. intros _ H; discriminate. }
  rewrite H1, H2, H3, H4, H5, H6. tauto.
Qed.

(** the hypotheses are satisfiable: the parameters of AnalogDevice *)
Definition analog_params : dparams :=
  {| p_virtual := false; p_dim := 2; p_ryd := IInt 60; p_min_dist := IInt 5; p_max_atoms := IInt 80;
     p_max_radial := IInt 38; p_max_seq := IInt 6000; p_max_runs := IInt 2000; p_min_traps := IInt 1;
     p_max_traps := INone; p_max_fill := 0x1p-1%float; p_opt_fill := Some 0x1.ccccccccccccdp-2%float;
     p_slm := false; p_n_dmm := 0 |}.
Example analog_params_valid : post_init analog_params = DOk.
Proof. vm_compute. reflexivity. Qed.
Example virtual_undefined_limits_valid :
  post_init {| p_virtual := true; p_dim := 3; p_ryd := IInt 70; p_min_dist := IFlt zero;
               p_max_atoms := INone; p_max_radial := INone; p_max_seq := INone; p_max_runs := INone;
               p_min_traps := IInt 1; p_max_traps := INone; p_max_fill := 0x1p-1%float;
               p_opt_fill := None; p_slm := true; p_n_dmm := 1 |} = DOk.
Proof. vm_compute. reflexivity. Qed.

(** * The hexagonal pattern: Eisenstein integers *)

(** a nonzero Eisenstein integer has norm at least one: two distinct lattice
    points are at least one spacing apart *)
Lemma e_norm_pos : forall a b, (a, b) <> (0, 0) -> 1 <= e_norm (a, b).
Proof.
  intros a b H. unfold e_norm; simpl.
  assert (a <> 0 \/ b <> 0) as [Ha|Hb].
  { destruct (Z.eq_dec a 0), (Z.eq_dec b 0); subst; auto. }
  - pose proof (Z.square_nonneg (a + 2 * b)) as H1.
    assert (H2 : 1 <= a * a) by (assert (a <= -1 \/ 1 <= a) as [|] by lia; nia).
    replace ((a + 2 * b) * (a + 2 * b)) with (4 * (a * a + a * b + b * b) - 3 * (a * a)) in H1 by ring. lia.
  - pose proof (Z.square_nonneg (2 * a + b)) as H1.
    assert (H2 : 1 <= b * b) by (assert (b <= -1 \/ 1 <= b) as [|] by lia; nia).
    replace ((2 * a + b) * (2 * a + b)) with (4 * (a * a + a * b + b * b) - 3 * (b * b)) in H1 by ring. lia.
Qed.

Lemma e_sub_zero : forall p q, e_sub p q = (0, 0) -> p = q.
Proof.
  intros [a b] [c d]. unfold e_sub; simpl. intros H. inversion H. f_equal; lia.
Qed.

Fixpoint e_mem (p : epoint) (l : list epoint) : bool :=
  match l with
  | [] => false
  | q :: r => ((fst p =? fst q) && (snd p =? snd q)) || e_mem p r
  end.
Fixpoint e_nodupb (l : list epoint) : bool :=
  match l with
  | [] => true
  | p :: r => negb (e_mem p r) && e_nodupb r
  end.

Lemma e_mem_In : forall p l, In p l -> e_mem p l = true.
Proof.
  induction l as [|q r IH]; simpl; [tauto|]. intros [H|H].
  - subst. rewrite !Z.eqb_refl. reflexivity.
  - rewrite IH by assumption. apply orb_true_r.
Qed.

Lemma e_nodupb_NoDup : forall l, e_nodupb l = true -> NoDup l.
Proof.
  induction l as [|p r IH]; simpl; intros H; [constructor|].
  apply andb_true_iff in H. destruct H as [H1 H2]. constructor; [|apply IH; assumption].
  intros Hin. apply e_mem_In in Hin. rewrite Hin in H1. discriminate.
Qed.

Definition HEX_BOUND : Z := 400.

Definition hex_ok (n : Z) : bool := e_nodupb (hex_eis n) && (zlen (hex_eis n) =? n).

Lemma zrange_nat_In : forall k lo n, In n (zrange_nat lo k) <-> lo <= n < lo + Z.of_nat k.
Proof.
  induction k as [|k IH]; intros lo n; simpl.
  - lia.
  - rewrite IH. lia.
Qed.

Lemma hex_sweep : forallb hex_ok (zrange 1 HEX_BOUND) = true.
Proof. vm_compute. reflexivity. Qed.

Lemma hex_eis_nodup : forall n, 1 <= n <= HEX_BOUND ->
  NoDup (hex_eis n) /\ zlen (hex_eis n) = n.
Proof.
  intros n Hn. pose proof hex_sweep as H. rewrite forallb_forall in H.
  assert (Hin : In n (zrange 1 HEX_BOUND)).
  { unfold zrange. apply zrange_nat_In. unfold HEX_BOUND in *. simpl. lia. }
  specialize (H n Hin). unfold hex_ok in H. apply andb_true_iff in H. destruct H as [H1 H2].
  split; [apply e_nodupb_NoDup; assumption | apply Z.eqb_eq; assumption].
Qed.

(** any two different atoms of the pattern are at least one spacing apart
    (exact arithmetic: squared distance = spacing^2 * e_norm) *)
Lemma hex_min_dist : forall n i j p q, 1 <= n <= HEX_BOUND -> i <> j ->
  nth_error (hex_eis n) i = Some p -> nth_error (hex_eis n) j = Some q ->
  1 <= e_norm (e_sub p q).
Proof.
  intros n i j p q Hn Hij Hp Hq. destruct (hex_eis_nodup n Hn) as [Hnd _].
  destruct (e_sub p q) as [a b] eqn:E. apply e_norm_pos. intros H0. rewrite H0 in E.
  apply e_sub_zero in E. subst q.
  rewrite NoDup_nth_error in Hnd. apply Hij. apply Hnd.
  - apply nth_error_Some. congruence.
  - congruence.
Qed.

(** the float pattern (what the code computes) describes the same points:
    x = (2a+b)/2 exactly, y = b*sqrt(3)/2 up to 1e-9 *)
Fixpoint agree_all (fl : list pt) (el : list epoint) : bool :=
  match fl, el with
  | [], [] => true
  | [x; y] :: fr, (a, b) :: er =>
      f_eq (x * 0x1p+1)%float (f_of_Z (2 * a + b))
      && f_lt (abs (y - f_of_Z b * f_crest))%float 0x1.12e0be826d695p-30%float
      && agree_all fr er
  | _, _ => false
  end.

Lemma hex_float_agrees_sweep :
  forallb (fun n => agree_all (hex_float n) (hex_eis n)) (zrange 1 HEX_BOUND) = true.
Proof. vm_compute. reflexivity. Qed.

Lemma hex_float_agrees : forall n, 1 <= n <= HEX_BOUND ->
  agree_all (hex_float n) (hex_eis n) = true.
Proof.
  intros n Hn. pose proof hex_float_agrees_sweep as H. rewrite forallb_forall in H.
  apply H. unfold zrange. apply zrange_nat_In. unfold HEX_BOUND in *. simpl. lia.
Qed.

Lemma hex_float_is_lattice : forall n, 1 <= n <= HEX_BOUND ->
  agree_all (hex_float n) (hex_eis n) = true /\ zlen (hex_eis n) = n.
Proof.
  intros n Hn. split; [apply hex_float_agrees; assumption | apply hex_eis_nodup; assumption].
Qed.

(** the float computation of the number of complete layers is the integer one *)
Lemma hex_layers_exact : forall n, 7 <= n <= HEX_BOUND ->
  let L := hex_layers n in 0 <= L /\ 1 + 3 * (L * L + L) <= n < 1 + 3 * ((L + 1) * (L + 1) + (L + 1)).
Proof.
  assert (H : forallb (fun n => let L := hex_layers n in
                         (0 <=? L) && (1 + 3 * (L * L + L) <=? n)
                         && (n <? 1 + 3 * ((L + 1) * (L + 1) + (L + 1)))) (zrange 7 (HEX_BOUND - 6)) = true)
    by (vm_compute; reflexivity).
  intros n Hn. rewrite forallb_forall in H.
  assert (Hin : In n (zrange 7 (HEX_BOUND - 6))).
  { unfold zrange. apply zrange_nat_In. unfold HEX_BOUND in *. simpl. lia. }
  specialize (H n Hin). simpl in H. apply andb_true_iff in H. destruct H as [H H3].
  apply andb_true_iff in H. destruct H as [H1 H2].
  apply Z.leb_le in H1. apply Z.leb_le in H2. apply Z.ltb_lt in H3. simpl. lia.
Qed.

(** * The greedy trap generation *)
Section GreedyFacts.
  Context {P : Type}.
  Variable far : P -> P -> bool.
  Variable key : P -> float.

  Lemma argmin_from_In : forall l best, In (argmin_from key best l) (best :: l).
  Proof.
    induction l as [|c r IH]; intros best; simpl; [auto|].
    destruct (f_lt (key c) (key best)).
    - destruct (IH c) as [H|H]; [right; left; assumption | right; right; assumption].
    - destruct (IH best) as [H|H]; [left; assumption | right; right; assumption].
  Qed.

  (** pairwise separation of a list in selection order: every later element
      is far from every earlier one *)
  Inductive separated : list P -> Prop :=
  | sep_nil : separated []
  | sep_cons : forall a l, (forall b, In b l -> far b a = true) -> separated l -> separated (a :: l).

  Lemma greedy_facts : forall fuel region,
    (forall x, In x (greedy far key fuel region) -> In x region)
    /\ separated (greedy far key fuel region)
    /\ (length (greedy far key fuel region) <= fuel)%nat.
  Proof.
    induction fuel as [|k IH]; intros region; simpl.
    - split; [tauto|]. split; [constructor | lia].
    - destruct region as [|c r]; simpl.
      + split; [tauto|]. split; [constructor | lia].
      + set (s := argmin_from key c r).
        destruct (IH (filter (fun x => far x s) (c :: r))) as (H1 & H2 & H3).
        split; [|split].
        * intros x [Hx|Hx].
          -- subst x. apply argmin_from_In.
          -- apply H1 in Hx. apply filter_In in Hx. tauto.
        * constructor; [|assumption]. intros b Hb. apply H1 in Hb. apply filter_In in Hb. tauto.
        * simpl in H3. lia.
  Qed.
End GreedyFacts.

(** what a successful generation guarantees (float decisions, as the code
    takes them): the result is the seeds followed by mesh points, each further
    than min_trap_dist from every seed and from every point added before it,
    and there are at least the computed minimal number of traps *)
Lemma gen_traps_sound : forall mesh seeds mind fill opt mt mx traps,
  gen_traps mesh seeds mind fill opt mt mx = LGOk traps ->
  exists added, traps = seeds ++ added
    /\ (forall a, In a added -> In a mesh /\ forall s, In s seeds -> f_gt (dist a s) mind = true)
    /\ separated (fun c t => f_gt (dist c t) mind) added
    /\ lg_min_traps (zlen seeds) fill mt <= zlen traps
    /\ zlen traps <= Z.max (zlen seeds) (lg_target (zlen seeds) fill opt mt mx).
Proof.
  intros mesh seeds mind fill opt mt mx traps H. unfold gen_traps in H. cbv zeta in H.
  set (far := fun c t => f_gt (dist c t) mind) in *.
  set (region := filter (fun c => forallb (far c) seeds) mesh) in *.
  set (fuel := Z.to_nat (lg_target (zlen seeds) fill opt mt mx - zlen seeds)) in *.
  destruct (greedy_facts far (min_key seeds) fuel region) as (H1 & H2 & H3).
  match type of H with (if ?c then _ else _) = _ => destruct c eqn:E end; [discriminate|].
  apply Z.ltb_ge in E. inversion H; subst traps.
  exists (greedy far (min_key seeds) fuel region). split; [reflexivity|]. split; [|split; [|split]].
  - intros a Ha. apply H1 in Ha. unfold region in Ha. apply filter_In in Ha. destruct Ha as [Hm Hf].
    split; [assumption|]. intros s Hs. rewrite forallb_forall in Hf. apply Hf. assumption.
  - assumption.
  - assumption.
  - assert (Hl : zlen (seeds ++ greedy far (min_key seeds) fuel region)
                 = zlen seeds + Z.of_nat (length (greedy far (min_key seeds) fuel region)))
      by (unfold zlen; rewrite app_length; lia).
    change (zlen (seeds ++ greedy far (min_key seeds) fuel region)
            <= Z.max (zlen seeds) (lg_target (zlen seeds) fill opt mt mx)).
    rewrite Hl.
    assert (Hf : Z.of_nat fuel = Z.max 0 (lg_target (zlen seeds) fill opt mt mx - zlen seeds))
      by (unfold fuel; lia).
    lia.
Qed.

(** for the filling fraction of the stock devices the generated trap count
    always passes the device's own filling check *)
Definition half_dev : gdev :=
  {| g_virtual := false; g_dim := 2; g_min_dist := 0x1.4p+2%float; g_max_atoms := Some 80;
     g_max_radial := Some 38; g_max_fill := 0x1p-1%float; g_min_traps := 1; g_max_traps := None |}.

Lemma fill_half_ok : forall n, 1 <= n <= 2000 ->
  validate_filling half_dev n (lg_min_traps n 0x1p-1%float 1) = GOk.
Proof.
  assert (H : forallb (fun n => match validate_filling half_dev n (lg_min_traps n 0x1p-1%float 1) with
                                | GOk => true | _ => false end) (zrange 1 2000) = true)
    by (vm_compute; reflexivity).
  intros n Hn. rewrite forallb_forall in H.
  assert (Hin : In n (zrange 1 2000)) by (unfold zrange; apply zrange_nat_In; simpl; lia).
  specialize (H n Hin). destruct (validate_filling half_dev n _); [reflexivity | discriminate].
Qed.

(** * Statements of the property that the faithful model refutes *)

(** AnalogDevice's geometry *)
Definition analog_dev : gdev := half_dev.

Definition has_nan (p : pt) : bool := existsb PrimFloat.is_nan p.

(** max_connectivity never looks at max_radial_distance *)
Definition w1_sp : float := 0x1.4p+4%float.   (* 20.0 *)
Definition w1_pts : list pt :=
  Eval vm_compute in match max_connectivity analog_dev 19 (Some w1_sp) with MCOk p => p | _ => [] end.
Definition w1_reg : greg := {| r_is_reg := true; r_dim := 2; r_pts := w1_pts; r_layout := None |}.
Definition w1_ids : list Z :=
  Eval vm_compute in match validate_register analog_dev w1_reg with GErr (GRadius _ l) => l | _ => [] end.

Lemma max_connectivity_radius_refuted :
  exists dv n sp pts ids,
    max_connectivity dv n sp = MCOk pts
    /\ validate_register dv {| r_is_reg := true; r_dim := 2; r_pts := pts; r_layout := None |}
       = GErr (GRadius KATOMS ids).
Proof.
  exists analog_dev, 19, (Some w1_sp), w1_pts, w1_ids. split; vm_compute; reflexivity.
Qed.

(** max_connectivity accepts any positive spacing on a device whose minimal
    distance is 0, the validation requires atoms to be 1e-6 apart *)
Definition w2_dev : gdev :=
  {| g_virtual := true; g_dim := 2; g_min_dist := zero; g_max_atoms := None;
     g_max_radial := None; g_max_fill := 0x1p-1%float; g_min_traps := 1; g_max_traps := None |}.
Definition w2_sp : float := 0x1.ad7f29abcaf48p-24%float.   (* 1e-07 *)
Definition w2_pts : list pt :=
  Eval vm_compute in match max_connectivity w2_dev 2 (Some w2_sp) with MCOk p => p | _ => [] end.

Lemma max_connectivity_distinct_refuted :
  exists dv n sp pts bp,
    max_connectivity dv n sp = MCOk pts
    /\ validate_register dv {| r_is_reg := true; r_dim := 2; r_pts := pts; r_layout := None |}
       = GErr (GDist KATOMS bp).
Proof.
  exists w2_dev, 2, (Some w2_sp), w2_pts, [(0, 1)]. split; vm_compute; reflexivity.
Qed.

(** generate_trap_coordinates computes the minimal number of traps as
    ceil(n / f) in doubles; validate_layout_filling computes int(n_traps * f):
    for n = 29, f = 0.58 the first gives 50, the second 28 *)
Lemma auto_layout_filling_refuted :
  exists dv n, 1 <= n /\
    validate_filling dv n (lg_min_traps n (g_max_fill dv) (g_min_traps dv)) = GErr (GQubits n (n - 1)).
Proof.
  exists {| g_virtual := false; g_dim := 2; g_min_dist := one; g_max_atoms := Some 40;
            g_max_radial := Some 6; g_max_fill := 0x1.28f5c28f5c28fp-1%float; g_min_traps := 1;
            g_max_traps := None |}, 29.
  split; [lia|]. vm_compute. reflexivity.
Qed.

(** a coordinate that is not a number passes every comparison *)
Lemma nan_coordinate_refuted :
  exists dv rg, existsb has_nan (r_pts rg) = true /\ validate_register dv rg = GOk.
Proof.
  exists analog_dev,
    {| r_is_reg := true; r_dim := 2; r_pts := [[nan; zero]; [one; one]]; r_layout := None |}.
  split; vm_compute; reflexivity.
Qed.
