(** C14 - the hypotheses are satisfiable: integers, rationals and reals are
    ordered rings in the sense of [ordered_ring], and a non-trivial kernel
    (1/2, 1/4, 0, 1/4) over the rationals is non-negative, symmetric and of
    unit sum; the generic theorems then give closed statements. *)
From Coq Require Import ZArith QArith Qcanon List Bool Arith Lia Ring Ring_theory.
From Coq Require Import Reals.
From PV Require Import Model.Base Model.Modul Proofs.ModulLaws Proofs.ModulChan.
Import ListNotations.

Lemma Z_ordered_ring :
  ordered_ring Z 0%Z 1%Z Z.add Z.mul Z.sub Z.opp Z.le.
Proof.
  constructor.
  - exact Zth.
  - intros; lia.
  - intros; lia.
  - intros; lia.
  - intros; apply Z.mul_nonneg_nonneg; assumption.
Qed.

Lemma Qc_ordered_ring :
  ordered_ring Qc (Q2Qc 0) (Q2Qc 1) Qcplus Qcmult Qcminus Qcopp Qcle.
Proof.
  constructor.
  - exact Qcrt.
  - intros; apply Qcle_refl.
  - intros a b c; apply Qcle_trans.
  - intros a b c d; apply Qcplus_le_compat.
  - intros a b Ha Hb.
    replace (Q2Qc 0) with (Qcmult (Q2Qc 0) b) by ring.
    apply Qcmult_le_compat_r; assumption.
Qed.

Lemma R_ordered_ring :
  ordered_ring R 0%R 1%R Rplus Rmult Rminus Ropp Rle.
Proof.
  constructor.
  - exact RTheory.
  - intros; apply Rle_refl.
  - intros a b c; apply Rle_trans.
  - intros a b c d; apply Rplus_le_compat.
  - intros a b; apply Rmult_le_pos.
Qed.

(** a concrete kernel over the rationals: weights by circular offset *)
Definition q_half : Qc := Q2Qc (1 # 2).
Definition q_quarter : Qc := Q2Qc (1 # 4).
Definition kern4 (k : nat) : Qc :=
  match k with
  | 0%nat => q_half
  | 1%nat => q_quarter
  | 3%nat => q_quarter
  | _ => Q2Qc 0
  end.

Example kernel_hypotheses_satisfiable :
  (forall k, (k < 4)%nat -> Qcle (Q2Qc 0) (kern4 k))
  /\ sumn Qc (Q2Qc 0) Qcplus 4 kern4 = Q2Qc 1
  /\ (forall k, (0 < k < 4)%nat -> kern4 k = kern4 (4 - k)).
Proof.
  split; [|split].
  - intros k Hk.
    destruct k as [|[|[|[|k]]]]; try lia; unfold Qcle; vm_compute; discriminate.
  - apply Qc_is_canon. vm_compute. reflexivity.
  - intros k Hk. destruct k as [|[|[|[|k]]]]; try lia; reflexivity.
Qed.

(** the generic convolution run on that kernel: a unit pulse of length 2 in
    a window of 4 keeps its integral, stays within [0, 1] *)
Example modulate_example :
  cconv Qc (Q2Qc 0) Qcplus Qcmult kern4 [Q2Qc 0; Q2Qc 1; Q2Qc 1; Q2Qc 0]
  = [q_quarter; Q2Qc (3 # 4); Q2Qc (3 # 4); q_quarter].
Proof.
  unfold cconv, q_quarter. simpl map.
  repeat (f_equal; [apply Qc_is_canon; vm_compute; reflexivity|]).
  reflexivity.
Qed.

(** the real numbers: the integral of a real-valued signal is preserved by
    every kernel family of unit sum *)
Theorem modulate_preserves_sum_R :
  forall (kern : bool -> nat -> nat -> R),
    (forall e N, (0 < N)%nat -> sumn R 0%R Rplus N (kern e N) = 1%R) ->
    forall has_bw tr etr x eom y,
      chan_modulate R 0%R Rplus Rmult has_bw tr etr kern x false eom = Ok y ->
      lsum R 0%R Rplus y = lsum R 0%R Rplus x.
Proof.
  intros kern Hs has_bw tr etr x eom y H.
  exact (modulate_preserves_sum R 0%R 1%R Rplus Rmult Rminus Ropp Rle
           R_ordered_ring kern Hs has_bw tr etr x eom y H).
Qed.
