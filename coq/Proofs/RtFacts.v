(** C17 - facts about the regenerated tables, the noise model, the object
    heap, and the refutation witnesses (each evaluated by [vm_compute] on the
    faithful model and replayed on the implementation by the harness). *)
From Coq Require Import ZArith List Bool String Lia.
From Coq Require Import PrimFloat.
From PV Require Import Model.Base Model.RtJson Gen.RtTables Model.RtNoise Model.RtDev
     Model.RtBackend Proofs.RtJsonP.
Import ListNotations.
Open Scope string_scope.
Open Scope list_scope.

(** ** Obligations on the regenerated tables: the premises under which the
    generic codec theorems apply to Pulser's classes. *)
Definition subset_s (a b : list string) : bool := forallb (fun x => mem_s x b) a.
Definition disjoint_s (a b : list string) : bool := forallb (fun x => negb (mem_s x b)) a.

Definition chan_tables : list (string * table) :=
  [("Rydberg", tbl_Rydberg); ("Raman", tbl_Raman); ("Microwave", tbl_Microwave); ("DMM", tbl_DMM)].

Definition tables_wellformed : bool :=
  (* field names are unique *)
  forallb (fun ct => nodup_s (names (snd ct))) chan_tables
  && nodup_s (names tbl_RydbergEOM) && nodup_s (names tbl_Device)
  && nodup_s (names tbl_VirtualDevice) && nodup_s (names tbl_SimConfig)
  (* every optional key is a field with a default, listed once *)
  && forallb (fun ct => forallb (has_default (snd ct)) opt_ch) chan_tables
  && forallb (has_default tbl_DMM) opt_dmm
  && forallb (has_default tbl_RydbergEOM) opt_eom
  && nodup_s opt_ch && nodup_s opt_dmm && nodup_s opt_eom && nodup_s opt_dev
  && disjoint_s opt_dmm opt_ch
  && forallb (fun k => negb (mem_s k (names tbl_Device)) || has_default tbl_Device k) opt_dev
  && forallb (fun k => negb (mem_s k (names tbl_VirtualDevice)) || has_default tbl_VirtualDevice k) opt_dev
  (* the decoder's RydbergEOM(...) call reaches every field: explicitly or through **optional *)
  && eom_forwards_optional
  && subset_s (names tbl_RydbergEOM) (eom_named ++ opt_eom)
  && disjoint_s eom_named opt_eom && nodup_s eom_named
  && forallb f_init tbl_RydbergEOM
  (* class selection: "bottom_detuning" is always emitted by a DMM and never by a Rydberg *)
  && mem_s "bottom_detuning" (names tbl_DMM)
  && negb (mem_s "bottom_detuning" (opt_ch ++ opt_dmm))
  && negb (mem_s "bottom_detuning" (names tbl_Rydberg))
  && forallb (fun ct => negb (mem_s "id" (names (snd ct))) && negb (mem_s "basis" (names (snd ct)))) chan_tables
  (* fields that are not constructor arguments have a default (they are re-created, not decoded) *)
  && forallb (fun ct => forallb (fun f => f_init f || match f_default f with Some _ => true | None => false end) (snd ct)) chan_tables
  (* keys the device encoder adds do not collide with decoded fields *)
  && disjoint_s ["version"; "pulser_version"; "channels"; "is_virtual"] (names tbl_Device)
  && disjoint_s ["version"; "pulser_version"; "channels"; "is_virtual"] (names tbl_VirtualDevice)
  && subset_s with_repr (names tbl_Device) && subset_s with_repr (names tbl_VirtualDevice).

Lemma tables_wellformed_ok : tables_wellformed = true.
Proof. vm_compute. reflexivity. Qed.

(** ** Schema key sets: what the encoders always emit covers [required];
    everything they can emit is among [properties]. *)
Definition always_emitted (t : table) (opt : list string) : list string :=
  filter (fun k => negb (mem_s k opt)) (names t).

Definition chan_schema_ok (cls : string) (t : table) (opt : list string)
           (alts : list (string * string * list string * list string)) : bool :=
  forallb (fun alt : string * string * list string * list string =>
             match alt with
             | (basis, _, req, props) =>
                 match assoc_s cls class_basis with
                 | Some b =>
                     negb (String.eqb b basis)
                     || (subset_s req ("id" :: "basis" :: always_emitted t opt)
                         && subset_s ("id" :: "basis" :: names t) props)
                 | None => false
                 end
             end) alts.

Definition schema_keys_ok : bool :=
  chan_schema_ok "Rydberg" tbl_Rydberg opt_ch schema_generic_channel
  && chan_schema_ok "Raman" tbl_Raman opt_ch schema_generic_channel
  && chan_schema_ok "Microwave" tbl_Microwave opt_ch schema_generic_channel
  && chan_schema_ok "Rydberg" tbl_Rydberg opt_ch schema_physical_channel
  && chan_schema_ok "Raman" tbl_Raman opt_ch schema_physical_channel
  && chan_schema_ok "Microwave" tbl_Microwave opt_ch schema_physical_channel
  && chan_schema_ok "DMM" tbl_DMM (opt_ch ++ opt_dmm) schema_dmm_channel
  && chan_schema_ok "DMM" tbl_DMM (opt_ch ++ opt_dmm) schema_physical_dmm_channel
  && subset_s (fst schema_eom) (always_emitted tbl_RydbergEOM opt_eom)
  && subset_s (names tbl_RydbergEOM) (snd schema_eom)
  && forallb (fun alt : bool * list string * list string =>
                match alt with
                | (virt, req, props) =>
                    let t := if virt then tbl_VirtualDevice else tbl_Device in
                    let emitted := filter (fun k => negb (mem_s k ("short_description" :: with_repr))) (names t)
                                   ++ ["version"; "pulser_version"; "channels"; "dmm_objects"; "is_virtual"] in
                    subset_s req (filter (fun k => negb (mem_s k opt_dev)) emitted)
                    && subset_s emitted props
                end) schema_device
  && (let emitted := filter (fun k => negb (mem_s k ["with_leakage"; "eff_noise_rates"; "eff_noise_opers"])) noise_fields
                     ++ ["eff_noise"] in
      subset_s (fst schema_noise) emitted && subset_s emitted (snd schema_noise)).

Lemma schema_keys_ok_true : schema_keys_ok = true.
Proof. vm_compute. reflexivity. Qed.

(** an observable schema whose [required] keys are not all [properties] while
    [additionalProperties] is false accepts nothing *)
Definition obs_schema_satisfiable (o : string * list string * list string * bool) : bool :=
  match o with (_, req, props, closed) => negb closed || subset_s req props end.

Lemma config_schema_unsatisfiable_refuted :
  exists o, In o schema_observables /\ obs_schema_satisfiable o = false.
Proof.
  exists ("energy_second_moment", ["observable"; "evaluation_times"; "tag_suffix"],
          ["evaluation_times"; "observable"], true).
  split; [vm_compute; tauto | vm_compute; reflexivity].
Qed.

(** ** Noise model: the active types are exactly those with a truthy parameter *)
Definition noise_tables_ok : bool :=
  (* no parameter belongs to two types; every type is listed; sorted list = the keys *)
  nodup_s (flat_map snd noise_type_params)
  && nodup_s (map fst noise_type_params)
  && subset_s (map fst noise_type_params) noise_types_sorted
  && subset_s noise_types_sorted (map fst noise_type_params)
  && subset_s (flat_map snd noise_type_params) noise_param_order
  && nodup_s noise_param_order.

Lemma noise_tables_ok_true : noise_tables_ok = true.
Proof. vm_compute. reflexivity. Qed.

(** [param_type p = Some t] iff [p] is listed under [t] (tables are disjoint) *)
Lemma param_type_spec_tbl :
  forallb (fun e : string * list string =>
             forallb (fun p => match param_type p with
                               | Some t => String.eqb t (fst e)
                               | None => false
                               end) (snd e)) noise_type_params
  && forallb (fun p => match param_type p with
                       | Some t => mem_s p (params_of_type t)
                       | None => true
                       end) noise_param_order = true.
Proof. vm_compute. reflexivity. Qed.

Lemma get_pvals0 : forall args p,
  In p noise_param_order -> get p (pvals0 args) = Some (narg args p).
Proof.
  intros args p. unfold pvals0.
  assert (G : forall l, In p l -> get p (map (fun q => (q, narg args q)) l) = Some (narg args p)).
  { induction l; simpl; [tauto|]. intros [E|Hi].
    - subst. rewrite seqb_refl. auto.
    - destruct (String.eqb_spec p a); [subst; auto | auto]. }
  apply G.
Qed.

Theorem noise_types_exact : forall args inst,
  noise_init args = Some inst ->
  forall t,
    In t (strs_of (attr "noise_types" inst))
    <-> (In t noise_types_sorted
         /\ exists p, In p (params_of_type t) /\ truthy (narg args p) = true).
Proof.
  intros args inst H t.
  unfold noise_init in H.
  destruct (negb (forallb (fun k => mem_s k noise_param_order) (keys args))); [discriminate|].
  set (pv0 := pvals0 args) in *.
  destruct (mem_s "leakage" (true_types pv0) && negb (mem_s "eff_noise" (true_types pv0))); [discriminate|].
  match type of H with (if ?c then _ else _) = _ => destruct c; [discriminate|] end.
  match type of H with (if ?c then _ else _) = _ => destruct c; [discriminate|] end.
  inversion H; subst inst; clear H.
  unfold attr, attrs_of. simpl get.
  assert (S : forall l, strs_of (PList (map PStr l)) = l).
  { induction l; simpl; auto. simpl in IHl. rewrite IHl. auto. }
  cbv iota beta. rewrite S. unfold true_types. rewrite filter_In.
  pose proof param_type_spec_tbl as PT. apply andb_true_iff in PT as [PT1 PT2].
  rewrite forallb_forall in PT1, PT2.
  pose proof noise_tables_ok_true as NT. unfold noise_tables_ok in NT.
  repeat (apply andb_true_iff in NT as [NT ?]).
  split.
  - intros [Hin Hact]. split; auto.
    unfold type_active in Hact. apply existsb_exists in Hact as [[p v] [Hp Hc]].
    simpl in Hc. apply andb_true_iff in Hc as [Htr Hty].
    unfold pv0, pvals0 in Hp. apply in_map_iff in Hp as [q [Eq Hq]].
    inversion Eq; subst q v.
    specialize (PT2 p Hq). destruct (param_type p) as [t'|] eqn:E; [|discriminate].
    apply String.eqb_eq in Hty. subst t'.
    exists p. split; auto. apply mem_s_In; auto.
  - intros [Hin [p [Hp Htr]]]. split; auto.
    unfold type_active. apply existsb_exists.
    exists (p, narg args p). split.
    + unfold pv0, pvals0. apply in_map_iff. exists p; split; auto.
      (* p is a constructor parameter *)
      match goal with Hs : subset_s (flat_map snd noise_type_params) noise_param_order = true |- _ =>
        unfold subset_s in Hs; rewrite forallb_forall in Hs; apply mem_s_In; apply Hs end.
      apply in_flat_map. unfold params_of_type in Hp.
      destruct (find (fun e : string * list string => String.eqb t (fst e)) noise_type_params) eqn:F; [|simpl in Hp; tauto].
      exists p0. split; auto. apply find_some in F. tauto.
    + simpl. rewrite Htr. simpl.
      unfold params_of_type in Hp.
      destruct (find (fun e : string * list string => String.eqb t (fst e)) noise_type_params) eqn:F; [|simpl in Hp; tauto].
      apply find_some in F as [Fi Fe]. apply String.eqb_eq in Fe. subst t.
      specialize (PT1 p0 Fi). rewrite forallb_forall in PT1. specialize (PT1 p Hp).
      destruct (param_type p); [|discriminate]. rewrite seqb_sym. auto.
Qed.

(** ** Object heap: a constructor that writes only to its own fresh instance
    cannot change what any earlier instance reads *)
Lemma nth_error_app_old : forall {A} (l : list A) x i,
  (i < List.length l)%nat -> nth_error (l ++ [x]) i = nth_error l i.
Proof. intros. apply nth_error_app1; auto. Qed.

Theorem new_local_frame : forall h d i a,
  (i < List.length (h_objs h))%nat ->
  read_attr (new_local h d) i a = read_attr h i a.
Proof.
  intros. unfold read_attr, new_local. simpl. rewrite nth_error_app_old; auto.
Qed.

Theorem staterepr_no_sharing : forall h eig amps h' i a,
  staterepr_new h eig amps = Some h' ->
  (i < List.length (h_objs h))%nat ->
  read_attr h' i a = read_attr h i a.
Proof.
  unfold staterepr_new. intros. destruct (first_key_len amps); [|discriminate].
  inversion H; subst. apply new_local_frame; auto.
Qed.

(** after any sequence of constructions every instance reads its own number
    of qudits *)
Definition own_nq (ea : pv * pv) : option pv :=
  match first_key_len (snd ea) with Some n => Some (PInt n) | None => None end.

Lemma build_states_objs : forall l h h',
  build_states h l = Some h' ->
  h_class h' = h_class h
  /\ exists ds, h_objs h' = h_objs h ++ ds
       /\ map (get "_n_qudits") ds = map own_nq l.
Proof.
  induction l as [|[e a] r IH]; simpl; intros h h' H.
  - inversion H; subst. split; auto. exists []. rewrite app_nil_r. auto.
  - unfold staterepr_new in H. destruct (first_key_len a) eqn:F; [|discriminate].
    apply IH in H as [Hc [ds [Ho Hm]]]. simpl in *. split; auto.
    exists (staterepr_inst e a z :: ds). split.
    + rewrite Ho. rewrite <- app_assoc. auto.
    + simpl. unfold own_nq at 1. simpl. rewrite F. f_equal. auto.
Qed.

Lemma map_nth_seq : forall {A B} (g : option A -> B) (l : list A),
  map (fun i => g (nth_error l i)) (seq 0 (List.length l)) = map (fun x => g (Some x)) l.
Proof.
  induction l; simpl; auto. f_equal.
  rewrite <- seq_shift, map_map. simpl. auto.
Qed.

Theorem staterepr_reads_own : forall l h,
  build_states empty_heap l = Some h ->
  nq_readings h = map own_nq l.
Proof.
  intros l h H. apply build_states_objs in H as [Hc [ds [Ho Hm]]].
  simpl in Ho. unfold nq_readings, read_attr. rewrite Ho.
  rewrite (map_nth_seq (fun o => match o with
                                 | Some d => match get "_n_qudits" d with
                                             | Some v => Some v
                                             | None => get "_n_qudits" (h_class h)
                                             end
                                 | None => None
                                 end) ds).
  rewrite <- Hm. rewrite Hc. simpl.
  apply map_ext. intros d. destruct (get "_n_qudits" d); auto.
Qed.

(** why it matters: with the attribute on the class (the code before commit
    b3b580b8) the second construction changed what the first instance read *)
Lemma staterepr_on_class_shares :
  exists h1 h2 eig amps,
    staterepr_new_on_class h1 eig amps = Some h2
    /\ read_attr h1 0 "_n_qudits" = Some (PInt 2)
    /\ read_attr h2 0 "_n_qudits" = Some (PInt 3).
Proof.
  eexists (mkHeap [("_n_qudits", PInt 2)] [[("_eigenstates", PList [PStr "r"; PStr "g"]); ("_amplitudes", PDict [("rg", PFlt one)])]]).
  eexists. exists (PList [PStr "r"; PStr "g"]), (PDict [("rgr", PFlt one)]).
  split; [reflexivity|]. split; reflexivity.
Qed.

(** ** The device decoder takes ["dmm_objects"] from the JSON alone: an absent
    key means no DMM, whatever the class default is (commit 877338bd) *)
Lemma construct_fields_get : forall t params a,
  construct_fields t params = Some a ->
  NoDup (names t) ->
  forall f, In f t -> get (f_name f) a = fval f params.
Proof.
  induction t as [|g r IH]; simpl; intros params a H ND f Hi; [tauto|].
  inversion ND; subst.
  fold (fval g params) in H.
  destruct (fval g params) eqn:V; [|discriminate].
  destruct (construct_fields r params) eqn:C; [|discriminate].
  inversion H; subst. simpl.
  destruct Hi as [E|Hi].
  - subst. rewrite seqb_refl. auto.
  - destruct (String.eqb_spec (f_name f) (f_name g)).
    + exfalso. apply H2. rewrite <- e. apply in_map; auto.
    + eapply IH; eauto.
Qed.

Theorem dec_dev_absent_dmm_is_empty : forall obj d,
  get "dmm_objects" obj = None ->
  dec_dev (PDict obj) = Some d ->
  attr "dmm_objects" d = PList [].
Proof.
  intros obj d Hn H. unfold dec_dev in H. rewrite Hn in H.
  destruct (get "is_virtual" obj); [|discriminate].
  destruct (get "channels" obj) as [[]|]; try discriminate.
  set (cls := if truthy p then "VirtualDevice" else "Device") in *.
  destruct (dev_tbl cls) as [t|] eqn:T; [|discriminate].
  destruct (mapM chan_id l) as [ids|]; [|discriminate].
  destruct (mapM dec_chan l) as [objs|]; [|discriminate].
  simpl mapM in H. cbv iota beta in H.
  destruct (field_loop t t with_repr obj dec_dev_val) as [ps|]; [|discriminate].
  unfold construct in H.
  match type of H with (if ?c then _ else _) = _ => destruct c; [|discriminate] end.
  destruct (construct_fields t _) as [a|] eqn:C; [|discriminate].
  inversion H; subst d. unfold attr, attrs_of.
  assert (Ht : t = tbl_Device \/ t = tbl_VirtualDevice).
  { unfold dev_tbl in T. destruct (String.eqb cls "Device"); [left; congruence|].
    destruct (String.eqb cls "VirtualDevice"); [right; congruence | discriminate]. }
  assert (G : exists f, In f t /\ f_name f = "dmm_objects" /\ f_init f = true /\ NoDup (names t)).
  { destruct Ht; subst t.
    - exists (mkF "dmm_objects" true (default_of tbl_Device "dmm_objects")).
      split; [vm_compute; tauto|]. split; [reflexivity|]. split; [reflexivity|].
      apply nodup_s_NoDup. vm_compute. reflexivity.
    - exists (mkF "dmm_objects" true (default_of tbl_VirtualDevice "dmm_objects")).
      split; [vm_compute; tauto|]. split; [reflexivity|]. split; [reflexivity|].
      apply nodup_s_NoDup. vm_compute. reflexivity. }
  destruct G as [f [Hi [Hname [Hinit ND]]]].
  pose proof (construct_fields_get _ _ _ C ND f Hi) as Gf.
  rewrite Hname in Gf. rewrite Gf. unfold fval. rewrite Hinit, Hname.
  rewrite get_app. simpl. reflexivity.
Qed.
