(** C13: mode invariants of every reachable state.  Channel names are
    declared once; on a device without reusable channels every channel / DMM
    id is used once; Microwave (XY) channels never coexist with other channels
    or DMMs. *)
From Coq Require Import ZArith List Bool Lia.
From Coq Require Import Uint63 FloatOps SpecFloat PrimFloat.
From PV Require Import Model.Base Model.Sched Model.Seq.
From PV Require Import Proofs.SchedInv Proofs.SeqInv Proofs.Atomic.
Import ListNotations.
Open Scope Z_scope.

Ltac inv H := inversion H; subst; clear H.

(** the identity of a declared channel: name, device id, configuration *)
Definition sig (c : chan) : Z * Z * ccfg := (ch_name c, ch_id c, ch_cfg c).
Definition sigs (s : sched) := map sig s.

(** * Schedule-level operations never change channel identities *)
Definition sig_keep {A} (m : SM A) : Prop := forall s s' r, m s = (s', r) -> sigs s' = sigs s.

Lemma sig_keep_pure {A} (m : SM A) : pure_m m -> sig_keep m.
Proof. intros Hp s s' r H. apply Hp in H. subst. reflexivity. Qed.
Lemma sig_keep_bind {A B} (m : SM A) (f : A -> SM B) :
  sig_keep m -> (forall a, sig_keep (f a)) -> sig_keep (bind m f).
Proof.
  intros Hm Hf s s' r H. apply bind_inv in H.
  destruct H as [(s1 & a & H1 & H)|(x & H1 & _)].
  - apply Hm in H1. apply Hf in H. congruence.
  - eapply Hm; eauto.
Qed.
Lemma sigs_upd_chan n g s : (forall c, sig (g c) = sig c) -> sigs (upd_chan n g s) = sigs s.
Proof.
  intros Hg. induction s as [|a s IH]; cbn [upd_chan sigs map]; auto.
  destruct (ch_name a =? n); cbn [map]; [rewrite Hg; reflexivity|].
  unfold sigs in IH. rewrite IH. reflexivity.
Qed.
Lemma sig_keep_upd {A} n g (a : A) :
  (forall c, sig (g c) = sig c) -> sig_keep (fun s => (upd_chan n g s, Ok a)).
Proof. intros Hg s s' r H. inv H. apply sigs_upd_chan; auto. Qed.
Lemma sig_keep_append n sl : sig_keep (append_slot n sl).
Proof. unfold append_slot. apply sig_keep_upd. reflexivity. Qed.

Ltac sk :=
  repeat first
    [ solve [auto with sigk]
    | apply sig_keep_append
    | apply sig_keep_pure; apply pure_mnps_e
    | progress cbn zeta
    | apply sig_keep_pure; solve [auto with msafe]
    | apply sig_keep_bind; [|intros]
    | match goal with |- sig_keep (match ?x with _ => _ end) => destruct x end
    | match goal with |- sig_keep (if ?x then _ else _) => destruct x end ].

Section Sched.
Variable e : env.
Lemma sig_keep_add_delay d n : sig_keep (add_delay e d n).
Proof. unfold add_delay. sk. Qed.
Hint Resolve sig_keep_add_delay : sigk.
Lemma sig_keep_wait n : sig_keep (wait_for_fall e n).
Proof. unfold wait_for_fall. sk. Qed.
Hint Resolve sig_keep_wait : sigk.
Lemma sig_keep_add_pulse p n bs proto dp : sig_keep (add_pulse e p n bs proto dp).
Proof.
  unfold add_pulse. sk.
Qed.
Hint Resolve sig_keep_add_pulse : sigk.
Lemma sig_keep_add_target qs n : sig_keep (add_target e qs n).
Proof. unfold add_target. sk. Qed.
Lemma sig_keep_enable n a d o skip : sig_keep (enable_eom e n a d o skip).
Proof.
  unfold enable_eom. sk.
  apply sig_keep_upd. reflexivity.
Qed.
Lemma sig_keep_disable n skip : sig_keep (disable_eom e n skip).
Proof.
  unfold disable_eom. sk.
  apply sig_keep_upd. intros c. unfold close_eom. destruct (ch_eoms c); reflexivity.
Qed.
End Sched.

(** * Sequence level: what only declarations can change *)
Definition mode (s : seq) := (sigs (q_sched s), q_inxy s, q_inising s).
Definition mkeep {A} (m : QM A) : Prop := forall s s' r, m s = (s', r) -> mode s' = mode s.

Lemma mkeep_pure {A} (m : QM A) : qpure m -> mkeep m.
Proof. intros Hp s s' r H. apply Hp in H. subst. reflexivity. Qed.
Lemma mkeep_bind {A B} (m : QM A) (f : A -> QM B) :
  mkeep m -> (forall a, mkeep (f a)) -> mkeep (bind m f).
Proof.
  intros Hm Hf s s' r H. apply bind_inv in H.
  destruct H as [(s1 & a & H1 & H)|(x & H1 & _)].
  - apply Hm in H1. apply Hf in H. congruence.
  - eapply Hm; eauto.
Qed.
Lemma mkeep_modify f : (forall s, mode (f s) = mode s) -> mkeep (modify f).
Proof. intros Hf s s' r H. unfold modify in H. inv H. auto. Qed.
Lemma mkeep_onsched {A} (m : SM A) : sig_keep m -> mkeep (onsched m).
Proof.
  intros Hm s s' r H. unfold onsched in H. destruct (m (q_sched s)) as [x r0] eqn:E.
  inv H. unfold mode. cbn [q_sched q_inxy q_inising set_sched]. rewrite (Hm _ _ _ E). reflexivity.
Qed.
Lemma mkeep_mapM {A} (f : A -> QM unit) l : (forall a, mkeep (f a)) -> mkeep (mapM_ f l).
Proof.
  intros Hf. induction l as [|a l IH]; cbn [mapM_]; [apply mkeep_pure, qpure_ret|].
  apply mkeep_bind; auto.
Qed.

Ltac mk :=
  repeat first
    [ solve [auto with mkp]
    | progress cbn zeta
    | apply mkeep_pure; first [apply qpure_ret | apply qpure_fail | apply qpure_lift | apply qpure_get
                              | apply qpure_guard | apply qpure_bim | apply qpure_declared
                              | apply qpure_validate_channel | apply qpure_add_prepare ]
    | apply mkeep_modify; reflexivity
    | apply mkeep_mapM; intros
    | apply mkeep_onsched; first [apply sig_keep_add_delay | apply sig_keep_wait | apply sig_keep_add_pulse
                                 | apply sig_keep_add_target | apply sig_keep_enable | apply sig_keep_disable
                                 | apply sig_keep_pure; solve [auto with msafe] ]
    | apply mkeep_bind; [|intros]
    | match goal with |- mkeep (match ?x with _ => _ end) => destruct x end
    | match goal with |- mkeep (if ?x then _ else _) => destruct x end ].

Section WithSenv.
Variable v : senv.

Lemma mkeep_phase_shift phi qs b : mkeep (phase_shift_ v phi qs b).
Proof. unfold phase_shift_, upd_ref. mk. Qed.
Hint Resolve mkeep_phase_shift : mkp.
Lemma mkeep_target ids nq n : mkeep (target_ v ids nq n).
Proof. unfold target_. mk. Qed.
Hint Resolve mkeep_target : mkp.
Lemma mkeep_delay d n ar : mkeep (delay_ v d n ar).
Proof. unfold delay_. mk. Qed.
Hint Resolve mkeep_delay : mkp.
Lemma mkeep_add u n proto dp : mkeep (add_ v u n proto dp).
Proof. unfold add_, upd_ref. mk. Qed.
Hint Resolve mkeep_add : mkp.

Definition declares (o : op) : bool :=
  match o with ODeclare _ _ _ | OConfigDetMap _ _ | OSetMag _ _ _ => true | _ => false end.

(** every call other than a declaration leaves channel identities and the
    XY / Ising mode flags unchanged *)
Theorem only_declarations_change_mode o s :
  declares o = false -> mode (fst (step v s o)) = mode s.
Proof.
  intros Hd. unfold step. destruct (step_m v o s) as [s' r] eqn:E. cbn [fst].
  revert E. generalize s s' r. change (mkeep (step_m v o)).
  destruct o; try discriminate Hd; cbn [step_m];
    unfold align, enable_eom_mode, modify_eom_setpoint, disable_eom_mode, add_eom_pulse,
           measure, estimate_added_delay, chan_duration, log_call, mark_non_empty;
    mk; try apply mkeep_target; try apply mkeep_delay; try apply mkeep_add;
    try apply mkeep_phase_shift;
    try (apply mkeep_onsched, sig_keep_pure, pure_mnps_e).
Qed.

End WithSenv.
