(** C13: mode invariants of every reachable state.  Channel names are
    declared once; on a device without reusable channels every channel / DMM
    id is used once; Microwave (XY) channels never coexist with other channels
    or DMMs. *)
From Coq Require Import ZArith List Bool Lia.
From Coq Require Import Uint63 FloatOps SpecFloat PrimFloat.
From PV Require Import Model.Base Model.Sched Model.Seq.
From PV Require Import Proofs.SchedInv Proofs.SeqInv Proofs.Atomic.
Import ListNotations.
Open Scope Z_scope.

Ltac inv H := inversion H; subst; clear H.

(** the identity of a declared channel: name, device id, configuration *)
Definition sig (c : chan) : Z * Z * ccfg := (ch_name c, ch_id c, ch_cfg c).
Definition sigs (s : sched) := map sig s.

(** * Schedule-level operations never change channel identities *)
Definition sig_keep {A} (m : SM A) : Prop := forall s s' r, m s = (s', r) -> sigs s' = sigs s.

Lemma sig_keep_pure {A} (m : SM A) : pure_m m -> sig_keep m.
Proof. intros Hp s s' r H. apply Hp in H. subst. reflexivity. Qed.
Lemma sig_keep_bind {A B} (m : SM A) (f : A -> SM B) :
  sig_keep m -> (forall a, sig_keep (f a)) -> sig_keep (bind m f).
Proof.
  intros Hm Hf s s' r H. apply bind_inv in H.
  destruct H as [(s1 & a & H1 & H)|(x & H1 & _)].
  - apply Hm in H1. apply Hf in H. congruence.
  - eapply Hm; eauto.
Qed.
Lemma sigs_upd_chan n g s : (forall c, sig (g c) = sig c) -> sigs (upd_chan n g s) = sigs s.
Proof.
  intros Hg. induction s as [|a s IH]; cbn [upd_chan sigs map]; auto.
  destruct (ch_name a =? n); cbn [map]; [rewrite Hg; reflexivity|].
  unfold sigs in IH. rewrite IH. reflexivity.
Qed.
Lemma sig_keep_upd {A} n g (a : A) :
  (forall c, sig (g c) = sig c) -> sig_keep (fun s => (upd_chan n g s, Ok a)).
Proof. intros Hg s s' r H. inv H. apply sigs_upd_chan; auto. Qed.
Lemma sig_keep_append n sl : sig_keep (append_slot n sl).
Proof. unfold append_slot. apply sig_keep_upd. reflexivity. Qed.

Ltac sk :=
  repeat first
    [ solve [auto with sigk]
    | apply sig_keep_append
    | apply sig_keep_pure; apply pure_mnps_e
    | progress cbn zeta
    | apply sig_keep_pure; solve [auto with msafe]
    | apply sig_keep_bind; [|intros]
    | match goal with |- sig_keep (match ?x with _ => _ end) => destruct x end
    | match goal with |- sig_keep (if ?x then _ else _) => destruct x end ].

Section Sched.
Variable e : env.
Lemma sig_keep_add_delay d n : sig_keep (add_delay e d n).
Proof. unfold add_delay. sk. Qed.
Hint Resolve sig_keep_add_delay : sigk.
Lemma sig_keep_wait n : sig_keep (wait_for_fall e n).
Proof. unfold wait_for_fall. sk. Qed.
Hint Resolve sig_keep_wait : sigk.
Lemma sig_keep_add_pulse p n bs proto dp : sig_keep (add_pulse e p n bs proto dp).
Proof.
  unfold add_pulse. sk.
Qed.
Hint Resolve sig_keep_add_pulse : sigk.
Lemma sig_keep_add_target qs n : sig_keep (add_target e qs n).
Proof. unfold add_target. sk. Qed.
Lemma sig_keep_enable n a d o skip : sig_keep (enable_eom e n a d o skip).
Proof.
  unfold enable_eom. sk.
  apply sig_keep_upd. reflexivity.
Qed.
Lemma sig_keep_disable n skip : sig_keep (disable_eom e n skip).
Proof.
  unfold disable_eom. sk.
  apply sig_keep_upd. intros c. unfold close_eom. destruct (ch_eoms c); reflexivity.
Qed.
End Sched.

(** * Sequence level: what only declarations can change *)
Definition mode (s : seq) := (sigs (q_sched s), q_inxy s, q_inising s).
Definition mkeep {A} (m : QM A) : Prop := forall s s' r, m s = (s', r) -> mode s' = mode s.

Lemma mkeep_pure {A} (m : QM A) : qpure m -> mkeep m.
Proof. intros Hp s s' r H. apply Hp in H. subst. reflexivity. Qed.
Lemma mkeep_bind {A B} (m : QM A) (f : A -> QM B) :
  mkeep m -> (forall a, mkeep (f a)) -> mkeep (bind m f).
Proof.
  intros Hm Hf s s' r H. apply bind_inv in H.
  destruct H as [(s1 & a & H1 & H)|(x & H1 & _)].
  - apply Hm in H1. apply Hf in H. congruence.
  - eapply Hm; eauto.
Qed.
Lemma mkeep_modify f : (forall s, mode (f s) = mode s) -> mkeep (modify f).
Proof. intros Hf s s' r H. unfold modify in H. inv H. auto. Qed.
Lemma mkeep_onsched {A} (m : SM A) : sig_keep m -> mkeep (onsched m).
Proof.
  intros Hm s s' r H. unfold onsched in H. destruct (m (q_sched s)) as [x r0] eqn:E.
  inv H. unfold mode. cbn [q_sched q_inxy q_inising set_sched]. rewrite (Hm _ _ _ E). reflexivity.
Qed.
Lemma mkeep_mapM {A} (f : A -> QM unit) l : (forall a, mkeep (f a)) -> mkeep (mapM_ f l).
Proof.
  intros Hf. induction l as [|a l IH]; cbn [mapM_]; [apply mkeep_pure, qpure_ret|].
  apply mkeep_bind; auto.
Qed.

Ltac mk :=
  repeat first
    [ solve [auto with mkp]
    | progress cbn zeta
    | apply mkeep_pure; first [apply qpure_ret | apply qpure_fail | apply qpure_lift | apply qpure_get
                              | apply qpure_guard | apply qpure_bim | apply qpure_declared
                              | apply qpure_validate_channel | apply qpure_add_prepare ]
    | apply mkeep_modify; reflexivity
    | apply mkeep_mapM; intros
    | apply mkeep_onsched; first [apply sig_keep_add_delay | apply sig_keep_wait | apply sig_keep_add_pulse
                                 | apply sig_keep_add_target | apply sig_keep_enable | apply sig_keep_disable
                                 | apply sig_keep_pure; solve [auto with msafe] ]
    | apply mkeep_bind; [|intros]
    | match goal with |- mkeep (match ?x with _ => _ end) => destruct x end
    | match goal with |- mkeep (if ?x then _ else _) => destruct x end ].

Section WithSenv.
Variable v : senv.

Lemma mkeep_phase_shift phi qs b : mkeep (phase_shift_ v phi qs b).
Proof. unfold phase_shift_, upd_ref. mk. Qed.
Hint Resolve mkeep_phase_shift : mkp.
Lemma mkeep_target ids nq n : mkeep (target_ v ids nq n).
Proof. unfold target_. mk. Qed.
Hint Resolve mkeep_target : mkp.
Lemma mkeep_delay d n ar : mkeep (delay_ v d n ar).
Proof. unfold delay_. mk. Qed.
Hint Resolve mkeep_delay : mkp.
Lemma mkeep_add u n proto dp : mkeep (add_ v u n proto dp).
Proof. unfold add_, upd_ref. mk. Qed.
Hint Resolve mkeep_add : mkp.

Definition declares (o : op) : bool :=
  match o with ODeclare _ _ _ | OConfigDetMap _ _ | OSetMag _ _ _ => true | _ => false end.

(** every call other than a declaration leaves channel identities and the
    XY / Ising mode flags unchanged *)
Theorem only_declarations_change_mode o s :
  declares o = false -> mode (fst (step v s o)) = mode s.
Proof.
  intros Hd. unfold step. destruct (step_m v o s) as [s' r] eqn:E. cbn [fst].
  revert E. generalize s s' r. change (mkeep (step_m v o)).
  destruct o; try discriminate Hd; cbn [step_m];
    unfold align, enable_eom_mode, modify_eom_setpoint, disable_eom_mode, add_eom_pulse,
           measure, estimate_added_delay, chan_duration, log_call, mark_non_empty;
    mk; try apply mkeep_target; try apply mkeep_delay; try apply mkeep_add;
    try apply mkeep_phase_shift;
    try (apply mkeep_onsched, sig_keep_pure, pure_mnps_e).
Qed.

End WithSenv.

(** * The invariant *)
Section Inv.
Variable v : senv.

Definition names (sg : list (Z * Z * ccfg)) := map (fun x => fst (fst x)) sg.
Definition ids (sg : list (Z * Z * ccfg)) := map (fun x => snd (fst x)) sg.
Definition is_xy (x : Z * Z * ccfg) : Prop := c_basis (snd x) = 2.

Definition minv (m : list (Z * Z * ccfg) * bool * bool) : Prop :=
  let '(sg, xy, ising) := m in
  NoDup (names sg) /\
  (d_reusable (v_dev v) = false -> NoDup (ids sg)) /\
  (xy = true -> Forall is_xy sg) /\
  (xy = false -> Forall (fun x => ~ is_xy x) sg) /\
  (xy = false -> ising = false -> sg = []).

(** DMM channels are not Microwave channels *)
Definition dev_ok : Prop :=
  Forall (fun x => c_basis (snd x) <> 2) (d_dmms (v_dev v)) /\
  Forall (fun x => c_dmm (snd x) = false) (d_chans (v_dev v)).

Lemma find_chan_none_names n s : find_chan n s = None -> ~ In n (names (sigs s)).
Proof.
  induction s as [|a s IH]; cbn; [tauto|].
  destruct (ch_name a =? n) eqn:E; [discriminate|].
  intros H [Hn|Hn]; [apply Z.eqb_neq in E; auto|apply IH; auto].
Qed.

Lemma occupied_false_ids s id : occupied s id = false -> ~ In id (ids (sigs (q_sched s))).
Proof.
  unfold occupied. generalize (q_sched s). intros l.
  induction l as [|a l IH]; cbn; [tauto|].
  destruct (ch_id a =? id) eqn:E; cbn; [discriminate|].
  intros H [Hn|Hn]; [apply Z.eqb_neq in E; auto|apply IH; auto].
Qed.

Lemma NoDup_snoc {A} (l : list A) x : NoDup l -> ~ In x l -> NoDup (l ++ [x]).
Proof.
  induction l as [|a l IH]; cbn; intros Hn Hx; [constructor; [tauto|constructor]|].
  inv Hn. constructor.
  - rewrite in_app_iff. cbn. intros [H|[H|[]]]; [tauto|subst; tauto].
  - apply IH; auto.
Qed.

(** what a declaration can do to the mode *)
Definition appended (s s' : seq) (name id : Z) (cfg : ccfg) : Prop :=
  sigs (q_sched s') = sigs (q_sched s) ++ [(name, id, cfg)] /\
  find_chan name (q_sched s) = None /\ available v s id cfg = true /\
  (if c_basis cfg =? 2
   then q_inxy s' = true /\ q_inising s' = q_inising s /\ (q_inxy s = true \/ q_sched s = [])
   else q_inxy s' = q_inxy s /\ q_inising s' = true).

Lemma mode_eq_fields s s' :
  mode s' = mode s -> sigs (q_sched s') = sigs (q_sched s) /\ q_inxy s' = q_inxy s /\ q_inising s' = q_inising s.
Proof. unfold mode. intros H. inv H. auto. Qed.

Lemma set_mag_mode b s s' r :
  set_magnetic_field b s = (s', r) ->
  mode s' = mode s \/
  (q_sched s = [] /\ q_inxy s = false /\ sigs (q_sched s') = [] /\ q_inxy s' = true /\ q_inising s' = q_inising s).
Proof.
  intros H. unfold set_magnetic_field in H.
  apply bind_inv in H. destruct H as [(s1 & s0 & H1 & H)|(x & H1 & _)];
    [|apply qpure_get in H1; subst; left; reflexivity].
  apply get_inv in H1. destruct H1 as [-> H1]. inv H1.
  destruct (q_inxy s) eqn:Ex; cbn [negb] in H.
  - (* already XY: nothing about the mode changes *)
    left.
    assert (K : mkeep (guard (negb (q_empty s)) EValue ;;;
              (let '(bx, by_, bz) := b in
               guard (f_eq bx zero && f_eq by_ zero && f_eq bz zero) EValue ;;;
               modify (fun s => set_mag s (Some b)) ;;; log_call (OSetMag bx by_ bz)))).
    { destruct b as [[bx by_] bz]. unfold log_call. mk. }
    eapply K; eauto.
  - apply bind_inv in H. destruct H as [(s2 & u2 & H2 & H)|(x & H2 & _)].
    + apply bind_inv in H2. destruct H2 as [(s3 & u3 & H3 & H2)|(x & H3 & Hr)]; [|discriminate Hr].
      pose proof H3 as G3. apply qpure_guard in H3. subst s3.
      unfold modify in H2. inv H2.
      destruct (q_sched s) eqn:Es; [|unfold guard in G3; discriminate].
      right.
      assert (K : mkeep (let '(bx, by_, bz) := b in
               guard (f_eq bx zero && f_eq by_ zero && f_eq bz zero) EValue ;;;
               modify (fun s => set_mag s (Some b)) ;;; log_call (OSetMag bx by_ bz))).
      { destruct b as [[bx by_] bz]. unfold log_call. mk. }
      apply K in H. apply mode_eq_fields in H. cbn in H. rewrite Es in H. cbn in H.
      destruct H as (A1 & A2 & A3). repeat split; auto.
    + apply bind_inv in H2. destruct H2 as [(s3 & u3 & H3 & H2)|(x' & H3 & _)].
      * unfold modify in H2. discriminate.
      * apply qpure_guard in H3. subst. left. reflexivity.
Qed.

Lemma set_mag_ok_nonxy b s s' u :
  set_magnetic_field b s = (s', Ok u) -> q_inxy s = false -> q_sched s = [].
Proof.
  intros H Hx. unfold set_magnetic_field in H.
  apply bind_inv in H. destruct H as [(s1 & s0 & H1 & H)|(x & H1 & Hr)]; [|discriminate Hr].
  apply get_inv in H1. destruct H1 as [-> H1]. inv H1. rewrite Hx in H. cbn [negb] in H.
  apply bind_inv in H. destruct H as [(s2 & u2 & H2 & H)|(x & H2 & Hr)]; [|discriminate Hr].
  apply bind_inv in H2. destruct H2 as [(s3 & u3 & H3 & H2)|(x & H3 & Hr)]; [|discriminate Hr].
  destruct (q_sched s); [reflexivity|unfold guard in H3; discriminate].
Qed.

Lemma mkeep_ensure_basis b : mkeep (ensure_basis v b).
Proof. unfold ensure_basis. apply mkeep_modify. intros s. destruct (assoc b (q_refs s)); reflexivity. Qed.

Lemma sigs_app l c : sigs (l ++ [c]) = sigs l ++ [sig c].
Proof. unfold sigs. rewrite map_app. reflexivity. Qed.

(** declare_channel: the mode is unchanged, or exactly one channel was
    appended under a fresh name, the channel was available, and the XY / Ising
    flag was set accordingly *)
Lemma declare_mode name chid init s s' r :
  declare_channel v name chid init s = (s', r) ->
  mode s' = mode s \/
  (q_sched s = [] /\ q_inxy s = false /\ sigs (q_sched s') = [] /\ q_inxy s' = true /\ q_inising s' = q_inising s) \/
  exists cfg, assoc chid (d_chans (v_dev v)) = Some cfg /\ appended s s' name chid cfg.
Proof.
  intros H. unfold declare_channel in H.
  apply bind_inv in H. destruct H as [(s1 & u1 & H1 & H)|(x & H1 & _)];
    apply qpure_bim in H1; subst; [|left; reflexivity].
  apply bind_inv in H. destruct H as [(s1 & u1' & H1 & H)|(x & H1 & _)];
    apply qpure_guard in H1; subst; [|left; reflexivity].
  apply bind_inv in H. destruct H as [(s1 & s0 & H1 & H)|(x & H1 & _)];
    [|apply qpure_get in H1; subst; left; reflexivity].
  apply get_inv in H1. destruct H1 as [-> H1]. inv H1.
  apply bind_inv in H. destruct H as [(s1 & u2 & H1 & H)|(x & H1 & _)];
    [|apply qpure_guard in H1; subst; left; reflexivity].
  destruct (find_chan name (q_sched s)) eqn:Hn; [unfold guard in H1; discriminate|].
  apply qpure_guard in H1. subst s1.
  destruct (assoc chid (d_chans (v_dev v))) as [cfg|] eqn:Ha; [|apply qpure_fail in H; subst; left; reflexivity].
  apply bind_inv in H. destruct H as [(s1 & u3 & H1 & H)|(x & H1 & _)];
    [|apply qpure_guard in H1; subst; left; reflexivity].
  destruct (available v s chid cfg) eqn:Hav; cbn [negb] in H1; [|unfold guard in H1; discriminate].
  apply qpure_guard in H1. subst s1.
  (* the flag step *)
  apply bind_inv in H. destruct H as [(s2 & u4 & H2 & H)|(x & H2 & _)].
  2:{ (* only the XY branch can fail: inside set_magnetic_field *)
      destruct (c_basis cfg =? 2) eqn:Eb; [|unfold modify in H2; discriminate].
      apply bind_inv in H2. destruct H2 as [(s3 & u5 & H3 & H2)|(x' & H3 & _)];
        [unfold modify in H2; discriminate|].
      destruct (negb (q_inxy s)) eqn:Ex; [|apply qpure_ret in H3; subst; left; reflexivity].
      apply set_mag_mode in H3. destruct H3 as [H3|H3]; [left; auto|right; left; auto]. }
  assert (Hflag : sigs (q_sched s2) = sigs (q_sched s) /\
                  if c_basis cfg =? 2
                  then q_inxy s2 = true /\ q_inising s2 = q_inising s /\ (q_inxy s = true \/ q_sched s = [])
                  else q_inxy s2 = q_inxy s /\ q_inising s2 = true).
  { destruct (c_basis cfg =? 2) eqn:Eb.
    - apply bind_inv in H2. destruct H2 as [(s3 & u5 & H3 & H2)|(x' & H3 & Hr)]; [|discriminate Hr].
      unfold modify in H2. inv H2. cbn [q_sched q_inxy q_inising set_inxy].
      destruct (q_inxy s) eqn:Ex; cbn [negb] in H3.
      + apply qpure_ret in H3. subst s3.
        split; [reflexivity|]. split; [reflexivity|]. split; [reflexivity|]. left; reflexivity.
      + pose proof (set_mag_ok_nonxy _ _ _ _ H3 Ex) as Hempty.
        apply set_mag_mode in H3. destruct H3 as [H3|(A1 & A2 & A3 & A4 & A5)].
        * apply mode_eq_fields in H3. destruct H3 as (B1 & B2 & B3).
          split; [exact B1|]. split; [reflexivity|]. split; [exact B3|]. right; exact Hempty.
        * split; [rewrite A3, A1; reflexivity|]. split; [reflexivity|]. split; [exact A5|]. right; exact A1.
    - unfold modify in H2. inv H2. cbn [q_sched q_inxy q_inising set_inising].
      split; [reflexivity|]. split; reflexivity. }
  destruct Hflag as [Hs2 Hfl].
  apply bind_inv in H. destruct H as [(s3 & u5 & H3 & H)|(x & H3 & Hr)]; [|unfold modify in H3; discriminate].
  unfold modify in H3. inv H3.
  set (s3 := set_sched s2 (q_sched s2 ++ [new_chan name chid cfg None])) in *.
  assert (K : mkeep (ensure_basis v (c_basis cfg) ;;;
                     (if negb (c_local cfg)
                      then onsched (append_slot name {| s_kind := KTarget; s_ti := -1; s_tf := 0;
                                                        s_tg := all_qids_sorted v |})
                      else match init with
                           | Some qs => target_ v (Ok qs) (Z.of_nat (length (to_set qs))) name
                           | None => ret tt
                           end) ;;;
                     log_call (ODeclare name chid init))).
  { unfold log_call. apply mkeep_bind; [apply mkeep_ensure_basis|intros _].
    apply mkeep_bind; [|intros _; mk].
    destruct (negb (c_local cfg)); [apply mkeep_onsched, sig_keep_append|].
    destruct init; [apply mkeep_target|mk]. }
  apply K in H. apply mode_eq_fields in H. destruct H as (C1 & C2 & C3).
  right. right. exists cfg. split; auto. unfold appended.
  rewrite C1, C2, C3. unfold s3. cbn [q_sched q_inxy q_inising set_sched].
  rewrite sigs_app, Hs2. split; [reflexivity|]. split; [auto|]. split; [auto|].
  destruct (c_basis cfg =? 2); exact Hfl.
Qed.

(** config_detuning_map: unchanged, or only the Ising flag set, or exactly one
    DMM channel appended under a fresh name *)
Lemma detmap_mode mapid dmm s s' r :
  config_detuning_map v mapid dmm s = (s', r) ->
  mode s' = mode s \/
  (sigs (q_sched s') = sigs (q_sched s) /\ q_inxy s' = q_inxy s /\ q_inising s' = true /\ q_inxy s = false) \/
  exists cfg name,
    assoc dmm (d_dmms (v_dev v)) = Some cfg /\
    sigs (q_sched s') = sigs (q_sched s) ++ [(name, dmm, cfg)] /\
    find_chan name (q_sched s) = None /\ available v s dmm cfg = true /\
    q_inxy s = false /\ q_inxy s' = false /\ q_inising s' = true.
Proof.
  intros H. unfold config_detuning_map in H.
  destruct (assoc dmm (d_dmms (v_dev v))) as [cfg|] eqn:Ha; [|apply qpure_fail in H; subst; left; reflexivity].
  apply bind_inv in H. destruct H as [(s1 & s0 & H1 & H)|(x & H1 & _)];
    [|apply qpure_get in H1; subst; left; reflexivity].
  apply get_inv in H1. destruct H1 as [-> H1]. inv H1.
  apply bind_inv in H. destruct H as [(s1 & u1 & H1 & H)|(x & H1 & _)];
    [|apply qpure_guard in H1; subst; left; reflexivity].
  destruct (q_inxy s) eqn:Ex; [unfold guard in H1; discriminate|].
  apply qpure_guard in H1. subst s1.
  apply bind_inv in H. destruct H as [(s1 & u2 & H1 & H)|(x & H1 & _)];
    [|apply qpure_guard in H1; subst; left; reflexivity].
  destruct (available v s dmm cfg) eqn:Hav; cbn [negb] in H1; [|unfold guard in H1; discriminate].
  apply qpure_guard in H1. subst s1.
  apply bind_inv in H. destruct H as [(s1 & u3 & H1 & H)|(x & H1 & _)]; [|unfold modify in H1; discriminate].
  unfold modify in H1. inv H1.
  apply bind_inv in H. destruct H as [(s1 & s0 & H1 & H)|(x & H1 & _)];
    [|apply qpure_get in H1; subst; right; left; cbn; auto].
  apply get_inv in H1. destruct H1 as [-> H1]. inv H1.
  cbn [q_sched set_inising] in H.
  set (name := dmm + dmm_count (set_inising s true) dmm) in *.
  apply bind_inv in H. destruct H as [(s1 & u4 & H1 & H)|(x & H1 & _)];
    [|apply qpure_guard in H1; subst; right; left; cbn; auto].
  destruct (find_chan name (q_sched s)) eqn:Hn; [unfold guard in H1; discriminate|].
  apply qpure_guard in H1. subst s1.
  apply bind_inv in H. destruct H as [(s1 & u5 & H1 & H)|(x & H1 & _)]; [|unfold modify in H1; discriminate].
  unfold modify in H1. inv H1.
  assert (K : mkeep (ensure_basis v 0 ;;;
                     onsched (append_slot name {| s_kind := KTarget; s_ti := -1; s_tf := 0;
                                                  s_tg := all_qids_sorted v |}))).
  { apply mkeep_bind; [apply mkeep_ensure_basis|intros _]. apply mkeep_onsched, sig_keep_append. }
  apply K in H. apply mode_eq_fields in H. destruct H as (C1 & C2 & C3).
  right. right. exists cfg, name. split; auto.
  rewrite C1, C2, C3. cbn [q_sched q_inxy q_inising set_sched set_inising].
  rewrite sigs_app. repeat split; auto.
Qed.

Lemma names_sigs s : names (sigs s) = map ch_name s.
Proof. unfold names, sigs. rewrite map_map. reflexivity. Qed.

(** appending a channel that was available keeps the invariant *)
Lemma minv_append sg xy ising name id cfg xy' ising' (s : seq) :
  dev_ok -> minv (sg, xy, ising) ->
  sg = sigs (q_sched s) -> xy = q_inxy s -> ising = q_inising s ->
  find_chan name (q_sched s) = None -> available v s id cfg = true ->
  (assoc id (d_chans (v_dev v)) = Some cfg \/ (assoc id (d_dmms (v_dev v)) = Some cfg /\ xy = false)) ->
  (if c_basis cfg =? 2
   then xy' = true /\ ising' = ising /\ (xy = true \/ q_sched s = [])
   else xy' = xy /\ ising' = true) ->
  minv (sg ++ [(name, id, cfg)], xy', ising').
Proof.
  intros [Hd1 Hd2] (I1 & I2 & I3 & I4 & I5) -> -> -> Hn Hav Hsrc Hfl.
  unfold minv. unfold names, ids in *. rewrite !map_app. cbn [map fst snd].
  split; [apply NoDup_snoc; auto; fold (names (sigs (q_sched s))); apply find_chan_none_names; auto|].
  split.
  { intros Hr. apply NoDup_snoc; auto.
    unfold available in Hav.
    destruct (negb (q_inxy s) && negb (q_inising s)) eqn:Eflags.
    - apply andb_prop in Eflags. destruct Eflags as [E1 E2].
      rewrite I5; [cbn; tauto| |]; [destruct (q_inxy s)|destruct (q_inising s)]; auto; discriminate.
    - apply andb_prop in Hav. destruct Hav as [Hocc _]. rewrite Hr in Hocc.
      rewrite orb_false_r in Hocc. fold (ids (sigs (q_sched s))).
      apply occupied_false_ids. destruct (occupied s id); [discriminate|reflexivity]. }
  assert (Hcfgdmm : assoc id (d_chans (v_dev v)) = Some cfg -> c_dmm cfg = false).
  { intros Ha. rewrite Forall_forall in Hd2. apply assoc_in in Ha. apply (Hd2 _ Ha). }
  assert (Hdmmbasis : assoc id (d_dmms (v_dev v)) = Some cfg -> c_basis cfg <> 2).
  { intros Ha. rewrite Forall_forall in Hd1. apply assoc_in in Ha. apply (Hd1 _ Ha). }
  destruct (c_basis cfg =? 2) eqn:Eb.
  - apply Z.eqb_eq in Eb. destruct Hfl as (-> & -> & Hxy).
    split; [intros _; apply Forall_app; split; [|constructor; [exact Eb|constructor]]|].
    { destruct Hxy as [Hx|He]; [auto|rewrite He; constructor]. }
    split; [discriminate|discriminate].
  - apply Z.eqb_neq in Eb. destruct Hfl as (-> & ->).
    split.
    { intros Hx. exfalso.
      (* in XY mode only Microwave channels (or DMMs) are available *)
      unfold available in Hav. rewrite Hx in Hav. cbn [negb andb] in Hav.
      apply andb_prop in Hav. destruct Hav as [_ Hb]. apply orb_prop in Hb.
      destruct Hb as [Hb|Hb]; [apply Z.eqb_eq in Hb; auto|].
      destruct Hsrc as [Ha|[Ha Hxf]]; [rewrite (Hcfgdmm Ha) in Hb; discriminate|congruence]. }
    split; [|discriminate].
    intros Hx. apply Forall_app. split; [auto|constructor; [exact Eb|constructor]].
Qed.

(** the invariant is kept by every call, successful or not *)
Theorem mode_inv_step o s :
  dev_ok -> minv (mode s) -> minv (mode (fst (step v s o))).
Proof.
  intros Hd Hi. destruct (declares o) eqn:Ed.
  2:{ rewrite only_declarations_change_mode; auto. }
  unfold step. destruct (step_m v o s) as [s' r] eqn:E. cbn [fst].
  destruct o; try discriminate Ed; cbn [step_m] in E.
  - (* declare *)
    apply bind_inv in E. destruct E as [(s1 & u & E1 & E)|(x & E1 & _)].
    + apply qpure_ret in E. subst s1. apply declare_mode in E1.
      destruct E1 as [E1|[(A1 & A2 & A3 & A4 & A5)|(cfg & Ha & A1 & A2 & A3 & A4)]].
      * rewrite E1. exact Hi.
      * unfold mode in *. rewrite A3, A4, A5. unfold minv in *. rewrite A1 in Hi. cbn in *.
        repeat split; try constructor; intros; try discriminate.
      * unfold mode. rewrite A1.
        eapply minv_append; eauto;
          try (destruct (c_basis cfg =? 2); tauto).
    + apply declare_mode in E1.
      destruct E1 as [E1|[(A1 & A2 & A3 & A4 & A5)|(cfg & Ha & A1 & A2 & A3 & A4)]].
      * rewrite E1. exact Hi.
      * unfold mode in *. rewrite A3, A4, A5. unfold minv in *. rewrite A1 in Hi. cbn in *.
        repeat split; try constructor; intros; try discriminate.
      * unfold mode. rewrite A1.
        eapply minv_append; eauto;
          try (destruct (c_basis cfg =? 2); tauto).
  - (* config_detuning_map *)
    apply bind_inv in E. destruct E as [(s1 & u & E1 & E)|(x & E1 & _)];
      [|apply qpure_bim in E1; subst; exact Hi].
    apply qpure_bim in E1. subst s1.
    assert (G : exists s2 r2, config_detuning_map v mapid dmm s = (s2, r2) /\ mode s' = mode s2).
    { apply bind_inv in E. destruct E as [(s2 & u2 & E2 & E)|(x & E2 & _)].
      - exists s2, (Ok u2). split; auto.
        assert (K : mkeep (log_call (OConfigDetMap mapid dmm) ;;; (ret unit_sv : QM sv))).
        { unfold log_call. mk. }
        eapply K; eauto.
      - eauto. }
    destruct G as (s2 & r2 & G1 & G2). rewrite G2.
    apply detmap_mode in G1.
    destruct G1 as [G1|[(A1 & A2 & A3 & A4)|(cfg & name & Ha & A1 & A2 & A3 & A4 & A5 & A6)]].
    + rewrite G1. exact Hi.
    + unfold mode in *. rewrite A1, A2, A3. unfold minv in *. rewrite A4 in *.
      destruct Hi as (I1 & I2 & I3 & I4 & I5). repeat split; auto. discriminate.
    + unfold mode. rewrite A1.
      eapply (minv_append _ _ _ name dmm cfg (q_inxy s2) (q_inising s2) s); eauto.
      unfold dev_ok in Hd. destruct Hd as [Hd1 _]. rewrite Forall_forall in Hd1.
      pose proof (Hd1 _ (assoc_in _ _ _ Ha)) as Hb. cbn in Hb.
      destruct (c_basis cfg =? 2) eqn:Eb; [apply Z.eqb_eq in Eb; contradiction|].
      split; congruence.
  - (* set_magnetic_field *)
    apply bind_inv in E. destruct E as [(s1 & u & E1 & E)|(x & E1 & _)].
    + apply qpure_ret in E. subst s1. apply set_mag_mode in E1.
      destruct E1 as [E1|(A1 & A2 & A3 & A4 & A5)]; [rewrite E1; exact Hi|].
      unfold mode in *. rewrite A3, A4, A5. unfold minv in *. rewrite A1 in Hi. cbn in *.
      repeat split; try constructor; intros; try discriminate.
    + apply set_mag_mode in E1.
      destruct E1 as [E1|(A1 & A2 & A3 & A4 & A5)]; [rewrite E1; exact Hi|].
      unfold mode in *. rewrite A3, A4, A5. unfold minv in *. rewrite A1 in Hi. cbn in *.
      repeat split; try constructor; intros; try discriminate.
Qed.

Lemma minv_seq0 : minv (mode seq0).
Proof. unfold mode, minv; cbn. repeat split; try constructor; auto. Qed.

(** every reachable state *)
Theorem mode_inv_run ops : dev_ok -> minv (mode (run v ops)).
Proof.
  intros Hd. unfold run.
  assert (G : forall s, minv (mode s) -> minv (mode (fold_left (fun s o => fst (step v s o)) ops s))).
  { induction ops as [|o ops IH]; intros s Hs; cbn [fold_left]; auto.
    apply IH. apply mode_inv_step; auto. }
  apply G. apply minv_seq0.
Qed.

End Inv.
