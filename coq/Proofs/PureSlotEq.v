(** The model's [make_next_pulse_slot] (where a pulse goes: barriers, conflict
    scan, phase-jump buffer, rounding of the inserted wait, the device's
    duration check, the drift-corrected phase) computes exactly what the function
    REGENERATED from the current source of _Schedule.make_next_pulse_slot
    computes (Gen/PureSlot.v), in every state in which the channel exists and has
    a last slot. *)
From Coq Require Import ZArith Bool List Lia.
From Coq Require Import PrimFloat.
From PV Require Import Model.Base Model.Sched Model.Chan Model.Seq.
From PV Require Import Gen.Pure Gen.PureLoops Gen.PureSlot.
From PV Require Import Proofs.PureEq Proofs.PureLoopsEq.
Import ListNotations.
Open Scope Z_scope.

Definition slot_of (e : env) (n : Z) (p : pulse) (dp : option drift) (last : slot)
           (r : res (Z * Z * float)) : res slot :=
  match r with
  | Ok (ti, tf, ph) =>
      Ok {| s_kind := KPulse (with_falls e n ti
                                (match dp with Some _ => set_phase p ph | None => p end));
            s_ti := ti; s_tf := tf; s_tg := s_tg last |}
  | Err er => Err er
  end.

Lemma corrected_phase_eq (p : pulse) (dp : option drift) (t : Z) :
  (p_phase p - match dp with
               | None => zero
               | Some d => gen_calc_phase_drift (dr_rate d) (dr_ti d) t
               end)%float = corrected_phase p dp t.
Proof. destruct dp; reflexivity. Qed.

Lemma make_next_pulse_slot_eq
      (e : env) (p : pulse) (n : Z) (barriers : list Z) (proto : Z)
      (dp : option drift) (block : bool) (s : sched) (last : slot) (c : chan) :
  last_slot n s = (s, Ok last) ->
  the_chan n s = (s, Ok c) ->
  make_next_pulse_slot e p n barriers proto dp block s =
  (s, slot_of e n p dp last
        (gen_make_next_pulse_slot s c last n barriers (negb (negb (proto =? 1))) (proto =? 2) dp
           (p_phase p) (p_dur p) (en_max e) block)).
Proof.
  intros Hl Hc.
  unfold make_next_pulse_slot, bind. rewrite Hl, Hc. unfold get, fold_max.
  unfold gen_make_next_pulse_slot.
  rewrite negb_involutive.
  rewrite !find_add_delay_eq, !last_pulse_slot_eq.
  destruct (proto =? 1) eqn:Hp; cbn [negb].
  - (* no-delay *)
    set (dd := Z.max (fold_left Z.max barriers (s_tf last) - s_tf last) 0).
    destruct (dd >? 0) eqn:Hd.
    + unfold lift. rewrite adjust_duration_eq.
      destruct (adjust_duration (ch_cfg c) dd) as [d'|er]; [|reflexivity].
      rewrite check_duration_eq.
      destruct (check_duration e (s_tf last + d' + p_dur p) block) as [[]|er]; [|reflexivity].
      unfold ret, slot_of. destruct dp as [d|]; cbn [negb]; [|reflexivity].
      repeat f_equal; symmetry; apply phase_format_eq.
    + unfold ret, lift. rewrite check_duration_eq.
      destruct (check_duration e (s_tf last + dd + p_dur p) block) as [[]|er]; [|reflexivity].
      unfold slot_of. destruct dp as [d|]; cbn [negb]; [|reflexivity].
      repeat f_equal; symmetry; apply phase_format_eq.
  - set (cur := find_add_delay n (s_tg last) (proto =? 2) (fold_left Z.max barriers (s_tf last)) s).
    destruct (last_pulse_slot true (ch_slots c)) as [[lps lp]|] eqn:Hlp.
    + rewrite !corrected_phase_eq.
      assert (Hk : s_kind lps = KPulse lp).
      { clear - Hlp. revert Hlp. generalize (ch_slots c) as l.
        induction l as [|x r IH]; cbn [last_pulse_slot]; [discriminate|].
        destruct (s_kind x) eqn:Hx; try exact IH.
        cbn [andb]. destruct (p_dd p); [exact IH|].
        intros H. inversion H; subst. exact Hx. }
      rewrite Hk.
      destruct (f_ne (p_phase lp) (corrected_phase p dp cur)).
      * set (dd := Z.max (cur - s_tf last) _).
        destruct (dd >? 0) eqn:Hd.
        -- unfold lift. rewrite adjust_duration_eq.
           destruct (adjust_duration (ch_cfg c) dd) as [d'|er]; [|reflexivity].
           rewrite check_duration_eq.
           destruct (check_duration e (s_tf last + d' + p_dur p) block) as [[]|er]; [|reflexivity].
           unfold ret, slot_of. destruct dp as [d|]; cbn [negb]; [|reflexivity].
           repeat f_equal; symmetry; apply phase_format_eq.
        -- unfold ret, lift. rewrite check_duration_eq.
           destruct (check_duration e (s_tf last + dd + p_dur p) block) as [[]|er]; [|reflexivity].
           unfold slot_of. destruct dp as [d|]; cbn [negb]; [|reflexivity].
           repeat f_equal; symmetry; apply phase_format_eq.
      * set (dd := Z.max (cur - s_tf last) 0).
        destruct (dd >? 0) eqn:Hd.
        -- unfold lift. rewrite adjust_duration_eq.
           destruct (adjust_duration (ch_cfg c) dd) as [d'|er]; [|reflexivity].
           rewrite check_duration_eq.
           destruct (check_duration e (s_tf last + d' + p_dur p) block) as [[]|er]; [|reflexivity].
           unfold ret, slot_of. destruct dp as [d|]; cbn [negb]; [|reflexivity].
           repeat f_equal; symmetry; apply phase_format_eq.
        -- unfold ret, lift. rewrite check_duration_eq.
           destruct (check_duration e (s_tf last + dd + p_dur p) block) as [[]|er]; [|reflexivity].
           unfold slot_of. destruct dp as [d|]; cbn [negb]; [|reflexivity].
           repeat f_equal; symmetry; apply phase_format_eq.
    + set (dd := Z.max (cur - s_tf last) 0).
      destruct (dd >? 0) eqn:Hd.
      * unfold lift. rewrite adjust_duration_eq.
        destruct (adjust_duration (ch_cfg c) dd) as [d'|er]; [|reflexivity].
        rewrite check_duration_eq.
        destruct (check_duration e (s_tf last + d' + p_dur p) block) as [[]|er]; [|reflexivity].
        unfold ret, slot_of. destruct dp as [d|]; cbn [negb]; [|reflexivity].
        repeat f_equal; symmetry; apply phase_format_eq.
      * unfold ret, lift. rewrite check_duration_eq.
        destruct (check_duration e (s_tf last + dd + p_dur p) block) as [[]|er]; [|reflexivity].
        unfold slot_of. destruct dp as [d|]; cbn [negb]; [|reflexivity].
        repeat f_equal; symmetry; apply phase_format_eq.
Qed.
