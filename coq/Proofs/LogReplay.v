(** C09: the record of successful calls.  Every successful building call
    appends exactly its (normalised) call to the log and nothing else touches
    the log; a query appends nothing.  Consequence: for a history in which
    every call succeeded, replaying the log on a fresh sequence reproduces the
    state exactly (what build() / switch_register() / deserialisation do). *)
From Coq Require Import ZArith List Bool Lia.
From Coq Require Import Uint63 FloatOps SpecFloat PrimFloat.
From PV Require Import Model.Base Model.Sched Model.Seq.
From PV Require Import Proofs.SchedInv Proofs.SeqInv Proofs.Atomic.
Import ListNotations.
Open Scope Z_scope.

Ltac inv H := inversion H; subst; clear H.

(** computations that never touch the log *)
Definition lkeep {A} (m : QM A) : Prop := forall s s' r, m s = (s', r) -> q_log s' = q_log s.

Lemma lkeep_bind {A B} (m : QM A) (f : A -> QM B) :
  lkeep m -> (forall a, lkeep (f a)) -> lkeep (bind m f).
Proof.
  intros Hm Hf s s' r H. apply bind_inv in H.
  destruct H as [(s1 & a & H1 & H)|(x & H1 & _)].
  - apply Hm in H1. apply Hf in H. congruence.
  - eapply Hm; eauto.
Qed.
Lemma lkeep_pure {A} (m : QM A) : qpure m -> lkeep m.
Proof. intros Hp s s' r H. apply Hp in H. subst. reflexivity. Qed.
Lemma lkeep_modify f : (forall s, q_log (f s) = q_log s) -> lkeep (modify f).
Proof. intros Hf s s' r H. unfold modify in H. inv H. auto. Qed.
Lemma lkeep_onsched {A} (m : SM A) : lkeep (onsched m).
Proof.
  intros s s' r H. unfold onsched in H. destruct (m (q_sched s)) as [x r0]. inv H. reflexivity.
Qed.
Lemma lkeep_mapM {A} (f : A -> QM unit) l : (forall a, lkeep (f a)) -> lkeep (mapM_ f l).
Proof.
  intros Hf. induction l as [|a l IH]; cbn [mapM_]; [apply lkeep_pure, qpure_ret|].
  apply lkeep_bind; auto.
Qed.

Ltac lk :=
  repeat first
    [ apply lkeep_onsched
    | apply lkeep_pure; first [apply qpure_ret | apply qpure_fail | apply qpure_lift | apply qpure_get
                              | apply qpure_guard | apply qpure_bim | apply qpure_declared
                              | apply qpure_validate_channel | apply qpure_add_prepare ]
    | apply lkeep_modify; reflexivity
    | apply lkeep_mapM; intros
    | apply lkeep_bind; [|intros]
    | match goal with |- lkeep (match ?x with _ => _ end) => destruct x end
    | match goal with |- lkeep (if ?x then _ else _) => destruct x end ].

Section WithSenv.
Variable v : senv.

Lemma lkeep_phase_shift phi qs b : lkeep (phase_shift_ v phi qs b).
Proof. unfold phase_shift_, upd_ref. lk. Qed.

Lemma lkeep_target ids nq n : lkeep (target_ v ids nq n).
Proof. unfold target_. lk. Qed.

Lemma lkeep_delay d n ar : lkeep (delay_ v d n ar).
Proof. unfold delay_. lk. Qed.

Lemma lkeep_add u n proto dp : lkeep (add_ v u n proto dp).
Proof.
  unfold add_, upd_ref. lk; try apply lkeep_phase_shift.
Qed.

Lemma lkeep_ensure_basis b : lkeep (ensure_basis v b).
Proof. unfold ensure_basis. apply lkeep_modify. intros s. destruct (assoc b (q_refs s)); reflexivity. Qed.

(** computations that on success have appended exactly [o] to the log *)
Definition logs {A} (o : op) (m : QM A) : Prop :=
  forall s s' x, m s = (s', Ok x) -> q_log s' = o :: q_log s.

Lemma logs_bind_l {A B} o (m : QM A) (f : A -> QM B) :
  lkeep m -> (forall a, logs o (f a)) -> logs o (bind m f).
Proof.
  intros Hm Hf s s' x H. apply bind_inv in H.
  destruct H as [(s1 & a & H1 & H)|(er & _ & Hr)]; [|discriminate].
  apply Hm in H1. apply Hf in H. congruence.
Qed.
Lemma logs_bind_r {A B} o (m : QM A) (f : A -> QM B) :
  logs o m -> (forall a, lkeep (f a)) -> logs o (bind m f).
Proof.
  intros Hm Hf s s' x H. apply bind_inv in H.
  destruct H as [(s1 & a & H1 & H)|(er & _ & Hr)]; [|discriminate].
  apply Hm in H1. apply Hf in H. congruence.
Qed.
Lemma logs_log_call o : logs o (log_call o).
Proof. intros s s' x H. unfold log_call, modify in H. inv H. reflexivity. Qed.
Lemma logs_fail {A} o er : logs o (fail er : QM A).
Proof. intros s s' x H. unfold fail in H. discriminate. Qed.

Ltac lks :=
  first [ apply lkeep_add | apply lkeep_target | apply lkeep_delay | apply lkeep_phase_shift
        | apply lkeep_ensure_basis
        | solve [lk; auto using lkeep_target, lkeep_delay, lkeep_add, lkeep_phase_shift, lkeep_ensure_basis] ].
Ltac lg :=
  repeat first
    [ apply logs_log_call
    | apply logs_fail
    | match goal with |- logs _ (bind (log_call _) _) => apply logs_bind_r; [apply logs_log_call | intros; lks] end
    | apply logs_bind_l; [ lks | intros ]
    | match goal with |- logs _ (match ?x with _ => _ end) => destruct x end
    | match goal with |- logs _ (if ?x then _ else _) => destruct x end ].

Lemma lkeep_chan_duration n f : lkeep (chan_duration n f).
Proof. unfold chan_duration. lk. Qed.

(** the call a successful operation records *)
Definition logged (o : op) : op :=
  match o with
  | OEnableEom n a d _ doff c => OEnableEom n a d doff doff c
  | OModifyEom n a d _ doff c => OModifyEom n a d doff doff c
  | _ => o
  end.

(** devices without Microwave channels: declare_channel never has to switch
    the sequence to XY mode (which records a set_magnetic_field call of its own) *)
Definition no_xy : Prop :=
  forall id cfg, assoc id (d_chans (v_dev v)) = Some cfg -> (c_basis cfg =? 2) = false.

Lemma step_logged s o : step v s (logged o) = step v s o.
Proof. destruct o; reflexivity. Qed.

(** every successful building call records exactly itself (EOM calls: with the
    chosen off-detuning) and nothing else; queries record nothing *)
Theorem success_logs_call o s s' x :
  no_xy -> is_query o = false ->
  step v s o = (s', Ok x) -> q_log s' = logged o :: q_log s.
Proof.
  intros Hx Hq H. unfold step in H. revert s s' x H.
  change (logs (logged o) (step_m v o)).
  destruct o; try discriminate Hq; cbn [step_m logged].
  - (* declare *)
    unfold declare_channel. apply logs_bind_r; [|intros; lks].
    apply logs_bind_l; [lks|intros _]. apply logs_bind_l; [lks|intros _].
    apply logs_bind_l; [lks|intros s0]. apply logs_bind_l; [lks|intros _].
    destruct (assoc chid (d_chans (v_dev v))) as [cfg|] eqn:Ha; [|apply logs_fail].
    rewrite (Hx _ _ Ha). lg.
  - lg.
  - lg.
  - lg.
  - lg.
  - unfold align. apply logs_bind_r; [|intros; lks]. lg.
  - lg.
  - lg.
  - unfold enable_eom_mode. apply logs_bind_r; [|intros; lks].
    lg; try apply lkeep_chan_duration.
  - unfold modify_eom_setpoint. apply logs_bind_r; [|intros; lks].
    lg; try apply lkeep_chan_duration.
  - unfold disable_eom_mode. apply logs_bind_r; [|intros; lks]. lg.
  - unfold add_eom_pulse. apply logs_bind_r; [|intros; lks]. lg.
  - unfold measure. apply logs_bind_r; [|intros; lks]. lg.
  - unfold config_detuning_map. lg.
  - lg.
  - unfold set_magnetic_field. apply logs_bind_r; [|intros; lks]. lg.
Qed.

Theorem query_logs_nothing o s : is_query o = true -> q_log (fst (step v s o)) = q_log s.
Proof. intros Hq. rewrite queries_pure; auto. Qed.

(** * Replaying the record of calls *)
Fixpoint all_ok (s : seq) (ops : list op) : Prop :=
  match ops with
  | [] => True
  | o :: r => (exists x, snd (step v s o) = Ok x) /\ all_ok (fst (step v s o)) r
  end.

Lemma replay_from ops : no_xy -> forall s,
  all_ok s ops ->
  exists l, q_log (fold_left (fun s o => fst (step v s o)) ops s) = l ++ q_log s /\
            fold_left (fun s o => fst (step v s o)) (rev l) s =
            fold_left (fun s o => fst (step v s o)) ops s.
Proof.
  intros Hx. induction ops as [|o ops IH]; intros s Hok; cbn [fold_left].
  - exists []. split; reflexivity.
  - destruct Hok as [[x Hs] Hok]. destruct (IH _ Hok) as (l & Hl & Hr).
    destruct (is_query o) eqn:Hq.
    + exists l. rewrite queries_pure in Hl, Hr |- *; auto.
    + destruct (step v s o) as [s1 r1] eqn:E. cbn [fst snd] in *. subst r1.
      pose proof (success_logs_call o s s1 x Hx Hq E) as Hlog.
      exists (l ++ [logged o]). split.
      * rewrite Hl, Hlog, <- app_assoc. reflexivity.
      * rewrite rev_app_distr. cbn [rev app fold_left].
        rewrite step_logged, E. cbn [fst]. exact Hr.
Qed.

(** for a history in which every call succeeded, the log replayed on a fresh
    sequence reproduces the whole state (timelines, references, flags, log) *)
Theorem log_reproduces ops :
  no_xy -> all_ok seq0 ops ->
  run v (rev (q_log (run v ops))) = run v ops.
Proof.
  intros Hx Hok. destruct (replay_from ops Hx seq0 Hok) as (l & Hl & Hr).
  unfold run in *. rewrite Hl. cbn [q_log seq0]. rewrite app_nil_r. exact Hr.
Qed.

End WithSenv.

(** the hypotheses are satisfiable: a two-channel device without Microwave
    channels and a history of four successful calls *)
From PV Require Import Proofs.AlignWitness.
Example log_reproduces_applies :
  no_xy wenv /\ all_ok wenv seq0 wops /\ length (q_log (run wenv wops)) = 4%nat.
Proof.
  split.
  - intros id cfg H. unfold wenv in H. cbn [v_dev d_chans assoc] in H.
    destruct (0 =? id); [injection H as <-; reflexivity|].
    destruct (1 =? id); [injection H as <-; reflexivity|discriminate].
  - split; [|vm_compute; reflexivity].
    cbn [all_ok wops]. repeat split; try (eexists; vm_compute; reflexivity).
Qed.
