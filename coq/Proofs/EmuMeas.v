(** C11 - lemmas about the measurement conventions: positional notation,
    [QutipResult._weights] (legacy) against [QutipState.bitstring_probabilities]
    (V2), normalisation of the sampling distribution, the dimension-2 shortcut. *)
From Coq Require Import ZArith List Bool Lia.
From PV Require Import Model.Base Model.Emu.
Import ListNotations.
Open Scope Z_scope.

(** * Sums *)
Lemma zsum_app : forall a b, zsum (a ++ b) = zsum a + zsum b.
Proof. induction a; simpl; intros; [reflexivity | rewrite IHa; lia]. Qed.

Lemma zsum_map_add : forall {A} (f g : A -> Z) l,
  zsum (map (fun x => f x + g x) l) = zsum (map f l) + zsum (map g l).
Proof. induction l; simpl; lia. Qed.

Lemma zsum_map_ext : forall {A} (f g : A -> Z) l,
  (forall x, In x l -> f x = g x) -> zsum (map f l) = zsum (map g l).
Proof.
  induction l; simpl; intros H; [reflexivity|].
  rewrite (H a) by auto. rewrite IHl; auto.
Qed.

Lemma zsum_map_zero : forall {A} (l : list A), zsum (map (fun _ => 0) l) = 0.
Proof. induction l; simpl; lia. Qed.

(** Fubini for finite lists *)
Lemma zsum_swap : forall {A B} (f : A -> B -> Z) (la : list A) (lb : list B),
  zsum (map (fun a => zsum (map (fun b => f a b) lb)) la)
  = zsum (map (fun b => zsum (map (fun a => f a b) la)) lb).
Proof.
  induction la; simpl; intros.
  - rewrite zsum_map_zero. reflexivity.
  - rewrite IHla. rewrite <- zsum_map_add. reflexivity.
Qed.

(** * Ranges *)
Lemma zrange_from_length : forall n a, length (zrange_from a n) = n.
Proof. induction n; simpl; intros; [reflexivity | rewrite IHn; reflexivity]. Qed.

Lemma zrange_from_In : forall n a x, In x (zrange_from a n) <-> a <= x < a + Z.of_nat n.
Proof.
  induction n; intros a x.
  - simpl. lia.
  - cbn [zrange_from In]. rewrite IHn. lia.
Qed.

Lemma zrange_In : forall N x, In x (zrange N) <-> 0 <= x < N.
Proof. intros. unfold zrange. rewrite zrange_from_In. lia. Qed.

Lemma zrange_length : forall N, 0 <= N -> Z.of_nat (length (zrange N)) = N.
Proof. intros. unfold zrange. rewrite zrange_from_length. lia. Qed.

(** exactly one element of a range equals a given member *)
Lemma zsum_indicator_from : forall n a c v,
  a <= c < a + Z.of_nat n ->
  zsum (map (fun x => if x =? c then v else 0) (zrange_from a n)) = v.
Proof.
  induction n; intros a c v H.
  - simpl in H. lia.
  - cbn [zrange_from map zsum fold_right].
    fold (zsum (map (fun x => if x =? c then v else 0) (zrange_from (a + 1) n))).
    destruct (Z.eqb_spec a c).
    + subst. rewrite (zsum_map_ext _ (fun _ => 0)).
      * rewrite zsum_map_zero. lia.
      * intros x Hx. apply zrange_from_In in Hx.
        destruct (Z.eqb_spec x c); [lia | reflexivity].
    + rewrite IHn by lia. lia.
Qed.

Lemma zsum_indicator : forall N c v, 0 <= c < N ->
  zsum (map (fun x => if x =? c then v else 0) (zrange N)) = v.
Proof. intros. unfold zrange. apply zsum_indicator_from. lia. Qed.

(** picking one entry of an indexed list *)
Lemma zsum_pick_from : forall (l : list Z) a c,
  a <= c < a + Z.of_nat (length l) ->
  zsum (map (fun ip => if fst ip =? c then snd ip else 0)
            (combine (zrange_from a (length l)) l))
  = nth (Z.to_nat (c - a)) l 0.
Proof.
  induction l as [|p l IH]; intros a c H.
  - simpl in H. lia.
  - cbn [length zrange_from combine map zsum fold_right fst snd].
    fold (zsum (map (fun ip => if fst ip =? c then snd ip else 0)
                    (combine (zrange_from (a + 1) (length l)) l))).
    destruct (Z.eqb_spec a c).
    + subst. replace (c - c) with 0 by lia. simpl.
      rewrite (zsum_map_ext _ (fun _ => 0)).
      * rewrite zsum_map_zero. lia.
      * intros [i q] Hin. apply in_combine_l in Hin. apply zrange_from_In in Hin.
        simpl. destruct (Z.eqb_spec i c); [lia | reflexivity].
    + rewrite IH by (simpl in H; lia).
      replace (Z.to_nat (c - a)) with (S (Z.to_nat (c - (a + 1)))) by lia.
      simpl. lia.
Qed.

Lemma combine_zrange_more : forall (l : list Z) n a,
  (length l <= n)%nat ->
  combine (zrange_from a n) l = combine (zrange_from a (length l)) l.
Proof.
  induction l as [|x l IH]; intros n a H.
  - destruct n; reflexivity.
  - destruct n; [simpl in H; lia|]. simpl. f_equal. apply IH. simpl in H. lia.
Qed.

Lemma zsum_pick : forall (l : list Z) N c,
  Z.of_nat (length l) = N -> 0 <= c < N ->
  zsum (map (fun ip => if fst ip =? c then snd ip else 0) (combine (zrange N) l))
  = znth l c.
Proof.
  intros l N c HN Hc. unfold zrange.
  rewrite combine_zrange_more by lia.
  rewrite zsum_pick_from by lia.
  unfold znth. destruct (Z.ltb_spec c 0); [lia|]. f_equal. lia.
Qed.

Lemma zsum_combine_snd : forall (l : list Z) N,
  Z.of_nat (length l) = N ->
  zsum (map snd (combine (zrange N) l)) = zsum l.
Proof.
  intros l N HN. unfold zrange. rewrite combine_zrange_more by lia.
  clear HN. generalize 0. induction l as [|x l IH]; intros a0; simpl; [reflexivity|].
  rewrite IH; reflexivity.
Qed.

(** * Positional notation *)
Definition in_base (d : Z) (l : list Z) : Prop := Forall (fun a => 0 <= a < d) l.

Lemma digits_lsb_length : forall d n i, length (digits_lsb d n i) = n.
Proof. induction n; simpl; intros; [reflexivity | rewrite IHn; reflexivity]. Qed.

Lemma digits_lsb_in_base : forall d n i, 0 < d -> in_base d (digits_lsb d n i).
Proof.
  induction n; simpl; intros; constructor.
  - apply Z.mod_pos_bound. lia.
  - apply IHn. lia.
Qed.

Lemma undigits_lsb_bound : forall d l, 0 < d -> in_base d l ->
  0 <= undigits_lsb d l < d ^ Z.of_nat (length l).
Proof.
  intros d l Hd H. induction H; simpl length; [simpl; lia|].
  cbn [undigits_lsb]. rewrite Nat2Z.inj_succ, Z.pow_succ_r by lia. nia.
Qed.

Lemma digits_undigits_lsb : forall d l, 0 < d -> in_base d l ->
  digits_lsb d (length l) (undigits_lsb d l) = l.
Proof.
  intros d l Hd H. induction H; simpl; [reflexivity|].
  replace (x + d * undigits_lsb d l) with (x + undigits_lsb d l * d) by lia.
  f_equal.
  - rewrite Z.mod_add by lia. apply Z.mod_small. lia.
  - rewrite Z.div_add by lia.
    rewrite Z.div_small by lia. rewrite Z.add_0_l. exact IHForall.
Qed.

Lemma undigits_digits_lsb : forall d n i, 0 < d -> 0 <= i < d ^ Z.of_nat n ->
  undigits_lsb d (digits_lsb d n i) = i.
Proof.
  induction n; intros i Hd Hi.
  - simpl in *. lia.
  - cbn [digits_lsb undigits_lsb].
    rewrite Nat2Z.inj_succ, Z.pow_succ_r in Hi by lia.
    rewrite IHn.
    + rewrite Z.add_comm. symmetry. apply Z.div_mod. lia.
    + lia.
    + split; [apply Z.div_pos; lia|]. apply Z.div_lt_upper_bound; lia.
Qed.

Lemma in_base_rev : forall d l, in_base d l -> in_base d (rev l).
Proof. intros. unfold in_base in *. apply Forall_rev. assumption. Qed.

Lemma digits_length : forall d n i, length (digits d n i) = n.
Proof. intros. unfold digits. rewrite rev_length. apply digits_lsb_length. Qed.

Lemma digits_in_base : forall d n i, 0 < d -> in_base d (digits d n i).
Proof. intros. unfold digits. apply in_base_rev. apply digits_lsb_in_base. lia. Qed.

Theorem undigits_digits : forall d n i, 0 < d -> 0 <= i < d ^ Z.of_nat n ->
  undigits d (digits d n i) = i.
Proof.
  intros. unfold undigits, digits. rewrite rev_involutive.
  apply undigits_digits_lsb; assumption.
Qed.

Theorem digits_undigits : forall d l, 0 < d -> in_base d l ->
  digits d (length l) (undigits d l) = l.
Proof.
  intros. unfold undigits, digits.
  rewrite <- (rev_length l). rewrite digits_undigits_lsb.
  - apply rev_involutive.
  - assumption.
  - apply in_base_rev. assumption.
Qed.

Lemma undigits_bound : forall d l, 0 < d -> in_base d l ->
  0 <= undigits d l < d ^ Z.of_nat (length l).
Proof.
  intros. unfold undigits. rewrite <- (rev_length l).
  apply undigits_lsb_bound; [assumption | apply in_base_rev; assumption].
Qed.

(** two indices with the same digits are equal: the basis-state labelling is
    injective *)
Theorem digits_inj : forall d n i j, 0 < d ->
  0 <= i < d ^ Z.of_nat n -> 0 <= j < d ^ Z.of_nat n ->
  digits d n i = digits d n j -> i = j.
Proof.
  intros d n i j Hd Hi Hj E.
  rewrite <- (undigits_digits d n i), <- (undigits_digits d n j) by assumption.
  rewrite E. reflexivity.
Qed.

(** * List equality *)
Lemma zlist_eqb_spec : forall a b, zlist_eqb a b = true <-> a = b.
Proof.
  induction a; destruct b; simpl; split; intros H; try congruence; try reflexivity.
  - apply andb_true_iff in H. destruct H as [H1 H2].
    apply Z.eqb_eq in H1. apply IHa in H2. subst. reflexivity.
  - inversion H; subst. rewrite Z.eqb_refl. simpl. apply IHa. reflexivity.
Qed.

(** * The legacy [np.ix_] selection is bit-pattern equality *)
Definition tobit (one dg : Z) : Z := if dg =? one then 1 else 0.

Lemma bits_of_map : forall d n one i, bits_of d n one i = map (tobit one) (digits d n i).
Proof. reflexivity. Qed.

Lemma bits_in_base2 : forall one l, in_base 2 (map (tobit one) l).
Proof.
  intros. unfold in_base. apply Forall_forall. intros x Hx.
  apply in_map_iff in Hx. destruct Hx as [y [<- _]]. unfold tobit.
  destruct (y =? one); lia.
Qed.

Lemma ix_match_lists : forall d one bs ds,
  in_base 2 bs -> in_base d ds ->
  forallb2 (allowed d one) bs ds = zlist_eqb (map (tobit one) ds) bs.
Proof.
  intros d one bs. induction bs as [|b bs IH]; intros ds Hb Hd.
  - destruct ds; reflexivity.
  - destruct ds as [|dg ds]; [reflexivity|].
    inversion Hb; subst. inversion Hd; subst.
    cbn [forallb2 map zlist_eqb]. rewrite IH by assumption. f_equal.
    unfold allowed, tobit.
    assert (Hb01 : b = 0 \/ b = 1) by lia.
    destruct (Z.leb_spec 0 dg); [|lia]. destruct (Z.ltb_spec dg d); [|lia].
    destruct Hb01; subst b; destruct (Z.eqb_spec dg one); reflexivity.
Qed.

Lemma ix_match_bits : forall d n one dec i, 0 < d ->
  ix_match d n one dec i = zlist_eqb (bits_of d n one i) (digits 2 n dec).
Proof.
  intros. unfold ix_match. rewrite ix_match_lists.
  - reflexivity.
  - apply digits_in_base. lia.
  - apply digits_in_base. assumption.
Qed.

(** a bit pattern equals the binary representation of [dec] iff its value is [dec] *)
Lemma bits_eq_iff_code : forall n bs dec,
  in_base 2 bs -> length bs = n -> 0 <= dec < 2 ^ Z.of_nat n ->
  zlist_eqb bs (digits 2 n dec) = (undigits 2 bs =? dec).
Proof.
  intros n bs dec Hb Hl Hdec.
  destruct (Z.eqb_spec (undigits 2 bs) dec) as [E|E].
  - apply zlist_eqb_spec. subst dec. rewrite <- Hl. symmetry.
    apply digits_undigits; [lia | assumption].
  - destruct (zlist_eqb bs (digits 2 n dec)) eqn:Q; [|reflexivity].
    apply zlist_eqb_spec in Q. exfalso. apply E. rewrite Q.
    apply undigits_digits; [lia | assumption].
Qed.

Definition code (d : Z) (n : nat) (one i : Z) : Z := undigits 2 (bits_of d n one i).

Lemma code_bound : forall d n one i, 0 <= code d n one i < 2 ^ Z.of_nat n.
Proof.
  intros. unfold code.
  pose proof (undigits_bound 2 (bits_of d n one i) ltac:(lia) (bits_in_base2 _ _)) as H.
  rewrite bits_of_map in *. rewrite map_length, digits_length in H. exact H.
Qed.

Lemma ix_match_code : forall d n one dec i, 0 < d -> 0 <= dec < 2 ^ Z.of_nat n ->
  ix_match d n one dec i = (code d n one i =? dec).
Proof.
  intros. rewrite ix_match_bits by assumption. apply bits_eq_iff_code.
  - rewrite bits_of_map. apply bits_in_base2.
  - rewrite bits_of_map, map_length. apply digits_length.
  - assumption.
Qed.

(** the weight of a bitstring is the total probability of the basis states
    whose bit pattern (one-state -> 1, every other state -> 0, atoms in
    register order, first atom first) IS that bitstring *)
Theorem weight_at_histogram : forall d n one probs dec,
  0 < d -> 0 <= dec < 2 ^ Z.of_nat n ->
  weight_at d n one probs dec
  = zsum (map (fun ip => if code d n one (fst ip) =? dec then snd ip else 0)
              (combine (zrange (d ^ Z.of_nat n)) probs)).
Proof.
  intros. unfold weight_at. apply zsum_map_ext. intros [i p] _. simpl.
  rewrite ix_match_code by assumption. reflexivity.
Qed.

(** * Normalisation: the weights add up to the total probability *)
Theorem weights_total : forall d n one probs,
  0 < d -> Z.of_nat (length probs) = d ^ Z.of_nat n ->
  zsum (weights_general d n one probs) = zsum probs.
Proof.
  intros d n one probs Hd Hl. unfold weights_general.
  rewrite (zsum_map_ext _
     (fun dec => zsum (map (fun ip => if code d n one (fst ip) =? dec then snd ip else 0)
                           (combine (zrange (d ^ Z.of_nat n)) probs)))).
  2:{ intros dec Hin. apply zrange_In in Hin. apply weight_at_histogram; assumption. }
  rewrite (zsum_swap (fun dec ip => if code d n one (fst ip) =? dec then snd ip else 0)).
  rewrite (zsum_map_ext _ snd).
  - apply zsum_combine_snd. assumption.
  - intros [i p] _. cbn [fst snd].
    rewrite (zsum_map_ext _ (fun x => if x =? code d n one i then p else 0)).
    + apply zsum_indicator. apply code_bound.
    + intros x _. rewrite Z.eqb_sym. reflexivity.
Qed.

(** * Legacy weights = V2 bitstring probabilities *)
Lemma lookup_acc_add : forall k k' v acc,
  lookup k (acc_add k' v acc) = lookup k acc + (if k' =? k then v else 0).
Proof.
  intros k k' v acc. induction acc as [|[a w] acc IH].
  - unfold lookup. simpl. destruct (Z.eqb_spec k' k); simpl; lia.
  - cbn [acc_add]. destruct (Z.eqb_spec k' a) as [E|E].
    + subst a. unfold lookup. cbn [find fst snd].
      destruct (Z.eqb_spec k' k); simpl; lia.
    + unfold lookup in *. cbn [find fst snd].
      destruct (Z.eqb_spec a k); [|exact IH].
      subst a. destruct (Z.eqb_spec k' k); [contradiction|]. simpl. lia.
Qed.

Lemma lookup_fold : forall {A} (key val : A -> Z) k l acc,
  lookup k (fold_left (fun acc x => acc_add (key x) (val x) acc) l acc)
  = lookup k acc + zsum (map (fun x => if key x =? k then val x else 0) l).
Proof.
  intros A key val k l. induction l; intros acc; simpl; [lia|].
  rewrite IHl, lookup_acc_add. lia.
Qed.

Lemma zsum_filter_zero : forall {A} (g : A -> Z) (keep : A -> bool) l,
  (forall x, In x l -> keep x = false -> g x = 0) ->
  zsum (map g (filter keep l)) = zsum (map g l).
Proof.
  induction l; intros H; simpl; [reflexivity|].
  destruct (keep a) eqn:K; simpl.
  - rewrite IHl; [reflexivity | intros; apply H; simpl; auto].
  - rewrite IHl by (intros; apply H; simpl; auto).
    rewrite (H a) by (simpl; auto). lia.
Qed.

(** Both emulators attach the same probability to every bitstring: the entry
    of V2's [bitstring_probabilities] dictionary for the bitstring
    [binary_repr(dec)] is the legacy weight [weights[dec]] (before the common
    normalisation), provided the cutoff only removes zero entries. *)
Theorem v2_bitprobs_eq_legacy_weights : forall d n one cutoff probs dec,
  0 < d -> 0 <= dec < 2 ^ Z.of_nat n ->
  Forall (fun p => cutoff < p \/ p = 0) probs ->
  lookup dec (fst (v2_bitprobs d n one cutoff probs)) = weight_at d n one probs dec.
Proof.
  intros d n one cutoff probs dec Hd Hdec Hc.
  unfold v2_bitprobs. cbn [fst].
  rewrite (lookup_fold (fun ip => undigits 2 (bits_of d n one (fst ip))) snd).
  unfold lookup at 1. simpl.
  rewrite weight_at_histogram by assumption.
  rewrite (zsum_filter_zero
             (fun ip => if undigits 2 (bits_of d n one (fst ip)) =? dec then snd ip else 0)).
  - reflexivity.
  - intros [i p] Hin K. cbn [fst snd] in *.
    apply in_combine_r in Hin. rewrite Forall_forall in Hc. specialize (Hc p Hin).
    destruct (Z.ltb_spec cutoff p); [discriminate|].
    destruct Hc; [lia|]. subst. destruct (_ =? dec); reflexivity.
Qed.

(** and V2's normalising total is the same as the legacy one *)
Theorem v2_total_eq_sum : forall d n one cutoff probs,
  Forall (fun p => cutoff < p \/ p = 0) probs ->
  Z.of_nat (length probs) = d ^ Z.of_nat n ->
  snd (v2_bitprobs d n one cutoff probs) = zsum probs.
Proof.
  intros d n one cutoff probs Hc Hl. unfold v2_bitprobs. cbn [snd].
  rewrite (zsum_filter_zero snd).
  - apply zsum_combine_snd. assumption.
  - intros [i p] Hin K. cbn [fst snd] in *.
    apply in_combine_r in Hin. rewrite Forall_forall in Hc. specialize (Hc p Hin).
    destruct (Z.ltb_spec cutoff p); [discriminate|]. destruct Hc; lia.
Qed.

(** * The dimension-2 shortcut agrees with the general rule *)
Lemma map_zrange_znth : forall (l : list Z),
  map (znth l) (zrange (Z.of_nat (length l))) = l.
Proof.
  intros l. unfold zrange. rewrite Nat2Z.id.
  assert (G : forall (l : list Z) (pre : list Z),
             map (znth (pre ++ l)) (zrange_from (Z.of_nat (length pre)) (length l)) = l).
  { clear l. induction l as [|x l IH]; intros pre; [reflexivity|].
    cbn [length zrange_from map]. f_equal.
    - unfold znth. destruct (Z.ltb_spec (Z.of_nat (length pre)) 0); [lia|].
      rewrite Nat2Z.id. rewrite app_nth2 by lia. rewrite Nat.sub_diag. reflexivity.
    - specialize (IH (pre ++ [x])). rewrite <- app_assoc in IH. simpl in IH.
      rewrite app_length in IH. simpl in IH.
      replace (Z.of_nat (length pre + 1)) with (Z.of_nat (length pre) + 1) in IH by lia.
      exact IH. }
  apply (G l []).
Qed.

Lemma tobit_one_id : forall l, in_base 2 l -> map (tobit 1) l = l.
Proof.
  intros l H. induction H; cbn [map]; [reflexivity|]. rewrite IHForall. f_equal.
  unfold tobit. destruct (Z.eqb_spec x 1); lia.
Qed.

Lemma tobit_zero_compl : forall l, in_base 2 l -> map (tobit 0) l = map (fun a => 1 - a) l.
Proof.
  intros l H. induction H; cbn [map]; [reflexivity|]. rewrite IHForall. f_equal.
  unfold tobit. destruct (Z.eqb_spec x 0); lia.
Qed.

Lemma undigits_lsb_compl : forall l, in_base 2 l ->
  undigits_lsb 2 (map (fun a => 1 - a) l) = 2 ^ Z.of_nat (length l) - 1 - undigits_lsb 2 l.
Proof.
  intros l H. induction H; [reflexivity|].
  cbn [map undigits_lsb length]. rewrite IHForall.
  rewrite Nat2Z.inj_succ, Z.pow_succ_r by lia. lia.
Qed.

Lemma code_dim2_one : forall n i, 0 <= i < 2 ^ Z.of_nat n -> code 2 n 1 i = i.
Proof.
  intros. unfold code. rewrite bits_of_map.
  rewrite tobit_one_id by (apply digits_in_base; lia).
  apply undigits_digits; [lia | assumption].
Qed.

Lemma code_dim2_zero : forall n i, 0 <= i < 2 ^ Z.of_nat n ->
  code 2 n 0 i = 2 ^ Z.of_nat n - 1 - i.
Proof.
  intros n i Hi. unfold code. rewrite bits_of_map.
  rewrite tobit_zero_compl by (apply digits_in_base; lia).
  unfold undigits, digits. rewrite <- map_rev, rev_involutive.
  rewrite undigits_lsb_compl by (apply digits_lsb_in_base; lia).
  rewrite digits_lsb_length. rewrite undigits_digits_lsb by (assumption || lia). reflexivity.
Qed.

Lemma weights_general_dim2_one : forall n probs,
  Z.of_nat (length probs) = 2 ^ Z.of_nat n ->
  weights_general 2 n 1 probs = probs.
Proof.
  intros n probs Hl. unfold weights_general.
  rewrite <- (map_zrange_znth probs) at 2. rewrite Hl.
  apply map_ext_in. intros dec Hin. apply zrange_In in Hin.
  rewrite weight_at_histogram by lia.
  rewrite (zsum_map_ext _ (fun ip => if fst ip =? dec then snd ip else 0)).
  - apply zsum_pick; assumption.
  - intros [i p] Hi. cbn [fst snd]. apply in_combine_l in Hi. apply zrange_In in Hi.
    rewrite code_dim2_one by assumption. reflexivity.
Qed.

Lemma znth_rev : forall (l : list Z) k, 0 <= k < Z.of_nat (length l) ->
  znth (rev l) k = znth l (Z.of_nat (length l) - 1 - k).
Proof.
  intros l k Hk. unfold znth.
  destruct (Z.ltb_spec k 0); [lia|].
  destruct (Z.ltb_spec (Z.of_nat (length l) - 1 - k) 0); [lia|].
  rewrite rev_nth by lia. f_equal. lia.
Qed.

Lemma weights_general_dim2_zero : forall n probs,
  Z.of_nat (length probs) = 2 ^ Z.of_nat n ->
  weights_general 2 n 0 probs = rev probs.
Proof.
  intros n probs Hl. unfold weights_general.
  rewrite <- (map_zrange_znth (rev probs)). rewrite rev_length, Hl.
  apply map_ext_in. intros dec Hin. apply zrange_In in Hin.
  rewrite weight_at_histogram by lia.
  rewrite (zsum_map_ext _ (fun ip => if fst ip =? 2 ^ Z.of_nat n - 1 - dec then snd ip else 0)).
  - rewrite zsum_pick by (assumption || lia).
    rewrite znth_rev by lia. rewrite Hl. reflexivity.
  - intros [i p] Hi. cbn [fst snd]. apply in_combine_l in Hi. apply zrange_In in Hi.
    rewrite code_dim2_zero by assumption.
    destruct (Z.eqb_spec (2 ^ Z.of_nat n - 1 - i) dec);
      destruct (Z.eqb_spec i (2 ^ Z.of_nat n - 1 - dec)); try lia; reflexivity.
Qed.

(** index of the one state in the two-level eigenbasis of each measurement basis *)
Definition one_idx_dim2 (meas : Z) : Z := if meas =? 0 then 0 else 1.

Theorem weights_dim2_shortcut : forall meas n unit probs,
  meas = 0 \/ meas = 1 \/ meas = 2 ->
  Z.of_nat (length probs) = 2 ^ Z.of_nat n ->
  (match one_state meas, basis_name meas 2 true with
   | Some os, Ok bn => index_of os (eigenbasis bn) = Some (one_idx_dim2 meas)
   | _, _ => False
   end)
  /\ weights_raw meas 2 n true unit probs
     = Ok (weights_general 2 n (one_idx_dim2 meas) probs).
Proof.
  intros meas n unit probs Hm Hl.
  destruct Hm as [-> | [-> | ->]]; (split; [reflexivity|]);
    unfold weights_raw, one_idx_dim2; simpl;
    first [rewrite weights_general_dim2_zero by assumption
          | rewrite weights_general_dim2_one by assumption]; reflexivity.
Qed.

(** a one-state that is absent from the basis (measuring in a basis the
    sequence never addressed): only 00...0 is ever measured *)
Theorem weights_absent_one_state : forall d n one probs dec,
  0 < d -> (one < 0 \/ d <= one) -> 0 <= dec < 2 ^ Z.of_nat n ->
  Z.of_nat (length probs) = d ^ Z.of_nat n ->
  weight_at d n one probs dec = if dec =? 0 then zsum probs else 0.
Proof.
  intros d n one probs dec Hd Hone Hdec Hl.
  rewrite weight_at_histogram by assumption.
  assert (C : forall i, code d n one i = 0).
  { intros i. unfold code. rewrite bits_of_map.
    assert (Z0 : forall l, in_base d l -> undigits 2 (map (tobit one) l) = 0).
    { intros l H. unfold undigits. rewrite <- map_rev.
      apply in_base_rev in H. induction H; simpl; [reflexivity|].
      rewrite IHForall. unfold tobit. destruct (Z.eqb_spec x one); lia. }
    apply Z0. apply digits_in_base. assumption. }
  rewrite (zsum_map_ext _ (fun ip => if 0 =? dec then snd ip else 0)).
  - rewrite (Z.eqb_sym 0 dec). destruct (dec =? 0).
    + apply zsum_combine_snd. assumption.
    + apply zsum_map_zero.
  - intros [i p] _. cbn [fst snd]. rewrite C. reflexivity.
Qed.

(** the hypotheses are satisfiable and the model computes: three-level
    "all" basis measured in the digital basis, two atoms *)
Example weights_example :
  weights_raw 1 3 2 false 100 [1; 2; 3; 4; 5; 6; 7; 8; 9] = Ok [12; 9; 15; 9]
  /\ zsum [12; 9; 15; 9] = zsum [1; 2; 3; 4; 5; 6; 7; 8; 9].
Proof. split; vm_compute; reflexivity. Qed.
