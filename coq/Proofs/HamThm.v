(** C05 - the statements of Props/C05.v, with the hypotheses on the number
    type bundled in [cring_ok]. *)
From Coq Require Import List Arith Bool ZArith QArith Qcanon Lia Ring.
From PV Require Import Model.Ham Proofs.HamLin Proofs.HamForm Proofs.HamAttr Proofs.HamQ.
Import ListNotations.
Local Open Scope nat_scope.

(** commutative ring with an involution (complex conjugation) and 1/2 *)
Record cring_ok (R : cops) : Prop := {
  ok_ring : ring_theory (c0 R) (c1 R) (cadd R) (cmul R) (csub R) (copp R) (@eq R);
  ok_conj_add : forall x y, cconj R (cadd R x y) = cadd R (cconj R x) (cconj R y);
  ok_conj_mul : forall x y, cconj R (cmul R x y) = cmul R (cconj R x) (cconj R y);
  ok_conj_invol : forall x, cconj R (cconj R x) = x;
  ok_conj_1 : cconj R (c1 R) = c1 R;
  ok_conj_half : cconj R (chalf R) = chalf R;
  ok_half_half : cadd R (chalf R) (chalf R) = c1 R
}.

(** the hypotheses are satisfiable: exact Gaussian rationals *)
Lemma cring_ok_qops : cring_ok qops.
Proof.
  constructor.
  - exact qops_ring.
  - exact qops_conj_add.
  - exact qops_conj_mul.
  - exact qops_conj_invol.
  - exact qops_conj_1.
  - exact qops_conj_half.
  - exact qops_half_half.
Qed.

Definition digits (d n : nat) (r : list nat) : Prop :=
  length r = n /\ Forall (fun x => x < d) r.

Lemma kron_flat_index : forall (R : cops) d ops r c,
    digits d (length ops) r -> digits d (length ops) c ->
    tensor R d ops (flat d r) (flat d c) = entry R ops r c.
Proof.
  intros R d ops r c [Hr Fr] [Hc Fc]. apply tensor_flat_index; assumption.
Qed.

Lemma build_operator_single : forall R, cring_ok R ->
    forall d n i a b r c, i < n -> digits d n r -> digits d n c ->
    build_op R d n [(sigma R a b, [i])] (flat d r) (flat d c)
    = b2c R (site1 n i a b r c).
Proof.
  intros R [Hring _ _ _ _ _ _] d n i a b r c Hi [Hr Fr] [Hc Fc].
  apply build_single_entry; assumption.
Qed.

Lemma build_operator_pair : forall R, cring_ok R ->
    forall d n i j a b a' b' r c, i < n -> j < n -> i <> j ->
    digits d n r -> digits d n c ->
    build_op R d n [(sigma R a b, [i]); (sigma R a' b', [j])] (flat d r) (flat d c)
    = b2c R (site2 n i a b j a' b' r c)
    /\ build_op R d n [(sigma R a b, [i; j])] (flat d r) (flat d c)
       = b2c R (site2 n i a b j a b r c).
Proof.
  intros R [Hring _ _ _ _ _ _] d n i j a b a' b' r c Hi Hj Hij [Hr Fr] [Hc Fc].
  split.
  - apply build_pair_entry; assumption.
  - apply build_same_pair_entry; assumption.
Qed.

Lemma ham_hermitian_all_inputs : forall R, cring_ok R ->
    forall d n eb xy hi md on mask mask_end t U chs I J,
      ham_model R d n eb xy hi md on mask mask_end t U chs J I
      = cconj R (ham_model R d n eb xy hi md on mask mask_end t U chs I J).
Proof.
  intros R [Hring Ha _ Hi _ _ _]. apply ham_model_hermitian; assumption.
Qed.

Lemma ham_formula_grouped : forall R, cring_ok R ->
    forall d n r c, digits d n r -> digits d n c ->
    forall eb xy hi md on mask U dict,
      (forall i j, cconj R (U i j) = U i j) ->
      Forall (det_real R) dict -> Forall (key_in_range R n) dict ->
      ham_of_dict R d n eb xy hi md on mask U dict (flat d r) (flat d c)
      = ham_formula_of R n eb xy hi md on mask U dict r c.
Proof.
  intros R [Hring Ha Hm Hi H1 Hh Hhh] d n r c [Hr Fr] [Hc Fc]
         eb xy hi md on mask U dict HU Hd Hk.
  apply ham_of_dict_formula; assumption.
Qed.

Lemma ham_formula_no_shared_entry : forall R, cring_ok R ->
    forall d n r c, digits d n r -> digits d n c ->
    forall eb xy hi md on mask mask_end t U chs,
      (forall i j, cconj R (U i j) = U i j) ->
      let cs := all_contribs R n mask mask_end t chs in
      Forall (det_real R) cs -> Forall (key_in_range R n) cs ->
      NoDup (map fst cs) ->
      ham_model R d n eb xy hi md on mask mask_end t U chs (flat d r) (flat d c)
      = ham_formula_of R n eb xy hi md on mask U cs r c.
Proof.
  intros R [Hring Ha Hm Hi H1 Hh Hhh] d n r c [Hr Fr] [Hc Fc].
  apply ham_model_formula; assumption.
Qed.

Lemma ham_formula_shared_basis_refuted :
  exists (chs : list (chan qops)) (t : Z) (r c : list nat),
    let cs := all_contribs qops 1 [] 0%Z t chs in
    digits 2 1 r /\ digits 2 1 c /\
    Forall (det_real qops) cs /\ Forall (key_in_range qops 1) cs /\
    ham_model qops 2 1 [2; 3] false false false true [] 0%Z t wU chs
              (flat 2 r) (flat 2 c)
    <> ham_formula_of qops 1 [2; 3] false false false true [] wU cs r c.
Proof.
  exists [wA; wB], 5%Z, [1], [0]. simpl.
  split; [split; [reflexivity|repeat constructor]|].
  split; [split; [reflexivity|repeat constructor]|].
  split.
  { repeat constructor; unfold det_real; simpl; unfold gq_conj, gq_of; simpl;
      f_equal; ring. }
  split.
  { repeat constructor. }
  exact shared_basis_refuted.
Qed.

(** addressing *)
Lemma addressing_global : forall (R : cops) n mask mask_end t (c : chan R),
    ch_global R c = true -> ch_dmm R c = false -> (0 <= t)%Z ->
    (ch_basis R c <> 2 ->
     contribs_of_chan R n mask mask_end t c = [(KG (ch_basis R c), ch_val R c)])
    /\ (ch_basis R c = 2 -> (mask_end <= t)%Z ->
        contribs_of_chan R n mask mask_end t c = [(KG 2, ch_val R c)])
    /\ (ch_basis R c = 2 -> (t < mask_end)%Z -> ch_slots R c <> [] ->
        contribs_of_chan R n mask mask_end t c
        = map (fun q => (KL 2 q, ch_val R c))
              (filter (fun q => negb (memb q mask)) (seq 0 n))).
Proof.
  intros R n mask mask_end t c Hg Hd Ht. repeat split.
  - intros Hb. apply contribs_global_ising; assumption.
  - intros Hb Hm. apply contribs_global_xy_unmasked; assumption.
  - intros Hb Hm Hs. destruct (ch_slots R c) as [|s0 rest] eqn:E; [contradiction|].
    apply (contribs_global_xy_masked R n mask mask_end t c s0 rest); assumption.
Qed.

(** the 0/1 coefficient that switches the XY interaction of masked atoms
    back on is exactly "t >= mask end", at every sampled time *)
Lemma xy_mask_coefficient_exact :
  forall D e k, (2 <= D)%Z -> (0 <= k)%Z -> (k <= D - 1)%Z ->
    unmasked_on_full D e k = negb (k <? e)%Z.
Proof. exact mask_coeff_exact. Qed.

(** drive and interaction switch together: from t = mask end on, an XY
    Global channel reaches every atom AND every pair is coupled; before, the
    channel reaches exactly the unmasked atoms AND only pairs of unmasked
    atoms are coupled *)
Lemma xy_mask_drive_and_interaction_agree :
  forall D e t, (2 <= D)%Z -> (0 <= t)%Z -> (t <= D - 1)%Z ->
  forall (R : cops) n mask (c : chan R),
    ch_global R c = true -> ch_dmm R c = false -> ch_basis R c = 2 ->
    ch_slots R c <> [] ->
    ((e <= t)%Z ->
       contribs_of_chan R n mask e t c = [(KG 2, ch_val R c)]
       /\ forall p, coupled_now true true true (unmasked_on_full D e t) mask p = true)
    /\ ((t < e)%Z ->
       contribs_of_chan R n mask e t c
       = map (fun q => (KL 2 q, ch_val R c))
             (filter (fun q => negb (memb q mask)) (seq 0 n))
       /\ forall p, coupled_now true true true (unmasked_on_full D e t) mask p
                    = negb (memb (fst p) mask || memb (snd p) mask)).
Proof.
  intros D e t HD H0 H1 R n mask c Hg Hd Hb Hs. split.
  - intros He. split.
    + apply contribs_global_xy_unmasked; assumption.
    + intros p. rewrite mask_coeff_exact by assumption.
      destruct (t <? e)%Z eqn:E; [apply Z.ltb_lt in E; lia|]. reflexivity.
  - intros He. split.
    + destruct (ch_slots R c) as [|s0 rest] eqn:E; [contradiction|].
      apply (contribs_global_xy_masked R n mask e t c s0 rest); assumption.
    + intros p. rewrite mask_coeff_exact by assumption.
      destruct (t <? e)%Z eqn:E; [|apply Z.ltb_ge in E; lia]. reflexivity.
Qed.
