(** C14 - laws of the modulation model over an arbitrary ordered commutative
    ring (Leibniz equality): integers, rationals ([Qc]) and the real numbers
    are instances.  The kernel is a [Section] variable constrained only by
    the hypotheses named in each lemma (non-negative, unit sum, symmetric). *)
From Coq Require Import ZArith List Bool Arith Lia Ring Ring_theory.
From PV Require Import Model.Base Model.Modul.
Import ListNotations.

Record ordered_ring (T : Type) (t0 t1 : T) (tadd tmul tsub : T -> T -> T)
       (topp : T -> T) (tle : T -> T -> Prop) : Prop := {
  or_ring : ring_theory t0 t1 tadd tmul tsub topp (@eq T);
  or_refl : forall a, tle a a;
  or_trans : forall a b c, tle a b -> tle b c -> tle a c;
  or_add : forall a b c d, tle a b -> tle c d -> tle (tadd a c) (tadd b d);
  or_mul : forall a b, tle t0 a -> tle t0 b -> tle t0 (tmul a b)
}.

(** * index arithmetic of the circular convolution *)
Lemma cidx_lt : forall N n j, (0 < N)%nat -> (cidx N n j < N)%nat.
Proof. intros. unfold cidx. apply Nat.mod_upper_bound. lia. Qed.

Lemma cidx_rev : forall N n j, (j < N)%nat ->
  cidx N n (N - 1 - j) = ((j + (n + 1)) mod N)%nat.
Proof. intros. unfold cidx. f_equal. lia. Qed.

Lemma cidx_shift : forall N n j, (j < N)%nat ->
  cidx N n j = ((n + (N - j)) mod N)%nat.
Proof. intros. unfold cidx. f_equal. lia. Qed.

Lemma cidx_val : forall N n j, (n < N)%nat -> (j < N)%nat ->
  cidx N n j = if (j <=? n)%nat then (n - j)%nat else (n + N - j)%nat.
Proof.
  intros N n j Hn Hj. unfold cidx.
  destruct (j <=? n)%nat eqn:E.
  - apply Nat.leb_le in E.
    replace (n + N - j)%nat with ((n - j) + 1 * N)%nat by lia.
    rewrite Nat.mod_add by lia. apply Nat.mod_small. lia.
  - apply Nat.leb_gt in E. apply Nat.mod_small. lia.
Qed.

Lemma cidx_invol : forall N n j, (n < N)%nat -> (j < N)%nat ->
  cidx N n (cidx N n j) = j.
Proof.
  intros N n j Hn Hj.
  rewrite (cidx_val N n j Hn Hj).
  destruct (j <=? n)%nat eqn:E.
  - apply Nat.leb_le in E. rewrite cidx_val by lia.
    destruct (n - j <=? n)%nat eqn:E2.
    + lia.
    + apply Nat.leb_gt in E2. lia.
  - apply Nat.leb_gt in E. rewrite cidx_val by lia.
    destruct (n + N - j <=? n)%nat eqn:E2.
    + apply Nat.leb_le in E2. lia.
    + lia.
Qed.

Section Laws.
  Variable T : Type.
  Variables t0 t1 : T.
  Variables tadd tmul tsub : T -> T -> T.
  Variable topp : T -> T.
  Variable tle : T -> T -> Prop.
  Hypothesis OR : ordered_ring T t0 t1 tadd tmul tsub topp tle.

  Let Tring := or_ring _ _ _ _ _ _ _ _ OR.
  Add Ring TR : Tring.

  Local Notation "a [+] b" := (tadd a b) (at level 50, left associativity).
  Local Notation "a [*] b" := (tmul a b) (at level 40, left associativity).
  Local Notation "a [<=] b" := (tle a b) (at level 70).
  Local Notation Sumn := (sumn T t0 tadd).
  Local Notation Lsum := (lsum T t0 tadd).
  Local Notation Cconvf := (cconvf T t0 tadd tmul).
  Local Notation Cconv := (cconv T t0 tadd tmul).
  Local Notation Sig := (sig_of T t0).
  Local Notation Pad0 := (pad0 T t0).

  Let le_refl := or_refl _ _ _ _ _ _ _ _ OR.
  Let le_trans := or_trans _ _ _ _ _ _ _ _ OR.
  Let le_add := or_add _ _ _ _ _ _ _ _ OR.
  Let le_mul := or_mul _ _ _ _ _ _ _ _ OR.

  (** ** derived order facts *)
  Lemma le_sub : forall a b, a [<=] b -> t0 [<=] tsub b a.
  Proof.
    intros a b H.
    replace t0 with (a [+] topp a) by ring.
    replace (tsub b a) with (b [+] topp a) by ring.
    apply le_add; [exact H | apply le_refl].
  Qed.

  Lemma le_of_sub : forall a b, t0 [<=] tsub b a -> a [<=] b.
  Proof.
    intros a b H.
    replace a with (t0 [+] a) by ring.
    replace b with (tsub b a [+] a) by ring.
    apply le_add; [exact H | apply le_refl].
  Qed.

  Lemma mul_le_r : forall a b c, t0 [<=] c -> a [<=] b -> a [*] c [<=] b [*] c.
  Proof.
    intros a b c Hc Hab. apply le_of_sub.
    replace (tsub (b [*] c) (a [*] c)) with (tsub b a [*] c) by ring.
    apply le_mul; [apply le_sub; exact Hab | exact Hc].
  Qed.

  Lemma mul_le_l : forall a b c, t0 [<=] c -> a [<=] b -> c [*] a [<=] c [*] b.
  Proof.
    intros a b c Hc Hab.
    replace (c [*] a) with (a [*] c) by ring.
    replace (c [*] b) with (b [*] c) by ring.
    apply mul_le_r; assumption.
  Qed.

  Lemma opp_le : forall a b, a [<=] b -> topp b [<=] topp a.
  Proof.
    intros a b H. apply le_of_sub.
    replace (tsub (topp a) (topp b)) with (tsub b a) by ring.
    apply le_sub; exact H.
  Qed.

  (** ** finite sums *)
  Lemma sumn_ext : forall n f g,
    (forall j, (j < n)%nat -> f j = g j) -> Sumn n f = Sumn n g.
  Proof.
    induction n; intros f g H; simpl; [reflexivity|].
    rewrite (IHn f g), (H n); auto.
  Qed.

  Lemma sumn_add : forall n f g,
    Sumn n (fun j => f j [+] g j) = Sumn n f [+] Sumn n g.
  Proof. induction n; intros; simpl; [ring | rewrite IHn; ring]. Qed.

  Lemma sumn_scale : forall n c f,
    Sumn n (fun j => c [*] f j) = c [*] Sumn n f.
  Proof. induction n; intros; simpl; [ring | rewrite IHn; ring]. Qed.

  Lemma sumn_zero : forall n, Sumn n (fun _ => t0) = t0.
  Proof. induction n; simpl; [reflexivity | rewrite IHn; ring]. Qed.

  Lemma sumn_swap : forall n m (f : nat -> nat -> T),
    Sumn n (fun i => Sumn m (fun j => f i j))
    = Sumn m (fun j => Sumn n (fun i => f i j)).
  Proof.
    induction n; intros m f; simpl.
    - symmetry; apply sumn_zero.
    - rewrite IHn, <- sumn_add. reflexivity.
  Qed.

  Lemma sumn_S_first : forall n f,
    Sumn (S n) f = f O [+] Sumn n (fun j => f (S j)).
  Proof.
    induction n; intros f.
    - simpl; ring.
    - change (Sumn (S (S n)) f) with (Sumn (S n) f [+] f (S n)).
      rewrite IHn. simpl. ring.
  Qed.

  Lemma sumn_S : forall n f, Sumn (S n) f = Sumn n f [+] f n.
  Proof. reflexivity. Qed.

  Lemma sumn_shift1 : forall N g, (0 < N)%nat ->
    Sumn N (fun n => g (((n + 1) mod N)%nat)) = Sumn N g.
  Proof.
    intros N g HN. destruct N as [|M]; [lia|].
    rewrite (sumn_S M (fun n => g (((n + 1) mod S M)%nat))).
    replace ((M + 1) mod S M)%nat with O
      by (replace (M + 1)%nat with (S M) by lia; symmetry; apply Nat.mod_same; lia).
    rewrite (sumn_ext M (fun n => g (((n + 1) mod S M)%nat)) (fun n => g (S n))).
    - rewrite (sumn_S_first M g). ring.
    - intros j Hj. f_equal. rewrite Nat.mod_small by lia. lia.
  Qed.

  Lemma sumn_shift : forall s N f, (0 < N)%nat ->
    Sumn N (fun n => f (((n + s) mod N)%nat)) = Sumn N f.
  Proof.
    induction s; intros N f HN.
    - apply sumn_ext. intros j Hj. f_equal. rewrite Nat.add_0_r.
      apply Nat.mod_small; exact Hj.
    - rewrite <- (IHs N f HN).
      rewrite <- (sumn_shift1 N (fun m => f (((m + s) mod N)%nat)) HN).
      apply sumn_ext. intros j Hj. f_equal.
      rewrite Nat.add_mod_idemp_l by lia. f_equal. lia.
  Qed.

  Lemma sumn_rev : forall N f,
    Sumn N (fun j => f (N - 1 - j)%nat) = Sumn N f.
  Proof.
    induction N; intros f; [reflexivity|].
    rewrite sumn_S_first.
    replace (S N - 1 - 0)%nat with N by lia.
    simpl Sumn at 2.
    rewrite <- (IHN f).
    rewrite (sumn_ext N (fun j => f (S N - 1 - S j)%nat) (fun j => f (N - 1 - j)%nat)).
    - ring.
    - intros j Hj. f_equal. lia.
  Qed.

  (** every row and every column of the circulant matrix sums to the total *)
  Lemma sumn_row : forall N j f, (j < N)%nat ->
    Sumn N (fun n => f (cidx N n j)) = Sumn N f.
  Proof.
    intros N j f Hj.
    rewrite <- (sumn_shift (N - j) N f) by lia.
    apply sumn_ext. intros n Hn. f_equal. apply cidx_shift; exact Hj.
  Qed.

  Lemma sumn_col : forall N n f, (n < N)%nat ->
    Sumn N (fun j => f (cidx N n j)) = Sumn N f.
  Proof.
    intros N n f Hn.
    rewrite <- (sumn_rev N (fun j => f (cidx N n j))).
    rewrite <- (sumn_shift (n + 1) N f) by lia.
    apply sumn_ext. intros j Hj. f_equal. apply cidx_rev; exact Hj.
  Qed.

  Lemma add_nonneg : forall a b, t0 [<=] a -> t0 [<=] b -> t0 [<=] a [+] b.
  Proof.
    intros a b Ha Hb. apply le_of_sub.
    replace (tsub (a [+] b) t0) with (a [+] b) by ring.
    apply le_trans with (b := a [+] t0).
    - replace (a [+] t0) with a by ring. exact Ha.
    - apply le_add; [apply le_refl | exact Hb].
  Qed.

  Lemma sumn_nonneg : forall n f,
    (forall j, (j < n)%nat -> t0 [<=] f j) -> t0 [<=] Sumn n f.
  Proof.
    induction n; intros f H; simpl; [apply le_refl|].
    apply add_nonneg; [apply IHn; auto | apply H; lia].
  Qed.

  Lemma sumn_le : forall n f g,
    (forall j, (j < n)%nat -> f j [<=] g j) -> Sumn n f [<=] Sumn n g.
  Proof.
    induction n; intros f g H; simpl; [apply le_refl|].
    apply le_add; [apply IHn; auto | apply H; lia].
  Qed.

  (** ** the filter laws, on signals as functions *)
  Variable w : nat -> T.      (* kernel weight by circular offset *)
  Variable N : nat.           (* period = number of (padded) samples *)

  Lemma cconvf_linear : forall a b x y n,
    Cconvf w N (fun j => a [*] x j [+] b [*] y j) n
    = a [*] Cconvf w N x n [+] b [*] Cconvf w N y n.
  Proof.
    intros. unfold cconvf.
    rewrite <- !sumn_scale, <- sumn_add.
    apply sumn_ext; intros; ring.
  Qed.

  Lemma cconvf_sum : forall x,
    Sumn N w = t1 -> Sumn N (Cconvf w N x) = Sumn N x.
  Proof.
    intros x Hw. unfold cconvf.
    rewrite sumn_swap.
    apply sumn_ext. intros j Hj.
    rewrite sumn_scale, (sumn_row N j w Hj), Hw. ring.
  Qed.

  Lemma cconvf_nonneg : forall x n,
    (forall k, (k < N)%nat -> t0 [<=] w k) ->
    (forall j, (j < N)%nat -> t0 [<=] x j) ->
    t0 [<=] Cconvf w N x n.
  Proof.
    intros x n Hw Hx. unfold cconvf. apply sumn_nonneg.
    intros j Hj. apply le_mul; [apply Hx; exact Hj|].
    apply Hw, cidx_lt; lia.
  Qed.

  Lemma cconvf_le_max : forall x M n,
    (forall k, (k < N)%nat -> t0 [<=] w k) -> Sumn N w = t1 ->
    (forall j, (j < N)%nat -> x j [<=] M) -> (n < N)%nat ->
    Cconvf w N x n [<=] M.
  Proof.
    intros x M n Hw H1 Hx Hn. unfold cconvf.
    replace M with (Sumn N (fun j => M [*] w (cidx N n j))).
    - apply sumn_le. intros j Hj. apply mul_le_r; [|apply Hx; exact Hj].
      apply Hw, cidx_lt; lia.
    - rewrite sumn_scale, (sumn_col N n w Hn), H1. ring.
  Qed.

  Lemma cconvf_ge_min : forall x m n,
    (forall k, (k < N)%nat -> t0 [<=] w k) -> Sumn N w = t1 ->
    (forall j, (j < N)%nat -> m [<=] x j) -> (n < N)%nat ->
    m [<=] Cconvf w N x n.
  Proof.
    intros x m n Hw H1 Hx Hn. unfold cconvf.
    replace m with (Sumn N (fun j => m [*] w (cidx N n j))).
    - apply sumn_le. intros j Hj. apply mul_le_r; [|apply Hx; exact Hj].
      apply Hw, cidx_lt; lia.
    - rewrite sumn_scale, (sumn_col N n w Hn), H1. ring.
  Qed.

  (** tail bound: if every sample that can be non-zero sits at a circular
      offset in the set [far] from the output index [n], the output is bounded
      by the peak times the kernel mass on [far] *)
  Definition tail_mass (far : nat -> bool) : T :=
    Sumn N (fun k => if far k then w k else t0).

  Lemma cconvf_tail : forall (far : nat -> bool) x B n,
    (forall k, (k < N)%nat -> t0 [<=] w k) -> (n < N)%nat -> t0 [<=] B ->
    (forall j, (j < N)%nat -> topp B [<=] x j /\ x j [<=] B) ->
    (forall j, (j < N)%nat -> far (cidx N n j) = false -> x j = t0) ->
    topp (B [*] tail_mass far) [<=] Cconvf w N x n
    /\ Cconvf w N x n [<=] B [*] tail_mass far.
  Proof.
    intros far x B n Hw Hn HB Hx Hfar. unfold tail_mass.
    rewrite <- (sumn_col N n (fun k => if far k then w k else t0) Hn).
    rewrite <- sumn_scale. unfold cconvf. split.
    - replace (topp (Sumn N (fun j => B [*] (if far (cidx N n j) then w (cidx N n j) else t0))))
        with (Sumn N (fun j => topp B [*] (if far (cidx N n j) then w (cidx N n j) else t0))).
      + apply sumn_le. intros j Hj.
        destruct (far (cidx N n j)) eqn:E.
        * apply mul_le_r; [apply Hw, cidx_lt; lia | apply Hx; exact Hj].
        * rewrite (Hfar j Hj E).
          replace (t0 [*] w (cidx N n j)) with t0 by ring.
          replace (topp B [*] t0) with t0 by ring. apply le_refl.
      + rewrite !sumn_scale. ring.
    - apply sumn_le. intros j Hj.
      destruct (far (cidx N n j)) eqn:E.
      + apply mul_le_r; [apply Hw, cidx_lt; lia | apply Hx; exact Hj].
      + rewrite (Hfar j Hj E).
        replace (t0 [*] w (cidx N n j)) with t0 by ring.
        replace (B [*] t0) with t0 by ring. apply le_refl.
  Qed.

  (** tones are eigen-signals: for a pair (c, s) that behaves like
      (cos, sin) of a frequency on the cyclic group of order [N]
      (subtraction law) and a kernel whose sine transform at that frequency
      vanishes (true of every symmetric kernel), the output is the input
      scaled by the kernel's cosine transform, i.e. by the transfer function
      at that frequency *)
  Lemma cconvf_tone : forall (c s : nat -> T) n,
    (n < N)%nat ->
    (forall a b, (a < N)%nat -> (b < N)%nat ->
       c (cidx N a b) = c a [*] c b [+] s a [*] s b) ->
    Sumn N (fun k => s k [*] w k) = t0 ->
    Cconvf w N c n = Sumn N (fun k => c k [*] w k) [*] c n.
  Proof.
    intros c s n Hn Hsub Hodd. unfold cconvf.
    transitivity (Sumn N (fun k => c (cidx N n k) [*] w k)).
    - rewrite <- (sumn_col N n (fun k => c (cidx N n k) [*] w k) Hn).
      apply sumn_ext. intros j Hj.
      rewrite cidx_invol by assumption. reflexivity.
    - rewrite (sumn_ext N (fun k => c (cidx N n k) [*] w k)
                        (fun k => c n [*] (c k [*] w k) [+] s n [*] (s k [*] w k))).
      + rewrite sumn_add, !sumn_scale, Hodd. ring.
      + intros k Hk. rewrite (Hsub n k Hn Hk). ring.
  Qed.
End Laws.
