(** Invariants of the scheduler model: every schedule-level operation only
    extends channel timelines, and extends them so that they keep tiling the
    time axis (C02), for every configuration and every state. *)
From Coq Require Import ZArith List Bool Lia ZifyBool.
From Coq Require Import Uint63 FloatOps SpecFloat PrimFloat.
From PV Require Import Model.Base Model.Sched.
Import ListNotations.
Open Scope Z_scope.

(** * Durations *)
Definition cfg_ok (g : ccfg) : Prop := 0 < c_clock g /\ 0 < c_min g.

Lemma round_up_divide c d :
  0 < c -> d mod c <> 0 -> (c | d + (c - d mod c)).
Proof.
  intros Hc Hm.
  exists (d / c + 1).
  pose proof (Z.div_mod d c ltac:(lia)) as E.
  rewrite Z.mul_add_distr_r, Z.mul_1_l.
  rewrite (Z.mul_comm (d / c) c). lia.
Qed.

Lemma validate_duration_spec g d d' :
  cfg_ok g ->
  validate_duration g d = Ok d' ->
  c_min g <= d /\ d <= d' /\ d' < d + c_clock g /\ (c_clock g | d') /\
  ((c_clock g | d) -> d' = d) /\
  (match c_max g with Some m => d <= m | None => True end).
Proof.
  intros [Hc Hm] H. unfold validate_duration in H.
  destruct (d <? c_min g) eqn:E1; [discriminate|].
  apply Z.ltb_ge in E1.
  assert (Hmax : match c_max g with Some m => d <= m | None => True end).
  { destruct (c_max g) as [m|]; [|exact I].
    destruct (d >? m) eqn:E2; [discriminate|]. lia. }
  destruct (match c_max g with Some m => d >? m | None => false end); [discriminate|].
  pose proof (Z.mod_pos_bound d (c_clock g) Hc) as Hb.
  destruct (d mod c_clock g =? 0) eqn:E3; cbn [negb] in H.
  - inversion H; subst d'. apply Z.eqb_eq in E3.
    repeat split; try lia; auto.
    apply Z.mod_divide; lia.
  - inversion H; subst d'. apply Z.eqb_neq in E3.
    repeat split; try lia; auto.
    + apply round_up_divide; lia.
    + intros Hd. apply Z.mod_divide in Hd; lia.
Qed.

Lemma validate_duration_accepts g d :
  cfg_ok g -> c_min g <= d ->
  (match c_max g with Some m => d <= m | None => True end) ->
  exists d', validate_duration g d = Ok d'.
Proof.
  intros _ H1 H2. unfold validate_duration.
  destruct (d <? c_min g) eqn:E1; [apply Z.ltb_lt in E1; lia|].
  destruct (c_max g) as [m|].
  - destruct (d >? m) eqn:E2; [lia|].
    destruct (negb (d mod c_clock g =? 0)); eauto.
  - destruct (negb (d mod c_clock g =? 0)); eauto.
Qed.

Lemma adjust_duration_spec g d d' :
  cfg_ok g ->
  adjust_duration g d = Ok d' ->
  c_min g <= d' /\ d <= d' /\ (c_clock g | d') /\
  d' < Z.max d (c_min g) + c_clock g.
Proof.
  intros Hg H. unfold adjust_duration in H.
  apply validate_duration_spec in H; auto.
  destruct H as (H1 & H2 & H3 & H4 & _). repeat split; auto; lia.
Qed.

(** bound on the sequence duration: _Schedule.max_duration *)
Definition le_opt (t : Z) (m : option Z) : Prop :=
  match m with Some x => t <= x | None => True end.
Definition env_ok (e : env) : Prop := le_opt 0 (en_max e).

Lemma check_duration_ok e t : check_duration e t true = Ok tt -> le_opt t (en_max e).
Proof.
  unfold check_duration, le_opt. destruct (en_max e) as [m|]; auto.
  destruct (t >? m) eqn:E; cbn; [discriminate|lia].
Qed.

(** * Tiling of one channel timeline (slots newest first) *)
Definition len_ok (g : ccfg) (s : slot) : Prop :=
  match s_kind s with
  | KPulse p => s_tf s - s_ti s = p_dur p /\ c_min g <= p_dur p
  | KDelay => c_min g <= s_tf s - s_ti s
  | KTarget => s_tf s = s_ti s \/ c_min g <= s_tf s - s_ti s
  end.

Definition first_ok (s : slot) : Prop :=
  s_kind s = KTarget /\ s_ti s = -1 /\ s_tf s = 0.

Definition next_ok (g : ccfg) (prev s : slot) : Prop :=
  s_ti s = s_tf prev /\ 0 <= s_ti s /\ s_ti s <= s_tf s /\
  (c_clock g | s_ti s) /\ (c_clock g | s_tf s) /\ len_ok g s.

Fixpoint tiled (g : ccfg) (l : list slot) : Prop :=
  match l with
  | [] => True
  | s :: r =>
      match r with
      | [] => first_ok s
      | p :: _ => next_ok g p s
      end /\ tiled g r
  end.

Lemma tiled_head_tf g s r :
  tiled g (s :: r) -> 0 <= s_tf s /\ (c_clock g | s_tf s).
Proof.
  cbn [tiled]. destruct r as [|p r'].
  - intros [[_ [_ H]] _]. rewrite H. split; [lia|apply Z.divide_0_r].
  - intros [[_ [H0 [H1 [_ [H2 _]]]]] _]. split; [lia|exact H2].
Qed.

Lemma tiled_push g last r s :
  tiled g (last :: r) ->
  s_ti s = s_tf last -> s_ti s <= s_tf s -> (c_clock g | s_tf s) -> len_ok g s ->
  tiled g (s :: last :: r).
Proof.
  intros Ht H1 H2 H3 H4.
  pose proof (tiled_head_tf _ _ _ Ht) as [Hn Hd].
  cbn [tiled]. split; [|exact Ht].
  unfold next_ok. rewrite H1. repeat split; auto; try lia.
Qed.

(** amplitude limit, on the sample summary the model keeps of each pulse *)
Definition pamp_ok (g : ccfg) (p : pulse) : Prop :=
  match c_maxamp g with Some m => f_gt (p_amax p) m = false | None => True end.
Definition amp_ok (g : ccfg) (s : slot) : Prop :=
  match s_kind s with KPulse p => pamp_ok g p | _ => True end.
(** a defined maximum amplitude is not negative (Channel.__post_init__) *)
Definition cfg_amp_ok (g : ccfg) : Prop :=
  match c_maxamp g with Some m => f_gt zero m = false | None => True end.

(** * Channel and schedule extension *)
Section WithEnv.
Variable e : env.

Definition chan_ok (c : chan) : Prop :=
  cfg_ok (ch_cfg c) /\ tiled (ch_cfg c) (ch_slots c) /\
  Forall (fun sl => le_opt (s_tf sl) (en_max e)) (ch_slots c) /\
  cfg_amp_ok (ch_cfg c) /\ Forall (amp_ok (ch_cfg c)) (ch_slots c).

Definition chan_ext (c c' : chan) : Prop :=
  ch_name c' = ch_name c /\ ch_id c' = ch_id c /\ ch_cfg c' = ch_cfg c /\
  ch_map c' = ch_map c /\
  (exists e, ch_slots c' = e ++ ch_slots c) /\
  (chan_ok c -> chan_ok c').

Lemma chan_ext_refl c : chan_ext c c.
Proof.
  unfold chan_ext. split; [|split; [|split; [|split; [|split]]]]; auto.
  exists []. reflexivity.
Qed.

Lemma chan_ext_trans a b c : chan_ext a b -> chan_ext b c -> chan_ext a c.
Proof.
  intros (A1 & A2 & A3 & A4 & [e1 A5] & A6) (B1 & B2 & B3 & B4 & [e2 B5] & B6).
  unfold chan_ext. split; [|split; [|split; [|split; [|split]]]]; try congruence; auto.
  exists (e2 ++ e1). rewrite B5, A5, app_assoc. reflexivity.
Qed.

(** same channels, position by position, each one extended *)
Definition sx (s s' : sched) : Prop := Forall2 chan_ext s s'.

Lemma sx_refl s : sx s s.
Proof. induction s; constructor; auto using chan_ext_refl. Qed.

Lemma sx_trans a b c : sx a b -> sx b c -> sx a c.
Proof.
  unfold sx. intros H. revert c. induction H; intros c' H'; inversion H'; subst.
  - constructor.
  - constructor; eauto using chan_ext_trans.
Qed.

Lemma sx_ok s s' : sx s s' -> Forall chan_ok s -> Forall chan_ok s'.
Proof.
  induction 1; intros Hf; inversion Hf; subst; constructor; auto.
  destruct H as (_ & _ & _ & _ & _ & H). auto.
Qed.

Lemma sx_find n s s' c :
  sx s s' -> find_chan n s = Some c ->
  exists c', find_chan n s' = Some c' /\ chan_ext c c'.
Proof.
  induction 1 as [|a b s s' Hab Hs IH]; cbn [find_chan]; [discriminate|].
  assert (En : ch_name b = ch_name a) by (destruct Hab; auto).
  rewrite En. destruct (ch_name a =? n).
  - intros E; inversion E; subst. eauto.
  - auto.
Qed.

Lemma sx_find_none n s s' :
  sx s s' -> find_chan n s = None -> find_chan n s' = None.
Proof.
  induction 1 as [|a b s s' Hab Hs IH]; cbn [find_chan]; auto.
  assert (En : ch_name b = ch_name a) by (destruct Hab; auto).
  rewrite En. destruct (ch_name a =? n); [discriminate|auto].
Qed.

Lemma upd_chan_sx n g s c :
  find_chan n s = Some c -> chan_ext c (g c) -> sx s (upd_chan n g s).
Proof.
  induction s as [|a s IH]; cbn [find_chan upd_chan]; [discriminate|].
  destruct (ch_name a =? n).
  - intros E; inversion E; subst. intros H. constructor; auto. apply sx_refl.
  - intros E H. constructor; [apply chan_ext_refl|]. apply IH; auto.
Qed.

Lemma find_upd_same n g s c :
  find_chan n s = Some c -> ch_name (g c) = ch_name c ->
  find_chan n (upd_chan n g s) = Some (g c).
Proof.
  induction s as [|a s IH]; cbn [find_chan upd_chan]; [discriminate|].
  destruct (ch_name a =? n) eqn:E.
  - intros X; inversion X; subst. intros Hn. cbn [find_chan]. rewrite Hn, E. reflexivity.
  - intros X Hn. cbn [find_chan]. rewrite E. auto.
Qed.

(** pushing one fitting slot *)
Definition fits (c : chan) (sl : slot) : Prop :=
  match ch_slots c with
  | [] => first_ok sl
  | last :: _ =>
      s_ti sl = s_tf last /\ s_ti sl <= s_tf sl /\
      (c_clock (ch_cfg c) | s_tf sl) /\ len_ok (ch_cfg c) sl
  end /\ le_opt (s_tf sl) (en_max e) /\ amp_ok (ch_cfg c) sl.

Lemma push_ext c sl :
  fits c sl -> chan_ext c (set_slots c (sl :: ch_slots c)).
Proof.
  intros Hf. unfold chan_ext, set_slots; cbn.
  split; [|split; [|split; [|split; [|split]]]]; auto.
  - exists [sl]. reflexivity.
  - unfold chan_ok; cbn. intros (Hg & Ht & Hb & Hca & Ha). destruct Hf as (Hf & Hle & Hamp).
    split; [auto|]. split; [|split; [constructor; auto|split; [auto|constructor; auto]]].
    destruct (ch_slots c) as [|last r].
    + cbn. auto.
    + destruct Hf as (F1 & F2 & F3 & F4). apply tiled_push; auto.
Qed.

Lemma eoms_ext c l : chan_ext c (set_eoms c l).
Proof.
  unfold chan_ext, set_eoms; cbn.
  split; [|split; [|split; [|split; [|split]]]]; auto. exists []. reflexivity.
Qed.

Lemma append_slot_sx n sl s c :
  find_chan n s = Some c -> fits c sl ->
  sx s (fst (append_slot n sl s)).
Proof.
  intros Hc Hf. unfold append_slot; cbn [fst].
  eapply upd_chan_sx; eauto. apply push_ext; auto.
Qed.

(** * Inversion principles for monadic code *)
Ltac inv H := inversion H; subst; clear H.

Lemma bind_inv {S A B} (m : M S A) (f : A -> M S B) s s' r :
  bind m f s = (s', r) ->
  (exists s1 a, m s = (s1, Ok a) /\ f a s1 = (s', r)) \/
  (exists e, m s = (s', Err e) /\ r = Err e).
Proof.
  unfold bind. destruct (m s) as [s1 [a|er]]; intros H.
  - left. eauto.
  - right. inv H. eauto.
Qed.

Lemma ret_inv {S A} (a : A) (s s' : S) r : ret a s = (s', r) -> s' = s /\ r = Ok a.
Proof. unfold ret; intros H; inv H; auto. Qed.
Lemma fail_inv {S A} er (s s' : S) (r : res A) : fail er s = (s', r) -> s' = s /\ r = Err er.
Proof. unfold fail; intros H; inv H; auto. Qed.
Lemma lift_inv {S A} (x : res A) (s s' : S) r : lift x s = (s', r) -> s' = s /\ r = x.
Proof. unfold lift; intros H; inv H; auto. Qed.
Lemma get_inv {S} (s s' : S) r : get s = (s', r) -> s' = s /\ r = Ok s.
Proof. unfold get; intros H; inv H; auto. Qed.

Lemma the_chan_inv n s s' r :
  the_chan n s = (s', r) ->
  s' = s /\ match r with Ok c => find_chan n s = Some c | Err _ => True end.
Proof.
  unfold the_chan. destruct (find_chan n s); intros H; inv H; auto.
Qed.

Lemma last_slot_inv n s s' r :
  last_slot n s = (s', r) ->
  s' = s /\ match r with
            | Ok l => exists c rest, find_chan n s = Some c /\ ch_slots c = l :: rest
            | Err _ => True end.
Proof.
  unfold last_slot. intros H. apply bind_inv in H.
  destruct H as [(s1 & c & H1 & H2) | (er & H1 & ->)].
  - apply the_chan_inv in H1. destruct H1 as [-> Hc].
    destruct (ch_slots c) as [|l rest] eqn:Hs.
    + apply fail_inv in H2. destruct H2 as [-> ->]. auto.
    + apply ret_inv in H2. destruct H2 as [-> ->]. split; eauto.
  - apply the_chan_inv in H1. destruct H1 as [-> _]. auto.
Qed.

Lemma find_chan_ok n s c : Forall chan_ok s -> find_chan n s = Some c -> chan_ok c.
Proof.
  induction s as [|a s IH]; cbn [find_chan]; [discriminate|].
  intros Hok Hc. inv Hok. destruct (ch_name a =? n); [inv Hc; auto|auto].
Qed.

(** decompose [H : bind m f s = (s', r)] *)
Tactic Notation "mbind" hyp(H) ident(s1) ident(a) ident(H1) :=
  apply bind_inv in H;
  let er := fresh "er" in
  destruct H as [(s1 & a & H1 & H) | (er & H1 & ->)].

(** same, when the result is known to be [Ok _]: only the success branch remains *)
Tactic Notation "mbindok" hyp(H) ident(s1) ident(a) ident(H1) :=
  apply bind_inv in H;
  let er := fresh "er" in
  let Hr := fresh "Hr" in
  destruct H as [(s1 & a & H1 & H) | (er & H1 & Hr)]; [|discriminate Hr].

(** * Schedule-level operations only extend, and extend correctly *)

Lemma add_delay_sx d n s s' r :
  Forall chan_ok s -> add_delay e d n s = (s', r) -> sx s s'.
Proof.
  intros Hok H. unfold add_delay in H.
  mbind H s1 lst H1; apply last_slot_inv in H1; destruct H1 as [-> H1]; [|apply sx_refl].
  destruct H1 as (c & rest & Hc & Hs).
  mbind H s2 c' H2; apply the_chan_inv in H2; destruct H2 as [-> H2]; [|apply sx_refl].
  rewrite Hc in H2. inv H2.
  mbind H s3 d' H3; apply lift_inv in H3; destruct H3 as [-> H3]; [|apply sx_refl].
  mbind H s4 u H4; apply lift_inv in H4; destruct H4 as [-> H4]; [|apply sx_refl].
  pose proof (find_chan_ok _ _ _ Hok Hc) as (Hg & Ht & Hbd & Hca & Hamps).
  symmetry in H4. destruct u. apply check_duration_ok in H4.
  symmetry in H3. apply validate_duration_spec in H3; auto.
  destruct H3 as (V1 & V2 & V3 & V4 & _).
  rewrite Hs in Ht. pose proof (tiled_head_tf _ _ _ Ht) as [Hn Hd].
  assert (Hmin : 0 < c_min (ch_cfg c')) by (destruct Hg; auto).
  assert (Hfit : forall k, len_ok (ch_cfg c') {| s_kind := k; s_ti := s_tf lst; s_tf := s_tf lst + d'; s_tg := s_tg lst |} ->
                 amp_ok (ch_cfg c') {| s_kind := k; s_ti := s_tf lst; s_tf := s_tf lst + d'; s_tg := s_tg lst |} ->
                 fits c' {| s_kind := k; s_ti := s_tf lst; s_tf := s_tf lst + d'; s_tg := s_tg lst |}).
  { intros k Hl Hak. unfold fits. rewrite Hs. cbn. repeat split; auto; try lia.
    apply Z.divide_add_r; auto. }
  destruct (in_eom c' && _).
  - replace s' with (fst (append_slot n
       {| s_kind := KPulse (mk_dd_pulse e n (s_tf lst) (s_tf lst + d' - s_tf lst)
                              (last_pulse_phase c')
                              match ch_eoms c' with b :: _ => eb_doff b | [] => zero end);
          s_ti := s_tf lst; s_tf := s_tf lst + d'; s_tg := s_tg lst |} s))
      by (rewrite H; reflexivity).
    eapply append_slot_sx; eauto. apply Hfit.
    + unfold len_ok; cbn. lia.
    + unfold amp_ok, pamp_ok, mk_dd_pulse, with_falls; cbn. exact Hca.
  - replace s' with (fst (append_slot n
       {| s_kind := KDelay; s_ti := s_tf lst; s_tf := s_tf lst + d'; s_tg := s_tg lst |} s))
      by (rewrite H; reflexivity).
    eapply append_slot_sx; eauto. apply Hfit; [unfold len_ok; cbn; lia|exact I].
Qed.

(** ** Generic composition *)
Definition pure_m {A} (m : SM A) : Prop :=
  forall s s' r, m s = (s', r) -> s' = s.
Definition safe {A} (m : SM A) : Prop :=
  forall s s' r, Forall chan_ok s -> m s = (s', r) -> sx s s'.

Lemma pure_safe {A} (m : SM A) : pure_m m -> safe m.
Proof. intros Hp s s' r _ H. apply Hp in H. subst. apply sx_refl. Qed.

Lemma safe_bind_post {A B} (m : SM A) (f : A -> SM B) :
  safe m ->
  (forall s s1 a, Forall chan_ok s -> m s = (s1, Ok a) ->
                  forall s' r, f a s1 = (s', r) -> sx s1 s') ->
  safe (bind m f).
Proof.
  intros Hm Hf s s' r Hok H.
  mbind H s1 a H1.
  - eapply sx_trans; [eapply Hm; eauto|]. eapply Hf; eauto.
  - eapply Hm; eauto.
Qed.

Lemma safe_bind {A B} (m : SM A) (f : A -> SM B) :
  safe m -> (forall a, safe (f a)) -> safe (bind m f).
Proof.
  intros Hm Hf. apply safe_bind_post; auto.
  intros s s1 a Hok H1 s' r H2. eapply Hf; eauto.
  eapply sx_ok; eauto.
Qed.

Lemma pure_ret {A} (a : A) : pure_m (ret a : SM A).
Proof. intros s s' r H. apply ret_inv in H. tauto. Qed.
Lemma pure_fail {A} er : pure_m (fail er : SM A).
Proof. intros s s' r H. apply fail_inv in H. tauto. Qed.
Lemma pure_lift {A} (x : res A) : pure_m (lift x : SM A).
Proof. intros s s' r H. apply lift_inv in H. tauto. Qed.
Lemma pure_get : pure_m (get : SM sched).
Proof. intros s s' r H. apply get_inv in H. tauto. Qed.
Lemma pure_the_chan n : pure_m (the_chan n).
Proof. intros s s' r H. apply the_chan_inv in H. tauto. Qed.
Lemma pure_last_slot n : pure_m (last_slot n).
Proof. intros s s' r H. apply last_slot_inv in H. tauto. Qed.

Lemma pure_bind {A B} (m : SM A) (f : A -> SM B) :
  pure_m m -> (forall a, pure_m (f a)) -> pure_m (bind m f).
Proof.
  intros Hm Hf s s' r H. mbind H s1 a H1.
  - apply Hm in H1. subst. eapply Hf; eauto.
  - eapply Hm; eauto.
Qed.

#[local] Hint Resolve pure_ret pure_fail pure_lift pure_get pure_the_chan
  pure_last_slot pure_safe : msafe.

Lemma safe_add_delay d n : safe (add_delay e d n).
Proof. intros s s' r Hok H. eapply add_delay_sx; eauto. Qed.

Lemma safe_wait_for_fall n : safe (wait_for_fall e n).
Proof.
  unfold wait_for_fall. apply safe_bind; [auto with msafe|]. intros c.
  destruct (_ >? 0).
  - apply safe_bind; [auto with msafe|]. intros d. apply safe_add_delay.
  - auto with msafe.
Qed.

(** what a successful add_delay leaves at the end of the channel *)
Lemma add_delay_ok d n s s' :
  add_delay e d n s = (s', Ok tt) ->
  exists c lst rest d' k,
    find_chan n s = Some c /\ ch_slots c = lst :: rest /\
    validate_duration (ch_cfg c) d = Ok d' /\
    find_chan n s' =
      Some (set_slots c ({| s_kind := k; s_ti := s_tf lst; s_tf := s_tf lst + d';
                            s_tg := s_tg lst |} :: ch_slots c)) /\
    k <> KTarget.
Proof.
  intros H. unfold add_delay in H.
  mbindok H s1 lst H1; apply last_slot_inv in H1; destruct H1 as [-> H1].
  destruct H1 as (c & rest & Hc & Hs).
  mbindok H s2 c' H2; apply the_chan_inv in H2; destruct H2 as [-> H2].
  rewrite Hc in H2. inv H2.
  mbindok H s3 d' H3; apply lift_inv in H3; destruct H3 as [-> H3].
  mbindok H s4 u H4; apply lift_inv in H4; destruct H4 as [-> H4].
  exists c', lst, rest, d'.
  destruct (in_eom c' && _); unfold append_slot in H; inv H;
    eexists; (split; [eauto|split; [eauto|split; [eauto|split;
      [match goal with
       | |- find_chan n (upd_chan n ?g s) = _ => exact (find_upd_same n g s c' Hc eq_refl)
       end
      |discriminate]]]]).
Qed.

Lemma fold_max_ge l a : a <= fold_max l a.
Proof.
  unfold fold_max. revert a. induction l as [|x l IH]; intros a; cbn [fold_left]; [lia|].
  specialize (IH (Z.max a x)). lia.
Qed.

Lemma fad_scan_ge rise2 ineom tg wfa cur l : cur <= fad_scan rise2 ineom tg wfa cur l.
Proof.
  induction l as [|op l IH]; cbn [fad_scan]; [lia|].
  destruct (s_kind op).
  - destruct (_ <=? cur); [lia|auto].
  - destruct (_ <=? cur); [lia|auto].
  - destruct (_ <=? cur) eqn:E; [lia|].
    destruct (_ || _); [lia|auto].
Qed.

Lemma find_add_delay_ge n tg wfa chs : forall cur, cur <= find_add_delay n tg wfa cur chs.
Proof.
  induction chs as [|c chs IH]; intros cur; cbn [find_add_delay]; [lia|].
  destruct (ch_name c =? n); [auto|].
  etransitivity; [|apply IH]. apply fad_scan_ge.
Qed.

Definition pulse_fits (g : ccfg) (p : pulse) : Prop :=
  c_min g <= p_dur p /\ (c_clock g | p_dur p) /\ pamp_ok g p.

(** make_next_pulse_slot is read-only and places the pulse after an
    admissible delay *)
Lemma mnps_spec p n barriers proto dp block s s' r :
  Forall chan_ok s ->
  make_next_pulse_slot e p n barriers proto dp block s = (s', r) ->
  s' = s /\
  match r with
  | Err _ => True
  | Ok sl =>
      exists c lst rest dd p',
        find_chan n s = Some c /\ ch_slots c = lst :: rest /\
        s_kind sl = KPulse p' /\ p_dur p' = p_dur p /\ p_amax p' = p_amax p /\
        s_ti sl = s_tf lst + dd /\ s_tf sl = s_ti sl + p_dur p /\
        s_tg sl = s_tg lst /\
        (dd = 0 \/ (c_min (ch_cfg c) <= dd /\ (c_clock (ch_cfg c) | dd))) /\
        (block = true -> le_opt (s_tf sl) (en_max e))
  end.
Proof.
  intros Hok H. unfold make_next_pulse_slot in H.
  mbind H s1 lst H1; apply last_slot_inv in H1; destruct H1 as [-> H1]; [|auto].
  destruct H1 as (c & rest & Hc & Hs).
  mbind H s2 c' H2; apply the_chan_inv in H2; destruct H2 as [-> H2]; [|auto].
  rewrite Hc in H2. inv H2.
  mbind H s3 s0 H3; apply get_inv in H3; destruct H3 as [-> H3]; [|auto]. inv H3.
  match type of H with
  | (let '(cur, pjb) := ?X in _) _ = _ => destruct X as [cur pjb] eqn:EX
  end.
  assert (Hcur : s_tf lst <= cur).
  { pose proof (fold_max_ge barriers (s_tf lst)) as G.
    destruct (proto =? 1); [inv EX; auto|].
    pose proof (find_add_delay_ge n (s_tg lst) (proto =? 2) s
                  (fold_max barriers (s_tf lst))) as G2.
    destruct (last_pulse_slot true (ch_slots c')) as [[lps lp]|]; [|inv EX; lia].
    destruct (f_ne _ _); inv EX; lia. }
  pose proof (find_chan_ok _ _ _ Hok Hc) as (Hg & Ht & Hbd & _).
  mbind H s4 dd' H4.
  2:{ destruct (_ >? 0).
      - apply lift_inv in H4. tauto.
      - apply ret_inv in H4. tauto. }
  assert (Hdd : s4 = s /\ (dd' = 0 \/ (c_min (ch_cfg c') <= dd' /\ (c_clock (ch_cfg c') | dd')))).
  { destruct (Z.max (cur - s_tf lst) pjb >? 0) eqn:E.
    - apply lift_inv in H4. destruct H4 as [-> H4]. split; auto. right.
      symmetry in H4. apply adjust_duration_spec in H4; auto. tauto.
    - apply ret_inv in H4. destruct H4 as [-> H4]. inv H4. split; auto.
      (* the unadjusted value is <= 0 and >= cur - t0 >= 0 *)
      left. lia. }
  destruct Hdd as [-> Hdd].
  mbind H s5 u H5; apply lift_inv in H5; destruct H5 as [-> H5]; [|auto].
  apply ret_inv in H. destruct H as [-> ->]. split; auto.
  eexists c', lst, rest, dd', _. cbn.
  split; [eauto|]. split; [eauto|]. split; [reflexivity|].
  split; [cbn; destruct dp; reflexivity|].
  split; [cbn; destruct dp; reflexivity|].
  split; [reflexivity|]. split; [reflexivity|]. split; [reflexivity|].
  split; [exact Hdd|].
  intros ->. destruct u. symmetry in H5.
  apply check_duration_ok in H5. exact H5.
Qed.

End WithEnv.
#[global] Hint Resolve pure_ret pure_fail pure_lift pure_get pure_the_chan
  pure_last_slot pure_safe : msafe.
