(** Whole-history form of "instruction times never move" (C02) and of
    "a sequence is the effect of its calls, in order" (C09): the one-step
    lemmas of Proofs/SeqInv.v lifted to an arbitrary continuation of an
    arbitrary history.  Nothing here is specific to a device: [v] is any
    configuration accepted by [senv_ok]. *)
From Coq Require Import ZArith List Bool Lia.
From PV Require Import Model.Base Model.Sched Model.Seq.
From PV Require Import Proofs.SchedInv Proofs.SchedOps Proofs.SeqInv Proofs.DurationSpec Proofs.AlignWitness.
Import ListNotations.
Open Scope Z_scope.

(** running a history in two parts is running the second part from the state
    the first part reached *)
Lemma run_app (v : senv) (ops1 ops2 : list op) :
  run v (ops1 ++ ops2) = fold_left (fun s o => fst (step v s o)) ops2 (run v ops1).
Proof. unfold run. apply fold_left_app. Qed.

Lemma run_snoc (v : senv) (ops : list op) (o : op) :
  run v (ops ++ [o]) = fst (step v (run v ops) o).
Proof. rewrite run_app. reflexivity. Qed.

(** any continuation of any history only extends the timelines that exist *)
Lemma history_times_never_move (v : senv) (ops1 ops2 : list op) :
  senv_ok v -> sxp v (q_sched (run v ops1)) (q_sched (run v (ops1 ++ ops2))).
Proof.
  intros Hv. rewrite run_app.
  apply (run_from_ok v ops2 Hv (run v ops1)). apply run_ok; exact Hv.
Qed.

(** read per channel and per instruction: a channel of the earlier state is
    still there under the same name, id, configuration and map; its timeline
    is the old one with new instructions put on top; every old instruction is
    still in it (same record: same start, end, payload); and the reported
    duration is never below the end of any of them *)
Lemma history_channel_kept (v : senv) (ops1 ops2 : list op) (n : Z) (c : chan) :
  senv_ok v -> find_chan n (q_sched (run v ops1)) = Some c ->
  exists c', find_chan n (q_sched (run v (ops1 ++ ops2))) = Some c' /\
    ch_id c' = ch_id c /\ ch_cfg c' = ch_cfg c /\ ch_map c' = ch_map c /\
    (exists ext, ch_slots c' = ext ++ ch_slots c) /\
    forall x, In x (ch_slots c) -> In x (ch_slots c') /\ s_tf x <= ch_duration c' false.
Proof.
  intros Hv Hf.
  destruct (sxp_find v n _ _ c (history_times_never_move v ops1 ops2 Hv) Hf)
    as (c' & Hf' & Hext).
  exists c'. split; [exact Hf'|].
  destruct Hext as (_ & Hid & Hcfg & Hmap & (ext & Hsl) & _).
  repeat (split; [assumption|]).
  split; [exists ext; exact Hsl|].
  intros x Hin.
  assert (Hin' : In x (ch_slots c')) by (rewrite Hsl; apply in_or_app; right; exact Hin).
  split; [exact Hin'|].
  assert (Hok' : chan_ok (env_of v) c').
  { eapply find_chan_ok; [|exact Hf']. apply run_ok; exact Hv. }
  destruct (ch_slots c') as [|s r] eqn:Es; [destruct Hin'|].
  destruct (duration_is_max_end (env_of v) c' s r Hok' Es) as [_ Hmax].
  apply Hmax. rewrite Es. exact Hin'.
Qed.

(** channel durations never decrease along a history *)
Lemma history_duration_monotone (v : senv) (ops1 ops2 : list op) (n : Z) (c : chan) :
  senv_ok v -> find_chan n (q_sched (run v ops1)) = Some c -> ch_slots c <> [] ->
  exists c', find_chan n (q_sched (run v (ops1 ++ ops2))) = Some c' /\
    ch_duration c false <= ch_duration c' false.
Proof.
  intros Hv Hf Hne.
  destruct (history_channel_kept v ops1 ops2 n c Hv Hf) as (c' & Hf' & _ & _ & _ & _ & Hall).
  exists c'. split; [exact Hf'|].
  destruct (ch_slots c) as [|s r] eqn:Es; [congruence|].
  assert (Hok : chan_ok (env_of v) c).
  { eapply find_chan_ok; [|exact Hf]. apply run_ok; exact Hv. }
  destruct (duration_is_max_end (env_of v) c s r Hok Es) as [-> _].
  apply Hall. left; reflexivity.
Qed.

(** The hypotheses are met by a non-trivial split of the witness history of
    Proofs/AlignWitness.v: after its first two calls both channels exist with
    their initial target, and the remaining two calls extend both. *)
Lemma history_example :
  senv_ok wenv /\
  (exists c, find_chan 0 (q_sched (run wenv (firstn 2 wops))) = Some c /\ ch_slots c <> []) /\
  firstn 2 wops ++ skipn 2 wops = wops /\
  map (fun c => length (ch_slots c)) (q_sched (run wenv (firstn 2 wops))) = [1%nat; 1%nat] /\
  map (fun c => length (ch_slots c)) (q_sched (run wenv (firstn 2 wops ++ skipn 2 wops))) = [2%nat; 2%nat].
Proof.
  split; [apply reachable_state_example|].
  split.
  { destruct (find_chan 0 (q_sched (run wenv (firstn 2 wops)))) as [c|] eqn:E.
    - exists c. split; [reflexivity|].
      assert (H : match find_chan 0 (q_sched (run wenv (firstn 2 wops))) with
                  | Some c => length (ch_slots c) | None => 0%nat end = 1%nat)
        by (vm_compute; reflexivity).
      rewrite E in H. intros K. rewrite K in H. discriminate H.
    - assert (H : match find_chan 0 (q_sched (run wenv (firstn 2 wops))) with
                  | Some _ => true | None => false end = true) by (vm_compute; reflexivity).
      rewrite E in H. discriminate H. }
  split; [apply firstn_skipn|].
  split; vm_compute; reflexivity.
Qed.
