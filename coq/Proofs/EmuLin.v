(** C11 - the generators keep states physical: for a Hermitian Hamiltonian the
    norm of a state vector has zero time derivative; the Lindblad generator is
    traceless and commutes with the adjoint.  Proved for every dimension over
    any commutative ring with an involution, an element [im] with
    [im * im = -1], [conj im = - im] and an element [half] with
    [half + half = 1], [conj half = half] (the complex numbers are one; see
    [gauss_instance] for a machine-checked instance). *)
From Coq Require Import List Arith Lia Ring Setoid.
From PV Require Import Model.EmuLin.
Import ListNotations.

Section LinProofs.
  Variable R : Type.
  Variables (r0 r1 : R) (radd rmul rsub : R -> R -> R) (ropp : R -> R).
  Hypothesis Rth : ring_theory r0 r1 radd rmul rsub ropp (@eq R).
  Add Ring Rring : Rth.
  Variable conj : R -> R.
  Hypothesis conj_add : forall a b, conj (radd a b) = radd (conj a) (conj b).
  Hypothesis conj_mul : forall a b, conj (rmul a b) = rmul (conj a) (conj b).
  Hypothesis conj_opp : forall a, conj (ropp a) = ropp (conj a).
  Hypothesis conj_0 : conj r0 = r0.
  Hypothesis conj_invol : forall a, conj (conj a) = a.
  Variables (im half : R).
  Hypothesis conj_im : conj im = ropp im.
  Hypothesis half_double : radd half half = r1.
  Hypothesis conj_half : conj half = half.

  Notation "a + b" := (radd a b).
  Notation "a * b" := (rmul a b).
  Notation "- a" := (ropp a).
  Notation rsum := (rsum R r0 radd).
  Notation mmul := (mmul R r0 radd rmul).
  Notation madd := (madd R radd).
  Notation mopp := (mopp R ropp).
  Notation mscal := (mscal R rmul).
  Notation dagger := (dagger R conj).
  Notation trace := (trace R r0 radd).
  Notation mvec := (mvec R r0 radd rmul).
  Notation inner := (inner R r0 radd rmul conj).
  Notation commutator := (commutator R r0 radd rmul ropp).
  Notation dissipator := (dissipator R r0 radd rmul ropp conj half).
  Notation lindblad := (lindblad R r0 radd rmul ropp conj im half).
  Notation schrodinger_rhs := (schrodinger_rhs R r0 radd rmul ropp im).
  Notation hermitian := (hermitian R conj).

  (** * Finite sums *)
  Lemma rsum_ext : forall n f g, (forall i, i < n -> f i = g i) -> rsum n f = rsum n g.
  Proof.
    induction n; intros f g H; simpl; [reflexivity|].
    rewrite (IHn f g) by (intros; apply H; lia). rewrite H by lia. reflexivity.
  Qed.

  Lemma rsum_add : forall n f g, rsum n (fun i => f i + g i) = rsum n f + rsum n g.
  Proof. induction n; intros; simpl; [ring | rewrite IHn; ring]. Qed.

  Lemma rsum_scal : forall n c f, rsum n (fun i => c * f i) = c * rsum n f.
  Proof. induction n; intros; simpl; [ring | rewrite IHn; ring]. Qed.

  Lemma rsum_scal_r : forall n c f, rsum n (fun i => f i * c) = rsum n f * c.
  Proof. induction n; intros; simpl; [ring | rewrite IHn; ring]. Qed.

  Lemma rsum_opp : forall n f, rsum n (fun i => - f i) = - rsum n f.
  Proof. induction n; intros; simpl; [ring | rewrite IHn; ring]. Qed.

  Lemma rsum_zero : forall n, rsum n (fun _ => r0) = r0.
  Proof. induction n; simpl; [reflexivity | rewrite IHn; ring]. Qed.

  Lemma rsum_conj : forall n f, conj (rsum n f) = rsum n (fun i => conj (f i)).
  Proof. induction n; intros; simpl; [apply conj_0 | rewrite conj_add, IHn; reflexivity]. Qed.

  (** Fubini *)
  Lemma rsum_swap : forall n m (f : nat -> nat -> R),
    rsum n (fun i => rsum m (fun j => f i j)) = rsum m (fun j => rsum n (fun i => f i j)).
  Proof.
    induction n; intros m f; simpl.
    - rewrite rsum_zero. reflexivity.
    - rewrite IHn. rewrite <- rsum_add. reflexivity.
  Qed.

  (** * Matrix algebra (pointwise statements) *)
  Lemma mmul_assoc : forall n A B C i j,
    mmul n (mmul n A B) C i j = mmul n A (mmul n B C) i j.
  Proof.
    intros. unfold EmuLin.mmul.
    rewrite (rsum_ext n _ (fun k => rsum n (fun l => A i l * B l k * C k j)))
      by (intros; rewrite <- rsum_scal_r; reflexivity).
    rewrite rsum_swap. apply rsum_ext. intros l _.
    rewrite <- rsum_scal. apply rsum_ext. intros k _. ring.
  Qed.

  Lemma trace_add : forall n A B, trace n (madd A B) = trace n A + trace n B.
  Proof. intros. unfold EmuLin.trace, EmuLin.madd. apply rsum_add. Qed.

  Lemma trace_opp : forall n A, trace n (mopp A) = - trace n A.
  Proof. intros. unfold EmuLin.trace, EmuLin.mopp. apply rsum_opp. Qed.

  Lemma trace_scal : forall n c A, trace n (mscal c A) = c * trace n A.
  Proof. intros. unfold EmuLin.trace, EmuLin.mscal. apply rsum_scal. Qed.

  Lemma trace_ext : forall n A B, (forall i, i < n -> A i i = B i i) -> trace n A = trace n B.
  Proof. intros. unfold EmuLin.trace. apply rsum_ext. assumption. Qed.

  (** cyclicity *)
  Lemma trace_cyclic : forall n A B, trace n (mmul n A B) = trace n (mmul n B A).
  Proof.
    intros. unfold EmuLin.trace, EmuLin.mmul. rewrite rsum_swap.
    apply rsum_ext. intros k _. apply rsum_ext. intros i _. ring.
  Qed.

  Lemma trace_commutator : forall n A B, trace n (commutator n A B) = r0.
  Proof.
    intros. unfold EmuLin.commutator. rewrite trace_add, trace_opp.
    rewrite (trace_cyclic n A B). ring.
  Qed.

  Lemma trace_dissipator : forall n L rho, trace n (dissipator n L rho) = r0.
  Proof.
    intros. unfold EmuLin.dissipator. cbv zeta.
    rewrite trace_add, trace_opp, trace_scal, trace_add.
    set (LdL := mmul n (dagger L) L).
    assert (E1 : trace n (mmul n (mmul n L rho) (dagger L)) = trace n (mmul n LdL rho)).
    { rewrite trace_cyclic. apply trace_ext. intros i _. unfold LdL.
      symmetry. apply mmul_assoc. }
    assert (E2 : trace n (mmul n rho LdL) = trace n (mmul n LdL rho)) by apply trace_cyclic.
    rewrite E1, E2.
    transitivity (trace n (mmul n LdL rho) + - ((half + half) * trace n (mmul n LdL rho))); [ring|].
    rewrite half_double. ring.
  Qed.

  Lemma trace_fold : forall n rho Ls acc,
    trace n (fold_left (fun a L => madd a (dissipator n L rho)) Ls acc) = trace n acc.
  Proof.
    intros n rho Ls. induction Ls as [|L Ls IH]; intros acc; simpl; [reflexivity|].
    rewrite IH, trace_add, trace_dissipator. ring.
  Qed.

  (** the Lindblad generator is traceless: the trace of the density matrix
      is a constant of the motion, for ANY Hamiltonian, collapse operators
      and dimension *)
  Theorem lindblad_traceless : forall n H Ls rho, trace n (lindblad n H Ls rho) = r0.
  Proof.
    intros. unfold EmuLin.lindblad. rewrite (trace_fold n rho).
    rewrite trace_scal, trace_commutator. ring.
  Qed.

  (** * Norm *)
  (** d<psi|psi>/dt = <psi|psi'> + <psi'|psi> = 0 for a Hermitian H *)
  Theorem norm_generator : forall n H psi, hermitian n H ->
    inner n psi (schrodinger_rhs n H psi) + inner n (schrodinger_rhs n H psi) psi = r0.
  Proof.
    intros n H psi Hh. unfold EmuLin.inner, EmuLin.schrodinger_rhs, EmuLin.mvec.
    (* first term: -i * S,  S = sum_i sum_k conj(psi_i) H_ik psi_k *)
    set (S := rsum n (fun i => rsum n (fun k => conj (psi i) * H i k * psi k))).
    assert (E1 : rsum n (fun i => conj (psi i) * (- im * rsum n (fun k => H i k * psi k)))
                 = - im * S).
    { unfold S. rewrite <- rsum_scal. apply rsum_ext. intros i _.
      rewrite <- !rsum_scal. apply rsum_ext. intros k _. ring. }
    assert (E2 : rsum n (fun i => conj (- im * rsum n (fun k => H i k * psi k)) * psi i)
                 = im * S).
    { transitivity (rsum n (fun i => rsum n (fun k => im * (conj (psi k) * H k i * psi i)))).
      - apply rsum_ext. intros i Hi.
        rewrite conj_mul, conj_opp, conj_im, rsum_conj.
        rewrite <- rsum_scal. rewrite <- rsum_scal_r.
        apply rsum_ext. intros k Hk. rewrite conj_mul. rewrite <- (Hh k i Hk Hi). ring.
      - rewrite rsum_swap. unfold S. rewrite <- rsum_scal.
        apply rsum_ext. intros k _. rewrite <- rsum_scal.
        apply rsum_ext. intros i _. ring. }
    rewrite E1, E2. ring.
  Qed.

  (** * Hermiticity *)
  Definition meq (n : nat) (A B : mat R) : Prop :=
    forall i j, i < n -> j < n -> A i j = B i j.

  Lemma dagger_mmul : forall n A B i j,
    dagger (mmul n A B) i j = mmul n (dagger B) (dagger A) i j.
  Proof.
    intros. unfold EmuLin.dagger, EmuLin.mmul. rewrite rsum_conj.
    apply rsum_ext. intros k _. rewrite conj_mul. ring.
  Qed.

  Lemma mmul_meq : forall n A A' B B', meq n A A' -> meq n B B' ->
    meq n (mmul n A B) (mmul n A' B').
  Proof.
    intros n A A' B B' HA HB i j Hi Hj. unfold EmuLin.mmul.
    apply rsum_ext. intros k Hk. rewrite (HA i k Hi Hk), (HB k j Hk Hj). reflexivity.
  Qed.

  Lemma dagger_invol : forall A i j, dagger (dagger A) i j = A i j.
  Proof. intros. unfold EmuLin.dagger. apply conj_invol. Qed.

  Lemma hermitian_dagger : forall n H, hermitian n H -> meq n (dagger H) H.
  Proof. intros n H Hh i j Hi Hj. unfold EmuLin.dagger. symmetry. apply Hh; assumption. Qed.

  Lemma dagger_commutator : forall n H rho, hermitian n H ->
    meq n (dagger (mscal (- im) (commutator n H rho)))
          (mscal (- im) (commutator n H (dagger rho))).
  Proof.
    intros n H rho Hh i j Hi Hj.
    unfold EmuLin.mscal, EmuLin.commutator, EmuLin.madd, EmuLin.mopp.
    change (conj (- im * (mmul n H rho j i + - mmul n rho H j i))
            = - im * (mmul n H (dagger rho) i j + - mmul n (dagger rho) H i j)).
    rewrite conj_mul, conj_opp, conj_im, conj_add, conj_opp.
    change (conj (mmul n H rho j i)) with (dagger (mmul n H rho) i j).
    change (conj (mmul n rho H j i)) with (dagger (mmul n rho H) i j).
    rewrite !dagger_mmul.
    rewrite (mmul_meq n (dagger rho) (dagger rho) (dagger H) H) by
      (try apply hermitian_dagger; try assumption; intros ? ? ? ?; reflexivity).
    rewrite (mmul_meq n (dagger H) H (dagger rho) (dagger rho)) by
      (try apply hermitian_dagger; try assumption; intros ? ? ? ?; reflexivity).
    ring.
  Qed.

  Lemma dagger_dissipator : forall n L rho,
    meq n (dagger (dissipator n L rho)) (dissipator n L (dagger rho)).
  Proof.
    intros n L rho i j Hi Hj.
    unfold EmuLin.dissipator. cbv zeta.
    set (LdL := mmul n (dagger L) L).
    unfold EmuLin.madd, EmuLin.mopp, EmuLin.mscal.
    change (conj (mmul n (mmul n L rho) (dagger L) j i
                  + - (half * (mmul n LdL rho j i + mmul n rho LdL j i)))
            = mmul n (mmul n L (dagger rho)) (dagger L) i j
              + - (half * (mmul n LdL (dagger rho) i j + mmul n (dagger rho) LdL i j))).
    rewrite conj_add, conj_opp, conj_mul, conj_half, conj_add.
    change (conj (mmul n (mmul n L rho) (dagger L) j i))
      with (dagger (mmul n (mmul n L rho) (dagger L)) i j).
    change (conj (mmul n LdL rho j i)) with (dagger (mmul n LdL rho) i j).
    change (conj (mmul n rho LdL j i)) with (dagger (mmul n rho LdL) i j).
    rewrite !dagger_mmul.
    assert (HL : meq n (dagger LdL) LdL).
    { intros a b Ha Hb. unfold LdL. rewrite dagger_mmul.
      apply (mmul_meq n (dagger L) (dagger L) (dagger (dagger L)) L); try assumption.
      - intros ? ? ? ?; reflexivity.
      - intros ? ? ? ?; apply dagger_invol. }
    assert (E1 : mmul n (dagger (dagger L)) (dagger (mmul n L rho)) i j
                 = mmul n (mmul n L (dagger rho)) (dagger L) i j).
    { transitivity (mmul n L (mmul n (dagger rho) (dagger L)) i j).
      - apply (mmul_meq n (dagger (dagger L)) L (dagger (mmul n L rho))
                 (mmul n (dagger rho) (dagger L))); try assumption.
        + intros ? ? ? ?; apply dagger_invol.
        + intros ? ? ? ?; apply dagger_mmul.
      - symmetry. apply mmul_assoc. }
    assert (E2 : mmul n (dagger rho) (dagger LdL) i j = mmul n (dagger rho) LdL i j).
    { apply (mmul_meq n (dagger rho) (dagger rho) (dagger LdL) LdL); try assumption.
      intros ? ? ? ?; reflexivity. }
    assert (E3 : mmul n (dagger LdL) (dagger rho) i j = mmul n LdL (dagger rho) i j).
    { apply (mmul_meq n (dagger LdL) LdL (dagger rho) (dagger rho)); try assumption.
      intros ? ? ? ?; reflexivity. }
    rewrite E1, E2, E3. ring.
  Qed.

  Lemma dagger_fold : forall n rho Ls acc acc',
    meq n (dagger acc) acc' ->
    meq n (dagger (fold_left (fun a L => madd a (dissipator n L rho)) Ls acc))
          (fold_left (fun a L => madd a (dissipator n L (dagger rho))) Ls acc').
  Proof.
    intros n rho Ls. induction Ls as [|L Ls IH]; intros acc acc' Hacc; simpl; [exact Hacc|].
    apply IH. intros i j Hi Hj. unfold EmuLin.dagger, EmuLin.madd.
    rewrite conj_add.
    change (conj (acc j i)) with (dagger acc i j).
    change (conj (dissipator n L rho j i)) with (dagger (dissipator n L rho) i j).
    rewrite (Hacc i j Hi Hj), (dagger_dissipator n L rho i j Hi Hj). reflexivity.
  Qed.

  (** the generator commutes with the adjoint: L(rho)^+ = L(rho^+); a
      Hermitian density matrix has a Hermitian time derivative *)
  Theorem lindblad_hermitian : forall n H Ls rho, hermitian n H ->
    meq n (dagger (lindblad n H Ls rho)) (lindblad n H Ls (dagger rho)).
  Proof.
    intros n H Ls rho Hh. unfold EmuLin.lindblad.
    apply dagger_fold. apply dagger_commutator. assumption.
  Qed.

  Corollary lindblad_preserves_hermiticity : forall n H Ls rho,
    hermitian n H -> hermitian n rho -> hermitian n (lindblad n H Ls rho).
  Proof.
    intros n H Ls rho Hh Hr i j Hi Hj.
    pose proof (lindblad_hermitian n H Ls rho Hh i j Hi Hj) as Q.
    unfold EmuLin.dagger at 1 in Q. rewrite Q.
    (* L(rho^+) = L(rho) entrywise because rho^+ = rho within the dimension *)
    clear Q. unfold EmuLin.lindblad.
    assert (G : forall Ls acc acc', meq n acc acc' ->
                meq n (fold_left (fun a L => madd a (dissipator n L rho)) Ls acc)
                      (fold_left (fun a L => madd a (dissipator n L (dagger rho))) Ls acc')).
    { clear Ls. intros Ls. induction Ls as [|L Ls IH]; intros acc acc' Hacc; simpl; [exact Hacc|].
      apply IH. intros a b Ha Hb. unfold EmuLin.madd. rewrite (Hacc a b Ha Hb). f_equal.
      unfold EmuLin.dissipator. cbv zeta. unfold EmuLin.madd, EmuLin.mopp, EmuLin.mscal.
      assert (Hrd : meq n rho (dagger rho)).
      { intros x y Hx Hy. unfold EmuLin.dagger. apply Hr; assumption. }
      assert (Hid : forall M, meq n M M) by (intros M ? ? ? ?; reflexivity).
      rewrite (mmul_meq n (mmul n L rho) (mmul n L (dagger rho)) (dagger L) (dagger L)
                 (mmul_meq n L L rho (dagger rho) (Hid L) Hrd) (Hid _) a b Ha Hb).
      rewrite (mmul_meq n _ _ rho (dagger rho) (Hid (mmul n (dagger L) L)) Hrd a b Ha Hb).
      rewrite (mmul_meq n rho (dagger rho) _ _ Hrd (Hid (mmul n (dagger L) L)) a b Ha Hb).
      reflexivity. }
    apply G; try assumption.
    intros a b Ha Hb. unfold EmuLin.mscal, EmuLin.commutator, EmuLin.madd, EmuLin.mopp.
    assert (Hrd : meq n rho (dagger rho)).
    { intros x y Hx Hy. unfold EmuLin.dagger. apply Hr; assumption. }
    assert (Hid : forall M, meq n M M) by (intros M ? ? ? ?; reflexivity).
    rewrite (mmul_meq n H H rho (dagger rho) (Hid H) Hrd a b Ha Hb).
    rewrite (mmul_meq n rho (dagger rho) H H Hrd (Hid H) a b Ha Hb).
    reflexivity.
  Qed.
End LinProofs.

(** * The hypotheses are satisfiable: Gaussian rationals *)
From Coq Require Import QArith Qcanon.

Definition G : Type := (Qc * Qc)%type.
Definition g0 : G := (Q2Qc 0, Q2Qc 0).
Definition g1 : G := (Q2Qc 1, Q2Qc 0).
Definition gadd (a b : G) : G := ((fst a + fst b)%Qc, (snd a + snd b)%Qc).
Definition gmul (a b : G) : G :=
  ((fst a * fst b - snd a * snd b)%Qc, (fst a * snd b + snd a * fst b)%Qc).
Definition gopp (a : G) : G := ((- fst a)%Qc, (- snd a)%Qc).
Definition gsub (a b : G) : G := gadd a (gopp b).
Definition gconj (a : G) : G := (fst a, (- snd a)%Qc).
Definition gim : G := (Q2Qc 0, Q2Qc 1).
Definition ghalf : G := (Q2Qc (1 # 2), Q2Qc 0).

Lemma G_ring : ring_theory g0 g1 gadd gmul gsub gopp (@eq G).
Proof.
  constructor; intros; repeat match goal with x : G |- _ => destruct x end;
    unfold g0, g1, gadd, gmul, gsub, gopp; cbn [fst snd]; try reflexivity; f_equal; ring.
Qed.

Ltac gq :=
  unfold gconj, gopp, gadd, gmul, gim, ghalf, g0, g1; cbn [fst snd];
  apply injective_projections; cbn [fst snd];
  first [ reflexivity | ring | (apply Qc_is_canon; reflexivity) ].

Lemma g_half_double : gadd ghalf ghalf = g1.
Proof. gq. Qed.
Lemma g_conj_add : forall a b, gconj (gadd a b) = gadd (gconj a) (gconj b).
Proof. intros [a1 a2] [b1 b2]. gq. Qed.
Lemma g_conj_mul : forall a b, gconj (gmul a b) = gmul (gconj a) (gconj b).
Proof. intros [a1 a2] [b1 b2]. gq. Qed.
Lemma g_conj_opp : forall a, gconj (gopp a) = gopp (gconj a).
Proof. intros [a1 a2]. gq. Qed.
Lemma g_conj_0 : gconj g0 = g0.
Proof. gq. Qed.
Lemma g_conj_invol : forall a, gconj (gconj a) = a.
Proof. intros [a1 a2]. gq. Qed.
Lemma g_conj_im : gconj gim = gopp gim.
Proof. gq. Qed.
Lemma g_conj_half : gconj ghalf = ghalf.
Proof. gq. Qed.

(** the three theorems at the Gaussian rationals: every hypothesis of the
    section is discharged by a concrete structure *)
Theorem gauss_lindblad_traceless : forall n H Ls rho,
  trace G g0 gadd n (lindblad G g0 gadd gmul gopp gconj gim ghalf n H Ls rho) = g0.
Proof.
  intros. apply (lindblad_traceless G g0 g1 gadd gmul gsub gopp G_ring gconj gim ghalf
                   g_half_double).
Qed.

Theorem gauss_norm_generator : forall n H psi, hermitian G gconj n H ->
  gadd (inner G g0 gadd gmul gconj n psi (schrodinger_rhs G g0 gadd gmul gopp gim n H psi))
       (inner G g0 gadd gmul gconj n (schrodinger_rhs G g0 gadd gmul gopp gim n H psi) psi)
  = g0.
Proof.
  intros. apply (norm_generator G g0 g1 gadd gmul gsub gopp G_ring gconj
                   g_conj_add g_conj_mul g_conj_opp g_conj_0 gim g_conj_im). assumption.
Qed.

Theorem gauss_lindblad_hermitian : forall n H Ls rho, hermitian G gconj n H ->
  meq G n (dagger G gconj (lindblad G g0 gadd gmul gopp gconj gim ghalf n H Ls rho))
          (lindblad G g0 gadd gmul gopp gconj gim ghalf n H Ls (dagger G gconj rho)).
Proof.
  intros. apply (lindblad_hermitian G g0 g1 gadd gmul gsub gopp G_ring gconj
                   g_conj_add g_conj_mul g_conj_opp g_conj_0 g_conj_invol gim ghalf
                   g_conj_im g_conj_half). assumption.
Qed.
