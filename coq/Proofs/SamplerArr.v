(** Pointwise laws of the array primitives of Model/Sampler.v.  None of them
    uses any law of the number type. *)
From Coq Require Import ZArith List Bool Lia Arith.
From PV Require Import Model.Base Model.Sampler.
Import ListNotations.

Section Arr.
Variable T : Type.
Variable zero : T.

Lemma sadd_length : forall add arr k xs,
  length (sadd T add arr k xs) = length arr.
Proof.
  induction arr as [|a r IH]; intros k xs; simpl; auto.
  destruct k; simpl; [destruct xs; simpl; auto|]; auto.
Qed.

Lemma sadd_nth : forall add arr k xs t d,
  nth t (sadd T add arr k xs) d =
  if (k <=? t)%nat && (t <? k + length xs)%nat && (t <? length arr)%nat
  then add (nth t arr d) (nth (t - k) xs d) else nth t arr d.
Proof.
  induction arr as [|a r IH]; intros k xs t d.
  - simpl. destruct t; rewrite !andb_false_r; reflexivity.
  - destruct k as [|k].
    + destruct xs as [|x xr].
      * simpl sadd. simpl length. rewrite Nat.add_0_r.
        replace ((0 <=? t)%nat && (t <? 0)%nat) with false; [reflexivity|].
        destruct t; reflexivity.
      * simpl sadd. destruct t as [|t].
        -- reflexivity.
        -- simpl nth. rewrite IH. simpl length.
           replace (S t - 0)%nat with (S t) by lia.
           replace (t - 0)%nat with t by lia.
           simpl nth.
           replace ((0 <=? S t)%nat) with true by reflexivity.
           replace ((0 <=? t)%nat) with true by (symmetry; apply Nat.leb_le; lia).
           replace (S t <? 0 + S (length xr))%nat with (t <? 0 + length xr)%nat
             by (apply eq_true_iff_eq; rewrite !Nat.ltb_lt; lia).
           replace (S t <? S (length r))%nat with (t <? length r)%nat
             by (apply eq_true_iff_eq; rewrite !Nat.ltb_lt; lia).
           reflexivity.
    + simpl sadd. destruct t as [|t].
      * reflexivity.
      * simpl nth. rewrite IH. simpl length.
        replace (S k <=? S t)%nat with (k <=? t)%nat by reflexivity.
        replace (S t <? S k + length xs)%nat with (t <? k + length xs)%nat
          by (apply eq_true_iff_eq; rewrite !Nat.ltb_lt; lia).
        replace (S t <? S (length r))%nat with (t <? length r)%nat
          by (apply eq_true_iff_eq; rewrite !Nat.ltb_lt; lia).
        replace (S t - S k)%nat with (t - k)%nat by lia.
        reflexivity.
Qed.

Lemma nth_repeat_lt : forall (v : T) k t d, (t < k)%nat -> nth t (repeat v k) d = v.
Proof.
  induction k as [|k IH]; intros t d H; [lia|].
  destruct t; simpl; auto. apply IH. lia.
Qed.

Lemma set_from_length : forall arr k v,
  length (set_from T arr k v) = length arr.
Proof.
  intros. unfold set_from. rewrite app_length, firstn_length, repeat_length. lia.
Qed.

(** for a non-negative start *)
Lemma set_from_nth : forall arr k v t d,
  (0 <= k)%Z ->
  nth t (set_from T arr k v) d =
  if (t <? Z.to_nat k)%nat then nth t arr d
  else if (t <? length arr)%nat then v else d.
Proof.
  intros arr k v t d Hk. unfold set_from.
  replace (k <? 0)%Z with false by (symmetry; apply Z.ltb_ge; lia).
  set (k' := Z.to_nat k).
  destruct (Nat.ltb_spec t k') as [Ht|Ht].
  - destruct (Nat.lt_ge_cases t (length arr)) as [Hl|Hl].
    + rewrite app_nth1 by (rewrite firstn_length; lia).
      rewrite <- (firstn_skipn k' arr) at 2.
      rewrite app_nth1 by (rewrite firstn_length; lia). reflexivity.
    + rewrite (nth_overflow arr) by lia.
      apply nth_overflow. rewrite app_length, firstn_length, repeat_length. lia.
  - destruct (Nat.ltb_spec t (length arr)) as [Hl|Hl].
    + rewrite app_nth2 by (rewrite firstn_length; lia).
      rewrite firstn_length.
      apply nth_repeat_lt. lia.
    + apply nth_overflow. rewrite app_length, firstn_length, repeat_length. lia.
Qed.

Lemma accr_length : forall f dst src skip cnt,
  length (accr T f dst src skip cnt) = length dst.
Proof.
  induction dst as [|a r IH]; intros src skip cnt; simpl; auto.
  destruct src; simpl; auto.
  destruct skip; simpl; auto. destruct cnt; simpl; auto.
Qed.

Lemma accr_nth : forall f dst src skip cnt t d,
  length src = length dst ->
  nth t (accr T f dst src skip cnt) d =
  if (skip <=? t)%nat && (t <? skip + cnt)%nat && (t <? length dst)%nat
  then f (nth t dst d) (nth t src d) else nth t dst d.
Proof.
  induction dst as [|a r IH]; intros src skip cnt t d Hlen.
  - simpl. destruct t; rewrite !andb_false_r; reflexivity.
  - destruct src as [|s sr]; [discriminate|]. simpl in Hlen.
    assert (Hl : length sr = length r) by lia.
    destruct skip as [|k].
    + destruct cnt as [|n].
      * simpl accr.
        replace ((0 <=? t)%nat && (t <? 0 + 0)%nat) with false; [reflexivity|].
        destruct t; reflexivity.
      * simpl accr. destruct t as [|t]; [reflexivity|].
        simpl nth. rewrite IH by exact Hl. simpl length.
        replace ((0 <=? S t)%nat) with true by reflexivity.
        replace ((0 <=? t)%nat) with true by (symmetry; apply Nat.leb_le; lia).
        replace (S t <? 0 + S n)%nat with (t <? 0 + n)%nat
          by (apply eq_true_iff_eq; rewrite !Nat.ltb_lt; lia).
        replace (S t <? S (length r))%nat with (t <? length r)%nat
          by (apply eq_true_iff_eq; rewrite !Nat.ltb_lt; lia).
        reflexivity.
    + simpl accr. destruct t as [|t]; [reflexivity|].
      simpl nth. rewrite IH by exact Hl. simpl length.
      replace (S k <=? S t)%nat with (k <=? t)%nat by reflexivity.
      replace (S t <? S k + cnt)%nat with (t <? k + cnt)%nat
        by (apply eq_true_iff_eq; rewrite !Nat.ltb_lt; lia).
      replace (S t <? S (length r))%nat with (t <? length r)%nat
        by (apply eq_true_iff_eq; rewrite !Nat.ltb_lt; lia).
      reflexivity.
Qed.

Lemma nth_app_repeat : forall (l : list T) v k t d,
  nth t (l ++ repeat v k) d =
  if (t <? length l)%nat then nth t l d
  else if (t <? length l + k)%nat then v else d.
Proof.
  intros. destruct (Nat.ltb_spec t (length l)).
  - apply app_nth1; lia.
  - rewrite app_nth2 by lia.
    destruct (Nat.ltb_spec t (length l + k)).
    + apply nth_repeat_lt. lia.
    + apply nth_overflow. rewrite repeat_length. lia.
Qed.

End Arr.

(** * The same laws with integer (ns) indices *)
Ltac bool_to_prop :=
  apply eq_true_iff_eq;
  rewrite ?andb_true_iff, ?orb_true_iff, ?negb_true_iff,
          ?Nat.leb_le, ?Nat.ltb_lt, ?Z.leb_le, ?Z.ltb_lt, ?Z.eqb_eq, ?Nat.eqb_eq.

Section ArrZ.
Variable T : Type.
Variable zero : T.

Lemma nthz_nth : forall (l : list T) t, (0 <= t)%Z ->
  nthz T zero l t = nth (Z.to_nat t) l zero.
Proof.
  intros. unfold nthz. replace (t <? 0)%Z with false; auto.
  symmetry. apply Z.ltb_ge. lia.
Qed.

Lemma nthz_overflow : forall (l : list T) t, (lenz T l <= t)%Z ->
  nthz T zero l t = zero.
Proof.
  intros l t H. unfold lenz in H. unfold nthz.
  destruct (t <? 0)%Z; auto. apply nth_overflow. lia.
Qed.

Lemma lenz_nonneg : forall (l : list T), (0 <= lenz T l)%Z.
Proof. intros. unfold lenz. lia. Qed.

Lemma sadd_lenz : forall add arr k xs, lenz T (sadd T add arr k xs) = lenz T arr.
Proof. intros. unfold lenz. now rewrite sadd_length. Qed.

Lemma sadd_nthz : forall add arr ti xs t,
  (0 <= ti)%Z -> (0 <= t)%Z ->
  nthz T zero (sadd T add arr (Z.to_nat ti) xs) t =
  if ((ti <=? t) && (t <? ti + lenz T xs) && (t <? lenz T arr))%Z
  then add (nthz T zero arr t) (nthz T zero xs (t - ti)) else nthz T zero arr t.
Proof.
  intros add arr ti xs t Hti Ht.
  rewrite !nthz_nth by lia. rewrite sadd_nth.
  replace ((Z.to_nat ti <=? Z.to_nat t)%nat && (Z.to_nat t <? Z.to_nat ti + length xs)%nat
           && (Z.to_nat t <? length arr)%nat)
    with ((ti <=? t) && (t <? ti + lenz T xs) && (t <? lenz T arr))%Z.
  2:{ unfold lenz. bool_to_prop. lia. }
  destruct ((ti <=? t) && (t <? ti + lenz T xs) && (t <? lenz T arr))%Z eqn:E; auto.
  rewrite !andb_true_iff, !Z.leb_le, !Z.ltb_lt in E.
  rewrite nthz_nth by lia. f_equal. f_equal. lia.
Qed.

Lemma set_from_lenz : forall arr k v, lenz T (set_from T arr k v) = lenz T arr.
Proof. intros. unfold lenz. now rewrite set_from_length. Qed.

Lemma set_from_nthz : forall arr k v t,
  (0 <= k)%Z -> (0 <= t)%Z ->
  nthz T zero (set_from T arr k v) t =
  if (t <? k)%Z then nthz T zero arr t
  else if (t <? lenz T arr)%Z then v else zero.
Proof.
  intros arr k v t Hk Ht. rewrite !nthz_nth by lia. rewrite set_from_nth by lia.
  replace (Z.to_nat t <? Z.to_nat k)%nat with (t <? k)%Z by (bool_to_prop; lia).
  replace (Z.to_nat t <? length arr)%nat with (t <? lenz T arr)%Z
    by (unfold lenz; bool_to_prop; lia).
  reflexivity.
Qed.

Lemma accr_lenz : forall f dst src skip cnt,
  lenz T (accr T f dst src skip cnt) = lenz T dst.
Proof. intros. unfold lenz. now rewrite accr_length. Qed.

Lemma accr_nthz : forall f dst src lo n t,
  length src = length dst -> (0 <= t)%Z ->
  nthz T zero (accr T f dst src (Z.to_nat lo) (Z.to_nat n)) t =
  if ((Z.max 0 lo <=? t) && (t <? Z.max 0 lo + Z.max 0 n) && (t <? lenz T dst))%Z
  then f (nthz T zero dst t) (nthz T zero src t) else nthz T zero dst t.
Proof.
  intros f dst src lo n t Hl Ht. rewrite !nthz_nth by lia. rewrite accr_nth by exact Hl.
  replace ((Z.to_nat lo <=? Z.to_nat t)%nat && (Z.to_nat t <? Z.to_nat lo + Z.to_nat n)%nat
           && (Z.to_nat t <? length dst)%nat)
    with ((Z.max 0 lo <=? t) && (t <? Z.max 0 lo + Z.max 0 n) && (t <? lenz T dst))%Z.
  2:{ unfold lenz. bool_to_prop. lia. }
  reflexivity.
Qed.

Lemma nthz_app_repeat : forall (l : list T) v k t, (0 <= t)%Z ->
  nthz T zero (l ++ repeat v k) t =
  if (t <? lenz T l)%Z then nthz T zero l t
  else if (t <? lenz T l + Z.of_nat k)%Z then v else zero.
Proof.
  intros l v k t Ht. rewrite !nthz_nth by lia. rewrite nth_app_repeat.
  replace (Z.to_nat t <? length l)%nat with (t <? lenz T l)%Z
    by (unfold lenz; bool_to_prop; lia).
  replace (Z.to_nat t <? length l + k)%nat with (t <? lenz T l + Z.of_nat k)%Z
    by (unfold lenz; bool_to_prop; lia).
  reflexivity.
Qed.

Lemma zeros_lenz : forall n, lenz T (zeros T zero n) = Z.max 0 n.
Proof. intros. unfold lenz, zeros. rewrite repeat_length. lia. Qed.

Lemma zeros_nthz : forall n t, nthz T zero (zeros T zero n) t = zero.
Proof.
  intros. unfold nthz, zeros. destruct (t <? 0)%Z; auto.
  destruct (Nat.lt_ge_cases (Z.to_nat t) (Z.to_nat n)).
  - apply nth_repeat_lt. lia.
  - apply nth_overflow. rewrite repeat_length. lia.
Qed.

End ArrZ.
