(** Pointwise laws of the array primitives of Model/Sampler.v.  None of them
    uses any law of the number type. *)
From Coq Require Import ZArith List Bool Lia Arith.
From PV Require Import Model.Base Model.Sampler.
Import ListNotations.

Section Arr.
Variable T : Type.
Variable zero : T.

Lemma sadd_length : forall add arr k xs,
  length (sadd T add arr k xs) = length arr.
Proof.
  induction arr as [|a r IH]; intros k xs; simpl; auto.
  destruct k; simpl; [destruct xs; simpl; auto|]; auto.
Qed.

Lemma sadd_nth : forall add arr k xs t d,
  nth t (sadd T add arr k xs) d =
  if (k <=? t)%nat && (t <? k + length xs)%nat && (t <? length arr)%nat
  then add (nth t arr d) (nth (t - k) xs d) else nth t arr d.
Proof.
  induction arr as [|a r IH]; intros k xs t d.
  - simpl. destruct t; rewrite !andb_false_r; reflexivity.
  - destruct k as [|k].
    + destruct xs as [|x xr].
      * simpl sadd. simpl length. rewrite Nat.add_0_r.
        replace ((0 <=? t)%nat && (t <? 0)%nat) with false; [reflexivity|].
        destruct t; reflexivity.
      * simpl sadd. destruct t as [|t].
        -- reflexivity.
        -- simpl nth. rewrite IH. simpl length.
           replace (S t - 0)%nat with (S t) by lia.
           replace (t - 0)%nat with t by lia.
           simpl nth.
           replace ((0 <=? S t)%nat) with true by reflexivity.
           replace ((0 <=? t)%nat) with true by (symmetry; apply Nat.leb_le; lia).
           replace (S t <? 0 + S (length xr))%nat with (t <? 0 + length xr)%nat
             by (apply eq_true_iff_eq; rewrite !Nat.ltb_lt; lia).
           replace (S t <? S (length r))%nat with (t <? length r)%nat
             by (apply eq_true_iff_eq; rewrite !Nat.ltb_lt; lia).
           reflexivity.
    + simpl sadd. destruct t as [|t].
      * reflexivity.
      * simpl nth. rewrite IH. simpl length.
        replace (S k <=? S t)%nat with (k <=? t)%nat by reflexivity.
        replace (S t <? S k + length xs)%nat with (t <? k + length xs)%nat
          by (apply eq_true_iff_eq; rewrite !Nat.ltb_lt; lia).
        replace (S t <? S (length r))%nat with (t <? length r)%nat
          by (apply eq_true_iff_eq; rewrite !Nat.ltb_lt; lia).
        replace (S t - S k)%nat with (t - k)%nat by lia.
        reflexivity.
Qed.

Lemma set_from_length : forall arr k v,
  length (set_from T arr k v) = length arr.
Proof.
  intros. unfold set_from. rewrite app_length, firstn_length, repeat_length. lia.
Qed.

(** for a non-negative start *)
Lemma set_from_nth : forall arr k v t d,
  (0 <= k)%Z ->
  nth t (set_from T arr k v) d =
  if (t <? Z.to_nat k)%nat then nth t arr d
  else if (t <? length arr)%nat then v else d.
Proof.
  intros arr k v t d Hk. unfold set_from.
  replace (k <? 0)%Z with false by (symmetry; apply Z.ltb_ge; lia).
  set (k' := Z.to_nat k).
  destruct (Nat.ltb_spec t k') as [Ht|Ht].
  - destruct (Nat.lt_ge_cases t (length arr)) as [Hl|Hl].
    + rewrite app_nth1 by (rewrite firstn_length; lia).
      rewrite <- (firstn_skipn k' arr) at 2.
      rewrite app_nth1 by (rewrite firstn_length; lia). reflexivity.
    + rewrite (nth_overflow arr) by lia.
      apply nth_overflow. rewrite app_length, firstn_length, repeat_length. lia.
  - destruct (Nat.ltb_spec t (length arr)) as [Hl|Hl].
    + rewrite app_nth2 by (rewrite firstn_length; lia).
      rewrite firstn_length.
      apply nth_repeat_lt || idtac.
      rewrite nth_repeat'. reflexivity. rewrite ?repeat_length. lia.
    + apply nth_overflow. rewrite app_length, firstn_length, repeat_length. lia.
Qed.

Lemma accr_length : forall f dst src skip cnt,
  length (accr T f dst src skip cnt) = length dst.
Proof.
  induction dst as [|a r IH]; intros src skip cnt; simpl; auto.
  destruct src; simpl; auto.
  destruct skip; simpl; auto. destruct cnt; simpl; auto.
Qed.

Lemma accr_nth : forall f dst src skip cnt t d,
  length src = length dst ->
  nth t (accr T f dst src skip cnt) d =
  if (skip <=? t)%nat && (t <? skip + cnt)%nat && (t <? length dst)%nat
  then f (nth t dst d) (nth t src d) else nth t dst d.
Proof.
  induction dst as [|a r IH]; intros src skip cnt t d Hlen.
  - simpl. destruct t; rewrite !andb_false_r; reflexivity.
  - destruct src as [|s sr]; [discriminate|]. simpl in Hlen.
    assert (Hl : length sr = length r) by lia.
    destruct skip as [|k].
    + destruct cnt as [|n].
      * simpl accr.
        replace ((0 <=? t)%nat && (t <? 0 + 0)%nat) with false; [reflexivity|].
        destruct t; reflexivity.
      * simpl accr. destruct t as [|t]; [reflexivity|].
        simpl nth. rewrite IH by exact Hl. simpl length.
        replace ((0 <=? S t)%nat) with true by reflexivity.
        replace ((0 <=? t)%nat) with true by (symmetry; apply Nat.leb_le; lia).
        replace (S t <? 0 + S n)%nat with (t <? 0 + n)%nat
          by (apply eq_true_iff_eq; rewrite !Nat.ltb_lt; lia).
        replace (S t <? S (length r))%nat with (t <? length r)%nat
          by (apply eq_true_iff_eq; rewrite !Nat.ltb_lt; lia).
        reflexivity.
    + simpl accr. destruct t as [|t]; [reflexivity|].
      simpl nth. rewrite IH by exact Hl. simpl length.
      replace (S k <=? S t)%nat with (k <=? t)%nat by reflexivity.
      replace (S t <? S k + cnt)%nat with (t <? k + cnt)%nat
        by (apply eq_true_iff_eq; rewrite !Nat.ltb_lt; lia).
      replace (S t <? S (length r))%nat with (t <? length r)%nat
        by (apply eq_true_iff_eq; rewrite !Nat.ltb_lt; lia).
      reflexivity.
Qed.

Lemma nth_app_repeat : forall (l : list T) v k t d,
  nth t (l ++ repeat v k) d =
  if (t <? length l)%nat then nth t l d
  else if (t <? length l + k)%nat then v else d.
Proof.
  intros. destruct (Nat.ltb_spec t (length l)).
  - apply app_nth1; lia.
  - rewrite app_nth2 by lia.
    destruct (Nat.ltb_spec t (length l + k)).
    + apply nth_repeat'. lia.
    + apply nth_overflow. rewrite repeat_length. lia.
Qed.

End Arr.
