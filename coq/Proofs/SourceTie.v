(** One statement collecting the whole translation tie of the scheduler: every
    function of the hand-written scheduler model that a theorem about sequences
    rests on is EQUAL to the function regenerated from the current source
    (translate/tr_pure.py -> Gen/Pure*.v).  Every sequence property re-exports
    it, so that an edit of the scheduler's source breaks a proof obligation of
    each of them, whatever inputs the generator happens to draw. *)
From Coq Require Import ZArith Bool List.
From Coq Require Import PrimFloat.
From PV Require Import Model.Base Model.Sched Model.Chan Model.Seq.
From PV Require Import Gen.Pure Gen.PureLoops Gen.PureLimits Gen.PureSlot Gen.PureState.
From PV Require Import Proofs.PureEq Proofs.PureLoopsEq Proofs.PureLimitsEq Proofs.PureSlotEq Proofs.PureStateEq.
Import ListNotations.
Open Scope Z_scope.

Definition scheduler_tied : Prop :=
  (forall (c : ccfg) (d : Z),
     gen_validate_duration (c_min c) (c_max c) (c_clock c) d = validate_duration c d) /\
  (forall (c : ccfg) (d : Z),
     gen_adjust_duration (c_min c) (c_max c) (c_clock c) d = adjust_duration c d) /\
  (forall (e : env) (t : Z) (b : bool), gen_check_duration (en_max e) t b = check_duration e t b) /\
  (forall bw, gen_rise_time bw = rise_time bw) /\
  (forall rise custom, gen_phase_jump_time rise custom = phase_jump_time rise custom) /\
  (forall rise custom, gen_eom_buffer_time rise custom = eom_buffer_time_of rise custom) /\
  (forall (d : drift) (tf : Z), gen_calc_phase_drift (dr_rate d) (dr_ti d) tf = calc_phase_drift d tf) /\
  (forall phi, gen_phase_format phi = f_mod2pi phi) /\
  (forall (c : chan) (fall : bool),
     gen_get_duration (ch_slots c) (c_rise (ch_cfg c)) (in_eom c) fall = ch_duration c fall) /\
  (forall (chs : sched) (t0 n : Z) (tg : list Z) (wfa : bool),
     gen_find_add_delay chs t0 n tg wfa = find_add_delay n tg wfa t0 chs) /\
  (forall slots, gen_last_target slots = last_target slots) /\
  (forall slots ign,
     gen_last_pulse_slot slots ign =
     match last_pulse_slot ign slots with Some (s, _) => Ok s | None => Err ERuntime end) /\
  (forall (c : ccfg) (u : upulse),
     gen_validate_pulse (c_maxamp c) (c_maxdet c) (c_minavg c) (u_amax u) (u_avg u) (u_dabsmax u)
     = validate_pulse c u) /\
  (forall (c : ccfg) (w : float * float) (u : upulse),
     gen_validate_pulse_dmm (c_maxamp c) (c_maxdet c) (c_minavg c) (u_amax u) (u_avg u) (u_dabsmax u)
       (c_bottom c) (c_totbottom c) (u_dmax u) (u_dmin u) (fst w) (snd w) = validate_pulse_dmm c w u) /\
  (forall e p n barriers proto dp block s last c,
     last_slot n s = (s, Ok last) -> the_chan n s = (s, Ok c) ->
     make_next_pulse_slot e p n barriers proto dp block s =
     (s, slot_of e n p dp last
           (gen_make_next_pulse_slot s c last n barriers (negb (negb (proto =? 1))) (proto =? 2) dp
              (p_phase p) (p_dur p) (en_max e) block))) /\
  (forall e d n s, gen_add_delay e d n s = add_delay e d n s) /\
  (forall e n s, gen_wait_for_fall e n s = wait_for_fall e n s) /\
  (forall e p n barriers proto dp s,
     gen_add_pulse e p n barriers proto dp s = add_pulse e p n barriers proto dp s) /\
  (forall e qs n s, gen_add_target e qs n s = add_target e qs n s) /\
  (forall e n a b c w s, gen_enable_eom e n a b c w s = enable_eom e n a b c w s) /\
  (forall e n k s, gen_disable_eom e n k s = disable_eom e n k s).

Theorem scheduler_source_tie : scheduler_tied.
Proof.
  unfold scheduler_tied.
  repeat match goal with |- _ /\ _ => split end.
  - exact validate_duration_eq.
  - exact adjust_duration_eq.
  - exact check_duration_eq.
  - exact rise_time_eq.
  - exact phase_jump_time_eq.
  - exact eom_buffer_time_eq.
  - exact calc_phase_drift_eq.
  - exact phase_format_eq.
  - exact get_duration_eq.
  - exact find_add_delay_eq.
  - exact last_target_eq.
  - exact last_pulse_slot_eq.
  - exact validate_pulse_eq.
  - exact validate_pulse_dmm_eq.
  - exact make_next_pulse_slot_eq.
  - exact add_delay_eq.
  - exact wait_for_fall_eq.
  - exact add_pulse_eq.
  - exact add_target_eq.
  - exact enable_eom_eq.
  - exact disable_eom_eq.
Qed.
