(** The scheduler's two backwards scans of the hand-written model -
    [ch_duration]/[gd_scan] (_ChannelSchedule.get_duration) and
    [find_add_delay]/[fad_scan] (_Schedule._find_add_delay) - are equal to the
    functions REGENERATED from the current source by translate/tr_pure.py
    (Gen/PureLoops.v), for every list of slots and every list of channels. *)
From Coq Require Import ZArith Bool List Lia.
From PV Require Import Model.Base Model.Sched Gen.PureLoops.
Import ListNotations.
Open Scope Z_scope.

Lemma get_duration_loop_pos slots rise ineom fall :
  forall (l : list slot) (i temp : Z),
    0 < i ->
    snd (gen_get_duration_loop1 slots rise ineom fall i temp l) = gd_scan (2 * rise) ineom temp l.
Proof.
  induction l as [|op r IH]; intros i temp Hi; cbn [gen_get_duration_loop1 gd_scan]; [reflexivity|].
  destruct (i =? 0) eqn:E; [apply Z.eqb_eq in E; lia|].
  unfold is_pulse. destruct (s_kind op); cbn [snd]; try reflexivity;
    (destruct (temp - s_tf op >=? 2 * rise); [reflexivity| apply IH; lia]).
Qed.

Lemma get_duration_eq (c : chan) (fall : bool) :
  gen_get_duration (ch_slots c) (c_rise (ch_cfg c)) (in_eom c) fall = ch_duration c fall.
Proof.
  unfold gen_get_duration, ch_duration.
  destruct (ch_slots c) as [|op r] eqn:Hs; [reflexivity|].
  set (L := op :: r).
  assert (H : snd (gen_get_duration_loop1 L (c_rise (ch_cfg c)) (in_eom c) fall 0 0 L) =
              if fall then gd_scan (2 * c_rise (ch_cfg c)) (in_eom c) (s_tf op) L else s_tf op).
  { unfold L at 2 3. cbn [gen_get_duration_loop1 gd_scan]. cbn [Z.eqb].
    destruct fall; cbn [negb]; [|reflexivity].
    unfold is_pulse. destruct (s_kind op); cbn [snd]; try reflexivity;
      (destruct (s_tf op - s_tf op >=? 2 * c_rise (ch_cfg c)); [reflexivity|
       apply get_duration_loop_pos; lia]). }
  destruct (gen_get_duration_loop1 L (c_rise (ch_cfg c)) (in_eom c) fall 0 0 L) as [i t].
  exact H.
Qed.

Lemma find_add_delay_inner_eq chs t0 n tg wfa (co : chan) ineom (c : chan) :
  forall (l : list slot) (cur : Z),
    gen_find_add_delay_loop2 chs t0 n tg wfa co ineom c cur l =
    fad_scan (2 * c_rise (ch_cfg co)) ineom tg wfa cur l.
Proof.
  induction l as [|op r IH]; intros cur; cbn [gen_find_add_delay_loop2 fad_scan]; [reflexivity|].
  unfold is_pulse. destruct (s_kind op); cbn [negb];
    try (destruct (s_tf op + 2 * c_rise (ch_cfg co) <=? cur); [reflexivity|apply IH]).
  destruct (s_tf op + pfall ineom _ <=? cur); [reflexivity|].
  destruct (intersects (s_tg op) tg || wfa); [reflexivity|apply IH].
Qed.

Lemma find_add_delay_outer_eq chs t0 n tg wfa :
  forall (l : list chan) (cur : Z),
    gen_find_add_delay_loop1 chs t0 n tg wfa cur l = find_add_delay n tg wfa cur l.
Proof.
  induction l as [|c r IH]; intros cur; cbn [gen_find_add_delay_loop1 find_add_delay]; [reflexivity|].
  destruct (ch_name c =? n); [apply IH|].
  rewrite find_add_delay_inner_eq. apply IH.
Qed.

Lemma find_add_delay_eq (chs : sched) (t0 n : Z) (tg : list Z) (wfa : bool) :
  gen_find_add_delay chs t0 n tg wfa = find_add_delay n tg wfa t0 chs.
Proof. unfold gen_find_add_delay. apply find_add_delay_outer_eq. Qed.

(** _ChannelSchedule.last_target and last_pulse_slot (search loops) *)
Lemma last_target_loop_eq slots :
  forall l : list slot,
    match gen_last_target_loop1 slots l with Some t => t | None => 0 end = last_target l.
Proof.
  induction l as [|s r IH]; cbn [gen_last_target_loop1 last_target]; [reflexivity|].
  destruct (is_target s); [reflexivity|exact IH].
Qed.

Lemma last_target_eq (slots : list slot) : gen_last_target slots = last_target slots.
Proof. unfold gen_last_target. apply last_target_loop_eq. Qed.

Lemma last_pulse_slot_loop_eq slots ign :
  forall l : list slot,
    gen_last_pulse_slot_loop1 slots ign l = option_map fst (last_pulse_slot ign l).
Proof.
  induction l as [|s r IH]; cbn [gen_last_pulse_slot_loop1 last_pulse_slot]; [reflexivity|].
  unfold is_pulse. destruct (s_kind s) as [p| | ]; cbn [andb]; try exact IH.
  destruct (ign && p_dd p); cbn [negb]; [exact IH|reflexivity].
Qed.

Lemma last_pulse_slot_eq (slots : list slot) (ign : bool) :
  gen_last_pulse_slot slots ign =
  match last_pulse_slot ign slots with Some (s, _) => Ok s | None => Err ERuntime end.
Proof.
  unfold gen_last_pulse_slot. rewrite last_pulse_slot_loop_eq.
  destruct (last_pulse_slot ign slots) as [[s p]|]; reflexivity.
Qed.
