(** C05 - the emulated Hamiltonian equals the documented formula.

    Model: Model/Ham.v (QutipEmulator.__init__, to_nested_dict,
    hamiltonian.py, parametric in the number type), run against /repo in its
    binary64 instance Model/HamF.v.  [cring_ok R]: commutative ring with an
    involution and 1/2 (satisfied by the Gaussian rationals, [C05_hypotheses_
    satisfiable]).  Indices: [flat d r] is the position, in the d^n matrix,
    of the digit vector r (one digit per atom, register order, first atom
    most significant; digit = rank of the state in the eigenbasis). *)
From Coq Require Import List Arith Bool ZArith.
From PV Require Import Model.Ham Proofs.HamLin Proofs.HamForm Proofs.HamAttr Proofs.HamQ Proofs.HamThm.
Import ListNotations.
Local Open Scope nat_scope.

(** qutip.tensor puts entry (r, c) of a Kronecker product at the flat
    indices of the digit vectors: any number of factors, any dimension, any
    number type (no algebraic law is used, so this holds for floats). *)
Theorem C05_kron_flat_index : forall (R : cops) d ops r c,
    digits d (length ops) r -> digits d (length ops) c ->
    tensor R d ops (flat d r) (flat d c) = entry R ops r c.
Proof. exact kron_flat_index. Qed.
Print Assumptions C05_kron_flat_index.

(** _build_operator: |a><b| on atom i and identity elsewhere has entry 1
    exactly where row digit i is a, column digit i is b and all other digits
    agree; same for two atoms. *)
Theorem C05_build_operator_single : forall R, cring_ok R ->
    forall d n i a b r c, i < n -> digits d n r -> digits d n c ->
    build_op R d n [(sigma R a b, [i])] (flat d r) (flat d c)
    = b2c R (site1 n i a b r c).
Proof. exact build_operator_single. Qed.
Print Assumptions C05_build_operator_single.

Theorem C05_build_operator_pair : forall R, cring_ok R ->
    forall d n i j a b a' b' r c, i < n -> j < n -> i <> j ->
    digits d n r -> digits d n c ->
    build_op R d n [(sigma R a b, [i]); (sigma R a' b', [j])] (flat d r) (flat d c)
    = b2c R (site2 n i a b j a' b' r c)
    /\ build_op R d n [(sigma R a b, [i; j])] (flat d r) (flat d c)
       = b2c R (site2 n i a b j a b r c).
Proof. exact build_operator_pair. Qed.
Print Assumptions C05_build_operator_pair.

(** Hermitian at all times, for every input (no hypothesis on the samples). *)
Theorem C05_ham_hermitian : forall R, cring_ok R ->
    forall d n eb xy hi md on mask mask_end t U chs I J,
      ham_model R d n eb xy hi md on mask mask_end t U chs J I
      = cconj R (ham_model R d n eb xy hi md on mask mask_end t U chs I J).
Proof. exact ham_hermitian_all_inputs. Qed.
Print Assumptions C05_ham_hermitian.

(** From the nested dict of samples to the matrix: every entry of the
    Hamiltonian is
      sum over dict entries of  Omega/2 (E |a><b|_i + conj E |b><a|_i) - delta |b><b|_i
      + sum_{i<j coupled} U_ij n_i n_j          (resp. U_ij (|ud><du| + |du><ud|))
    for every number of atoms, dimension, eigenbasis, addressing. *)
Theorem C05_ham_formula_grouped : forall R, cring_ok R ->
    forall d n r c, digits d n r -> digits d n c ->
    forall eb xy hi md on mask U dict,
      (forall i j, cconj R (U i j) = U i j) ->
      Forall (det_real R) dict -> Forall (key_in_range R n) dict ->
      ham_of_dict R d n eb xy hi md on mask U dict (flat d r) (flat d c)
      = ham_formula_of R n eb xy hi md on mask U dict r c.
Proof. exact ham_formula_grouped. Qed.
Print Assumptions C05_ham_formula_grouped.

(** The full chain (channel samples -> emulator -> nested dict -> matrix):
    the Hamiltonian is the documented sum over channels and addressed atoms
    PROVIDED no two contributions fall on the same (addressing, basis, atom)
    entry at that time.  This is the partial form of the property: the extra
    hypothesis is [NoDup]. *)
Theorem C05_ham_formula_partial : forall R, cring_ok R ->
    forall d n r c, digits d n r -> digits d n c ->
    forall eb xy hi md on mask mask_end t U chs,
      (forall i j, cconj R (U i j) = U i j) ->
      let cs := all_contribs R n mask mask_end t chs in
      Forall (det_real R) cs -> Forall (key_in_range R n) cs ->
      NoDup (map fst cs) ->
      ham_model R d n eb xy hi md on mask mask_end t U chs (flat d r) (flat d c)
      = ham_formula_of R n eb xy hi md on mask U cs r c.
Proof. exact ham_formula_no_shared_entry. Qed.
Print Assumptions C05_ham_formula_partial.

(** Without that hypothesis the statement is false of the faithful model:
    two Global channels on one basis, one playing amplitude 1 with phase 0,
    the other idle but holding a phase: the model (and /repo, replayed in
    corpus/C05/shared-basis-phase.json) uses the SUM of the phases. *)
Theorem C05_ham_formula_refuted_shared_basis :
  exists (chs : list (chan qops)) (t : Z) (r c : list nat),
    let cs := all_contribs qops 1 [] 0%Z t chs in
    digits 2 1 r /\ digits 2 1 c /\
    Forall (det_real qops) cs /\ Forall (key_in_range qops 1) cs /\
    ham_model qops 2 1 [2; 3] false false false true [] 0%Z t wU chs
              (flat 2 r) (flat 2 c)
    <> ham_formula_of qops 1 [2; 3] false false false true [] wU cs r c.
Proof. exact ham_formula_shared_basis_refuted. Qed.
Print Assumptions C05_ham_formula_refuted_shared_basis.

(** Which atoms a Global channel reaches: all of them through the Global
    entry, except in XY mode while the SLM mask is on, when it reaches
    exactly the unmasked atoms. *)
Theorem C05_addressing_global : forall (R : cops) n mask mask_end t (c : chan R),
    ch_global R c = true -> ch_dmm R c = false -> (0 <= t)%Z ->
    (ch_basis R c <> 2 ->
     contribs_of_chan R n mask mask_end t c = [(KG (ch_basis R c), ch_val R c)])
    /\ (ch_basis R c = 2 -> (mask_end <= t)%Z ->
        contribs_of_chan R n mask mask_end t c = [(KG 2, ch_val R c)])
    /\ (ch_basis R c = 2 -> (t < mask_end)%Z -> ch_slots R c <> [] ->
        contribs_of_chan R n mask mask_end t c
        = map (fun q => (KL 2 q, ch_val R c))
              (filter (fun q => negb (memb q mask)) (seq 0 n))).
Proof. exact addressing_global. Qed.
Print Assumptions C05_addressing_global.

(** Local channels and DMMs: atom q receives the channel's value, detuning
    times its detuning-map weight, iff q is a target of a slot covering t
    (masked atoms in XY mode only after the mask has ended). *)
Theorem C05_addressing_local : forall (R : cops) n mask mask_end t (c : chan R) kv,
    ch_global R c && negb (ch_dmm R c) = false ->
    In kv (contribs_of_chan R n mask mask_end t c) <->
    exists s q,
      In s (emu_slots R n c) /\ In q (snd s) /\
      (let ti := fst (fst s) in
       let ti' := if (ch_basis R c =? 2) && memb q mask
                  then Z.max ti mask_end else ti in
       (ti' <= t)%Z /\ (t < snd (fst s))%Z) /\
      kv = (KL (ch_basis R c) q,
            Build_qty R (q_amp R (ch_val R c))
                      (cmul R (q_det R (ch_val R c)) (ch_w R c q))
                      (q_ph R (ch_val R c))).
Proof. exact contribs_local_iff. Qed.
Print Assumptions C05_addressing_local.

(** The 0/1 coefficient that switches the XY interaction of masked atoms
    back on is "t >= mask end" at every sampled time (full statement; it was
    one sample late before /repo commit 2116c4ac, regression
    corpus/C05/xy-mask-late.json). *)
Theorem C05_xy_mask_coefficient :
  forall D e k, (2 <= D)%Z -> (0 <= k)%Z -> (k <= D - 1)%Z ->
    unmasked_on_full D e k = negb (k <? e)%Z.
Proof. exact xy_mask_coefficient_exact. Qed.
Print Assumptions C05_xy_mask_coefficient.

(** Masked atoms are decoupled exactly while the SLM mask is on: drive and
    interaction switch at the same sampled time. *)
Theorem C05_xy_mask_drive_and_interaction_agree :
  forall D e t, (2 <= D)%Z -> (0 <= t)%Z -> (t <= D - 1)%Z ->
  forall (R : cops) n mask (c : chan R),
    ch_global R c = true -> ch_dmm R c = false -> ch_basis R c = 2 ->
    ch_slots R c <> [] ->
    ((e <= t)%Z ->
       contribs_of_chan R n mask e t c = [(KG 2, ch_val R c)]
       /\ forall p, coupled_now true true true (unmasked_on_full D e t) mask p = true)
    /\ ((t < e)%Z ->
       contribs_of_chan R n mask e t c
       = map (fun q => (KL 2 q, ch_val R c))
             (filter (fun q => negb (memb q mask)) (seq 0 n))
       /\ forall p, coupled_now true true true (unmasked_on_full D e t) mask p
                    = negb (memb (fst p) mask || memb (snd p) mask)).
Proof. exact xy_mask_drive_and_interaction_agree. Qed.
Print Assumptions C05_xy_mask_drive_and_interaction_agree.

(** The hypotheses on the number type are satisfiable. *)
Theorem C05_hypotheses_satisfiable : cring_ok qops.
Proof. exact cring_ok_qops. Qed.
Print Assumptions C05_hypotheses_satisfiable.
