(** C11 - property theorems: emulation keeps states physical and follows the
    measurement conventions; legacy emulator and V2 backend agree.
    Only statements and [exact]; the proofs are in Proofs/Emu*.v. *)
From Coq Require Import ZArith List Bool.
From Coq Require Import Uint63 FloatOps SpecFloat PrimFloat.
From Coq Require Import Ring.
From PV Require Import Model.Base Model.Emu Model.EmuLin Model.EmuHist Proofs.EmuMeas
  Proofs.EmuTimes Proofs.EmuSample Proofs.EmuLin Proofs.EmuHist.
Import ListNotations.
Open Scope Z_scope.

(** Bitstrings: the weight of [dec] is the total probability of the basis
    states whose atoms, in register order, are in the one-state exactly where
    the binary representation of [dec] has a 1. *)
Theorem C11_weight_is_histogram : forall d n one probs dec,
  0 < d -> 0 <= dec < 2 ^ Z.of_nat n ->
  weight_at d n one probs dec
  = zsum (map (fun ip => if code d n one (fst ip) =? dec then snd ip else 0)
              (combine (zrange (d ^ Z.of_nat n)) probs)).
Proof. exact weight_at_histogram. Qed.
Print Assumptions C11_weight_is_histogram.

(** Sampling distributions sum to one: the unnormalised weights add up to the
    total probability, whatever the dimension, the size and the one-state. *)
Theorem C11_weights_total : forall d n one probs,
  0 < d -> Z.of_nat (length probs) = d ^ Z.of_nat n ->
  zsum (weights_general d n one probs) = zsum probs.
Proof. exact weights_total. Qed.
Print Assumptions C11_weights_total.

(** Legacy and V2 attach the same probability to every bitstring. *)
Theorem C11_v2_bitprobs_eq_legacy_weights : forall d n one cutoff probs dec,
  0 < d -> 0 <= dec < 2 ^ Z.of_nat n ->
  Forall (fun p => cutoff < p \/ p = 0) probs ->
  lookup dec (fst (v2_bitprobs d n one cutoff probs)) = weight_at d n one probs dec.
Proof. exact v2_bitprobs_eq_legacy_weights. Qed.
Print Assumptions C11_v2_bitprobs_eq_legacy_weights.

Theorem C11_v2_total_eq_sum : forall d n one cutoff probs,
  Forall (fun p => cutoff < p \/ p = 0) probs ->
  Z.of_nat (length probs) = d ^ Z.of_nat n ->
  snd (v2_bitprobs d n one cutoff probs) = zsum probs.
Proof. exact v2_total_eq_sum. Qed.
Print Assumptions C11_v2_total_eq_sum.

(** The two-level shortcut of [_weights] (reverse for ground-rydberg, identity
    for digital and XY) is the general rule with r / h / d as the one-state. *)
Theorem C11_weights_dim2_shortcut : forall meas n unit probs,
  meas = 0 \/ meas = 1 \/ meas = 2 ->
  Z.of_nat (length probs) = 2 ^ Z.of_nat n ->
  (match one_state meas, basis_name meas 2 true with
   | Some os, Ok bn => index_of os (eigenbasis bn) = Some (one_idx_dim2 meas)
   | _, _ => False
   end)
  /\ weights_raw meas 2 n true unit probs
     = Ok (weights_general 2 n (one_idx_dim2 meas) probs).
Proof. exact weights_dim2_shortcut. Qed.
Print Assumptions C11_weights_dim2_shortcut.

(** Every other state reads 0: a one-state outside the basis gives 00...0. *)
Theorem C11_weights_absent_one_state : forall d n one probs dec,
  0 < d -> (one < 0 \/ d <= one) -> 0 <= dec < 2 ^ Z.of_nat n ->
  Z.of_nat (length probs) = d ^ Z.of_nat n ->
  weight_at d n one probs dec = if dec =? 0 then zsum probs else 0.
Proof. exact weights_absent_one_state. Qed.
Print Assumptions C11_weights_absent_one_state.

(** The basis-state labelling is injective (positional notation). *)
Theorem C11_digits_inj : forall d n i j, 0 < d ->
  0 <= i < d ^ Z.of_nat n -> 0 <= j < d ^ Z.of_nat n ->
  digits d n i = digits d n j -> i = j.
Proof. exact digits_inj. Qed.
Print Assumptions C11_digits_inj.

(** Evaluation times, every duration in [4, 100000] ns, bit-exact doubles. *)
Theorem C11_final_time_never_undershoots : forall T, 4 <= T <= Tmax ->
  PrimFloat.ltb (t_v2 T) (tf T) = false.
Proof. exact final_time_never_undershoots. Qed.
Print Assumptions C11_final_time_never_undershoots.

Theorem C11_eval_times_default_partial : forall T, 4 <= T <= Tmax ->
  final_time_overshoots T = false ->
  res_is (v2_eval_times one T (Some [one]) []) [zero; tf T] = true
  /\ res_is (set_evaluation_times one T EvMinimal) [zero; tf T] = true.
Proof. exact eval_times_default_partial. Qed.
Print Assumptions C11_eval_times_default_partial.

Theorem C11_eval_times_overshoot_raises : forall T, 4 <= T <= Tmax ->
  final_time_overshoots T = true ->
  v2_eval_times one T (Some [one]) [] = Err EValue
  /\ res_is (set_evaluation_times one T EvMinimal) [zero; tf T] = true.
Proof. exact eval_times_overshoot_raises. Qed.
Print Assumptions C11_eval_times_overshoot_raises.

Theorem C11_eval_times_refuted :
  exists T, 4 <= T <= Tmax
            /\ v2_eval_times one T (Some [one]) [] = Err EValue
            /\ set_evaluation_times one T EvMinimal = Ok [zero; tf T].
Proof. exact eval_times_refuted. Qed.
Print Assumptions C11_eval_times_refuted.

Theorem C11_eval_times_overshoot_count :
  length (filter final_time_overshoots durations) = 13328%nat.
Proof. exact eval_times_overshoot_count. Qed.
Print Assumptions C11_eval_times_overshoot_count.

Theorem C11_final_label_is_one : forall T, 4 <= T <= Tmax ->
  exists l, eval_labels T [tf T] = [l]
            /\ PrimFloat.leb l one = true /\ PrimFloat.leb f_almost_one l = true.
Proof. exact final_label_is_one. Qed.
Print Assumptions C11_final_label_is_one.

Theorem C11_fixed_eval_times_ok : forall T, 4 <= T <= Tmax ->
  exists l, set_evaluation_times one T
              (v2_legacy_eval_times_fixed one T (Some rel_grid) []) = Ok l
            /\ PrimFloat.eqb (last l zero) (tf T) = true
            /\ length l = 9%nat.
Proof. exact fixed_eval_times_ok. Qed.
Print Assumptions C11_fixed_eval_times_ok.

Theorem C11_final_index_refuted :
  exists T ts, 4 <= T <= Tmax
               /\ set_evaluation_times one T EvFull = Ok ts
               /\ final_index ts = Ok (Z.of_nat (length ts) - 2).
Proof. exact final_index_refuted. Qed.
Print Assumptions C11_final_index_refuted.

Theorem C11_final_index_minimal_ok : forall T, 4 <= T <= Tmax ->
  exists ts, set_evaluation_times one T EvMinimal = Ok ts
             /\ final_index ts = Ok (Z.of_nat (length ts) - 1).
Proof. exact final_index_minimal_ok. Qed.
Print Assumptions C11_final_index_minimal_ok.

(** Re-creation of the configuration by the backend. *)
Theorem C11_config_recreation_partial : forall d,
  (d = DFull \/ exists x, d = DSeq [x]) ->
  config_recreate d = config_init d.
Proof. exact config_recreation_partial. Qed.
Print Assumptions C11_config_recreation_partial.

Theorem C11_config_recreation_refuted :
  exists l, valid_eval_times l = true
            /\ config_init (DSeq l) = Ok (DArr l)
            /\ config_recreate (DSeq l) = Err EValue.
Proof. exact config_recreation_refuted. Qed.
Print Assumptions C11_config_recreation_refuted.

(** Sampling: [np.searchsorted] returns index [i] exactly for keys in
    ( c_{i-1}, c_i ], for any strict weak order (floats without NaN). *)
Theorem C11_searchsorted_iff :
  forall (T : Type) (ltb : T -> T -> bool) (dflt : T),
    (forall a, ltb a a = false) ->
    (forall a b c, ltb b a = false -> ltb c b = false -> ltb c a = false) ->
    (forall a b c, ltb b a = false -> ltb b c = true -> ltb a c = true) ->
    forall (arr : list T) (key : T) (i : Z),
      sortedb ltb arr = true -> 0 <= i <= Z.of_nat (length arr) ->
      (searchsorted ltb arr key = i
       <-> (i = 0 \/ ltb (nthT T dflt arr (i - 1)) key = true)
           /\ (i = Z.of_nat (length arr) \/ ltb (nthT T dflt arr i) key = false)).
Proof. exact searchsorted_iff. Qed.
Print Assumptions C11_searchsorted_iff.

(** ... hence index [i] is selected by exactly [w_i] of the [N] equally likely
    draws: its sampling probability is [w_i / N]. *)
Theorem C11_sampling_hits : forall ws N i,
  Forall (fun w => 0 <= w) ws -> zsum ws = N -> (i < length ws)%nat ->
  Z.of_nat (length (filter (fun u => searchsorted Z.ltb (cumsum Z.add ws) u =? Z.of_nat i)
                           (zrange_from 1 (Z.to_nat N))))
  = nth i ws 0.
Proof. exact sampling_hits. Qed.
Print Assumptions C11_sampling_hits.

(** Detection errors: a bit changes iff its draw is below the rate selected
    by its value; a rate P/N flips exactly P of N equally likely draws. *)
Theorem C11_flip_bit_iff :
  forall (T : Type) (ltb : T -> T -> bool) (rate0 rate1 : T) (bit : Z) (u : T),
    bit = 0 \/ bit = 1 ->
    (flip_bit ltb rate0 rate1 bit u <> bit
     <-> ltb u (if bit =? 1 then rate1 else rate0) = true).
Proof. exact flip_bit_iff. Qed.
Print Assumptions C11_flip_bit_iff.

Theorem C11_flip_count : forall P N bit r0 r1, 0 <= P <= N ->
  (if bit =? 1 then r1 else r0) = P -> bit = 0 \/ bit = 1 ->
  Z.of_nat (length (filter (fun u => negb (flip_bit Z.ltb r0 r1 bit u =? bit))
                           (zrange_from 0 (Z.to_nat N)))) = P.
Proof. exact flip_count. Qed.
Print Assumptions C11_flip_count.

(** Physicality of the generators, any dimension, any commutative ring with
    involution (the complex numbers in particular). *)
Theorem C11_lindblad_traceless :
  forall (R : Type) (r0 r1 : R) (radd rmul rsub : R -> R -> R) (ropp : R -> R),
    ring_theory r0 r1 radd rmul rsub ropp eq ->
    forall (conj : R -> R) (im half : R),
      radd half half = r1 ->
      forall (n : nat) (H : mat R) (Ls : list (mat R)) (rho : mat R),
        trace R r0 radd n (lindblad R r0 radd rmul ropp conj im half n H Ls rho) = r0.
Proof. exact lindblad_traceless. Qed.
Print Assumptions C11_lindblad_traceless.

Theorem C11_norm_generator :
  forall (R : Type) (r0 r1 : R) (radd rmul rsub : R -> R -> R) (ropp : R -> R),
    ring_theory r0 r1 radd rmul rsub ropp eq ->
    forall conj : R -> R,
      (forall a b : R, conj (radd a b) = radd (conj a) (conj b)) ->
      (forall a b : R, conj (rmul a b) = rmul (conj a) (conj b)) ->
      (forall a : R, conj (ropp a) = ropp (conj a)) ->
      conj r0 = r0 ->
      forall im : R,
        conj im = ropp im ->
        forall (n : nat) (H : mat R) (psi : vec R),
          hermitian R conj n H ->
          radd (inner R r0 radd rmul conj n psi (schrodinger_rhs R r0 radd rmul ropp im n H psi))
               (inner R r0 radd rmul conj n (schrodinger_rhs R r0 radd rmul ropp im n H psi) psi)
          = r0.
Proof. exact norm_generator. Qed.
Print Assumptions C11_norm_generator.

Theorem C11_lindblad_hermitian :
  forall (R : Type) (r0 r1 : R) (radd rmul rsub : R -> R -> R) (ropp : R -> R),
    ring_theory r0 r1 radd rmul rsub ropp eq ->
    forall conj : R -> R,
      (forall a b : R, conj (radd a b) = radd (conj a) (conj b)) ->
      (forall a b : R, conj (rmul a b) = rmul (conj a) (conj b)) ->
      (forall a : R, conj (ropp a) = ropp (conj a)) ->
      conj r0 = r0 ->
      (forall a : R, conj (conj a) = a) ->
      forall im half : R,
        conj im = ropp im ->
        conj half = half ->
        forall (n : nat) (H : mat R) (Ls : list (mat R)) (rho : mat R),
          hermitian R conj n H ->
          meq R n (dagger R conj (lindblad R r0 radd rmul ropp conj im half n H Ls rho))
                  (lindblad R r0 radd rmul ropp conj im half n H Ls (dagger R conj rho)).
Proof. exact lindblad_hermitian. Qed.
Print Assumptions C11_lindblad_hermitian.

(** the hypotheses above are satisfiable: the Gaussian rationals *)
Theorem C11_gauss_lindblad_traceless : forall n H Ls rho,
  trace G g0 gadd n (lindblad G g0 gadd gmul gopp gconj gim ghalf n H Ls rho) = g0.
Proof. exact gauss_lindblad_traceless. Qed.
Print Assumptions C11_gauss_lindblad_traceless.

Theorem C11_gauss_lindblad_hermitian : forall n H Ls rho, hermitian G gconj n H ->
  meq G n (dagger G gconj (lindblad G g0 gadd gmul gopp gconj gim ghalf n H Ls rho))
          (lindblad G g0 gadd gmul gopp gconj gim ghalf n H Ls (dagger G gconj rho)).
Proof. exact gauss_lindblad_hermitian. Qed.
Print Assumptions C11_gauss_lindblad_hermitian.

(** Configuration histories on one emulator: a configuration without
    state-preparation errors (no SPAM, or eta = 0) has no badly prepared atom,
    for every history of reconfigurations and runs before it. *)
Theorem C11_set_config_resets : forall n st c us, prep c = false ->
  s_bad (step n st (HSetConfig c us)) = all_good n.
Proof. exact set_config_resets. Qed.
Print Assumptions C11_set_config_resets.

Theorem C11_bad_atoms_follow_config : forall n st0 c0 us0 ops,
  let st := fold_left (step n) ops (step n st0 (HSetConfig c0 us0)) in
  prep (s_cfg st) = false -> s_bad st = all_good n.
Proof. exact bad_atoms_follow_config. Qed.
Print Assumptions C11_bad_atoms_follow_config.

Theorem C11_loaded_config_refuted :
  exists n c rus,
    let st := step n {| s_cfg := c; s_bad := all_good n |} (HRun rus) in
    prep c = true
    /\ map (fun us => draw (h_eta c) us) rus = [all_good n; all_good n]
    /\ s_bad st = repeat true n.
Proof. exact loaded_config_refuted. Qed.
Print Assumptions C11_loaded_config_refuted.
