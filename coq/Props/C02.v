(** C02 - channel timelines are gap-free, non-overlapping and clock-aligned.
    Property theorems only; every proof is [exact] of a lemma of Proofs/. *)
From Coq Require Import ZArith List Bool.
From PV Require Import Model.Base Model.Sched Model.Chan Model.Seq Model.SeqSnap.
From PV Require Gen.Pure Gen.PureLoops Gen.PureState Model.Chan Proofs.PureEq Proofs.PureLoopsEq Proofs.PureStateEq.
From PV Require Proofs.SourceTie.
From PV Require Import Proofs.SchedInv Proofs.SchedOps Proofs.SeqInv Proofs.DurationSpec Proofs.AlignWitness Proofs.SeqHistory.
Import ListNotations.
Open Scope Z_scope.

(** Every reachable state (any device configuration with positive clock
    periods and minimum durations, any register, any history of calls,
    failing calls included): every channel timeline starts with the initial
    target (-1, 0), each later instruction starts where the previous one ends,
    all boundaries are non-negative multiples of the channel's clock period,
    a pulse slot is exactly as long as its pulse, delays and non-zero retargets
    last at least the minimum duration, and no instruction ends after the
    device's maximum sequence duration. *)
Theorem C02_timelines_tiled :
  forall (v : senv) (ops : list op),
    senv_ok v -> Forall (chan_ok (env_of v)) (q_sched (run v ops)).
Proof. exact run_ok. Qed.
Print Assumptions C02_timelines_tiled.

(** Instruction times never move: one more call (successful or not) leaves
    every existing channel in place and only appends instructions to it. *)
Theorem C02_times_never_move :
  forall (v : senv) (s : seq) (o : op),
    senv_ok v -> seq_ok v s ->
    sxp v (q_sched s) (q_sched (fst (step v s o))) /\ seq_ok v (fst (step v s o)).
Proof. exact step_ok. Qed.
Print Assumptions C02_times_never_move.

Theorem C02_channel_only_grows :
  forall (v : senv) (n : Z) (s s' : sched) (c : chan),
    sxp v s s' -> find_chan n s = Some c ->
    exists c', find_chan n s' = Some c' /\ chan_ext (env_of v) c c'.
Proof. exact sxp_find. Qed.
Print Assumptions C02_channel_only_grows.

(** The same over whole histories: after ANY continuation [ops2] (failing
    calls included) of ANY history [ops1], every channel timeline of the
    earlier state is still there position by position, extended only at its
    newest end; newly declared channels come after the existing ones. *)
Theorem C02_history_times_never_move :
  forall (v : senv) (ops1 ops2 : list op),
    senv_ok v -> sxp v (q_sched (run v ops1)) (q_sched (run v (ops1 ++ ops2))).
Proof. exact history_times_never_move. Qed.
Print Assumptions C02_history_times_never_move.

(** Per channel and per instruction: the channel keeps its id, configuration
    and map; each instruction scheduled by the earlier history is still in
    the timeline as the very same record (start, end, payload), and the
    reported channel duration is never below its end. *)
Theorem C02_history_channel_kept :
  forall (v : senv) (ops1 ops2 : list op) (n : Z) (c : chan),
    senv_ok v -> find_chan n (q_sched (run v ops1)) = Some c ->
    exists c', find_chan n (q_sched (run v (ops1 ++ ops2))) = Some c' /\
      ch_id c' = ch_id c /\ ch_cfg c' = ch_cfg c /\ ch_map c' = ch_map c /\
      (exists ext, ch_slots c' = ext ++ ch_slots c) /\
      forall x, In x (ch_slots c) -> In x (ch_slots c') /\ s_tf x <= ch_duration c' false.
Proof. exact history_channel_kept. Qed.
Print Assumptions C02_history_channel_kept.

(** Channel durations never decrease along a history. *)
Theorem C02_history_duration_monotone :
  forall (v : senv) (ops1 ops2 : list op) (n : Z) (c : chan),
    senv_ok v -> find_chan n (q_sched (run v ops1)) = Some c -> ch_slots c <> [] ->
    exists c', find_chan n (q_sched (run v (ops1 ++ ops2))) = Some c' /\
      ch_duration c false <= ch_duration c' false.
Proof. exact history_duration_monotone. Qed.
Print Assumptions C02_history_duration_monotone.

(** The hypotheses of the three history theorems are met by a non-trivial
    split of a concrete history (both parts non-empty, both channels extended). *)
Theorem C02_history_example :
  senv_ok wenv /\
  (exists c, find_chan 0 (q_sched (run wenv (firstn 2 wops))) = Some c /\ ch_slots c <> []) /\
  firstn 2 wops ++ skipn 2 wops = wops /\
  map (fun c => length (ch_slots c)) (q_sched (run wenv (firstn 2 wops))) = [1%nat; 1%nat] /\
  map (fun c => length (ch_slots c)) (q_sched (run wenv (firstn 2 wops ++ skipn 2 wops))) = [2%nat; 2%nat].
Proof. exact history_example. Qed.
Print Assumptions C02_history_example.

(** The reported duration of a channel is the end of its newest instruction,
    which is the latest end of all its instructions. *)
Theorem C02_duration_is_last_end :
  forall (e : env) (c : chan) (s : slot) (r : list slot),
    chan_ok e c -> ch_slots c = s :: r ->
    ch_duration c false = s_tf s /\
    forall x, In x (ch_slots c) -> s_tf x <= ch_duration c false.
Proof. exact duration_is_max_end. Qed.
Print Assumptions C02_duration_is_last_end.

(** With the pending fall time: the end of the last instruction or the end of
    the ramp-down of the most recent pulse, whichever is later - provided no
    pulse's fall time exceeds twice the channel's rise time, which is what the
    early exit of the implementation's backwards scan assumes. *)
Theorem C02_duration_with_fall :
  forall (e : env) (c : chan),
    chan_ok e c ->
    falls_bounded (2 * c_rise (ch_cfg c)) (in_eom c) (ch_slots c) ->
    ch_duration c true =
    match last_pulse_slot false (ch_slots c) with
    | Some (sl, p) => Z.max (ch_duration c false) (s_tf sl + pfall (in_eom c) p)
    | None => ch_duration c false
    end.
Proof. exact duration_with_fall_spec. Qed.
Print Assumptions C02_duration_with_fall.

(** The sequence duration is the maximum over its channels. *)
Theorem C02_sequence_duration_is_max :
  forall (s : sched) (fall : bool) (m : Z),
    sched_duration s None fall = Ok m ->
    (forall c, In c s -> ch_duration c fall <= m) /\
    (m = 0 \/ exists c, In c s /\ m = ch_duration c fall).
Proof. exact sequence_duration_is_max. Qed.
Print Assumptions C02_sequence_duration_is_max.

(** Durations accepted by a channel: rounded up to the next clock multiple,
    unchanged when already one. *)
Theorem C02_validate_duration :
  forall (g : ccfg) (d d' : Z),
    cfg_ok g -> validate_duration g d = Ok d' ->
    c_min g <= d /\ d <= d' /\ d' < d + c_clock g /\ (c_clock g | d') /\
    ((c_clock g | d) -> d' = d) /\
    match c_max g with Some m => d <= m | None => True end.
Proof. exact validate_duration_spec. Qed.
Print Assumptions C02_validate_duration.

(** The hypotheses are satisfiable and the reachable state is not trivial. *)
Theorem C02_reachable_state_example :
  senv_ok wenv /\ ends (run wenv wops) = [10; 16] /\
  map (fun c => length (ch_slots c)) (q_sched (run wenv wops)) = [2%nat; 2%nat].
Proof. exact reachable_state_example. Qed.
Print Assumptions C02_reachable_state_example.

(** Tie to the source by translation: the duration rules all the theorems
    above are stated over are EQUAL to the functions regenerated from the
    current source (Channel.validate_duration, _ChannelSchedule.adjust_duration,
    _Schedule._check_duration) by translate/tr_pure.py. *)
Theorem C02_source_validate_duration :
  forall (c : ccfg) (d : Z),
    Gen.Pure.gen_validate_duration (c_min c) (c_max c) (c_clock c) d = validate_duration c d.
Proof. exact PureEq.validate_duration_eq. Qed.
Print Assumptions C02_source_validate_duration.

Theorem C02_source_adjust_duration :
  forall (c : ccfg) (d : Z),
    Gen.Pure.gen_adjust_duration (c_min c) (c_max c) (c_clock c) d = adjust_duration c d.
Proof. exact PureEq.adjust_duration_eq. Qed.
Print Assumptions C02_source_adjust_duration.

Theorem C02_source_check_duration :
  forall (e : env) (t : Z) (block : bool),
    Gen.Pure.gen_check_duration (en_max e) t block = check_duration e t block.
Proof. exact PureEq.check_duration_eq. Qed.
Print Assumptions C02_source_check_duration.

(** ... and the duration query itself: the backwards scan regenerated from the
    source of _ChannelSchedule.get_duration (a `for` loop with `break`,
    translated to a structural Fixpoint) computes [ch_duration], for every
    channel state. *)
Theorem C02_source_get_duration :
  forall (c : chan) (fall : bool),
    Gen.PureLoops.gen_get_duration (ch_slots c) (c_rise (ch_cfg c)) (in_eom c) fall = ch_duration c fall.
Proof. exact PureLoopsEq.get_duration_eq. Qed.
Print Assumptions C02_source_get_duration.

(** ... and the state-changing core: as functions on the schedule state, the
    model's [add_delay] and [add_pulse] ARE the monadic functions regenerated
    from the current source of _Schedule.add_delay / _Schedule.add_pulse. *)
Theorem C02_source_add_delay :
  forall (e : env) (d n : Z) (s : sched),
    Gen.PureState.gen_add_delay e d n s = add_delay e d n s.
Proof. exact PureStateEq.add_delay_eq. Qed.
Print Assumptions C02_source_add_delay.

Theorem C02_source_add_pulse :
  forall (e : env) (p : pulse) (n : Z) (barriers : list Z) (proto : Z) (dp : option drift) (s : sched),
    Gen.PureState.gen_add_pulse e p n barriers proto dp s = add_pulse e p n barriers proto dp s.
Proof. exact PureStateEq.add_pulse_eq. Qed.
Print Assumptions C02_source_add_pulse.

(** The whole translation tie of the scheduler (see Proofs/SourceTie.v): every
    scheduler function of the model this property's theorems rest on is equal to
    the function regenerated from the current source. *)
Theorem C02_source_scheduler : SourceTie.scheduler_tied.
Proof. exact SourceTie.scheduler_source_tie. Qed.
Print Assumptions C02_source_scheduler.
