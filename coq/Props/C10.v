(** C10 - phase-jump time and retarget intervals are honoured.
    Property theorems only. *)
From Coq Require Import ZArith List Bool.
From PV Require Import Model.Base Model.Sched Model.Seq.
From PV Require Gen.Pure Gen.PureLoops Gen.PureSlot Gen.PureState Model.Chan Proofs.PureEq Proofs.PureLoopsEq Proofs.PureSlotEq Proofs.PureStateEq.
From PV Require Proofs.SourceTie.
From PV Require Import Proofs.SchedInv Proofs.ConflictSpec Proofs.RetargetSpec Proofs.RetargetWitness.
Import ListNotations.
Open Scope Z_scope.

(** Two consecutive pulses of different phase on a channel (detuned-delay
    pulses ignored), unless the second is added with 'no-delay', are separated
    by at least the phase-jump time (at least twice the rise time in EOM mode)
    plus the first pulse's fall time - in every tiled state, i.e. every
    reachable one. *)
Theorem C10_phase_jump_gap :
  forall e p n bs proto dp block s s' sl c lst rest lps lp,
    Forall (chan_ok e) s ->
    make_next_pulse_slot e p n bs proto dp block s = (s', Ok sl) ->
    proto <> 1 ->
    find_chan n s = Some c -> ch_slots c = lst :: rest ->
    last_pulse_slot true (ch_slots c) = Some (lps, lp) ->
    f_ne (p_phase lp)
         (corrected_phase p dp
            (find_add_delay n (s_tg lst) (proto =? 2) (fold_max bs (s_tf lst)) s)) = true ->
    Z.max (c_pj (ch_cfg c)) (2 * c_rise (ch_cfg c) * (if in_eom c then 1 else 0))
      + pfall (in_eom c) lp <= s_ti sl - s_tf lps.
Proof. exact phase_jump_gap. Qed.
Print Assumptions C10_phase_jump_gap.

(** A retarget to different atoms appends one target instruction that begins
    only after the previous pulse has fully ramped down, ends at least the
    minimum retarget interval after the end of the previous target
    instruction, and lasts at least the fixed retarget time. *)
Theorem C10_retarget :
  forall e qs n s s' c l0 r0,
    Forall (chan_ok e) s -> find_chan n s = Some c -> ch_slots c = l0 :: r0 ->
    0 <= c_minret (ch_cfg c) ->
    list_Z_eqb (s_tg l0) qs = false ->
    add_target e qs n s = (s', Ok tt) ->
    exists c' t rest',
      find_chan n s' = Some c' /\ ch_slots c' = t :: rest' /\
      s_kind t = KTarget /\ s_tg t = qs /\
      ch_duration c true <= s_ti t /\
      (c_minret (ch_cfg c) <= s_tf t - last_target (ch_slots c) \/ last_target (ch_slots c) = 0
         /\ c_minret (ch_cfg c) <= s_tf t) /\
      (c_fixret (ch_cfg c) <> 0 -> c_fixret (ch_cfg c) <= s_tf t - s_ti t).
Proof. exact retarget_spec. Qed.
Print Assumptions C10_retarget.

(** wait_for_fall leaves the channel at rest: its end is at least the end of
    the ramp-down of its last pulse. *)
Theorem C10_wait_for_fall :
  forall e n s s' c,
    Forall (chan_ok e) s -> find_chan n s = Some c ->
    wait_for_fall e n s = (s', Ok tt) ->
    exists c', find_chan n s' = Some c' /\ ch_cfg c' = ch_cfg c /\
               ch_duration c true <= ch_duration c' false /\
               last_target (ch_slots c') = last_target (ch_slots c) /\
               (ch_duration c true <= ch_duration c false -> s' = s) /\
               (forall l r, ch_slots c = l :: r ->
                  exists l' r', ch_slots c' = l' :: r' /\ s_tg l' = s_tg l).
Proof. exact wait_for_fall_spec. Qed.
Print Assumptions C10_wait_for_fall.

(** Retargeting to the same atoms inserts nothing when the channel is at rest ... *)
Theorem C10_retarget_same_partial :
  forall e qs n s s' r c l0 r0,
    Forall (chan_ok e) s -> find_chan n s = Some c -> ch_slots c = l0 :: r0 ->
    list_Z_eqb (s_tg l0) qs = true ->
    ch_duration c true <= ch_duration c false ->
    add_target e qs n s = (s', r) -> s' = s /\ r = Ok tt.
Proof. exact retarget_same_partial. Qed.
Print Assumptions C10_retarget_same_partial.

(** ... but the unconditional clause is FALSE of the faithful model (a fall-time
    delay is inserted before the targets are compared): known finding. *)
Theorem C10_retarget_same_inserts_nothing_refuted :
  exists v pre qs ch,
    let s := run v pre in
    (exists c l r, find_chan ch (q_sched s) = Some c /\ ch_slots c = l :: r /\ s_tg l = qs) /\
    snd (step v s (OTarget qs ch)) = Ok unit_sv /\
    nslots (fst (step v s (OTarget qs ch))) <> nslots s.
Proof. exact retarget_same_inserts_nothing_refuted. Qed.
Print Assumptions C10_retarget_same_inserts_nothing_refuted.

(** Tie to the source by translation: the rise time and phase-jump time the
    theorems above are stated over are EQUAL to the functions regenerated from
    the current source (Channel.rise_time, Channel.phase_jump_time). *)
Theorem C10_source_phase_jump_time :
  forall (r : Chan.craw),
    c_rise (Chan.mk_ccfg r) = Gen.Pure.gen_rise_time (Chan.r_bw r) /\
    c_pj (Chan.mk_ccfg r) =
      Gen.Pure.gen_phase_jump_time (Gen.Pure.gen_rise_time (Chan.r_bw r)) (Chan.r_cpj r).
Proof. exact PureEq.mk_ccfg_times. Qed.
Print Assumptions C10_source_phase_jump_time.

(** ... and the two searches the retarget and phase-jump rules start from: the
    loops regenerated from _ChannelSchedule.last_target and
    _ChannelSchedule.last_pulse_slot compute the model's functions for every
    list of slots. *)
Theorem C10_source_last_target :
  forall slots : list slot, Gen.PureLoops.gen_last_target slots = last_target slots.
Proof. exact PureLoopsEq.last_target_eq. Qed.
Print Assumptions C10_source_last_target.

Theorem C10_source_last_pulse_slot :
  forall (slots : list slot) (ignore_detuned_delay : bool),
    Gen.PureLoops.gen_last_pulse_slot slots ignore_detuned_delay =
    match last_pulse_slot ignore_detuned_delay slots with
    | Some (s, _) => Ok s
    | None => Err ERuntime
    end.
Proof. exact PureLoopsEq.last_pulse_slot_eq. Qed.
Print Assumptions C10_source_last_pulse_slot.

(** Tie to the source by translation: where a pulse is scheduled.  In every state
    in which the channel exists and has a last slot, the model's
    [make_next_pulse_slot] returns exactly the slot (start, end, phase of the
    scheduled pulse) or the error computed by the function REGENERATED from the
    current source of _Schedule.make_next_pulse_slot (barriers, conflict scan,
    phase-jump buffer, rounding of the inserted wait, duration check, drift-corrected
    phase). *)
Theorem C10_source_make_next_pulse_slot :
  forall (e : env) (p : pulse) (n : Z) (barriers : list Z) (proto : Z)
         (dp : option drift) (block : bool) (s : sched) (last : slot) (c : chan),
    last_slot n s = (s, Ok last) ->
    the_chan n s = (s, Ok c) ->
    make_next_pulse_slot e p n barriers proto dp block s =
    (s, PureSlotEq.slot_of e n p dp last
          (Gen.PureSlot.gen_make_next_pulse_slot s c last n barriers
             (negb (negb (proto =? 1))) (proto =? 2) dp (p_phase p) (p_dur p) (en_max e) block)).
Proof. exact PureSlotEq.make_next_pulse_slot_eq. Qed.
Print Assumptions C10_source_make_next_pulse_slot.

(** ... and the retarget itself: the model's [add_target] and [wait_for_fall] ARE
    the monadic functions regenerated from the current source of
    _Schedule.add_target / _Schedule.wait_for_fall, on every state. *)
Theorem C10_source_add_target :
  forall (e : env) (qs : list Z) (n : Z) (s : sched),
    Gen.PureState.gen_add_target e qs n s = add_target e qs n s.
Proof. exact PureStateEq.add_target_eq. Qed.
Print Assumptions C10_source_add_target.

Theorem C10_source_wait_for_fall :
  forall (e : env) (n : Z) (s : sched),
    Gen.PureState.gen_wait_for_fall e n s = wait_for_fall e n s.
Proof. exact PureStateEq.wait_for_fall_eq. Qed.
Print Assumptions C10_source_wait_for_fall.

(** The whole translation tie of the scheduler (see Proofs/SourceTie.v): every
    scheduler function of the model this property's theorems rest on is equal to
    the function regenerated from the current source. *)
Theorem C10_source_scheduler : SourceTie.scheduler_tied.
Proof. exact SourceTie.scheduler_source_tie. Qed.
Print Assumptions C10_source_scheduler.
