(** C19 - Layouts number traps canonically; registers, maps and layouts agree.

    Property theorems.  The positive theorems hold for every scalar
    coordinate type satisfying [scalar_ok] (strict total order, [==] decides
    equality, idempotent rounding) - in particular for exact coordinates on
    any decimal sub-grid of 1e-6 um ([C19_exact_grid_satisfies_hypotheses]) -
    for every dimension, every number of traps, every permutation, every
    trap-id selection, every qubit-id assignment and every weight vector.
    The [_refuted] theorems are evaluated on the IEEE-double instance of the
    same model, the one the correspondence check ties to the implementation,
    and exhibit inputs on which the hypotheses fail and the property is false
    of the implementation. *)
From Coq Require Import ZArith List Bool Permutation Sorted PrimFloat.
From PV Require Import Model.Base Model.TrapMap Proofs.TrapMapSort Proofs.TrapMapProps.
Import ListNotations.
Open Scope Z_scope.

(** trap ids = positions in the ascending (x, then y, then z) arrangement of
    the rounded coordinates; strictly ascending when no two coincide *)
Theorem C19_trap_ids_canonical :
  forall (N : Type) (nlt neq : N -> N -> bool) (nrnd : N -> N),
  scalar_ok N nlt neq nrnd ->
  forall (l : list (coord N)) (L : layout N),
  traps_new N nlt neq nrnd l = Ok L ->
  Permutation (lsorted L) (map (crnd N nrnd) l) /\
  StronglySorted (lec N nlt) (lsorted L) /\
  (NoDup (map (crnd N nrnd) l) ->
   StronglySorted (fun a b : coord N => clt N nlt a b = true) (lsorted L)) /\
  n_traps N L = zlen l.
Proof. exact trap_ids_canonical. Qed.
Print Assumptions C19_trap_ids_canonical.

(** acceptance, trap ids and coordinates do not depend on the input order *)
Theorem C19_trap_ids_order_independent :
  forall (N : Type) (nlt neq : N -> N -> bool) (nrnd : N -> N),
  scalar_ok N nlt neq nrnd ->
  forall l l' : list (coord N),
  Permutation l l' ->
  traps_new N nlt neq nrnd l = traps_new N nlt neq nrnd l'.
Proof. exact traps_new_perm_invariant. Qed.
Print Assumptions C19_trap_ids_order_independent.

(** hence equality and the static hash (a function of the hash input) are
    order-independent *)
Theorem C19_equality_and_hash_order_independent :
  forall (N : Type) (nlt neq : N -> N -> bool) (nrnd : N -> N),
  scalar_ok N nlt neq nrnd ->
  forall (l l' : list (coord N)) (L L' : layout N),
  Permutation l l' ->
  traps_new N nlt neq nrnd l = Ok L ->
  traps_new N nlt neq nrnd l' = Ok L' ->
  L = L' /\ layout_hash_input N L = layout_hash_input N L'.
Proof. exact layout_hash_perm_invariant. Qed.
Print Assumptions C19_equality_and_hash_order_independent.

(** define_register accepts exactly the non-empty duplicate-free in-range
    selections (with no or matching unique qubit ids) *)
Theorem C19_define_register_accepts_iff :
  forall (N : Type) (nlt neq : N -> N -> bool) (nrnd : N -> N),
  scalar_ok N nlt neq nrnd ->
  forall (l : list (coord N)) (L : layout N) (ids qids : list Z),
  traps_new N nlt neq nrnd l = Ok L ->
  ((exists R : register N, define_register N neq L ids qids = Ok R) <->
   (NoDup ids /\ Forall (fun i : Z => 0 <= i < n_traps N L) ids /\ ids <> [] /\
    (qids = [] \/ NoDup qids /\ length qids = length ids))).
Proof.
  exact (fun N nlt neq nrnd => define_register_accepts_iff N nlt neq nrnd unit tt (fun _ _ => tt) (fun _ => true)).
Qed.
Print Assumptions C19_define_register_accepts_iff.

(** every qubit, in the given order and under the given (or default) id,
    sits exactly on the trap selected for it *)
Theorem C19_define_register_places_qubits_on_traps :
  forall (N : Type) (neq : N -> N -> bool) (L : layout N)
         (ids qids : list Z) (R : register N),
  define_register N neq L ids qids = Ok R ->
  rtraps R = ids /\
  map fst (rqubits R) = names_of ids qids /\
  map (znth (lsorted L)) ids = map Some (map snd (rqubits R)).
Proof. exact define_register_places. Qed.
Print Assumptions C19_define_register_places_qubits_on_traps.

(** looking the register's coordinates up returns the trap ids, provided no
    two traps coincide after rounding *)
Theorem C19_lookup_inverts_define_register :
  forall (N : Type) (nlt neq : N -> N -> bool) (nrnd : N -> N),
  scalar_ok N nlt neq nrnd ->
  forall (l : list (coord N)) (L : layout N) (ids qids : list Z) (R : register N),
  traps_new N nlt neq nrnd l = Ok L ->
  NoDup (map (crnd N nrnd) l) ->
  define_register N neq L ids qids = Ok R ->
  lookup N neq nrnd L (map snd (rqubits R)) = Ok ids.
Proof.
  exact (fun N nlt neq nrnd => lookup_define_inverse N nlt neq nrnd unit tt (fun _ _ => tt) (fun _ => true)).
Qed.
Print Assumptions C19_lookup_inverts_define_register.

(** a register constructed with [layout=] and [trap_ids=] is accepted only if
    the ids are distinct, as many as the qubits, and every qubit is exactly on
    the trap named for it (numpy indexing: a negative id counts from the end) *)
Theorem C19_register_with_layout_is_on_its_traps :
  forall (N : Type) (nlt neq : N -> N -> bool) (nrnd : N -> N),
  scalar_ok N nlt neq nrnd ->
  forall (L : layout N) (qubits : list (Z * coord N)) (ids : list Z) (R : register N),
  register_on_layout N neq L qubits ids = Ok R ->
  rqubits R = qubits /\ rtraps R = ids /\ NoDup ids /\ length ids = length qubits /\
  Forall (fun p : coord N * Z => pyindex (lsorted L) (snd p) = Some (fst p))
         (combine (map snd qubits) ids).
Proof.
  exact (fun N nlt neq nrnd => register_on_layout_spec N nlt neq nrnd).
Qed.
Print Assumptions C19_register_with_layout_is_on_its_traps.

(** a mappable register places the chosen qubits on the mapped traps, in
    declared order *)
Theorem C19_mappable_register_order :
  forall (N : Type) (neq : N -> N -> bool) (L : layout N)
         (decl : list Z) (chosen : list (Z * Z)) (R : register N),
  NoDup decl ->
  build_register N neq L decl chosen = Ok R ->
  map fst (rqubits R) = firstn (length chosen) decl /\
  Forall (fun qc : Z * coord N =>
            exists t : Z, zassoc (fst qc) chosen = Some t /\
                          znth (lsorted L) t = Some (snd qc)) (rqubits R).
Proof. exact build_register_spec. Qed.
Print Assumptions C19_mappable_register_order.

(** a weight map does not depend on the order in which its (trap, weight)
    pairs were given, provided no two traps coincide after rounding *)
Theorem C19_weight_map_order_independent :
  forall (N : Type) (nlt neq : N -> N -> bool) (nrnd : N -> N) (W : Type) (wok : W -> bool),
  scalar_ok N nlt neq nrnd ->
  forall (cs : list (coord N)) (ws : list W) (cs' : list (coord N)) (ws' : list W),
  length cs = length ws ->
  length cs' = length ws' ->
  Permutation (combine cs ws) (combine cs' ws') ->
  NoDup (map (crnd N nrnd) cs) ->
  wmap_new N nlt neq nrnd W wok cs ws = wmap_new N nlt neq nrnd W wok cs' ws'.
Proof. exact wmap_new_perm_invariant. Qed.
Print Assumptions C19_weight_map_order_independent.

(** the weights summed for a qubit are exactly those given to the traps that
    are close to its position, whatever the order *)
Theorem C19_qubit_weight_is_sum_over_matching_traps :
  forall (N : Type) (nlt neq : N -> N -> bool) (nrnd : N -> N) (nclose : N -> N -> bool)
         (W : Type) (w0 : W) (wadd : W -> W -> W) (wok : W -> bool)
         (cs : list (coord N)) (ws : list W) (m : wmap N W) (pos : coord N),
  wmap_new N nlt neq nrnd W wok cs ws = Ok m ->
  Permutation
    (filter (fun tw : list N * W => cclose N nclose (fst tw) pos) (wsorted m))
    (filter (fun tw : list N * W => cclose N nclose (fst tw) pos)
            (combine (map (crnd N nrnd) cs) ws)) /\
  qubit_weight N nclose W w0 wadd m pos =
  wsum W w0 wadd
    (map snd (filter (fun tw : list N * W => cclose N nclose (fst tw) pos) (wsorted m))).
Proof. exact qubit_weight_matches. Qed.
Print Assumptions C19_qubit_weight_is_sum_over_matching_traps.

Theorem C19_qubit_weight_zero_if_no_trap :
  forall (N : Type) (nlt neq : N -> N -> bool) (nrnd : N -> N) (nclose : N -> N -> bool)
         (W : Type) (w0 : W) (wadd : W -> W -> W) (wok : W -> bool)
         (cs : list (coord N)) (ws : list W) (m : wmap N W) (pos : coord N),
  wmap_new N nlt neq nrnd W wok cs ws = Ok m ->
  filter (fun tw : list N * W => cclose N nclose (fst tw) pos)
         (combine (map (crnd N nrnd) cs) ws) = [] ->
  qubit_weight N nclose W w0 wadd m pos = w0.
Proof. exact qubit_weight_none. Qed.
Print Assumptions C19_qubit_weight_zero_if_no_trap.

Theorem C19_qubit_weight_of_the_trap :
  forall (N : Type) (nlt neq : N -> N -> bool) (nrnd : N -> N) (nclose : N -> N -> bool)
         (W : Type) (w0 : W) (wadd : W -> W -> W) (wok : W -> bool)
         (cs : list (coord N)) (ws : list W) (m : wmap N W) (pos : coord N)
         (c : list N) (w : W),
  wmap_new N nlt neq nrnd W wok cs ws = Ok m ->
  filter (fun tw : list N * W => cclose N nclose (fst tw) pos)
         (combine (map (crnd N nrnd) cs) ws) = [(c, w)] ->
  qubit_weight N nclose W w0 wadd m pos = wadd w0 w.
Proof. exact qubit_weight_single. Qed.
Print Assumptions C19_qubit_weight_of_the_trap.

(** registers, maps and layouts agree: a qubit sitting on trap [i] (where
    [define_register] puts it, by C19_define_register_places_qubits_on_traps)
    gets from [layout.define_detuning_map] the weight given to trap [i], and
    nothing if none was given - provided no two traps coincide after rounding
    and distinct traps are further apart than the matching tolerance *)
Theorem C19_layout_map_register_agree :
  forall (N : Type) (nlt neq : N -> N -> bool) (nrnd : N -> N) (nclose : N -> N -> bool)
         (W : Type) (w0 : W) (wadd : W -> W -> W) (wok : W -> bool),
  scalar_ok N nlt neq nrnd ->
  forall (l : list (coord N)) (L : layout N) (kws : list (Z * W)) (m : wmap N W) (i : Z) (c : coord N),
  traps_new N nlt neq nrnd l = Ok L ->
  NoDup (map (crnd N nrnd) l) ->
  (forall a b : coord N,
     In a (lsorted L) -> In b (lsorted L) -> cclose N nclose a b = true -> a = b) ->
  (forall a : coord N, In a (lsorted L) -> cclose N nclose a a = true) ->
  layout_detuning_map N nlt neq nrnd W wok L kws = Ok m ->
  NoDup (map fst kws) ->
  znth (lsorted L) i = Some c ->
  qubit_weight N nclose W w0 wadd m c =
  wsum W w0 wadd (match zassoc i kws with Some w => [w] | None => [] end).
Proof. exact layout_map_register_agree. Qed.
Print Assumptions C19_layout_map_register_agree.

(** the hypotheses are satisfiable: exact coordinates on any decimal
    sub-grid, rounded half-to-even to the nearest micro-unit *)
Theorem C19_exact_grid_satisfies_hypotheses :
  forall sub : Z, 0 < sub -> scalar_ok Z Z.ltb Z.eqb (zgrid_rnd sub).
Proof. exact zgrid_scalar_ok. Qed.
Print Assumptions C19_exact_grid_satisfies_hypotheses.

Theorem C19_exact_grid_rounds_to_nearest :
  forall sub z : Z, 0 < sub -> 2 * Z.abs (zgrid_rnd sub z - z) <= sub.
Proof. exact zgrid_rnd_nearest. Qed.
Print Assumptions C19_exact_grid_rounds_to_nearest.

(** ** Refuted on the IEEE instance (the implementation's behaviour) *)

Theorem C19_lookup_inverse_without_rounded_nodup_refuted :
  exists (l : list (list float)) (ids got : list Z),
    chas_dup float f_eq l = false /\ F_roundtrip l ids = Some got /\ got <> ids.
Proof. exact lookup_inverse_without_rounded_nodup_refuted. Qed.
Print Assumptions C19_lookup_inverse_without_rounded_nodup_refuted.

Theorem C19_weight_map_equality_order_dependent_refuted :
  exists (cs : list (list float)) (ws : list float) (cs' : list (list float)) (ws' : list float),
    Permutation (combine cs ws) (combine cs' ws') /\
    F_wmaps_equal cs ws cs' ws' = Some false.
Proof. exact wmap_eq_order_dependent_on_rounded_duplicates_refuted. Qed.
Print Assumptions C19_weight_map_equality_order_dependent_refuted.

Theorem C19_equal_rounded_coordinates_unequal_layouts_refuted :
  exists l l' : list (list float),
    F_same_coordinates l l' = true /\ F_layouts_equal l l' = Some false.
Proof. exact equal_rounded_coordinates_unequal_layouts_refuted. Qed.
Print Assumptions C19_equal_rounded_coordinates_unequal_layouts_refuted.

Theorem C19_qubit_weight_relative_tolerance_refuted :
  exists (cs : list (list float)) (ws : list float) (pos : list float),
    nth_error cs 0 = Some pos /\ nth_error ws 0 = Some 0x1p-1%float /\
    F_weight_at cs ws pos = Some 0x1.3333333333333p+0%float.
Proof. exact qubit_weight_relative_tolerance_refuted. Qed.
Print Assumptions C19_qubit_weight_relative_tolerance_refuted.
