(** C20 - property theorems.  Observables and results are correct functions of
    the emulated state.  Each statement is closed; see notes/C20.md. *)
From Coq Require Import ZArith List Bool Arith Ring_theory.
From Coq Require Import Uint63 FloatOps SpecFloat PrimFloat.
From PV Require Import Model.Base Model.ObsLin Model.ObsRes Model.ObsTime Model.ObsExec.
From PV Require Import Proofs.ObsLinP Proofs.ObsTensorP Proofs.ObsResP Proofs.ObsTimeP Proofs.ObsExecP.
Import ListNotations.

(** Energy and Expectation: the code's expect equals Tr(rho A), kets and density matrices, any dimension *)
Theorem C20_expect_is_trace_rho :
  forall (R : Type) (r0 r1 : R) (radd rmul rsub : R -> R -> R) (ropp rconj : R -> R), ring_theory r0 r1 radd rmul rsub ropp eq -> forall (D : nat) (A : mat R) (s : state R), expect R r0 radd rmul rconj D A s = def_expect R r0 radd rmul D A (rho_of R rmul rconj s).
Proof. exact expect_correct. Qed.
Print Assumptions C20_expect_is_trace_rho.

(** Occupation: <n_i> as coded (number operator from its representation, expect) equals the marginal probability of the one-state on qudit i; any number of qudits, any qudit dimension, kets and density matrices *)
Theorem C20_occupation :
  forall (R : Type) (r0 r1 : R) (radd rmul rsub : R -> R -> R) (ropp rconj : R -> R), ring_theory r0 r1 radd rmul rsub ropp eq -> forall (d n one : nat) (s : state R) (i : nat), (0 < d)%nat -> (i < n)%nat -> obs_occupation R r0 r1 radd rmul rconj d n one s i = def_occupation R r0 radd d n one (rho_of R rmul rconj s) i.
Proof. exact occupation_correct. Qed.
Print Assumptions C20_occupation.

(** CorrelationMatrix: <n_i n_j> likewise, including i = j *)
Theorem C20_correlation :
  forall (R : Type) (r0 r1 : R) (radd rmul rsub : R -> R -> R) (ropp rconj : R -> R), ring_theory r0 r1 radd rmul rsub ropp eq -> forall (d n one : nat) (s : state R) (i j : nat), (0 < d)%nat -> (i < n)%nat -> (j < n)%nat -> obs_correlation R r0 r1 radd rmul rconj d n one s i j = def_correlation R r0 radd d n one (rho_of R rmul rconj s) i j.
Proof. exact correlation_correct. Qed.
Print Assumptions C20_correlation.

(** the diagonal of the correlation matrix is the occupation *)
Theorem C20_correlation_diag :
  forall (R : Type) (r0 r1 : R) (radd rmul : R -> R -> R) (rconj : R -> R) (d n one : nat) (s : state R) (i : nat), obs_correlation R r0 r1 radd rmul rconj d n one s i i = obs_occupation R r0 r1 radd rmul rconj d n one s i.
Proof. exact correlation_diag. Qed.
Print Assumptions C20_correlation_diag.

(** Fidelity with a pure target (given as a ket or as its projector) equals <psi|rho|psi>, for kets and density matrices *)
Theorem C20_fidelity :
  forall (R : Type) (r0 r1 : R) (radd rmul rsub : R -> R -> R) (ropp rconj : R -> R), ring_theory r0 r1 radd rmul rsub ropp eq -> (forall a b : R, rconj (radd a b) = radd (rconj a) (rconj b)) -> (forall a b : R, rconj (rmul a b) = rmul (rconj a) (rconj b)) -> (forall a : R, rconj (rconj a) = a) -> forall (D : nat) (psi : vec R) (s : state R), obs_fidelity R r0 radd rmul rconj D (Ket R psi) s = def_fidelity R r0 radd rmul rconj D psi (rho_of R rmul rconj s) /\ obs_fidelity R r0 radd rmul rconj D (Dm R (outer R rmul rconj psi)) s = def_fidelity R r0 radd rmul rconj D psi (rho_of R rmul rconj s).
Proof. exact fidelity_correct. Qed.
Print Assumptions C20_fidelity.

(** EnergySecondMoment (identity.expect(H.apply_to(state))) equals Tr(rho H^2) for kets AND density matrices, any number of qudits and qudit dimension, Hermitian H (after repair 2eafc757; before it the statement was refuted on density matrices) *)
Theorem C20_second_moment :
  forall (R : Type) (r0 r1 : R) (radd rmul rsub : R -> R -> R) (ropp rconj : R -> R), ring_theory r0 r1 radd rmul rsub ropp eq -> (forall a b : R, rconj (radd a b) = radd (rconj a) (rconj b)) -> (forall a b : R, rconj (rmul a b) = rmul (rconj a) (rconj b)) -> forall (d n : nat) (H : mat R) (s : state R), (0 < d)%nat -> hermitian R rconj (d ^ n) H -> obs_m2 R r0 r1 radd rmul rconj d n H s = def_m2 R r0 radd rmul (d ^ n) H (rho_of R rmul rconj s).
Proof. exact second_moment_correct. Qed.
Print Assumptions C20_second_moment.

(** EnergyVariance (second moment - energy^2) equals Tr(rho H^2) - Tr(rho H)^2 for kets and density matrices *)
Theorem C20_variance :
  forall (R : Type) (r0 r1 : R) (radd rmul rsub : R -> R -> R) (ropp rconj : R -> R), ring_theory r0 r1 radd rmul rsub ropp eq -> (forall a b : R, rconj (radd a b) = radd (rconj a) (rconj b)) -> (forall a b : R, rconj (rmul a b) = rmul (rconj a) (rconj b)) -> forall (d n : nat) (H : mat R) (s : state R), (0 < d)%nat -> hermitian R rconj (d ^ n) H -> obs_variance R r0 r1 radd rmul rconj rsub d n H s = def_variance R r0 radd rmul rsub (d ^ n) H (rho_of R rmul rconj s).
Proof. exact variance_correct. Qed.
Print Assumptions C20_variance.

(** for Hermitian rho and A, Tr(rho A) is self-conjugate: the real part taken by the code is the whole value *)
Theorem C20_energy_real :
  forall (R : Type) (r0 r1 : R) (radd rmul rsub : R -> R -> R) (ropp rconj : R -> R), ring_theory r0 r1 radd rmul rsub ropp eq -> (forall a b : R, rconj (radd a b) = radd (rconj a) (rconj b)) -> (forall a b : R, rconj (rmul a b) = rmul (rconj a) (rconj b)) -> forall (D : nat) (A rho : mat R), hermitian R rconj D A -> hermitian R rconj D rho -> rconj (def_expect R r0 radd rmul D A rho) = def_expect R r0 radd rmul D A rho.
Proof. exact def_expect_real. Qed.
Print Assumptions C20_energy_real.

(** executed model: the second moment of a pure state is a non-negative real *)
Theorem C20_second_moment_pure_nonneg :
  forall (D : nat) (H : mat C) (v : vec C), hermitian C cconj D H -> let m := x_def_m2 D H (x_rho (Ket C v)) in snd m = 0 /\ 0 <= fst m.
Proof. exact x_second_moment_pure_nonneg. Qed.
Print Assumptions C20_second_moment_pure_nonneg.

(** the former counterexample rho = I/2, H = diag(1,2) (code gave 2.0616): the model of the repaired code gives 5/2 = Tr(rho H^2) *)
Theorem C20_second_moment_mixed_witness :
  hermitian C cconj 2 w_H /\ hermitian C cconj 2 w_rho /\ x_m2 2 1 w_H (Dm C w_rho) = (5, 0) /\ x_def_m2 2 w_H w_rho = (5, 0).
Proof. exact second_moment_mixed_witness. Qed.
Print Assumptions C20_second_moment_mixed_witness.

(** same witness: second moment 5/2, energy 3/2, i.e. variance 1/4 as defined (code gave 0.8116) *)
Theorem C20_variance_mixed_witness :
  x_m2 2 1 w_H (Dm C w_rho) = (5, 0) /\ x_expect 2 w_H (Dm C w_rho) = (3, 0) /\ x_def_m2 2 w_H w_rho = (5, 0) /\ x_def_expect 2 w_H w_rho = (3, 0).
Proof. exact variance_mixed_witness. Qed.
Print Assumptions C20_variance_mixed_witness.

(** from_operator_repr(operations=[(1.0, [])]) is the identity *)
Theorem C20_identity_entry :
  forall (R : Type) (r0 r1 : R) (radd rmul rsub : R -> R -> R) (ropp : R -> R), ring_theory r0 r1 radd rmul rsub ropp eq -> forall d n a k : nat, (0 < d)%nat -> (a < d ^ n)%nat -> (k < d ^ n)%nat -> ident_op R r0 r1 radd rmul d n a k = delta R r0 r1 a k.
Proof. exact ident_entry. Qed.
Print Assumptions C20_identity_entry.

(** qutip.tensor of single-qudit matrices: entry (i,j) is the product over the qudits of the factor entries at the base-d digits of i and j *)
Theorem C20_tensor_entry :
  forall (R : Type) (r1 : R) (rmul : R -> R -> R) (d : nat) (fs : list (mat R)) (i j : nat), kronl R r1 rmul d fs i j = prod_factors R r1 rmul fs (digs d (length fs) i) (digs d (length fs) j).
Proof. exact kronl_digs. Qed.
Print Assumptions C20_tensor_entry.

(** from_operator_repr is the weighted sum of those tensor products (the documented construction) *)
Theorem C20_from_repr_entry :
  forall (R : Type) (r0 r1 : R) (radd rmul rsub : R -> R -> R) (ropp : R -> R), ring_theory r0 r1 radd rmul rsub ropp eq -> forall (d n : nat) (ops : fullop R) (i j : nat), from_repr R r0 r1 radd rmul d n ops i j = term_sum R r0 r1 radd rmul d n ops i j.
Proof. exact from_repr_entry. Qed.
Print Assumptions C20_from_repr_entry.

(** the number operator on a set of qudits is the diagonal projector on 'all of them in the one-state' *)
Theorem C20_numop_entry :
  forall (R : Type) (r0 r1 : R) (radd rmul rsub : R -> R -> R) (ropp : R -> R), ring_theory r0 r1 radd rmul rsub ropp eq -> forall (d n one : nat) (S : list nat) (a k : nat), (0 < d)%nat -> (a < d ^ n)%nat -> (k < d ^ n)%nat -> numop R r0 r1 radd rmul d n one S a k = (if (a =? k)%nat && sel S one (digs d n a) then r1 else r0).
Proof. exact numop_entry. Qed.
Print Assumptions C20_numop_entry.

(** basis-state index <-> digits round trip (get_basis_state_from_index vs tensor order) *)
Theorem C20_digits_index :
  forall d n k : nat, (0 < d)%nat -> (k < d ^ n)%nat -> index_of d (digs d n k) = k.
Proof. exact digs_index_lt. Qed.
Print Assumptions C20_digits_index.

(** (A @ B).apply_to(s) = A.apply_to(B.apply_to(s)) for kets and density matrices *)
Theorem C20_apply_matmul :
  forall (R : Type) (r0 r1 : R) (radd rmul rsub : R -> R -> R) (ropp rconj : R -> R), ring_theory r0 r1 radd rmul rsub ropp eq -> (forall a b : R, rconj (radd a b) = radd (rconj a) (rconj b)) -> (forall a b : R, rconj (rmul a b) = rmul (rconj a) (rconj b)) -> forall (D : nat) (A B : mat R) (s : state R), state_eq R D (apply_to R r0 radd rmul rconj D (mmul R r0 radd rmul D A B) s) (apply_to R r0 radd rmul rconj D A (apply_to R r0 radd rmul rconj D B s)).
Proof. exact apply_matmul. Qed.
Print Assumptions C20_apply_matmul.

(** composition is associative *)
Theorem C20_matmul_assoc :
  forall (R : Type) (r0 r1 : R) (radd rmul rsub : R -> R -> R) (ropp : R -> R), ring_theory r0 r1 radd rmul rsub ropp eq -> forall (D : nat) (A B C : mat R) (i j : nat), mmul R r0 radd rmul D (mmul R r0 radd rmul D A B) C i j = mmul R r0 radd rmul D A (mmul R r0 radd rmul D B C) i j.
Proof. exact mmul_assoc. Qed.
Print Assumptions C20_matmul_assoc.

(** (A + B) psi = A psi + B psi *)
Theorem C20_apply_add :
  forall (R : Type) (r0 r1 : R) (radd rmul rsub : R -> R -> R) (ropp : R -> R), ring_theory r0 r1 radd rmul rsub ropp eq -> forall (D : nat) (A B : mat R) (v : vec R) (i : nat), mvec R r0 radd rmul D (madd R radd A B) v i = radd (mvec R r0 radd rmul D A v i) (mvec R r0 radd rmul D B v i).
Proof. exact apply_add_ket. Qed.
Print Assumptions C20_apply_add.

(** (c A) psi = c (A psi) *)
Theorem C20_apply_scale :
  forall (R : Type) (r0 r1 : R) (radd rmul rsub : R -> R -> R) (ropp : R -> R), ring_theory r0 r1 radd rmul rsub ropp eq -> forall (D : nat) (c : R) (A : mat R) (v : vec R) (i : nat), mvec R r0 radd rmul D (mscale R rmul c A) v i = rmul c (mvec R r0 radd rmul D A v i).
Proof. exact apply_scale_ket. Qed.
Print Assumptions C20_apply_scale.

(** expect is additive in the operator *)
Theorem C20_expect_add :
  forall (R : Type) (r0 r1 : R) (radd rmul rsub : R -> R -> R) (ropp rconj : R -> R), ring_theory r0 r1 radd rmul rsub ropp eq -> forall (D : nat) (A B : mat R) (s : state R), expect R r0 radd rmul rconj D (madd R radd A B) s = radd (expect R r0 radd rmul rconj D A s) (expect R r0 radd rmul rconj D B s).
Proof. exact expect_add. Qed.
Print Assumptions C20_expect_add.

(** expect is homogeneous in the operator *)
Theorem C20_expect_scale :
  forall (R : Type) (r0 r1 : R) (radd rmul rsub : R -> R -> R) (ropp rconj : R -> R), ring_theory r0 r1 radd rmul rsub ropp eq -> forall (D : nat) (c : R) (A : mat R) (s : state R), expect R r0 radd rmul rconj D (mscale R rmul c A) s = rmul c (expect R r0 radd rmul rconj D A s).
Proof. exact expect_scale. Qed.
Print Assumptions C20_expect_scale.

(** every reachable Results store: per observable strictly ascending times and as many values as times *)
Theorem C20_results_reachable_wf :
  forall (T V : Type) (teq tlt : T -> T -> bool) (cs : list (call T V)), wf T V tlt (run_calls T V teq tlt (empty_store T V) cs).
Proof. exact reachable_wf. Qed.
Print Assumptions C20_results_reachable_wf.

(** a stored value is returned by get_result by observable and by tag; the times list grows by exactly that time *)
Theorem C20_results_stored_then_get :
  forall (T V : Type) (teq tlt : T -> T -> bool), (forall a : T, teq a a = true) -> forall (st : store T V) (u g : Z) (t : T) (v : V) (st' : store T V), wf T V tlt st -> store_raw T V teq tlt st u g t v = (st', Stored) -> get_result T V teq st' (ByObs u) t = Some v /\ get_result T V teq st' (ByTag g) t = Some v /\ get_result_times T V st' (ByObs u) = Some (get_list u (s_times T V st) ++ [t]).
Proof. exact stored_then_get. Qed.
Print Assumptions C20_results_stored_then_get.

(** storing for one observable leaves the others untouched *)
Theorem C20_results_other_unchanged :
  forall (T V : Type) (teq tlt : T -> T -> bool) (st : store T V) (u g : Z) (t : T) (v : V) (u' : Z), u' <> u -> get_list u' (s_times T V (fst (store_raw T V teq tlt st u g t v))) = get_list u' (s_times T V st) /\ get_list u' (s_vals T V (fst (store_raw T V teq tlt st u g t v))) = get_list u' (s_vals T V st).
Proof. exact store_other_unchanged. Qed.
Print Assumptions C20_results_other_unchanged.

(** strictly ascending times: no two stored times are equal *)
Theorem C20_results_one_value_per_time :
  forall (T : Type) (teq tlt : T -> T -> bool), (forall a b c : T, tlt a b = true -> tlt b c = true -> tlt a c = true) -> (forall a b : T, tlt a b = true -> teq a b = false) -> forall ts : list T, ascending T tlt ts = true -> forall (i j : nat) (x y : T), (i < j)%nat -> nth_error ts i = Some x -> nth_error ts j = Some y -> tlt x y = true /\ teq x y = false.
Proof. exact ascending_no_duplicate. Qed.
Print Assumptions C20_results_one_value_per_time.

(** bit-exact floats: with default evaluation times (1.0,) the final solver time is matched, every duration 1..200000 ns *)
Theorem C20_final_time_is_stored :
  forall T : Z, 1 <= T <= 200000 -> final_ok T = true.
Proof. exact final_time_is_stored. Qed.
Print Assumptions C20_final_time_is_stored.

(** bit-exact floats: a requested time k/T that set_evaluation_times accepts is matched by the solver time derived from it (T <= 1000) *)
Theorem C20_requested_time_is_matched :
  forall T k : Z, 1 <= T <= 1000 -> 0 <= k <= T -> roundtrip_ok T k = true.
Proof. exact requested_time_is_matched. Qed.
Print Assumptions C20_requested_time_is_matched.

(** default_evaluation_times = Full: every own evaluation time of every observable is merged into the solver's times (up to IEEE equality, as np.union1d does), whatever the sampling rate *)
Theorem C20_full_merges_own_times :
  forall (rate : float) (extras : list float) (T : Z) (ts : list float) (e : float), extras <> [] -> full_rel_times rate extras T = Some ts -> In e extras -> exists r u : float, (r = e \/ f_eq e r = true) /\ (u = (r * f_of_dur T * f_1em3)%float \/ f_eq (r * f_of_dur T * f_1em3) u = true) /\ In (rel_time T u) ts.
Proof. exact full_merges_own_times. Qed.
Print Assumptions C20_full_merges_own_times.

(** REFUTED: an observable asked for one time gets values at a second observable's close-by time and at the default time as well *)
Theorem C20_close_times_refuted :
  exists (T : Z) (a b : float), f_lt a b = true /\ run_store (Some [f_one]) T [a; b; f_one] [(0, Some [a]); (1, Some [b])] = SL [SZ 0; SL [SL [SF a; SF b; SF f_one]; SL [SF a; SF b; SF f_one]]].
Proof. exact close_times_refuted. Qed.
Print Assumptions C20_close_times_refuted.

