(** C13 - which building operations are accepted follows the documented
    typestate.  Property theorems only. *)
From Coq Require Import ZArith List Bool String.
From PV Require Import Model.Base Model.Sched Model.Seq Model.Api Gen.Api.
From PV Require Proofs.SourceTie.
From PV Require Import Proofs.Typestate Proofs.ModeInv.
Import ListNotations.
Open Scope Z_scope.

(** Read from the source on every run (Gen/Api.v): the public methods refused
    on a measured sequence are exactly the timeline-changing ones (with the
    SLM-mask configuration, since the fix recorded in known_findings.json). *)
Theorem C13_source_blocks_exactly_timeline_methods :
  filter src_blocked all_methods = timeline_methods.
Proof. exact source_blocks_exactly. Qed.
Print Assumptions C13_source_blocks_exactly_timeline_methods.

(** ... the model blocks exactly the operations whose method the source blocks, *)
Theorem C13_model_blocks_as_source :
  forall o, timeline_op o = src_blocked (op_method o).
Proof. exact model_blocks_as_source. Qed.
Print Assumptions C13_model_blocks_as_source.

(** ... and the inspection calls screened while parametrized are these. *)
Theorem C13_source_screened :
  src_screened = ["get_duration"; "current_phase_ref"; "draw"]%string.
Proof. exact source_screened. Qed.
Print Assumptions C13_source_screened.

(** After measurement every timeline-changing call is refused and leaves the
    sequence exactly as it was - from every state, on every configuration. *)
Theorem C13_measured_refuses :
  forall v s o b,
    q_measured s = Some b -> timeline_op o = true -> step v s o = (s, Err ERuntime).
Proof. exact measured_refuses. Qed.
Print Assumptions C13_measured_refuses.

(** While a channel is in EOM mode ordinary pulses, retargets and a second
    enable are refused on it; outside EOM mode EOM pulses and the EOM controls
    that need an open block are refused. *)
Theorem C13_eom_mode_refuses :
  forall v s o n c,
    q_measured s = None ->
    find_chan n (q_sched s) = Some c -> in_eom c = true ->
    op_channel o = Some n ->
    match o with
    | OAdd _ _ _ | OTarget _ _ | OTargetIndex _ _ | OEnableEom _ _ _ _ _ _ => true
    | _ => false
    end = true ->
    step v s o = (s, Err ERuntime).
Proof. exact eom_mode_refuses. Qed.
Print Assumptions C13_eom_mode_refuses.

Theorem C13_outside_eom_refuses :
  forall v s o n c,
    q_measured s = None ->
    find_chan n (q_sched s) = Some c -> in_eom c = false ->
    op_channel o = Some n ->
    match o with
    | OAddEom _ _ _ _ _ _ | ODisableEom _ _ | OModifyEom _ _ _ _ _ _ => true
    | _ => false
    end = true ->
    step v s o = (s, Err ERuntime).
Proof. exact outside_eom_refuses. Qed.
Print Assumptions C13_outside_eom_refuses.

(** A local channel needs a target before its first pulse. *)
Theorem C13_local_needs_target :
  forall v s u n proto c,
    q_measured s = None ->
    find_chan n (q_sched s) = Some c -> ch_slots c = [] -> c_dmm (ch_cfg c) = false ->
    in_eom c = false -> valid_proto proto = true ->
    step v s (OAdd u n proto) = (s, Err EValue).
Proof. exact local_needs_target. Qed.
Print Assumptions C13_local_needs_target.

(** An accepted declaration: the sequence is not measured, the name is new,
    and the channel is available - i.e. (below) its id is free unless channels
    are reusable, it is a Microwave channel iff the sequence is in XY mode. *)
Theorem C13_declare_accepted_implies :
  forall v s name chid init s',
    step v s (ODeclare name chid init) = (s', Ok unit_sv) ->
    q_measured s = None /\ name_is_dmm_like name = false /\
    find_chan name (q_sched s) = None /\
    exists cfg, assoc chid (d_chans (v_dev v)) = Some cfg /\ available v s chid cfg = true.
Proof. exact declare_accepted_implies. Qed.
Print Assumptions C13_declare_accepted_implies.

Theorem C13_available_spec :
  forall v s id cfg,
    available v s id cfg = true ->
    (q_inxy s = false /\ q_inising s = false) \/
    ((occupied s id = false \/ d_reusable (v_dev v) = true) /\
     (q_inxy s = true -> c_basis cfg = 2 \/ c_dmm cfg = true) /\
     (q_inxy s = false -> c_basis cfg <> 2)).
Proof. exact available_spec. Qed.
Print Assumptions C13_available_spec.

(** Channel identities (name, device id, configuration) and the XY / Ising
    mode flags are changed by declarations only: every other call, successful
    or not, from every state, leaves them exactly as they were. *)
Theorem C13_only_declarations_change_mode :
  forall v o s, declares o = false -> mode (fst (step v s o)) = mode s.
Proof. exact only_declarations_change_mode. Qed.
Print Assumptions C13_only_declarations_change_mode.

(** In every reachable state (every history, failing calls included, on every
    device whose DMMs are not Microwave channels): a channel name is declared
    at most once; on a device without reusable channels every channel / DMM
    id is used at most once; in XY mode every declared channel is a Microwave
    channel, outside XY mode none is (so Microwave channels never coexist with
    other channels or DMMs); and channels exist only once a mode is chosen. *)
Theorem C13_mode_invariant :
  forall v ops,
    dev_ok v ->
    let s := run v ops in
    NoDup (map ch_name (q_sched s)) /\
    (d_reusable (v_dev v) = false -> NoDup (ids (sigs (q_sched s)))) /\
    (q_inxy s = true -> Forall is_xy (sigs (q_sched s))) /\
    (q_inxy s = false -> Forall (fun x => ~ is_xy x) (sigs (q_sched s))) /\
    (q_inxy s = false -> q_inising s = false -> sigs (q_sched s) = []).
Proof.
  intros v ops Hd. pose proof (mode_inv_run v ops Hd) as H.
  unfold mode, minv in H. rewrite names_sigs in H. exact H.
Qed.
Print Assumptions C13_mode_invariant.

(** The whole translation tie of the scheduler (see Proofs/SourceTie.v): every
    scheduler function of the model this property's theorems rest on is equal to
    the function regenerated from the current source. *)
Theorem C13_source_scheduler : SourceTie.scheduler_tied.
Proof. exact SourceTie.scheduler_source_tie. Qed.
Print Assumptions C13_source_scheduler.
