(** C04 - property theorems (being written) *)
From PV Require Import Model.Base Model.AbsJson Gen.AbsSig Gen.AbsSchema Model.AbsRepr.
