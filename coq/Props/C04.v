(** C04 - sequence serialisation round-trips and is schema-valid: property theorems.
    Model: Model/AbsRepr.v (abstract-representation codec over call logs),
    Model/AbsJson.v (JSON, schema validator); tables: Gen/AbsSig.v, Gen/AbsSchema.v
    (regenerated from the tree on every run). *)
From Coq Require Import ZArith List Bool String.
From PV Require Import Model.Base Model.AbsJson Gen.AbsSig Gen.AbsSchema Model.AbsRepr.
From PV Require Import Proofs.AbsReprRT Proofs.AbsReprOps Proofs.AbsReprSeq.
Import ListNotations.
Open Scope string_scope.
Open Scope Z_scope.

(** Every well-formed parameter (number, array, variable, variable item with
    any in-range integer / list / slice key, operator expression of any
    depth over the regenerated operator tables) encodes, and the decoder
    returns its normal form (explicit non-negative indices; same operator
    tree): the same value for every assignment of the variables. *)
Theorem C04_param_roundtrip : forall vars v, wf_par vars v = true ->
    exists j v', enc v = Some j /\ norm v = Some v' /\ dec_param vars j = Some v'.
Proof. exact dec_enc_param. Qed.
Print Assumptions C04_param_roundtrip.

(** The explicit index written for a negative index selects the same element. *)
Theorem C04_index_semantics : forall (A : Type) (l : list A) i,
    - Z.of_nat (List.length l) <= i < Z.of_nat (List.length l) ->
    py_nth l (norm_index (Z.of_nat (List.length l)) i) = py_nth l i.
Proof. exact @norm_index_same_element. Qed.
Print Assumptions C04_index_semantics.

(** If each logged call round-trips, the document's operation list decodes to
    the specified calls, in order (composition over arbitrary call logs). *)
Theorem C04_operations_compose : forall s vars calls,
    Forall (rt_call s vars) calls ->
    exists ops cs, concatM (enc_call_ops s) calls = Some ops
                   /\ concatM (dec_op vars) ops = Some cs
                   /\ concatM (norm_call_ops s) calls = Some cs.
Proof. exact ops_roundtrip. Qed.
Print Assumptions C04_operations_compose.

(** Whole document: any sequence made of the header, channel declarations
    (distinct names), operations that round-trip individually and an optional
    measurement serialises to a document that decodes to exactly the
    specified calls, with the same device, register and layout. *)
Theorem C04_sequence_roundtrip :
  forall name reg dev layout vars qids chs ops meas,
    NoDup (map fst chs) -> NoDup (map fst vars) ->
    Forall (fun v : string * (bool * Z) => 0 <= snd (snd v)) vars ->
    Forall (fun c => str_in (c_name c) reserved = false) ops ->
    let S := plain_seq name reg dev layout vars qids chs ops meas in
    Forall (rt_call S (vctx vars)) ops ->
    exists doc d cs,
      encode_seq S = Some doc /\ decode_seq doc = Some d /\ norm_seq S = Some cs
      /\ d_calls d = cs /\ d_device d = dev /\ d_register d = reg /\ d_layout d = layout.
Proof. exact plain_seq_roundtrip. Qed.
Print Assumptions C04_sequence_roundtrip.

(** The hypotheses are satisfiable: a parametrized delay on a declared channel;
    its document is also valid under the regenerated schema. *)
Theorem C04_sequence_example :
  let vars := [("n", (true, 1))] in
  let ops := [mkCall "delay" [] [("duration", VItem "n" 1 (KInt (-1))); ("channel", VStr "ch");
                                 ("at_rest", VBool false)]] in
  let S := plain_seq "s" (JArr []) (JStr "MockDevice") None vars [VStr "q0"] [("ch", "rydberg_global")] ops
                     (Some "ground-rydberg") in
  Forall (rt_call S (vctx vars)) ops
  /\ (match encode_seq S with
      | Some doc => match decode_seq doc, norm_seq S with
                    | Some d, Some cs => calls_eqb (d_calls d) cs && valid gen_seq_defs 40 doc 40 gen_seq_root
                    | _, _ => false
                    end
      | None => false
      end) = true.
Proof. exact plain_seq_example. Qed.
Print Assumptions C04_sequence_example.

(** Operations with parametrized arguments, optional arguments at default and
    non-default values (elision and re-insertion of defaults). *)
Theorem C04_delay_roundtrip : forall s vars d ch b,
    wf_par vars d = true ->
    rt_call s vars (mkCall "delay" [] [("duration", d); ("channel", VStr ch); ("at_rest", VBool b)]).
Proof. exact rt_delay. Qed.
Print Assumptions C04_delay_roundtrip.

Theorem C04_enable_eom_roundtrip : forall s vars ch a d o b,
    wf_par vars a = true -> wf_par vars d = true -> wf_par vars o = true ->
    rt_call s vars (mkCall "enable_eom_mode" []
      [("channel", VStr ch); ("amp_on", a); ("detuning_on", d); ("optimal_detuning_off", o);
       ("correct_phase_drift", VBool b)]).
Proof. exact rt_enable_eom. Qed.
Print Assumptions C04_enable_eom_roundtrip.

Theorem C04_add_eom_pulse_roundtrip : forall s vars ch du ph po pr b,
    wf_par vars du = true -> wf_par vars ph = true -> wf_par vars po = true ->
    rt_call s vars (mkCall "add_eom_pulse" []
      [("channel", VStr ch); ("duration", du); ("phase", ph); ("post_phase_shift", po);
       ("protocol", VStr pr); ("correct_phase_drift", VBool b)]).
Proof. exact rt_add_eom_pulse. Qed.
Print Assumptions C04_add_eom_pulse_roundtrip.

(** A parametrized pulse with round-tripping waveforms, added with seq.add. *)
Theorem C04_pulse_roundtrip : forall s vars a d ph po ch pr,
    rt_wf vars a -> rt_wf vars d -> wf_par vars ph = true -> wf_par vars po = true ->
    is_param a = true ->
    rt_call s vars
      (mkCall "add" []
         [("pulse", VPObj "Pulse" [] [("amplitude", a); ("detuning", d); ("phase", ph); ("post_phase_shift", po)]);
          ("channel", VStr ch); ("protocol", VStr pr)]).
Proof. exact rt_add_pulse. Qed.
Print Assumptions C04_pulse_roundtrip.

(** The duration-0 template of Pulse.ConstantAmplitude. *)
Theorem C04_constant_amplitude_roundtrip : forall s vars a d ph po ch pr,
    wf_par vars a = true -> is_param a = true -> rt_wf vars d ->
    wf_par vars ph = true -> wf_par vars po = true ->
    rt_call s vars
      (mkCall "add" []
         [("pulse", VPObj "ConstantAmplitude" [VClass "Pulse"]
                      [("amplitude", a); ("detuning", d); ("phase", ph); ("post_phase_shift", po)]);
          ("channel", VStr ch); ("protocol", VStr pr)]).
Proof. exact rt_add_const_amplitude. Qed.
Print Assumptions C04_constant_amplitude_roundtrip.

(** Waveforms: positional arguments are bound to the constructor's
    parameters; omitted keyword arguments get the constructor's default. *)
Theorem C04_waveform_positional : forall vars d v,
    wf_par vars d = true -> wf_par vars v = true -> is_param d = true ->
    rt_wf vars (VPObj "ConstantWaveform" [d; v] []).
Proof. exact wf_const_pos. Qed.
Print Assumptions C04_waveform_positional.

Theorem C04_waveform_interpolated : forall vars d vs l,
    wf_par vars d = true -> wf_par vars vs = true -> forallb is_lit l = true -> is_param vs = true ->
    rt_wf vars (VPObj "InterpolatedWaveform" [] [("duration", d); ("values", vs); ("times", VList l)]).
Proof. exact wf_interp_kw. Qed.
Print Assumptions C04_waveform_interpolated.

(** The regenerated tables agree: defaults substituted by the deserializer are
    the defaults of the methods it calls; the keys the serializer elides have
    such a default; the encoder's signatures list the constructors' leading
    parameters; the names the serializer looks arguments up under are the
    methods' parameter names. *)
Theorem C04_defaults_agree : deser_defaults_agree = true.
Proof. exact deser_defaults_agree_ok. Qed.
Print Assumptions C04_defaults_agree.

Theorem C04_signatures_match_constructors : signatures_match_constructors = true.
Proof. exact signatures_match_constructors_ok. Qed.
Print Assumptions C04_signatures_match_constructors.

Theorem C04_serializer_names_are_parameters :
  forallb (fun e => prefix_of (snd e) (meth_params (fst e))
                    && Nat.eqb (List.length (snd e)) (List.length (meth_params (fst e))))
          serializer_names = true.
Proof. exact serializer_names_are_parameters. Qed.
Print Assumptions C04_serializer_names_are_parameters.

(** Refuted clauses (each replayed on the implementation, see
    known_findings.d/C04.json). *)
Theorem C04_round_refuted :
  valid gen_seq_defs 40 round_doc 40 (SRef "ParametrizedNum") = true
  /\ dec_param [("x", 1)] round_doc = None
  /\ enc (VPObj "round" [VVar "x" 1] []) = None
  /\ enc (VPObj "round_" [VVar "x" 1] []) = Some round_doc.
Proof. exact round_refuted. Qed.
Print Assumptions C04_round_refuted.

Theorem C04_whole_variable_refuted :
  enc (VVar "x" 1) = Some (JObj [("variable", JStr "x")])
  /\ valid gen_seq_defs 40 (JObj [("variable", JStr "x")]) 40 (SRef "ParametrizedNum") = false
  /\ valid gen_seq_defs 40 (JObj [("variable", JStr "x")]) 40 (SRef "ExprArgument") = true.
Proof. exact whole_variable_refuted. Qed.
Print Assumptions C04_whole_variable_refuted.

Theorem C04_legacy_tanh_refuted :
  str_in "tanh" gen_unary_ops = true /\ str_in "tanh" gen_supported_numpy = false.
Proof. exact legacy_tanh_refuted. Qed.
Print Assumptions C04_legacy_tanh_refuted.
