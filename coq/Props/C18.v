(** C18 - switching device or register preserves the program.
    Property theorems only. *)
From Coq Require Import ZArith List Bool String.
From PV Require Import Model.Base Model.Sched Model.Seq Gen.Switch.
From PV Require Proofs.SourceTie Proofs.TimingFrame.
From PV Require Import Proofs.SchedInv Proofs.SeqInv Proofs.SwitchSpec.
Import ListNotations.
Open Scope Z_scope.

(** Read from the source on every run: the channel parameters strict mode
    compares, and that the new sequence is rebuilt by replaying the recorded
    calls through the public API (hence through every validation). *)
Theorem C18_strict_compares :
  strict_params = ["mod_bandwidth"; "fixed_retarget_t"; "clock_period"]%string /\
  strict_params_conditional = ["min_retarget_interval"]%string /\
  replays_calls_through_public_api = true.
Proof. exact strict_compares. Qed.
Print Assumptions C18_strict_compares.

(** Without strict: whatever calls are replayed on the new device, the result
    is a reachable state of that device and therefore satisfies its limits
    (tiled, clock-aligned, within its maximum duration, pulse durations). *)
Theorem C18_rebuilt_sequence_within_new_limits :
  forall v' calls,
    senv_ok v' ->
    Forall (chan_ok (env_of v')) (q_sched (run v' calls)) /\
    forall c sl p, In c (q_sched (run v' calls)) -> In sl (ch_slots c) -> s_kind sl = KPulse p ->
      s_tf sl - s_ti sl = p_dur p /\ c_min (ch_cfg c) <= p_dur p /\
      (c_clock (ch_cfg c) | p_dur p) /\ le_opt (s_tf sl) (d_maxseq (v_dev v')).
Proof. exact rebuilt_sequence_within_new_limits. Qed.
Print Assumptions C18_rebuilt_sequence_within_new_limits.

(** With strict: agreeing on every compared parameter does NOT guarantee an
    identical timeline (min_duration - likewise custom_phase_jump_time and
    max_duration - shape the automatic delays): known finding. *)
Theorem C18_strict_sound_refuted :
  exists g g' ops,
    c_clock g = c_clock g' /\ c_rise g = c_rise g' /\ c_fixret g = c_fixret g' /\
    c_minret g = c_minret g' /\ c_eom g = c_eom g' /\
    ends_of (run (senv_of (c_min g)) ops) <> ends_of (run (senv_of (c_min g')) ops).
Proof. exact strict_sound_refuted. Qed.
Print Assumptions C18_strict_sound_refuted.

(** The whole translation tie of the scheduler (see Proofs/SourceTie.v): every
    scheduler function of the model this property's theorems rest on is equal to
    the function regenerated from the current source. *)
Theorem C18_source_scheduler : SourceTie.scheduler_tied.
Proof. exact SourceTie.scheduler_source_tie. Qed.
Print Assumptions C18_source_scheduler.

(** The strict clause at the level of the scheduler (Proofs/TimingFrame.v): the
    limits of a device only ever refuse.  Whenever a program of scheduler
    operations succeeds on a device it succeeds, with the same timeline, on the
    device with every limit erased ... *)
Theorem C18_limits_only_restrict :
  forall (e : env) (s s' : sched) (os : list TimingFrame.sop),
    TimingFrame.srun e os s = (s', Ok tt) ->
    TimingFrame.srun (TimingFrame.erase_env e) os (TimingFrame.erase s) = (TimingFrame.erase s', Ok tt).
Proof. exact TimingFrame.limits_only_restrict. Qed.
Print Assumptions C18_limits_only_restrict.

(** ... hence two devices that agree on everything but the limits give, for every
    program BOTH accept, identical slot lists and EOM blocks on every channel. *)
Theorem C18_timing_frame :
  forall (e1 e2 : env) (s1 s2 s1' s2' : sched) (os : list TimingFrame.sop),
    en_oracle e1 = en_oracle e2 ->
    TimingFrame.erase s1 = TimingFrame.erase s2 ->
    TimingFrame.srun e1 os s1 = (s1', Ok tt) ->
    TimingFrame.srun e2 os s2 = (s2', Ok tt) ->
    map ch_slots s1' = map ch_slots s2' /\ map ch_eoms s1' = map ch_eoms s2'.
Proof. exact TimingFrame.timing_frame. Qed.
Print Assumptions C18_timing_frame.

(** The hypotheses are satisfiable by devices that differ in their limits. *)
Theorem C18_timing_frame_example :
  let s1 := TimingFrame.tf_s1 in
  let s2 := TimingFrame.tf_s2 in
  snd (TimingFrame.srun TimingFrame.tf_e1 TimingFrame.tf_prog s1) = Ok tt /\
  snd (TimingFrame.srun TimingFrame.tf_e2 TimingFrame.tf_prog s2) = Ok tt /\
  map ch_slots (fst (TimingFrame.srun TimingFrame.tf_e1 TimingFrame.tf_prog s1)) =
  map ch_slots (fst (TimingFrame.srun TimingFrame.tf_e2 TimingFrame.tf_prog s2)) /\
  map (fun sl => (s_ti sl, s_tf sl))
      (List.concat (map ch_slots (fst (TimingFrame.srun TimingFrame.tf_e1 TimingFrame.tf_prog s1)))) =
  [(20, 120); (0, 20); (-1, 0)].
Proof. exact TimingFrame.timing_frame_example. Qed.
Print Assumptions C18_timing_frame_example.
