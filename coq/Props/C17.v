(** C17 - devices, registers, layouts, noise models, configs, results round-trip:
    property theorems.  Proofs are in Proofs/RtJsonP.v, Proofs/RtFacts.v and
    Proofs/RtWitness.v; models in Model/Rt*.v; tables in Gen/RtTables.v. *)
From Coq Require Import ZArith List Bool String.
From Coq Require Import PrimFloat.
From PV Require Import Model.Base Model.RtJson Gen.RtTables Model.RtNoise Model.RtDev
     Model.RtBackend Proofs.RtJsonP Proofs.RtFacts Proofs.RtWitness.
Import ListNotations.
Open Scope string_scope.
Open Scope list_scope.

(** elided f x -> the key is absent and everything else is untouched *)
Theorem C17_elision_lemma : forall strict t opt params e,
  pop_defaults strict t opt params = Some e ->
  forall k, get k e = if mem_s k opt && elided t params k then None else get k params.
Proof. exact get_pop. Qed.
Print Assumptions C17_elision_lemma.

(** the decoders' field loop + dataclass constructor, for any table, any
    JSON object and any separately computed parameters *)
Theorem C17_decode_generic :
  forall cls t skip obj conv p0 a (dv : string -> pv -> pv),
  nodup_s (names t) = true ->
  keys a = names t ->
  (forall k, In k (keys p0) -> In k skip /\ In k (init_names t)) ->
  (forall f v, In f t -> get (f_name f) a = Some v ->
     let k := f_name f in
     if f_init f then
       if mem_s k skip then
         match get k p0 with Some x => Some x | None => f_default f end = Some (dv k v)
       else
         match get k obj with
         | Some x => conv k x = Some (dv k v)
         | None => f_default f = Some (dv k v)
         end
     else f_default f = Some (dv k v)) ->
  exists ps,
    field_loop t t skip obj conv = Some ps
    /\ construct cls t (p0 ++ ps)
       = Some (PDict (("__class__", PStr cls)
                      :: map (fun kv => (fst kv, dv (fst kv) (snd kv))) a)).
Proof. exact decode_generic. Qed.
Print Assumptions C17_decode_generic.

(** decode (encode x) = Some (normalise x), for every dataclass table with
    unique field names, every optional-key list and every instance *)
Theorem C17_dataclass_roundtrip : forall strict cls t opt a e,
  nodup_s (names t) = true ->
  keys a = names t ->
  (forall f, In f t -> f_init f = false -> get (f_name f) a = f_default f) ->
  pop_defaults strict t opt a = Some e ->
  exists ps,
    field_loop t t [] e (fun _ v => Some v) = Some ps
    /\ construct cls t ps
       = Some (PDict (("__class__", PStr cls) :: norm_attrs t opt a)).
Proof. exact dataclass_roundtrip. Qed.
Print Assumptions C17_dataclass_roundtrip.

(** ... and normalise x equals x in every field (identical, or [==] to it) *)
Theorem C17_decoded_fields_equal : forall t opt a,
  NoDup (keys a) ->
  Forall2 (fun x y => fst x = fst y
                      /\ (snd y = snd x \/ pyeq (snd x) (snd y) = true))
          a (norm_attrs t opt a).
Proof. exact norm_attrs_equal_fields. Qed.
Print Assumptions C17_decoded_fields_equal.

(** the regenerated tables of Channel/DMM/EOM/Device/VirtualDevice satisfy the
    premises of the theorems above, the EOM decoder call reaches every field,
    and the DMM/Rydberg class selection key is always/never emitted *)
Theorem C17_tables_wellformed : tables_wellformed = true.
Proof. exact tables_wellformed_ok. Qed.
Print Assumptions C17_tables_wellformed.

(** schema-validity, key level: required keys are always emitted, emitted
    keys are declared properties (channels, DMM, EOM, devices, noise) *)
Theorem C17_schema_keys : schema_keys_ok = true.
Proof. exact schema_keys_ok_true. Qed.
Print Assumptions C17_schema_keys.

(** the device decoder takes "dmm_objects" from the JSON alone: an absent
    key decodes to no DMM whatever the class default is (since commit
    877338bd; before it the VirtualDevice default (DMM(),) was substituted) *)
Theorem C17_dec_dev_absent_dmm_is_empty : forall obj d,
  get "dmm_objects" obj = None ->
  dec_dev (PDict obj) = Some d ->
  attr "dmm_objects" d = PList [].
Proof. exact dec_dev_absent_dmm_is_empty. Qed.
Print Assumptions C17_dec_dev_absent_dmm_is_empty.

(** regression witness: the VirtualDevice without DMM round-trips exactly *)
Theorem C17_device_empty_dmm_roundtrip :
  exists d,
    class_of d = "VirtualDevice"
    /\ attr "dmm_objects" d = PList []
    /\ same (default_of tbl_VirtualDevice "dmm_objects") (Some (PList [])) = false
    /\ same (roundtrip_dev d) (Some d) = true.
Proof. exact device_empty_dmm_roundtrip. Qed.
Print Assumptions C17_device_empty_dmm_roundtrip.

(** a noise model's active types are exactly those with a truthy parameter *)
Theorem C17_noise_types_exact : forall args inst,
  noise_init args = Some inst ->
  forall t,
    In t (strs_of (attr "noise_types" inst))
    <-> (In t noise_types_sorted
         /\ exists p, In p (params_of_type t) /\ truthy (narg args p) = true).
Proof. exact noise_types_exact. Qed.
Print Assumptions C17_noise_types_exact.

Theorem C17_noise_roundtrip_refuted :
  exists args n n',
    noise_init args = Some n
    /\ roundtrip_noise n = Some n'
    /\ attr "runs" n = PInt 10 /\ attr "runs" n' = PNone.
Proof. exact noise_roundtrip_refuted. Qed.
Print Assumptions C17_noise_roundtrip_refuted.

Theorem C17_simconfig_temperature_refuted :
  exists args n sc n',
    noise_init args = Some n /\ sc_from_noise n = Some sc /\ sc_to_noise sc = Some n'
    /\ strs_of (attr "noise_types" n') = strs_of (attr "noise_types" n)
    /\ pyeq (attr "temperature" n) (attr "temperature" n') = false.
Proof. exact simconfig_temperature_refuted. Qed.
Print Assumptions C17_simconfig_temperature_refuted.

Theorem C17_simconfig_type_lost_refuted :
  exists args sc n,
    sc_construct args = Some sc /\ sc_to_noise sc = Some n
    /\ strs_of (attr "noise" sc) = ["dephasing"]
    /\ strs_of (attr "noise_types" n) = [].
Proof. exact simconfig_type_lost_refuted. Qed.
Print Assumptions C17_simconfig_type_lost_refuted.

Theorem C17_results_complex_refuted :
  exists r r',
    dec_results (enc_results r) = Some r'
    /\ pyeq (attr "results" r) (attr "results" r') = false
    /\ pyeq (attr "results" r) (convert_complex (attr "results" r')) = true.
Proof. exact results_complex_refuted. Qed.
Print Assumptions C17_results_complex_refuted.

Theorem C17_config_schema_unsatisfiable_refuted :
  exists o, In o schema_observables /\ obs_schema_satisfiable o = false.
Proof. exact config_schema_unsatisfiable_refuted. Qed.
Print Assumptions C17_config_schema_unsatisfiable_refuted.

(** no shared state: a constructor that writes only into its own fresh
    instance never changes what an earlier instance reads ... *)
Theorem C17_no_shared_state_local : forall h d i a,
  (i < List.length (h_objs h))%nat ->
  read_attr (new_local h d) i a = read_attr h i a.
Proof. exact new_local_frame. Qed.
Print Assumptions C17_no_shared_state_local.

(** ... StateRepr (as written since commit b3b580b8) is such a constructor ... *)
Theorem C17_staterepr_no_sharing : forall h eig amps h' i a,
  staterepr_new h eig amps = Some h' ->
  (i < List.length (h_objs h))%nat ->
  read_attr h' i a = read_attr h i a.
Proof. exact staterepr_no_sharing. Qed.
Print Assumptions C17_staterepr_no_sharing.

(** ... so after any sequence of constructions every instance reads its own
    number of qudits *)
Theorem C17_staterepr_reads_own : forall l h,
  build_states empty_heap l = Some h ->
  nq_readings h = map own_nq l.
Proof. exact staterepr_reads_own. Qed.
Print Assumptions C17_staterepr_reads_own.
