(** C17 - property theorems *)
From PV Require Import Model.Base Model.RtJson Gen.RtTables Model.RtNoise Model.RtDev Model.RtBackend.
