(** C09 - a sequence is exactly the effect of its successful calls.
    Property theorems only. *)
From Coq Require Import ZArith List Bool.
From PV Require Import Model.Base Model.Sched Model.Seq Model.Api.
From PV Require Proofs.SourceTie.
From PV Require Import Proofs.SchedInv Proofs.SeqInv Proofs.RetargetWitness Proofs.Atomic Proofs.LogReplay Proofs.AlignWitness.
Import ListNotations.
Open Scope Z_scope.

(** Read-only operations (duration, delay-estimate, phase-reference, EOM-mode
    and availability queries) never change the sequence - from every state. *)
Theorem C09_queries_pure :
  forall v s o, is_query o = true -> fst (step v s o) = s.
Proof. exact queries_pure. Qed.
Print Assumptions C09_queries_pure.

(** The scheduler's own steps fail atomically: a delay or a pulse that cannot
    be scheduled (duration limits, device maximum) leaves every timeline
    exactly as it was ... *)
Theorem C09_add_delay_atomic :
  forall e d n s s' er, add_delay e d n s = (s', Err er) -> s' = s.
Proof. exact add_delay_atomic. Qed.
Print Assumptions C09_add_delay_atomic.

Theorem C09_add_pulse_atomic :
  forall e p n bs proto dp s s' er, add_pulse e p n bs proto dp s = (s', Err er) -> s' = s.
Proof. exact add_pulse_atomic. Qed.
Print Assumptions C09_add_pulse_atomic.

(** ... and so do these calls as a whole. *)
Theorem C09_plain_delay_call_atomic :
  forall v s d n er s', step v s (ODelay d n false) = (s', Err er) -> s' = s.
Proof. exact plain_delay_call_atomic. Qed.
Print Assumptions C09_plain_delay_call_atomic.

Theorem C09_phase_shift_call_atomic :
  forall v s phi qs b er s', step v s (OPhaseShift phi qs b) = (s', Err er) -> s' = s.
Proof. exact phase_shift_call_atomic. Qed.
Print Assumptions C09_phase_shift_call_atomic.

Theorem C09_measure_call_atomic :
  forall v s b er s', step v s (OMeasure b) = (s', Err er) -> s' = s.
Proof. exact measure_call_atomic. Qed.
Print Assumptions C09_measure_call_atomic.

(** The record of successful calls: every successful building call appends
    exactly itself (EOM calls: with the chosen off-detuning) and nothing else
    touches the record; queries record nothing.  (Devices without Microwave
    channels: there declare_channel never records a set_magnetic_field call of
    its own.) *)
Theorem C09_success_logs_call :
  forall v o s s' x,
    no_xy v -> is_query o = false ->
    step v s o = (s', Ok x) -> q_log s' = logged o :: q_log s.
Proof. exact success_logs_call. Qed.
Print Assumptions C09_success_logs_call.

(** The state is reproducible from that record: for every history in which
    every call succeeded, replaying the record on a fresh sequence yields the
    identical state - timelines, phase references, mode flags and the record
    itself.  This is what build(), switch_register() to an equal register and
    deserialisation rely on. *)
Theorem C09_log_reproduces :
  forall v ops,
    no_xy v -> all_ok v seq0 ops ->
    run v (rev (q_log (run v ops))) = run v ops.
Proof. exact log_reproduces. Qed.
Print Assumptions C09_log_reproduces.

Theorem C09_log_reproduces_applies :
  no_xy wenv /\ all_ok wenv seq0 wops /\ length (q_log (run wenv wops)) = 4%nat.
Proof. exact log_reproduces_applies. Qed.
Print Assumptions C09_log_reproduces_applies.

(** "A call that raises leaves the sequence exactly as it was" is FALSE of the
    faithful model for the calls that mutate before they validate (known
    findings): delay(.., at_rest=True) and declare_channel with an invalid
    initial target, here with kernel-evaluated witnesses. *)
Theorem C09_failed_call_leaves_state_refuted_delay_at_rest :
  exists v pre o er,
    snd (step v (run v pre) o) = Err er /\
    nslots (fst (step v (run v pre) o)) <> nslots (run v pre).
Proof. exact failed_call_leaves_state_refuted_delay_at_rest. Qed.
Print Assumptions C09_failed_call_leaves_state_refuted_delay_at_rest.

Theorem C09_failed_call_leaves_state_refuted_declare :
  exists v pre o er,
    snd (step v (run v pre) o) = Err er /\
    nslots (fst (step v (run v pre) o)) <> nslots (run v pre).
Proof. exact failed_call_leaves_state_refuted_declare. Qed.
Print Assumptions C09_failed_call_leaves_state_refuted_declare.

(** The whole translation tie of the scheduler (see Proofs/SourceTie.v): every
    scheduler function of the model this property's theorems rest on is equal to
    the function regenerated from the current source. *)
Theorem C09_source_scheduler : SourceTie.scheduler_tied.
Proof. exact SourceTie.scheduler_source_tie. Qed.
Print Assumptions C09_source_scheduler.
