(** C07 - phase references (virtual-Z) are additive and applied to every pulse.
    Property theorems only. *)
From Coq Require Import ZArith List Bool Ring.
From Coq Require Import PrimFloat.
From PV Require Import Model.Base Model.Sched Model.Seq.
From PV Require Gen.Pure Gen.PureSlot Model.Chan Proofs.PureEq Proofs.PureSlotEq.
From PV Require Proofs.SourceTie.
From PV Require Import Proofs.SchedInv Proofs.SeqInv Proofs.PhaseSpec.
Import ListNotations.
Open Scope Z_scope.

(** Every phase shift (explicit, post-phase-shift of a pulse, EOM drift
    correction - all go through increment_phase) composes additively, modulo
    2 pi, on the reference of the atom it is applied to, is recorded at the
    atom's last-used time, and keeps the tracker well-formed (recorded times
    strictly ordered, one phase per time). *)
Theorem C07_shift_is_additive :
  forall r phi,
    ref_ok r ->
    ref_ok (increment_phase r phi) /\
    r_last_phase (increment_phase r phi) = f_mod2pi (r_last_phase r + phi)%float /\
    r_last_time (increment_phase r phi) = r_used r /\
    r_used (increment_phase r phi) = r_used r.
Proof. exact increment_phase_spec. Qed.
Print Assumptions C07_shift_is_additive.

Theorem C07_last_used_only_grows :
  forall r t,
    ref_ok r ->
    ref_ok (update_last_used r t) /\
    r_last_phase (update_last_used r t) = r_last_phase r /\
    r_used r <= r_used (update_last_used r t) /\ t <= r_used (update_last_used r t).
Proof. exact update_last_used_spec. Qed.
Print Assumptions C07_last_used_only_grows.

(** Every pulse handed to the scheduler carries its programmed phase plus the
    reference of its targets, reduced modulo 2 pi. *)
Theorem C07_scheduled_phase :
  forall v c u pr p,
    c_dmm (ch_cfg c) = false ->
    validate_and_adjust v c u pr = Ok p ->
    p_phase p = f_mod2pi (u_phase u +
                          match pr with
                          | Some r => if f_ne r zero then r else zero
                          | None => zero
                          end)%float /\
    p_post p = f_mod2pi (u_post u).
Proof. exact scheduled_phase. Qed.
Print Assumptions C07_scheduled_phase.

(** No pulse is scheduled to start before the time of the latest phase shift
    of any of its targets (every protocol, every reachable state). *)
Theorem C07_pulse_after_latest_phase_shift :
  forall v u n proto dp s s' c last p bs q r,
    seq_ok v s ->
    add_prepare v u n s = (s, Ok (c, last, p, bs)) ->
    add_pulse (env_of v) p n bs proto dp (q_sched s) = (s', Ok tt) ->
    In q (s_tg last) -> get_ref s (c_basis (ch_cfg c)) q = Some r ->
    exists sl, make_next_pulse_slot (env_of v) p n bs proto dp true (q_sched s) = (q_sched s, Ok sl) /\
               r_last_time r <= s_ti sl.
Proof. exact pulse_after_latest_phase_shift. Qed.
Print Assumptions C07_pulse_after_latest_phase_shift.

(** On the emulated qubit a shift of the phase reference is a rotation about
    z: Z(phi') U(theta, phi) Z(phi')^-1 = U(theta, phi + phi'), over any
    commutative ring containing the phase factors. *)
Theorem C07_virtual_z :
  forall (R : Type) (r0 r1 : R) (radd rmul rsub : R -> R -> R) (ropp : R -> R),
    ring_theory r0 r1 radd rmul rsub ropp (@eq R) ->
    forall (i c s u ub w wb : R),
      rmul w wb = r1 ->
      mmul R radd rmul (mmul R radd rmul (Zrot R r0 r1 w) (U R rmul ropp i c s u ub)) (Zrot R r0 r1 wb)
      = U R rmul ropp i c s (rmul u w) (rmul ub wb).
Proof. exact virtual_z. Qed.
Print Assumptions C07_virtual_z.

(** Ramsey: two pi/2 pulses whose phases differ by phi excite with
    probability (1/2)^2 (2 + e^{i phi} + e^{-i phi}) = cos^2(phi/2). *)
Theorem C07_ramsey :
  forall (R : Type) (r0 r1 : R) (radd rmul rsub : R -> R -> R) (ropp : R -> R),
    ring_theory r0 r1 radd rmul rsub ropp (@eq R) ->
    forall (i c s u ub h : R),
      rmul i i = ropp r1 -> rmul u ub = r1 -> rmul c c = h -> rmul s s = h ->
      let a := (let '(_, _, eg, _) :=
                  mmul R radd rmul (U R rmul ropp i c s u ub) (U R rmul ropp i c s r1 r1) in eg) in
      let ab := ropp (rmul (rmul (rmul i s) c) (radd ub r1)) in
      a = ropp (rmul (rmul (rmul i s) c) (radd u r1)) /\
      ropp (rmul a ab) = rmul (rmul h h) (radd (radd (radd r1 r1) u) ub).
Proof. exact ramsey_amplitude. Qed.
Print Assumptions C07_ramsey.

(** Tie to the source by translation: the EOM phase drift is EQUAL to the
    function regenerated from the current source
    (_PhaseDriftParams.calc_phase_drift). *)
Theorem C07_source_calc_phase_drift :
  forall (d : drift) (tf : Z),
    Gen.Pure.gen_calc_phase_drift (dr_rate d) (dr_ti d) tf = calc_phase_drift d tf.
Proof. exact PureEq.calc_phase_drift_eq. Qed.
Print Assumptions C07_source_calc_phase_drift.

Theorem C07_source_phase_format :
  forall phi : float, Gen.Pure.gen_phase_format phi = f_mod2pi phi.
Proof. exact PureEq.phase_format_eq. Qed.
Print Assumptions C07_source_phase_format.

Theorem C07_source_update_last_used :
  forall (r : qref) (t : Z),
    r_used (update_last_used r t) = Gen.Pure.gen_update_last_used (r_used r) t.
Proof. exact PureEq.update_last_used_eq. Qed.
Print Assumptions C07_source_update_last_used.

(** ... and where the drift-corrected phase of a scheduled pulse is computed: the
    model's [make_next_pulse_slot] returns exactly the slot (start, end, phase of
    the scheduled pulse: the programmed phase minus the drift accumulated up to
    the pulse's ACTUAL start, reduced modulo 2 pi) computed by the function
    regenerated from the current source of _Schedule.make_next_pulse_slot. *)
Theorem C07_source_make_next_pulse_slot :
  forall (e : env) (p : pulse) (n : Z) (barriers : list Z) (proto : Z)
         (dp : option drift) (block : bool) (s : sched) (last : slot) (c : chan),
    last_slot n s = (s, Ok last) ->
    the_chan n s = (s, Ok c) ->
    make_next_pulse_slot e p n barriers proto dp block s =
    (s, PureSlotEq.slot_of e n p dp last
          (Gen.PureSlot.gen_make_next_pulse_slot s c last n barriers
             (negb (negb (proto =? 1))) (proto =? 2) dp (p_phase p) (p_dur p) (en_max e) block)).
Proof. exact PureSlotEq.make_next_pulse_slot_eq. Qed.
Print Assumptions C07_source_make_next_pulse_slot.

(** The whole translation tie of the scheduler (see Proofs/SourceTie.v): every
    scheduler function of the model this property's theorems rest on is equal to
    the function regenerated from the current source. *)
Theorem C07_source_scheduler : SourceTie.scheduler_tied.
Proof. exact SourceTie.scheduler_source_tie. Qed.
Print Assumptions C07_source_scheduler.
