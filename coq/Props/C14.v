(** C14 - output modulation is an area-preserving low-pass and fall times
    cover it.  Property theorems; every one is closed by a lemma of
    Proofs/Modul*.v.  [ordered_ring] is any commutative ring with a
    compatible order and Leibniz equality (Z, Qc and R are instances, see
    Proofs/ModulInst.v); [kern eom N] is the impulse response of
    [Channel.apply_modulation] on [N] samples (an oracle constrained only by
    the hypotheses each theorem names). *)
From Coq Require Import ZArith List Bool Arith Reals.
From Coq Require Import Uint63 FloatOps SpecFloat PrimFloat.
From PV Require Import Model.Base Model.Sched Model.Chan Model.Modul.
From PV Require Import Proofs.ModulLaws Proofs.ModulChan Proofs.ModulSeq Proofs.ModulInst.
Import ListNotations.

(** modulation is linear *)
Theorem C14_modulate_linear :
  forall (T : Type) (t0 t1 : T) (tadd tmul tsub : T -> T -> T)
         (topp : T -> T) (tle : T -> T -> Prop),
    ordered_ring T t0 t1 tadd tmul tsub topp tle ->
    forall (kern : bool -> nat -> nat -> T) (has_bw : bool) (tr : nat)
           (etr : option nat) (a b : T) (x x' : list T) (eom : bool)
           (y y' : list T),
      length x = length x' ->
      chan_modulate T t0 tadd tmul has_bw tr etr kern x false eom = Ok y ->
      chan_modulate T t0 tadd tmul has_bw tr etr kern x' false eom = Ok y' ->
      chan_modulate T t0 tadd tmul has_bw tr etr kern
        (lin T tadd tmul a b x x') false eom = Ok (lin T tadd tmul a b y y').
Proof. exact modulate_linear. Qed.
Print Assumptions C14_modulate_linear.

(** modulation preserves the integral (sum of the samples) *)
Theorem C14_modulate_preserves_integral :
  forall (T : Type) (t0 t1 : T) (tadd tmul tsub : T -> T -> T)
         (topp : T -> T) (tle : T -> T -> Prop),
    ordered_ring T t0 t1 tadd tmul tsub topp tle ->
    forall kern : bool -> nat -> nat -> T,
      (forall (e : bool) (N : nat), (0 < N)%nat -> sumn T t0 tadd N (kern e N) = t1) ->
      forall (has_bw : bool) (tr : nat) (etr : option nat) (x : list T)
             (eom : bool) (y : list T),
        chan_modulate T t0 tadd tmul has_bw tr etr kern x false eom = Ok y ->
        lsum T t0 tadd y = lsum T t0 tadd x.
Proof. exact modulate_preserves_sum. Qed.
Print Assumptions C14_modulate_preserves_integral.

(** ... also for real-valued signals *)
Theorem C14_modulate_preserves_integral_R :
  forall (kern : bool -> nat -> nat -> R),
    (forall e N, (0 < N)%nat -> sumn R 0%R Rplus N (kern e N) = 1%R) ->
    forall has_bw tr etr x eom y,
      chan_modulate R 0%R Rplus Rmult has_bw tr etr kern x false eom = Ok y ->
      lsum R 0%R Rplus y = lsum R 0%R Rplus x.
Proof. exact modulate_preserves_sum_R. Qed.
Print Assumptions C14_modulate_preserves_integral_R.

(** non-negative input never yields negative output *)
Theorem C14_modulate_nonneg :
  forall (T : Type) (t0 t1 : T) (tadd tmul tsub : T -> T -> T)
         (topp : T -> T) (tle : T -> T -> Prop),
    ordered_ring T t0 t1 tadd tmul tsub topp tle ->
    forall kern : bool -> nat -> nat -> T,
      (forall (e : bool) (N k : nat), (k < N)%nat -> tle t0 (kern e N k)) ->
      forall (has_bw : bool) (tr : nat) (etr : option nat) (x : list T)
             (eom : bool) (y : list T),
        chan_modulate T t0 tadd tmul has_bw tr etr kern x false eom = Ok y ->
        Forall (fun v : T => tle t0 v) x -> Forall (fun v : T => tle t0 v) y.
Proof. exact modulate_nonneg. Qed.
Print Assumptions C14_modulate_nonneg.

(** ... nor output above the input maximum *)
Theorem C14_modulate_le_max :
  forall (T : Type) (t0 t1 : T) (tadd tmul tsub : T -> T -> T)
         (topp : T -> T) (tle : T -> T -> Prop),
    ordered_ring T t0 t1 tadd tmul tsub topp tle ->
    forall kern : bool -> nat -> nat -> T,
      (forall (e : bool) (N k : nat), (k < N)%nat -> tle t0 (kern e N k)) ->
      (forall (e : bool) (N : nat), (0 < N)%nat -> sumn T t0 tadd N (kern e N) = t1) ->
      forall (has_bw : bool) (tr : nat) (etr : option nat) (x : list T)
             (eom : bool) (y : list T) (M : T),
        chan_modulate T t0 tadd tmul has_bw tr etr kern x false eom = Ok y ->
        tle t0 M ->
        Forall (fun v : T => tle v M) x -> Forall (fun v : T => tle v M) y.
Proof. exact modulate_le_max. Qed.
Print Assumptions C14_modulate_le_max.

(** with [keep_ends] (detuning) the output stays between the input extremes *)
Theorem C14_modulate_keep_ends_bounds :
  forall (T : Type) (t0 t1 : T) (tadd tmul tsub : T -> T -> T)
         (topp : T -> T) (tle : T -> T -> Prop),
    ordered_ring T t0 t1 tadd tmul tsub topp tle ->
    forall kern : bool -> nat -> nat -> T,
      (forall (e : bool) (N k : nat), (k < N)%nat -> tle t0 (kern e N k)) ->
      (forall (e : bool) (N : nat), (0 < N)%nat -> sumn T t0 tadd N (kern e N) = t1) ->
      forall (has_bw : bool) (tr : nat) (etr : option nat) (x : list T)
             (eom : bool) (y : list T) (m M : T),
        chan_modulate T t0 tadd tmul has_bw tr etr kern x true eom = Ok y ->
        Forall (fun v : T => tle m v /\ tle v M) x ->
        Forall (fun v : T => tle m v /\ tle v M) y.
Proof. exact modulate_keep_ends_bounds. Qed.
Print Assumptions C14_modulate_keep_ends_bounds.

(** the signal is extended by one rise time (of the selected bandwidth) at
    each end; holds for every number type, the float instance included *)
Theorem C14_modulate_extends_by_rise_time :
  forall (T : Type) (t0 : T) (tadd tmul : T -> T -> T)
         (kern : bool -> nat -> nat -> T) (has_bw : bool) (tr : nat)
         (etr : option nat) (x : list T) (eom : bool) (y : list T),
    chan_modulate T t0 tadd tmul has_bw tr etr kern x false eom = Ok y ->
    length y
    = (length x + 2 * match sel_pad has_bw tr etr eom with
                      | Some p => p
                      | None => 0
                      end)%nat.
Proof. exact modulate_length. Qed.
Print Assumptions C14_modulate_extends_by_rise_time.

(** the integer model of lengths and failures (used for sequences) agrees
    with the list model in every case, [keep_ends] and EOM included *)
Theorem C14_modulate_length_model_correct :
  forall (T : Type) (t0 : T) (tadd tmul : T -> T -> T)
         (kern : bool -> nat -> nat -> T) (has_bw : bool) (tr : nat)
         (etr : option nat) (x : list T) (keep_ends eom : bool),
    match chan_modulate T t0 tadd tmul has_bw tr etr kern x keep_ends eom with
    | Ok y =>
        chan_modulate_len has_bw (Z.of_nat tr)
          match etr with Some p => Some (Z.of_nat p) | None => None end
          (Z.of_nat (length x)) keep_ends eom = Ok (Z.of_nat (length y))
    | Err e =>
        chan_modulate_len has_bw (Z.of_nat tr)
          match etr with Some p => Some (Z.of_nat p) | None => None end
          (Z.of_nat (length x)) keep_ends eom = Err e
    end.
Proof. exact chan_modulate_len_correct. Qed.
Print Assumptions C14_modulate_length_model_correct.

(** a tone is scaled by the kernel's transfer function at its frequency
    (the run-time check validates that this gain is 1/2 at the bandwidth) *)
Theorem C14_tone_scaled_by_transfer_function :
  forall (T : Type) (t0 t1 : T) (tadd tmul tsub : T -> T -> T)
         (topp : T -> T) (tle : T -> T -> Prop),
    ordered_ring T t0 t1 tadd tmul tsub topp tle ->
    forall (w : nat -> T) (N : nat) (c s : nat -> T) (n : nat),
      (n < N)%nat ->
      (forall a b : nat, (a < N)%nat -> (b < N)%nat ->
         c (cidx N a b) = tadd (tmul (c a) (c b)) (tmul (s a) (s b))) ->
      sumn T t0 tadd N (fun k : nat => tmul (s k) (w k)) = t0 ->
      cconvf T t0 tadd tmul w N c n
      = tmul (sumn T t0 tadd N (fun k : nat => tmul (c k) (w k))) (c n).
Proof. exact cconvf_tone. Qed.
Print Assumptions C14_tone_scaled_by_transfer_function.

(** tail of an isolated pulse: [e] samples past the end of the input the
    output is within the peak times the kernel mass on offsets e+1..e+len *)
Theorem C14_tail_bound :
  forall (T : Type) (t0 t1 : T) (tadd tmul tsub : T -> T -> T)
         (topp : T -> T) (tle : T -> T -> Prop),
    ordered_ring T t0 t1 tadd tmul tsub topp tle ->
    forall kern : bool -> nat -> nat -> T,
      (forall (e : bool) (N k : nat), (k < N)%nat -> tle t0 (kern e N k)) ->
      forall (has_bw : bool) (tr : nat) (etr : option nat) (x : list T)
             (eom : bool) (y : list T) (p e : nat) (B : T),
        chan_modulate T t0 tadd tmul has_bw tr etr kern x false eom = Ok y ->
        sel_pad has_bw tr etr eom = Some p ->
        (e < p)%nat ->
        tle t0 B ->
        Forall (fun v : T => tle (topp B) v /\ tle v B) x ->
        let N := (length x + 2 * p)%nat in
        let out := nth (p + length x + e) y t0 in
        let tm :=
          sumn T t0 tadd N
            (fun k : nat => if far_set e (length x) k then kern eom N k else t0) in
        tle (topp (tmul B tm)) out /\ tle out (tmul B tm).
Proof. exact modulate_tail_bound. Qed.
Print Assumptions C14_tail_bound.

(** buffers never exceed the rise time; the fall time lies in [tr, 2 tr] *)
Theorem C14_buffers_bounded :
  forall tr thr input modl s e,
    (0 < tr)%nat ->
    calc_buffers tr thr input modl = Ok (s, e) -> (s <= tr /\ e <= tr)%nat.
Proof. exact calc_buffers_bounds. Qed.
Print Assumptions C14_buffers_bounded.

Theorem C14_fall_time_bounds :
  forall (tr : nat) (etr : option nat) (in_eom : bool) (ea ed f : nat),
    (ea <= match (if in_eom then etr else Some tr) with Some p => p | None => 0 end)%nat ->
    (ed <= match (if in_eom then etr else Some tr) with Some p => p | None => 0 end)%nat ->
    fall_time tr etr in_eom ea ed = Ok f ->
    let r := match (if in_eom then etr else Some tr) with Some p => p | None => 0%nat end in
    (r <= f /\ f <= 2 * r)%nat.
Proof. exact fall_time_bounds. Qed.
Print Assumptions C14_fall_time_bounds.

(** the end buffer is the first sample of the trailing window within the
    allowed difference ... *)
Theorem C14_end_buffer_is_first_within :
  forall tr thr input modl s e d,
    diffs_ok thr (pad0 float zero tr input) modl = Ok d ->
    calc_buffers tr thr input modl = Ok (s, e) ->
    let tail := py_from d (- Z.of_nat tr) in
    (forall k, (k < e)%nat -> nth k tail false = false)
    /\ ((e < length tail)%nat -> first_true tail <> None -> nth e tail false = true).
Proof. exact end_buffer_is_first_within. Qed.
Print Assumptions C14_end_buffer_is_first_within.

(** ... which does NOT make the output stay within it afterwards (finding:
    sign-changing waveforms, replay corpus/C14/tail_sign_change.json) *)
Theorem C14_end_buffer_not_stays_below_refuted :
  exists (tr : nat) (input modl : list float) (s e : nat) (k : nat),
    calc_buffers tr f_thr_default input modl = Ok (s, e)
    /\ (e < k)%nat /\ (k < tr)%nat
    /\ f_le (abs (nth (length input + tr + k) modl zero)) f_thr_default = false.
Proof. exact end_buffer_not_stays_below_refuted. Qed.
Print Assumptions C14_end_buffer_not_stays_below_refuted.

(** every channel state of the scheduler model whose pulses have fall times
    of at most 2R: the duration including fall time exceeds the plain
    duration by at most 2R (so the modulated arrays are long enough) *)
Theorem C14_duration_with_fall_bounds :
  forall (c : chan) (R : Z),
    (0 <= R)%Z ->
    Forall (fun s => (s_tf s <= ch_duration c false)%Z /\
                     match s_kind s with
                     | KPulse p => (0 <= pfall (in_eom c) p <= 2 * R)%Z
                     | _ => True
                     end) (ch_slots c) ->
    (ch_duration c false <= ch_duration c true <= ch_duration c false + 2 * R)%Z.
Proof. exact duration_with_fall_bounds. Qed.
Print Assumptions C14_duration_with_fall_bounds.

(** modulated sampling of a channel holding at least one instruction returns
    arrays ending at the channel duration including fall time *)
Theorem C14_modulated_len :
  forall m,
    (0 < ms_d m)%Z -> (ms_d m <= ms_D m)%Z ->
    (ms_has_bw m = true -> 0 < ms_tr m)%Z ->
    (ms_has_bw m = false -> ms_D m = ms_d m) ->
    (ms_blocks m <= 0 -> ms_D m <= ms_d m + 2 * ms_tr m)%Z ->
    (0 < ms_blocks m ->
       (ms_D m <= ms_d m + 2 * Z.max (ms_tr m) (ms_etr m))%Z
       /\ exists ebw bt, ms_eom m = Some (ebw, bt)
                         /\ bw_constructible (eom_buffer_bw bt) = true)%Z ->
    samples_modulate_len m = Ok (ms_D m, ms_D m, ms_D m).
Proof. exact modulated_len. Qed.
Print Assumptions C14_modulated_len.

(** a channel left empty: fine without a bandwidth, raises with one *)
Theorem C14_modulated_len_empty :
  forall m,
    ms_d m = 0%Z -> ms_D m = 0%Z -> (ms_blocks m <= 0)%Z ->
    (ms_has_bw m = true -> 0 < ms_tr m)%Z ->
    samples_modulate_len m
    = if ms_has_bw m then Err EValue else Ok (0, 0, 0)%Z.
Proof. exact modulated_len_empty. Qed.
Print Assumptions C14_modulated_len_empty.

(** "modulated sampling succeeds whenever plain sampling does": refuted
    (replays corpus/C14/empty_channel.json, corpus/C14/eom_buffer_1ns.json) *)
Theorem C14_modulated_sampling_total_refuted :
  exists m, ms_d m = 0%Z /\ ms_D m = 0%Z /\ ms_blocks m = 0%Z
            /\ samples_modulate_len m = Err EValue.
Proof. exact modulated_sampling_total_refuted. Qed.
Print Assumptions C14_modulated_sampling_total_refuted.

Theorem C14_modulated_sampling_eom_buffer_refuted :
  exists m, (0 < ms_d m)%Z /\ (ms_d m <= ms_D m)%Z /\ (0 < ms_blocks m)%Z
            /\ samples_modulate_len m = Err ENotImpl.
Proof. exact modulated_sampling_eom_buffer_refuted. Qed.
Print Assumptions C14_modulated_sampling_eom_buffer_refuted.
