(** C08 - building a parametrized sequence equals direct construction: property theorems.
    Statements only; proofs are in Proofs/Param{Cache,Build,Reg,Refute,Round}.v. *)
From Coq Require Import ZArith List Bool Lia PrimFloat.
From PV Require Import Model.Base Model.Param Proofs.ParamCache Proofs.ParamBuild Proofs.ParamReg Proofs.ParamRefute Proofs.ParamRound.
Import ListNotations.
Open Scope Z_scope.

Theorem C08_cache_sound :
  forall (ofun : Z -> float -> float) (opow : float -> float -> float) (vs : vstore) 
         (h : heap) (id : nat) (h' : heap) (r : res value),
       wf h ->
       Valid ofun opow vs h ->
       (id < length h)%nat ->
       pbuild ofun opow (length h) vs h id = (h', r) ->
       r = eval ofun opow vs h id /\
       shape h' = shape h /\ (forall v : value, r = Ok v -> Valid ofun opow vs h').
Proof. exact cache_sound. Qed.
Print Assumptions C08_cache_sound.

Theorem C08_build_keeps_bounded :
  forall (ofun : Z -> float -> float) (opow : float -> float -> float) (f : nat) 
         (vs : vstore) (h : heap) (id : nat) (h' : heap) (r : res value),
       Bounded vs h -> pbuild ofun opow f vs h id = (h', r) -> Bounded vs h'.
Proof. exact build_keeps_bounded. Qed.
Print Assumptions C08_build_keeps_bounded.

Theorem C08_reassigned_valid :
  forall (ofun : Z -> float -> float) (opow : float -> float -> float) (vs vs' : vstore) (h : heap),
       Bounded vs h ->
       (forall (i : nat) (o : pobj) (n : Z),
        nth_error h i = Some (HObj o) -> In n (po_vars o) -> vcount vs n < vcount vs' n) ->
       Valid ofun opow vs' h.
Proof. exact reassigned_valid. Qed.
Print Assumptions C08_reassigned_valid.

Theorem C08_cache_stale_after_failed_build_refuted :
  snd (pbuild w_ofun w_opow 3 w_vs1 w_heap0 2) = Ok (VO CLS_CONST [VN (NI 5); VN (NF 1)]) /\
       snd (pbuild w_ofun w_opow 3 w_vs2 w_h1 2) = Err EValue /\
       wf w_h2 /\
       Bounded w_vs2 w_h2 /\
       snd (pbuild w_ofun w_opow (length w_h2) w_vs2 w_h2 2) = Ok (VO CLS_CONST [VN (NI 5); VN (NF 1)]) /\
       eval w_ofun w_opow w_vs2 w_h2 2 = Err EValue.
Proof. exact cache_stale_after_failed_build_refuted. Qed.
Print Assumptions C08_cache_stale_after_failed_build_refuted.

Theorem C08_build_cache_transparent :
  forall (ofun : Z -> float -> float) (opow : float -> float -> float) (S : Type)
         (cstep : S -> ccall -> res S) (cset_reg : S -> list (Z * Z) -> res S) (t : tmpl S) 
         (s0 : S) (mp : option (list Z * Z)) (ps : pstate) (q : option (list (Z * Z)))
         (env : list (Z * list num)) (ps' : pstate) (r : res S),
       Inv S t ps ->
       build ofun opow S cstep cset_reg t s0 mp ps q env = (ps', r) ->
       r = build_spec ofun opow S cstep cset_reg t s0 mp (ps_vars ps) (ps_heap ps) q env /\
       Inv S t ps' /\ shape (ps_heap ps') = shape (ps_heap ps).
Proof. exact build_cache_transparent. Qed.
Print Assumptions C08_build_cache_transparent.

Theorem C08_build_ignores_caches :
  forall (ofun : Z -> float -> float) (opow : float -> float -> float) (S : Type)
         (cstep : S -> ccall -> res S) (cset_reg : S -> list (Z * Z) -> res S) (t : tmpl S) 
         (s0 : S) (mp : option (list Z * Z)) (vs : vstore) (h1 h2 : heap) (q : option (list (Z * Z)))
         (env : list (Z * list num)),
       Inv S t {| ps_vars := vs; ps_heap := h1 |} ->
       Inv S t {| ps_vars := vs; ps_heap := h2 |} ->
       shape h1 = shape h2 ->
       snd (build ofun opow S cstep cset_reg t s0 mp {| ps_vars := vs; ps_heap := h1 |} q env) =
       snd (build ofun opow S cstep cset_reg t s0 mp {| ps_vars := vs; ps_heap := h2 |} q env).
Proof. exact build_ignores_caches. Qed.
Print Assumptions C08_build_ignores_caches.

Theorem C08_logs_issue_order :
  forall (S : Type) (cstep : S -> ccall -> res S)
         (pcheck : list pcall -> list pcall -> pcall -> res unit) (hist : list icall) 
         (t t' : tmpl S) (h : heap),
       (t_building t = true -> t_tobuild t = []) ->
       all_lits (t_calls t) ->
       Forall plain hist ->
       no_late_declare (t_building t) hist ->
       trun S cstep pcheck t h hist = (t', true) ->
       t_calls t' ++ t_tobuild t' = t_calls t ++ t_tobuild t ++ map issued hist /\
       (t_building t' = true -> t_tobuild t' = []) /\ all_lits (t_calls t').
Proof. exact logs_issue_order. Qed.
Print Assumptions C08_logs_issue_order.

Theorem C08_build_eq_direct :
  forall (ofun : Z -> float -> float) (opow : float -> float -> float) (S : Type)
         (cstep : S -> ccall -> res S) (pcheck : list pcall -> list pcall -> pcall -> res unit)
         (cset_reg : S -> list (Z * Z) -> res S) (hist : list icall) (h : heap) (live : S) 
         (decl : list Z) (t : tmpl S) (s0 : S) (ps : pstate) (env : list (Z * list num)) 
         (vs1 : vstore) (ps' : pstate) (r : res S),
       trun S cstep pcheck
         {| t_building := true; t_live := live; t_calls := []; t_tobuild := []; t_decl := decl |} h hist =
       (t, true) ->
       Forall plain hist ->
       no_late_declare true hist ->
       Forall flat_call (map issued hist) ->
       Inv S t ps ->
       t_building t = false ->
       cross_check S t env = true ->
       assign_all (ps_vars ps) (env_known S t env) = (vs1, Ok tt) ->
       build ofun opow S cstep cset_reg t s0 None ps None env = (ps', r) ->
       r = direct_run ofun opow S cstep true vs1 (ps_heap ps) s0 (map issued hist).
Proof. exact build_eq_direct. Qed.
Print Assumptions C08_build_eq_direct.

Theorem C08_late_declare_reordered_refuted :
  exists (t : tmpl Z) (vs1 : vstore) (r : Z),
         trun Z r_order r_pcheck (r_t0 0) r_heap r_hist_late = (t, true) /\
         Forall plain r_hist_late /\
         Forall flat_call (map issued r_hist_late) /\
         assign_all (ps_vars r_ps) (env_known Z t r_env) = (vs1, Ok tt) /\
         snd (build r_ofun r_opow Z r_order r_setreg t 0 None r_ps None r_env) = Ok r /\
         direct_run r_ofun r_opow Z r_order true vs1 r_heap 0 (map issued r_hist_late) = Ok 192 /\ r = 129.
Proof. exact late_declare_reordered_refuted. Qed.
Print Assumptions C08_late_declare_reordered_refuted.

Theorem C08_nested_variable_not_built_refuted :
  exists (t : tmpl Z) (vs1 : vstore),
         trun Z r_count r_pcheck (r_t0 0) r_heap r_hist_nested = (t, true) /\
         Forall plain r_hist_nested /\
         no_late_declare true r_hist_nested /\
         assign_all (ps_vars r_ps) (env_known Z t r_env) = (vs1, Ok tt) /\
         snd (build r_ofun r_opow Z r_count r_setreg t 0 None r_ps None r_env) = Ok 1 /\
         direct_run r_ofun r_opow Z r_count true vs1 r_heap 0 (map issued r_hist_nested) = Ok 0.
Proof. exact nested_variable_not_built_refuted. Qed.
Print Assumptions C08_nested_variable_not_built_refuted.

Theorem C08_build_eq_direct_applies :
  exists t : tmpl Z,
         trun Z r_order r_pcheck (r_t0 0) r_heap r_hist_good = (t, true) /\
         Forall plain r_hist_good /\
         no_late_declare true r_hist_good /\
         Forall flat_call (map issued r_hist_good) /\
         Inv Z t r_ps /\
         t_building t = false /\
         cross_check Z t r_env = true /\
         snd (build r_ofun r_opow Z r_order r_setreg t 0 None r_ps None r_env) = Ok 129.
Proof. exact build_eq_direct_applies. Qed.
Print Assumptions C08_build_eq_direct_applies.

Theorem C08_mappable_resolve :
  forall (declared : list Z) (ntraps : Z) (qubits reg : list (Z * Z)),
       NoDup declared ->
       NoDup (map fst qubits) ->
       build_register declared ntraps qubits = Ok reg ->
       map fst reg = firstn (length qubits) declared /\
       length reg = length qubits /\
       (forall id t : Z, In (id, t) reg -> zassoc qubits id = Some t /\ In (id, t) qubits) /\
       NoDup (map snd reg) /\
       (forall id t : Z, In (id, t) reg -> 0 <= t < ntraps) /\
       (forall i : Z,
        0 <= i < Z.of_nat (length qubits) ->
        exists id : Z, resolve_index reg i = Ok id /\ nth_error declared (Z.to_nat i) = Some id).
Proof. exact mappable_resolve. Qed.
Print Assumptions C08_mappable_resolve.

Theorem C08_mappable_rejects_non_prefix :
  forall (declared : list Z) (ntraps : Z) (qubits : list (Z * Z)),
       ~
       (incl (map fst qubits) (firstn (length qubits) declared) /\
        incl (firstn (length qubits) declared) (map fst qubits)) ->
       exists e : err, build_register declared ntraps qubits = Err e.
Proof. exact mappable_rejects_non_prefix. Qed.
Print Assumptions C08_mappable_rejects_non_prefix.

Theorem C08_rint_half_to_even :
  forall k : Z,
       0 <= k < 4096 ->
       let e := if Z.even k then k else k + 1 in
       f_biteq (f_rint (f_of_Z k + half)) (f_of_Z e) = true /\
       f_biteq (f_rint (- (f_of_Z k + half))) (- f_of_Z e) = true.
Proof. exact rint_half_to_even. Qed.
Print Assumptions C08_rint_half_to_even.

Theorem C08_round_sugar_ties :
  round_at false 1 (NF 500.5) = Ok (VN (NF 500)) /\
       round_at false 1 (NF 501.5) = Ok (VN (NF 502)) /\
       round_at false 1 (NF 250.5) = Ok (VN (NF 250)) /\
       round_at false 10 (NF 0.25) = Ok (VN (NF 0.20000000000000001)) /\
       round_at false 10 (NF 0.75) = Ok (VN (NF 0.80000000000000004)) /\
       round_at false 100 (NF 0.125) = Ok (VN (NF 0.12)) /\
       round_at false 1 (NF 2.5) = Ok (VN (NF 2)) /\ round_at false 1 (NF (-0.5)) = Ok (VN (NF (- 0))).
Proof. exact round_sugar_ties. Qed.
Print Assumptions C08_round_sugar_ties.

Theorem C08_find_indices_spec :
  forall declared ids : list Z,
       (incl ids declared ->
        exists idx : list Z,
          find_indices declared ids = Ok idx /\
          length idx = length ids /\
          (forall (k : nat) (id : Z),
           nth_error ids k = Some id ->
           exists i : Z, nth_error idx k = Some i /\ 0 <= i /\ nth_error declared (Z.to_nat i) = Some id)) /\
       (~ incl ids declared -> find_indices declared ids = Err EValue).
Proof. exact find_indices_spec. Qed.
Print Assumptions C08_find_indices_spec.

Theorem C08_find_indices_all_declared :
  find_indices [7; 3; 9] [9; 7; 3; 9] = Ok [2; 0; 1; 2] /\ find_indices [5] [5] = Ok [0].
Proof. exact find_indices_all_declared. Qed.
Print Assumptions C08_find_indices_all_declared.
