(** C12 - a device accepts exactly the registers and layouts that fit its
    geometry.  Property theorems (proofs in Proofs/DevGeoP.v, Proofs/DevGeoQ.v;
    model in Model/DevGeo.v). *)
From Coq Require Import ZArith List Bool Sorted.
From Coq Require Import Uint63 FloatOps SpecFloat PrimFloat.
From PV Require Import Model.Base Model.DevGeo Proofs.DevGeoP Proofs.DevGeoQ.
Import ListNotations.
Open Scope Z_scope.

(** acceptance of a register (validate_register, Sequence(register, device))
    is exactly: it is a register, its dimensionality is supported, no more
    atoms than allowed, every pair respects the minimal distance and is
    distinct, every atom within the radius and, with a layout: allowed trap
    count, valid trap geometry, filling within int(n_traps * max_filling) *)
Theorem validate_register_iff : forall dv rg,
  validate_register dv rg = GOk <-> fits_register dv rg.
Proof. exact DevGeoP.validate_register_iff. Qed.
Print Assumptions validate_register_iff.

(** the same for a layout alone and for Sequence(MappableRegister, device) *)
Theorem validate_layout_iff : forall dv ly,
  validate_layout dv ly = GOk <-> fits_layout dv ly.
Proof. exact DevGeoP.validate_layout_ok_iff. Qed.
Print Assumptions validate_layout_iff.

Theorem validate_mappable_iff : forall dv ly n,
  validate_mappable dv ly n = GOk <-> fits_layout dv ly /\ filling_ok dv n (zlen (l_traps ly)).
Proof. exact DevGeoP.validate_mappable_iff. Qed.
Print Assumptions validate_mappable_iff.

(** the reported culprits (atoms unwrapped, traps wrapped) are exactly the
    violating pairs / atoms, each once, in register order *)
Theorem culprits_exact : forall dv rg,
  (forall k bp, validate_register dv rg = GErr (GDist k bp) ->
     k = KATOMS /\ StronglySorted lexlt bp
     /\ forall i j, In (i, j) bp <-> violating_pair dv (r_pts rg) i j)
  /\ (forall k ids, validate_register dv rg = GErr (GRadius k ids) ->
     k = KATOMS /\ StronglySorted Z.lt ids
     /\ exists R, g_max_radial dv = Some R /\ forall i, In i ids <-> violating_atom R (r_pts rg) i)
  /\ (forall k bp, validate_register dv rg = GErr (GWrap (GDist k bp)) ->
     exists ly, r_layout rg = Some ly /\ k = KTRAPS /\ StronglySorted lexlt bp
     /\ forall i j, In (i, j) bp <-> violating_pair dv (l_traps ly) i j)
  /\ (forall k ids, validate_register dv rg = GErr (GWrap (GRadius k ids)) ->
     exists ly, r_layout rg = Some ly /\ k = KTRAPS /\ StronglySorted Z.lt ids
     /\ exists R, g_max_radial dv = Some R /\ forall i, In i ids <-> violating_atom R (l_traps ly) i).
Proof. exact DevGeoP.register_culprits_exact. Qed.
Print Assumptions culprits_exact.

(** a parameter combination constructs iff it satisfies the documented
    constraints (None only where optional for the class) *)
Theorem device_params_complete : forall p, post_init p = DOk <-> valid_params p.
Proof. exact DevGeoQ.post_init_iff. Qed.
Print Assumptions device_params_complete.

(** max_connectivity: any two atoms of the pattern are distinct lattice points,
    hence at least one spacing apart (exact arithmetic; n up to HEX_BOUND = 400) *)
Theorem hex_lattice_min_dist : forall n i j p q, 1 <= n <= HEX_BOUND -> i <> j ->
  nth_error (hex_eis n) i = Some p -> nth_error (hex_eis n) j = Some q ->
  1 <= e_norm (e_sub p q).
Proof. exact DevGeoQ.hex_min_dist. Qed.
Print Assumptions hex_lattice_min_dist.

(** the doubles the code computes are those lattice points, and there are n of them *)
Theorem hex_float_is_lattice : forall n, 1 <= n <= HEX_BOUND ->
  agree_all (hex_float n) (hex_eis n) = true /\ zlen (hex_eis n) = n.
Proof. exact DevGeoQ.hex_float_is_lattice. Qed.
Print Assumptions hex_float_is_lattice.

(** automatic layout: the traps are the atoms followed by mesh points, each
    further than the minimal distance from every atom and from every trap
    added before, and at least the computed minimal number of traps *)
Theorem layout_gen_valid : forall mesh seeds mind fill opt mt mx traps,
  gen_traps mesh seeds mind fill opt mt mx = LGOk traps ->
  exists added, traps = seeds ++ added
    /\ (forall a, In a added -> In a mesh /\ forall s, In s seeds -> f_gt (dist a s) mind = true)
    /\ separated (fun c t => f_gt (dist c t) mind) added
    /\ lg_min_traps (zlen seeds) fill mt <= zlen traps
    /\ zlen traps <= Z.max (zlen seeds) (lg_target (zlen seeds) fill opt mt mx).
Proof. exact DevGeoQ.gen_traps_sound. Qed.
Print Assumptions layout_gen_valid.

(** ... and for max_layout_filling = 0.5 (all stock devices) that number of
    traps passes the device's filling check, for every n up to 2000 *)
Theorem layout_gen_filling_half_partial : forall n, 1 <= n <= 2000 ->
  validate_filling half_dev n (lg_min_traps n 0x1p-1%float 1) = GOk.
Proof. exact DevGeoQ.fill_half_ok. Qed.
Print Assumptions layout_gen_filling_half_partial.

(** Refuted on the faithful model (each witness is replayed on the implementation) *)
Theorem max_connectivity_radius_refuted :
  exists dv n sp pts ids,
    max_connectivity dv n sp = MCOk pts
    /\ validate_register dv {| r_is_reg := true; r_dim := 2; r_pts := pts; r_layout := None |}
       = GErr (GRadius KATOMS ids).
Proof. exact DevGeoQ.max_connectivity_radius_refuted. Qed.
Print Assumptions max_connectivity_radius_refuted.

Theorem max_connectivity_distinct_refuted :
  exists dv n sp pts bp,
    max_connectivity dv n sp = MCOk pts
    /\ validate_register dv {| r_is_reg := true; r_dim := 2; r_pts := pts; r_layout := None |}
       = GErr (GDist KATOMS bp).
Proof. exact DevGeoQ.max_connectivity_distinct_refuted. Qed.
Print Assumptions max_connectivity_distinct_refuted.

Theorem auto_layout_filling_refuted :
  exists dv n, 1 <= n /\
    validate_filling dv n (lg_min_traps n (g_max_fill dv) (g_min_traps dv)) = GErr (GQubits n (n - 1)).
Proof. exact DevGeoQ.auto_layout_filling_refuted. Qed.
Print Assumptions auto_layout_filling_refuted.

Theorem nan_coordinate_refuted :
  exists dv rg, existsb has_nan (r_pts rg) = true /\ validate_register dv rg = GOk.
Proof. exact DevGeoQ.nan_coordinate_refuted. Qed.
Print Assumptions nan_coordinate_refuted.
