(** C01 - every scheduled pulse respects the limits of its channel and device.
    Property theorems only. *)
From Coq Require Import ZArith List Bool.
From Coq Require Import PrimFloat.
From PV Require Import Model.Base Model.Sched Model.Chan Model.Seq.
From PV Require Gen.PureLimits Proofs.PureLimitsEq.
From PV Require Proofs.SourceTie.
From PV Require Import Proofs.SchedInv Proofs.SeqInv Proofs.LimitsSpec.
Import ListNotations.
Open Scope Z_scope.

(** In every reachable state of every history on every configuration, every
    scheduled pulse lasts a whole number of clock periods, at least the
    channel's minimum duration, occupies exactly its duration and ends within
    the device's maximum sequence duration. *)
Theorem C01_scheduled_pulse_durations :
  forall v ops c sl p,
    senv_ok v -> In c (q_sched (run v ops)) -> In sl (ch_slots c) -> s_kind sl = KPulse p ->
    s_tf sl - s_ti sl = p_dur p /\ c_min (ch_cfg c) <= p_dur p /\
    (c_clock (ch_cfg c) | p_dur p) /\ le_opt (s_tf sl) (d_maxseq (v_dev v)).
Proof. exact scheduled_pulse_durations. Qed.
Print Assumptions C01_scheduled_pulse_durations.

(** ... its amplitude is never above the channel's maximum (on the maximum
    over its samples that the model keeps of every pulse), ... *)
Theorem C01_scheduled_amplitude_within_max :
  forall v ops c sl p m,
    senv_ok v -> In c (q_sched (run v ops)) -> In sl (ch_slots c) -> s_kind sl = KPulse p ->
    c_maxamp (ch_cfg c) = Some m -> f_gt (p_amax p) m = false.
Proof. exact scheduled_amplitude_within_max. Qed.
Print Assumptions C01_scheduled_amplitude_within_max.

(** ... and so does every other instruction (automatic delays, retargets, EOM
    buffers): the whole sequence is no longer than the device maximum. *)
Theorem C01_sequence_within_device_max :
  forall v ops c sl,
    senv_ok v -> In c (q_sched (run v ops)) -> In sl (ch_slots c) ->
    le_opt (s_tf sl) (d_maxseq (v_dev v)).
Proof. exact sequence_within_device_max. Qed.
Print Assumptions C01_sequence_within_device_max.

(** Accept/reject of a pulse on a channel is exactly the three documented
    comparisons; limits that are undefined constrain nothing. *)
Theorem C01_validate_pulse_iff :
  forall g u,
    validate_pulse g u = Ok tt <->
    (match c_maxamp g with Some m => f_gt (u_amax u) m = false | None => True end) /\
    (match c_maxdet g with Some m => f_gt (f_round6 (u_dabsmax u)) m = false | None => True end) /\
    (f_lt zero (u_avg u) && f_lt (u_avg u) (c_minavg g) = false).
Proof. exact validate_pulse_iff. Qed.
Print Assumptions C01_validate_pulse_iff.

Theorem C01_undefined_limits_constrain_nothing :
  forall g u,
    c_maxamp g = None -> c_maxdet g = None ->
    validate_pulse g u = Ok tt <-> (f_lt zero (u_avg u) && f_lt (u_avg u) (c_minavg g) = false).
Proof. exact undefined_limits_constrain_nothing. Qed.
Print Assumptions C01_undefined_limits_constrain_nothing.

Theorem C01_validate_pulse_dmm_iff :
  forall g w u,
    validate_pulse_dmm g w u = Ok tt <->
    validate_pulse g u = Ok tt /\
    f_gt (f_round6 (u_dmax u)) zero = false /\
    (match c_bottom g with Some b => f_lt (fst w * f_round6 (u_dmin u))%float b = false | None => True end) /\
    (match c_totbottom g with Some b => f_lt (snd w * f_round6 (u_dmin u))%float b = false | None => True end).
Proof. exact validate_pulse_dmm_iff. Qed.
Print Assumptions C01_validate_pulse_dmm_iff.

(** A pulse handed to the scheduler was accepted by its channel and its
    duration is the requested one, unchanged when a clock multiple and
    otherwise lengthened to the next clock multiple. *)
Theorem C01_adjusted_pulse :
  forall v c u pr p,
    cfg_ok (ch_cfg c) -> c_dmm (ch_cfg c) = false ->
    validate_and_adjust v c u pr = Ok p ->
    validate_pulse (ch_cfg c) u = Ok tt /\
    u_dur u <= p_dur p < u_dur u + c_clock (ch_cfg c) /\
    (c_clock (ch_cfg c) | p_dur p) /\
    ((c_clock (ch_cfg c) | u_dur u) -> p_dur p = u_dur u) /\
    c_min (ch_cfg c) <= u_dur u /\
    match c_max (ch_cfg c) with Some m => u_dur u <= m | None => True end.
Proof. exact adjusted_pulse_spec. Qed.
Print Assumptions C01_adjusted_pulse.

(** Conversely a pulse inside every limit is accepted. *)
Theorem C01_within_limits_accepted :
  forall v c u pr,
    cfg_ok (ch_cfg c) -> c_dmm (ch_cfg c) = false ->
    validate_pulse (ch_cfg c) u = Ok tt ->
    c_min (ch_cfg c) <= u_dur u ->
    match c_max (ch_cfg c) with Some m => u_dur u <= m | None => True end ->
    (u_ext u = true \/ (c_clock (ch_cfg c) | u_dur u)) ->
    exists p, validate_and_adjust v c u pr = Ok p.
Proof. exact within_limits_accepted. Qed.
Print Assumptions C01_within_limits_accepted.

(** The clause "scheduled duration at most the channel's maximum duration" is
    FALSE of the faithful model (and of the code): known finding. *)
Theorem C01_rounded_duration_within_max_refuted :
  exists g d d', cfg_ok g /\ validate_duration g d = Ok d' /\
                 match c_max g with Some m => d' > m | None => False end.
Proof. exact rounded_duration_within_max_refuted. Qed.
Print Assumptions C01_rounded_duration_within_max_refuted.

Theorem C01_rounded_duration_within_max_partial :
  forall g d d' m,
    cfg_ok g -> c_max g = Some m -> (c_clock g | m) ->
    validate_duration g d = Ok d' -> d' <= m.
Proof. exact rounded_duration_within_max_partial. Qed.
Print Assumptions C01_rounded_duration_within_max_partial.

(** Tie to the source by translation: the limit checks the theorems above are
    stated over are EQUAL to the functions regenerated from the current source of
    Channel.validate_pulse and DMM.validate_pulse by translate/tr_pure.py, with
    numpy's reductions read through the pulse's sample summary
    (np.any(X > c) = (max X > c), np.any(X < c) = (min X < c),
    max (round6 X) = round6 (max X), max |X| = max-abs X). *)
Theorem C01_source_validate_pulse :
  forall (c : ccfg) (u : upulse),
    Gen.PureLimits.gen_validate_pulse (c_maxamp c) (c_maxdet c) (c_minavg c)
      (u_amax u) (u_avg u) (u_dabsmax u) = validate_pulse c u.
Proof. exact PureLimitsEq.validate_pulse_eq. Qed.
Print Assumptions C01_source_validate_pulse.

Theorem C01_source_validate_pulse_dmm :
  forall (c : ccfg) (w : float * float) (u : upulse),
    Gen.PureLimits.gen_validate_pulse_dmm (c_maxamp c) (c_maxdet c) (c_minavg c)
      (u_amax u) (u_avg u) (u_dabsmax u) (c_bottom c) (c_totbottom c)
      (u_dmax u) (u_dmin u) (fst w) (snd w) = validate_pulse_dmm c w u.
Proof. exact PureLimitsEq.validate_pulse_dmm_eq. Qed.
Print Assumptions C01_source_validate_pulse_dmm.

(** The whole translation tie of the scheduler (see Proofs/SourceTie.v): every
    scheduler function of the model this property's theorems rest on is equal to
    the function regenerated from the current source. *)
Theorem C01_source_scheduler : SourceTie.scheduler_tied.
Proof. exact SourceTie.scheduler_source_tie. Qed.
Print Assumptions C01_source_scheduler.
