(** C15 - EOM mode: square pulses, physical off-detuning, buffers, drift
    correction.  Property theorems only. *)
From Coq Require Import ZArith List Bool.
From Coq Require Import PrimFloat.
From PV Require Import Model.Base Model.Sched Model.Seq Model.Eom.
From PV Require Gen.Pure Gen.PureState Model.Chan Proofs.PureEq Proofs.PureStateEq.
From PV Require Proofs.SourceTie.
From PV Require Import Proofs.SchedInv Proofs.EomSpec.
Import ListNotations.
Open Scope Z_scope.

(** The chosen off-detuning is a member of the allowed set and no allowed
    value is strictly closer to the requested optimum (exact instance of the
    very function that runs, bit-exactly on floats, against the code). *)
Theorem C15_detuning_off_closest :
  forall opt opts r,
    closest_z opts opt = Some r ->
    In r opts /\ forall x, In x opts -> Z.abs (r - opt) <= Z.abs (x - opt).
Proof. exact closest_member_minimal. Qed.
Print Assumptions C15_detuning_off_closest.

Theorem C15_detuning_off_exists :
  forall opt opts, opts <> [] -> exists r, closest_z opts opt = Some r.
Proof. exact closest_nonempty. Qed.
Print Assumptions C15_detuning_off_exists.

(** Asking again with the chosen value as the optimum chooses it again (the
    recorded enable_eom_mode call reproduces the block). *)
Theorem C15_detuning_off_idempotent :
  forall opts opt r, closest_z opts opt = Some r -> closest_z opts r = Some r.
Proof. exact closest_idempotent. Qed.
Print Assumptions C15_detuning_off_idempotent.

(** An EOM pulse is built square with exactly the block's amplitude and
    detuning, and the scheduler never alters the payload it is given. *)
Theorem C15_eom_pulse_is_square :
  forall d rabi don phase post,
    let u := const_upulse d rabi don phase post in
    u_sum u = [rabi; rabi; don; don] /\ u_dur u = d /\ u_ext u = true /\
    u_dd u = f_eq rabi zero.
Proof. exact eom_pulse_payload. Qed.
Print Assumptions C15_eom_pulse_is_square.

Theorem C15_scheduler_keeps_payload :
  forall e p n bs proto dp block s s' sl,
    make_next_pulse_slot e p n bs proto dp block s = (s', Ok sl) ->
    exists p', s_kind sl = KPulse p' /\ p_sum p' = p_sum p /\ p_dd p' = p_dd p /\ p_dur p' = p_dur p.
Proof. exact mnps_payload. Qed.
Print Assumptions C15_scheduler_keeps_payload.

(** Idle time inside an EOM block with non-zero off-detuning is a
    zero-amplitude pulse at exactly that off-detuning; otherwise a delay. *)
Theorem C15_idle_is_off_detuning :
  forall e d n s s' c b rest,
    add_delay e d n s = (s', Ok tt) ->
    find_chan n s = Some c -> ch_eoms c = b :: rest ->
    exists c' sl r, find_chan n s' = Some c' /\ ch_slots c' = sl :: r /\ r = ch_slots c /\
      if in_eom c && f_ne (eb_doff b) zero
      then exists p, s_kind sl = KPulse p /\ p_dd p = true /\
                     p_sum p = [zero; zero; eb_doff b; eb_doff b] /\ p_dur p = s_tf sl - s_ti sl
      else s_kind sl = KDelay.
Proof. exact add_delay_kind. Qed.
Print Assumptions C15_idle_is_off_detuning.

(** Phase-drift correction: programming each pulse with its phase minus the
    accumulated idle rotation makes the whole evolution equal to the ideal
    pulses followed by one final rotation about z (which does not change
    populations) - in any monoid with a z-rotation homomorphism under which
    pulses are covariant (C07_virtual_z is that covariance for the qubit). *)
Theorem C15_drift_correction_cancels :
  forall (M : Type) (one : M) (mul : M -> M -> M),
    (forall a b c, mul a (mul b c) = mul (mul a b) c) ->
    (forall a, mul one a = a) -> (forall a, mul a one = a) ->
    forall (Zr U : Z -> M),
      Zr 0 = one -> (forall a b, Zr (a + b) = mul (Zr a) (Zr b)) ->
      (forall w u, mul (Zr w) (U u) = mul (U (u + w)) (Zr w)) ->
      forall l, corrected M one mul Zr U 0 l = mul (ideal M one mul U l) (Zr (total l)).
Proof. exact drift_correction_cancels_from_rest. Qed.
Print Assumptions C15_drift_correction_cancels.

(** Tie to the source by translation: the EOM buffer time and the EOM rise time
    are EQUAL to the functions regenerated from the current source
    (Channel._eom_buffer_time, BaseEOM.rise_time). *)
Theorem C15_source_eom_buffer_time :
  forall (rise : Z) (custom : option Z),
    Gen.Pure.gen_eom_buffer_time rise custom = Chan.eom_buffer_time_of rise custom.
Proof. exact PureEq.eom_buffer_time_eq. Qed.
Print Assumptions C15_source_eom_buffer_time.

Theorem C15_source_eom_rise_time :
  forall b : float,
    f_ne b zero = true -> Gen.Pure.gen_eom_rise_time b = Chan.rise_time (Some b).
Proof. exact PureEq.eom_rise_time_eq. Qed.
Print Assumptions C15_source_eom_rise_time.

(** ... and entering / leaving EOM mode at the scheduler level: the model's
    [enable_eom] and [disable_eom] ARE the monadic functions regenerated from the
    current source of _Schedule.enable_eom / _Schedule.disable_eom, on every state
    (no caller passes _skip_buffer to enable_eom: it is the constant False). *)
Theorem C15_source_enable_eom :
  forall (e : env) (n : Z) (amp_on det_on det_off : float) (skip_wait : bool) (s : sched),
    Gen.PureState.gen_enable_eom e n amp_on det_on det_off skip_wait s =
    enable_eom e n amp_on det_on det_off skip_wait s.
Proof. exact PureStateEq.enable_eom_eq. Qed.
Print Assumptions C15_source_enable_eom.

Theorem C15_source_disable_eom :
  forall (e : env) (n : Z) (skip : bool) (s : sched),
    Gen.PureState.gen_disable_eom e n skip s = disable_eom e n skip s.
Proof. exact PureStateEq.disable_eom_eq. Qed.
Print Assumptions C15_source_disable_eom.

(** The whole translation tie of the scheduler (see Proofs/SourceTie.v): every
    scheduler function of the model this property's theorems rest on is equal to
    the function regenerated from the current source. *)
Theorem C15_source_scheduler : SourceTie.scheduler_tied.
Proof. exact SourceTie.scheduler_source_tie. Qed.
Print Assumptions C15_source_scheduler.
