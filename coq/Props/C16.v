(** C16 - property theorems (placeholder while the proofs are being written) *)
From PV Require Import Model.Base Model.Wave.
