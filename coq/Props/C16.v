(** C16 - waveforms and pulses honour their defining contracts.

    Theorems quantified over [N : numops R] hold for every instance of the
    number operations, in particular for the IEEE-double instance [FN] that
    the correspondence ties to /repo bit for bit.  Theorems about [QN] are the
    exact-arithmetic (rational) reading of the algebraic clauses.  The
    [..._refuted] theorems exhibit, on the double instance, inputs on which
    the faithful model violates the property (replayed on /repo, listed in
    known_findings.d/C16.json). *)
From Coq Require Import ZArith QArith Qcanon List Bool.
From Coq Require Import PrimFloat.
From PV Require Import Model.Base Model.Wave Model.WaveQ.
From PV Require Import Proofs.Wave Proofs.WaveIdx Proofs.WaveQ Proofs.WaveF Proofs.WaveFK.
Import ListNotations.

(** ** every waveform has exactly [duration] samples (all classes, all durations) *)
Theorem C16_samples_length :
  forall (R : Type) (N : numops R) (E : env R),
    env_ok N E ->
    forall (w : wf R) (l : list R),
      validate N E w = Ok tt -> samples N E w = Ok l ->
      Z.of_nat (length l) = dur w /\ (0 < dur w)%Z.
Proof. exact @samples_length. Qed.
Print Assumptions C16_samples_length.

Theorem C16_samples_total :
  forall (R : Type) (N : numops R) (E : env R),
    env_ok N E -> forall w : wf R, validate N E w = Ok tt -> exists l, samples N E w = Ok l.
Proof. exact @samples_total. Qed.
Print Assumptions C16_samples_total.

(** finiteness FAILS for the degenerate durations 1 (ramp) and 2 (Blackman) *)
Theorem C16_finite_samples_refuted_ramp_d1 :
  exists a b l,
    f_finite a = true /\ f_finite b = true /\
    validate FN E_bm (WRamp 1 a b) = Ok tt /\
    samples FN E_bm (WRamp 1 a b) = Ok l /\ length l = 1%nat /\ nonfinite l = true.
Proof. exact ramp_d1_refuted. Qed.
Print Assumptions C16_finite_samples_refuted_ramp_d1.

Theorem C16_finite_samples_refuted_blackman_d2 :
  exists area l,
    f_finite area = true /\
    validate FN E_bm (WWin KBlackman 2 area zero) = Ok tt /\
    samples FN E_bm (WWin KBlackman 2 area zero) = Ok l /\ length l = 2%nat /\
    nonfinite l = true.
Proof. exact blackman_d2_refuted. Qed.
Print Assumptions C16_finite_samples_refuted_blackman_d2.

(** ** documented values *)
Theorem C16_constant_values :
  forall (R : Type) (N : numops R) (E : env R) (d : Z) (v : R) (i : Z),
    (0 <= i < d)%Z ->
    exists l, samples N E (WConst d v) = Ok l /\
              nth_error l (Z.to_nat i) = Some (nmul N v (n1 N)).
Proof. exact @const_values. Qed.
Print Assumptions C16_constant_values.

Theorem C16_composite_values :
  forall (R : Type) (N : numops R) (E : env R) (ws : list (wf R)),
    samples N E (WComp ws) = samples_list N E ws /\ dur (WComp ws) = dur_list ws.
Proof. exact @composite_values_n. Qed.
Print Assumptions C16_composite_values.

Theorem C16_ramp_values :
  forall (E : env Qc) (d : Z) (a b : Qc) (i : Z),
    (2 <= d)%Z -> (0 <= i < d)%Z ->
    exists l, samples QN E (WRamp d a b) = Ok l /\
              nth_error l (Z.to_nat i) =
              Some (a + (b - a) * (qc_ofZ i / qc_ofZ (d - 1)))%Qc.
Proof. exact ramp_samples_nth. Qed.
Print Assumptions C16_ramp_values.

Theorem C16_ramp_endpoints :
  forall (d : Z) (a b : Qc),
    (2 <= d)%Z -> ramp_sample QN d a b 0 = a /\ ramp_sample QN d a b (d - 1) = b.
Proof. exact ramp_endpoints. Qed.
Print Assumptions C16_ramp_endpoints.

(** ** indices and slices follow Python list semantics *)
Theorem C16_index_list_semantics :
  forall d i : Z,
    (0 <= d)%Z ->
    check_index d i = match py_index d i with Some j => Ok j | None => Err EIndex end.
Proof. exact check_index_spec. Qed.
Print Assumptions C16_index_list_semantics.

Theorem C16_slice_list_semantics :
  forall (A : Type) (l : list A) (start stop step : option Z),
    step = None \/ step = Some 1%Z ->
    exists a b,
      check_slice (Z.of_nat (length l)) start stop step = Ok (a, b) /\
      (0 <= a <= b)%Z /\ (b <= Z.of_nat (length l))%Z /\
      sub_list l a b = py_slice l start stop.
Proof. exact @check_slice_spec. Qed.
Print Assumptions C16_slice_list_semantics.

(** ** Blackman / Kaiser: np.sum is a sum, the integral is the area *)
Theorem C16_np_sum_is_sum : forall (fuel : nat) (l : list Qc), pw QN fuel l = qsum l.
Proof. exact pw_q. Qed.
Print Assumptions C16_np_sum_is_sum.

Theorem C16_area_contract :
  forall (E : env Qc) (k : wkind) (d : Z) (area beta : Qc) (win : list Qc),
    win_lookup QN (e_win E) k d beta = Some win ->
    qsum (map (clip0 QN) win) <> 0%Qc ->
    integral QN E (WWin k d area beta) = Ok area.
Proof. exact area_contract. Qed.
Print Assumptions C16_area_contract.

(** ** from_max_val *)
Theorem C16_blackman_from_max_val_post :
  forall (R : Type) (N : numops R) (E : env R) (fuel : nat) (maxv area : R) (w : wf R),
    bm_from_max_val N E fuel maxv area = Ok w ->
    let sa := nsign N area in
    let area' := nmul N area (nofZ N sa) in
    let maxv' := nmul N maxv (nofZ N sa) in
    nsign N maxv = sa /\
    exists d0 d df,
      nceil N (nmul N (ndiv N area' (nmul N (k042 N) maxv')) (k1e3 N)) = Some d0 /\
      (d0 <= d)%Z /\
      (exists s, bm_scaling N E area' d = Ok s /\ nlt N maxv' s = false) /\
      (forall j, (d0 <= j < d)%Z ->
                 exists s, bm_scaling N E area' j = Ok s /\ nlt N maxv' s = true) /\
      (df = d \/
       (df = (d - 1)%Z /\ (d0 < d)%Z /\ Z.odd d = true /\
        exists m mp, bm_peak N E area' d = Ok m /\ bm_peak N E area' (d - 1) = Ok mp /\
                     nlt N m mp = true /\ nle N mp maxv' = true)) /\
      w = (if (sa =? -1)%Z then wneg N (WWin KBlackman df area' (n0 N))
           else WWin KBlackman df area' (n0 N)).
Proof. exact @bm_from_max_val_post. Qed.
Print Assumptions C16_blackman_from_max_val_post.

Theorem C16_blackman_never_exceeds :
  forall (E : env Qc) (fuel : nat) (maxv area : Qc) (w : wf Qc) (sm : list Qc),
    (0 < area)%Qc -> (0 < maxv)%Qc ->
    (forall d win, win_lookup QN (e_win E) KBlackman d 0%Qc = Some win ->
                   Forall (fun x => x <= 1)%Qc win) ->
    bm_from_max_val QN E fuel maxv area = Ok w ->
    samples QN E w = Ok sm ->
    Forall (fun s => 0 <= s /\ s <= maxv)%Qc sm.
Proof. exact bm_never_exceeds. Qed.
Print Assumptions C16_blackman_never_exceeds.

Theorem C16_kaiser_loop_post :
  forall (R : Type) (N : numops R) (E : env R) (fuel : nat) (maxv area beta : R)
         (step d : Z) (mvt : R) (d' : Z),
    ks_loop N E fuel maxv area beta step d mvt = Ok d' ->
    exists n mv',
      (0 <= n)%Z /\ d' = (d + step * n)%Z /\
      (if (n =? 0)%Z then mv' = mvt else ks_peak N E area beta d' = Ok mv') /\
      (nsign N (nsub N mv' maxv) =? step)%Z = false /\
      ((0 < n)%Z -> nsign N (nsub N mvt maxv) = step) /\
      (forall i, (0 < i < n)%Z ->
                 exists m, ks_peak N E area beta (d + step * i) = Ok m /\
                           nsign N (nsub N m maxv) = step).
Proof. exact @ks_loop_post. Qed.
Print Assumptions C16_kaiser_loop_post.

Theorem C16_kaiser_short_post :
  forall (E : env Qc) (ds : list Z) (maxv area beta : Qc) (best : Z) (mvb : Qc) (best' : Z),
    ks_short QN E ds maxv area beta best mvb = Ok best' ->
    exists mvb',
      (best' = best /\ mvb' = mvb \/
       In best' ds /\ ks_peak QN E area beta best' = Ok mvb' /\
       (mvb' <= maxv)%Qc /\ (mvb < mvb')%Qc) /\
      (forall d m, In d ds -> ks_peak QN E area beta d = Ok m ->
                   (m <= maxv)%Qc -> (m <= mvb')%Qc).
Proof. exact ks_short_post_Q. Qed.
Print Assumptions C16_kaiser_short_post.

(** "as close to max_val as whole nanoseconds allow" FAILS on the double
    instance in two hair-line situations (real numpy windows in [E_fmv]) *)
Theorem C16_blackman_from_max_val_closest_refuted :
  bm_from_max_val FN E_fmv 100 bm_maxv bm_area = Ok (WWin KBlackman 12 bm_area zero) /\
  PrimFloat.leb (peak_of E_fmv (WWin KBlackman 11 bm_area zero)) bm_maxv = true /\
  PrimFloat.ltb (peak_of E_fmv (WWin KBlackman 12 bm_area zero))
                (peak_of E_fmv (WWin KBlackman 11 bm_area zero)) = true.
Proof. exact blackman_from_max_val_closest_refuted. Qed.
Print Assumptions C16_blackman_from_max_val_closest_refuted.

Theorem C16_kaiser_from_max_val_exact_hit_refuted :
  ks_from_max_val FN E_fmv 100 ks_maxv ks_area ks_beta = Ok (WWin KKaiser 197 ks_area ks_beta) /\
  (exists m, ks_peak FN E_fmv ks_area ks_beta 196 = Ok m /\ PrimFloat.eqb m ks_maxv = true) /\
  PrimFloat.ltb (peak_of E_fmv (WWin KKaiser 197 ks_area ks_beta))
                (peak_of E_fmv (WWin KKaiser 196 ks_area ks_beta)) = true /\
  PrimFloat.leb (peak_of E_fmv (WWin KKaiser 196 ks_area ks_beta)) ks_maxv = true.
Proof. exact kaiser_from_max_val_exact_hit_refuted. Qed.
Print Assumptions C16_kaiser_from_max_val_exact_hit_refuted.

(** ** change of duration preserves the defining parameters *)
Theorem C16_change_duration :
  forall (R : Type) (N : numops R) (E : env R) (w : wf R) (d' : Z) (w' : wf R),
    change_duration N E w d' = Ok w' ->
    same_params w w' /\ dur w' = d' /\ (0 < d')%Z /\ validate N E w' = Ok tt.
Proof. exact @change_duration_spec. Qed.
Print Assumptions C16_change_duration.

(** ** scaling, negation, division *)
Theorem C16_scale_law :
  forall (E : env Qc) (k : Qc) (w : wf Qc) (l : list Qc),
    interp_free w = true -> samples QN E w = Ok l ->
    samples QN E (wmul QN k w) = Ok (map (fun x => x * k)%Qc l).
Proof. exact scale_law. Qed.
Print Assumptions C16_scale_law.

Theorem C16_negation_law :
  forall (E : env Qc) (w : wf Qc) (l : list Qc),
    interp_free w = true -> samples QN E w = Ok l ->
    samples QN E (wneg QN w) = Ok (map Qcopp l).
Proof. exact neg_law. Qed.
Print Assumptions C16_negation_law.

Theorem C16_division_law :
  forall (E : env Qc) (k : Qc) (w : wf Qc) (l : list Qc),
    interp_free w = true -> samples QN E w = Ok l -> k <> 0%Qc ->
    exists w', wdiv QN k w = Ok w' /\ samples QN E w' = Ok (map (fun x => x / k)%Qc l).
Proof. exact div_law. Qed.
Print Assumptions C16_division_law.

Theorem C16_division_by_zero :
  forall (R : Type) (N : numops R) (k : R) (w : wf R),
    wdiv N k w = if neqb N k (n0 N) then Err EZeroDiv else Ok (wmul N (ndiv N (n1 N) k) w).
Proof. exact @wdiv_spec. Qed.
Print Assumptions C16_division_by_zero.

(** ** equality agrees with sample-wise closeness *)
Theorem C16_equality_closeness :
  forall (R : Type) (N : numops R) (E : env R) (w1 w2 : wf R) (s1 s2 : list R),
    samples N E w1 = Ok s1 -> samples N E w2 = Ok s2 ->
    exists b, wf_eq N E w1 w2 = Ok b /\
              (b = true <-> dur w1 = dur w2 /\
                            Forall2 (fun x y => isclose N x y = true) s1 s2).
Proof. exact @wf_eq_spec. Qed.
Print Assumptions C16_equality_closeness.

(** ** pulses *)
Theorem C16_pulse_contract :
  forall (E : env Qc) (amp det : wf Qc) (phase post : Qc) (p : pulse),
    pulse_new QN E amp det phase post = Ok p ->
    dur det = dur amp /\
    (exists sa, samples QN E amp = Ok sa /\ Forall (fun x => 0 <= x)%Qc sa) /\
    (0 <= p_phase p)%Qc /\ (p_phase p < qc_P)%Qc /\
    (exists n : Z, phase = (p_phase p + qc_P * qc_ofZ n)%Qc).
Proof. exact pulse_contract. Qed.
Print Assumptions C16_pulse_contract.

Theorem C16_pulse_structure :
  forall (R : Type) (N : numops R) (E : env R) (amp det : wf R) (phase post : R) (p : pulse),
    pulse_new N E amp det phase post = Ok p ->
    dur det = dur amp /\
    (exists sa, samples N E amp = Ok sa /\ Forall (fun x => nlt N x (n0 N) = false) sa) /\
    p_amp p = amp /\ p_det p = det /\
    p_phase p = nmodP N phase /\ p_post p = nmodP N post.
Proof. exact @pulse_new_spec. Qed.
Print Assumptions C16_pulse_structure.

Theorem C16_pulse_phase_range_refuted :
  exists phase p,
    f_finite phase = true /\
    pulse_new FN E_bm (WConst 4 one) (WConst 4 zero) phase zero = Ok p /\
    PrimFloat.ltb (p_phase p) f2pi = false /\ PrimFloat.eqb (p_phase p) f2pi = true.
Proof. exact pulse_phase_2pi_refuted. Qed.
Print Assumptions C16_pulse_phase_range_refuted.

Theorem C16_pulse_amplitude_refuted :
  exists amp p sa,
    validate FN E_bm amp = Ok tt /\
    pulse_new FN E_bm amp (WConst 1 zero) zero zero = Ok p /\
    samples FN E_bm (p_amp p) = Ok sa /\
    existsb (fun x => negb (PrimFloat.leb zero x)) sa = true.
Proof. exact pulse_nan_amplitude_refuted. Qed.
Print Assumptions C16_pulse_amplitude_refuted.

(** ** ArbitraryPhase reproduces the phase waveform at every sample *)
Theorem C16_arbitrary_phase :
  forall (E : env Qc) (ph : wf Qc) (ps : list Qc) (det : wf Qc) (pc : Qc) (ds : list Qc),
    (forall d v, ph <> WConst d v) -> (forall d a b, ph <> WRamp d a b) ->
    samples QN E ph = Ok ps -> dur ph = Z.of_nat (length ps) ->
    arb_detuning QN E ph = Ok det ->
    arb_phase_c QN E ph det = Ok pc ->
    samples QN E det = Ok ds ->
    (2 <= length ps)%nat /\ length ds = length ps /\ reproduced_phase QN pc ds = ps.
Proof. exact arbitrary_phase_generic. Qed.
Print Assumptions C16_arbitrary_phase.

Theorem C16_arbitrary_phase_ramp :
  forall (E : env Qc) (d : Z) (a b : Qc) (det : wf Qc) (pc : Qc) (ps ds : list Qc),
    (2 <= d)%Z ->
    arb_detuning QN E (WRamp d a b) = Ok det ->
    arb_phase_c QN E (WRamp d a b) det = Ok pc ->
    samples QN E (WRamp d a b) = Ok ps -> samples QN E det = Ok ds ->
    reproduced_phase QN pc ds = ps.
Proof. exact arbitrary_phase_ramp. Qed.
Print Assumptions C16_arbitrary_phase_ramp.

Theorem C16_arbitrary_phase_const :
  forall (E : env Qc) (d : Z) (v : Qc) (det : wf Qc) (pc : Qc) (ps ds : list Qc),
    (0 < d)%Z ->
    arb_detuning QN E (WConst d v) = Ok det ->
    arb_phase_c QN E (WConst d v) det = Ok pc ->
    samples QN E (WConst d v) = Ok ps -> samples QN E det = Ok ds ->
    reproduced_phase QN pc ds = ps.
Proof. exact arbitrary_phase_const. Qed.
Print Assumptions C16_arbitrary_phase_const.
