(** C03 - addressing-conflict protocols: no conflict, minimal delay, exact
    estimate.  Property theorems only. *)
From Coq Require Import ZArith List Bool.
From PV Require Import Model.Base Model.Sched Model.Seq.
From PV Require Gen.PureLoops Gen.PureSlot Proofs.PureLoopsEq Proofs.PureSlotEq.
From PV Require Proofs.SourceTie.
From PV Require Import Proofs.SchedInv Proofs.DurationSpec Proofs.ConflictSpec Proofs.AlignWitness.
Import ListNotations.
Open Scope Z_scope.

(** 'min-delay' / 'wait-for-all': in every state whose timelines are tiled
    (every reachable state, by C02), the new pulse never starts before the
    most recent pulse of any other channel that shares a target with it (any
    other channel for wait-for-all) has ended including its fall time.
    Hypothesis: fall times on the scanned channel are at most twice its rise
    time - the assumption built into the scan's early exit; channels in EOM
    mode whose EOM is slower than the channel break it (known finding). *)
Theorem C03_start_after_conflicts :
  forall e p n bs proto dp block s s' sl c2 q p2,
    Forall (chan_ok e) s ->
    make_next_pulse_slot e p n bs proto dp block s = (s', Ok sl) ->
    proto <> 1 ->
    In c2 s -> ch_name c2 <> n -> chan_falls_bounded c2 ->
    last_pulse_slot false (ch_slots c2) = Some (q, p2) ->
    (intersects (s_tg q) (s_tg sl) || (proto =? 2)) = true ->
    s_tf q + pfall (in_eom c2) p2 <= s_ti sl.
Proof. exact start_after_conflicts. Qed.
Print Assumptions C03_start_after_conflicts.

(** ... and never before the latest phase shift of its targets. *)
Theorem C03_start_after_barriers :
  forall e p n bs proto dp block s s' sl b,
    Forall (chan_ok e) s ->
    make_next_pulse_slot e p n bs proto dp block s = (s', Ok sl) ->
    In b bs -> b <= s_ti sl.
Proof. exact start_after_barriers. Qed.
Print Assumptions C03_start_after_barriers.

(** The start is exactly: the channel's end when nothing forces a wait,
    otherwise the end plus the required wait (latest of barrier, conflict end
    and phase-jump bound) rounded by the channel ... *)
Theorem C03_start_formula :
  forall e p n bs proto dp block s s' sl,
    Forall (chan_ok e) s ->
    make_next_pulse_slot e p n bs proto dp block s = (s', Ok sl) ->
    exists c lst rest,
      s' = s /\ find_chan n s = Some c /\ ch_slots c = lst :: rest /\
      let '(cur, pjb) := start_bound c s p n bs proto dp (s_tf lst) (s_tg lst) in
      let need := Z.max (cur - s_tf lst) pjb in
      s_tf sl = s_ti sl + p_dur p /\ s_tg sl = s_tg lst /\
      (need <= 0 -> s_ti sl = s_tf lst) /\
      (0 < need -> exists dd, adjust_duration (ch_cfg c) need = Ok dd /\ s_ti sl = s_tf lst + dd).
Proof. exact next_slot_start. Qed.
Print Assumptions C03_start_formula.

(** ... where the rounding is the least admissible one: no smaller multiple of
    the clock period that is at least the minimum duration covers the wait, *)
Theorem C03_rounding_minimal :
  forall g d d' x,
    cfg_ok g -> adjust_duration g d = Ok d' ->
    d <= x -> c_min g <= x -> (c_clock g | x) -> d' <= x.
Proof. exact adjust_duration_minimal. Qed.
Print Assumptions C03_rounding_minimal.

(** ... and the conflict term is tight: it is the start bound itself or
    exactly the end (with fall time) of a conflicting pulse of another channel. *)
Theorem C03_conflict_term_tight :
  forall n tg wfa chs cur,
    find_add_delay n tg wfa cur chs = cur \/
    exists c q p, In c chs /\ ch_name c <> n /\ In q (ch_slots c) /\ s_kind q = KPulse p /\
                  (intersects (s_tg q) tg || wfa) = true /\
                  find_add_delay n tg wfa cur chs = s_tf q + pfall (in_eom c) p.
Proof. exact find_add_delay_tight. Qed.
Print Assumptions C03_conflict_term_tight.

(** 'no-delay' starts exactly at the channel's current end or the phase-shift
    barrier, whichever is later (the wait rounded as above). *)
Theorem C03_no_delay_exact :
  forall e p n bs dp block s s' sl,
    Forall (chan_ok e) s ->
    make_next_pulse_slot e p n bs 1 dp block s = (s', Ok sl) ->
    exists c lst rest,
      find_chan n s = Some c /\ ch_slots c = lst :: rest /\
      let b := fold_max bs (s_tf lst) in
      (b <= s_tf lst -> s_ti sl = s_tf lst) /\
      (s_tf lst < b -> exists dd, adjust_duration (ch_cfg c) (b - s_tf lst) = Ok dd /\
                                  s_ti sl = s_tf lst + dd).
Proof. exact no_delay_exact. Qed.
Print Assumptions C03_no_delay_exact.

(** The slot computed for the estimate is the slot the add then schedules. *)
Theorem C03_estimate_eq_inserted :
  forall e p n bs proto dp s s1 s2 sl1 sl2,
    make_next_pulse_slot e p n bs proto dp false s = (s1, Ok sl1) ->
    make_next_pulse_slot e p n bs proto dp true s = (s2, Ok sl2) ->
    sl1 = sl2.
Proof. exact estimate_eq_inserted. Qed.
Print Assumptions C03_estimate_eq_inserted.

(** align: "the aligned channels end together" is FALSE of the faithful model
    (the padding delay is rounded up to min_duration / clock): known finding. *)
Theorem C03_align_ends_together_refuted :
  exists v ops a b, ends (run v ops) = [a; b] /\ a <> b /\
                    exists chs ar pre, ops = pre ++ [OAlign chs ar] /\
                                       snd (step v (run v pre) (OAlign chs ar)) = Ok unit_sv.
Proof. exact align_ends_together_refuted. Qed.
Print Assumptions C03_align_ends_together_refuted.

(** Tie to the source by translation: the conflict scan all the theorems above
    are stated over is EQUAL to the function regenerated from the current source
    of _Schedule._find_add_delay (nested `for` loops with `break`/`continue`,
    translated to structural Fixpoints), for every schedule. *)
Theorem C03_source_find_add_delay :
  forall (chs : sched) (t0 n : Z) (tg : list Z) (wfa : bool),
    Gen.PureLoops.gen_find_add_delay chs t0 n tg wfa = find_add_delay n tg wfa t0 chs.
Proof. exact PureLoopsEq.find_add_delay_eq. Qed.
Print Assumptions C03_source_find_add_delay.

(** Tie to the source by translation: where a pulse is scheduled.  In every state
    in which the channel exists and has a last slot, the model's
    [make_next_pulse_slot] returns exactly the slot (start, end, phase of the
    scheduled pulse) or the error computed by the function REGENERATED from the
    current source of _Schedule.make_next_pulse_slot (barriers, conflict scan,
    phase-jump buffer, rounding of the inserted wait, duration check, drift-corrected
    phase). *)
Theorem C03_source_make_next_pulse_slot :
  forall (e : env) (p : pulse) (n : Z) (barriers : list Z) (proto : Z)
         (dp : option drift) (block : bool) (s : sched) (last : slot) (c : chan),
    last_slot n s = (s, Ok last) ->
    the_chan n s = (s, Ok c) ->
    make_next_pulse_slot e p n barriers proto dp block s =
    (s, PureSlotEq.slot_of e n p dp last
          (Gen.PureSlot.gen_make_next_pulse_slot s c last n barriers
             (negb (negb (proto =? 1))) (proto =? 2) dp (p_phase p) (p_dur p) (en_max e) block)).
Proof. exact PureSlotEq.make_next_pulse_slot_eq. Qed.
Print Assumptions C03_source_make_next_pulse_slot.

(** The whole translation tie of the scheduler (see Proofs/SourceTie.v): every
    scheduler function of the model this property's theorems rest on is equal to
    the function regenerated from the current source. *)
Theorem C03_source_scheduler : SourceTie.scheduler_tied.
Proof. exact SourceTie.scheduler_source_tie. Qed.
Print Assumptions C03_source_scheduler.
