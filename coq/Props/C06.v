(** C06 - sampling renders the schedule exactly: property theorems.
    All statements quantify over an arbitrary number type [T] with [zero],
    [one], [add], [mul]; the only law ever assumed is [add zero x = x], and only
    where stated.  The float instance of the same definitions is what the
    correspondence check runs against /repo. *)
From Coq Require Import ZArith List Bool.
From PV Require Import Model.Base Model.Sampler Model.SamplerSpec
     Proofs.SamplerArr Proofs.SamplerChan Proofs.SamplerNested Proofs.SamplerMask.
Import ListNotations.
Open Scope Z_scope.

(** arrays are as long as the channel's duration *)
Theorem c06_lengths :
  forall (T : Type) (zero : T) (add : T -> T -> T) (c : chan T),
    lenz T (amp_of T zero add c) = Z.max 0 (duration T c) /\
    lenz T (det_of T zero add c) = Z.max 0 (duration T c) /\
    lenz T (phase_of T zero c) = Z.max 0 (duration T c).
Proof. exact samples_lengths. Qed.
Print Assumptions c06_lengths.

(** amplitude at every nanosecond = sum (in schedule order) of the pulses
    scheduled at that time; no law of the number type, no non-overlap needed *)
Theorem c06_amp_is_sum_of_scheduled_pulses :
  forall (T : Type) (zero : T) (add : T -> T -> T) (c : chan T) (t : Z),
    Forall (fun s : pslot T => 0 <= ps_ti T s) (pslots_of T (c_slots T c)) ->
    0 <= t < duration T c ->
    nthz T zero (amp_of T zero add c) t =
    sum_at T zero add (p_amp T) (pslots_of T (c_slots T c)) t zero.
Proof. exact amp_pointwise_sum. Qed.
Print Assumptions c06_amp_is_sum_of_scheduled_pulses.

Theorem c06_det_is_sum_of_scheduled_pulses :
  forall (T : Type) (zero : T) (add : T -> T -> T) (c : chan T) (t : Z),
    Forall (fun s : pslot T => 0 <= ps_ti T s) (pslots_of T (c_slots T c)) ->
    0 <= t < duration T c ->
    nthz T zero (det_of T zero add c) t =
    sum_at T zero add (p_det T) (pslots_of T (c_slots T c)) t zero.
Proof. exact det_pointwise_sum. Qed.
Print Assumptions c06_det_is_sum_of_scheduled_pulses.

(** on a well-formed timeline every pulse is rendered sample by sample
    (detuned delays in EOM mode are pulses of the schedule, so idling in EOM
    mode renders their constant off-detuning) ... *)
Theorem c06_samples_over_pulse :
  forall (T : Type) (zero : T) (add : T -> T -> T),
    (forall x : T, add zero x = x) ->
    forall (c : chan T) (s : pslot T) (t : Z),
      wf_chan T c = true ->
      In s (pslots_of T (c_slots T c)) ->
      ps_ti T s <= t < ps_tf T s ->
      nthz T zero (amp_of T zero add c) t = nthz T zero (p_amp T (ps_p T s)) (t - ps_ti T s) /\
      nthz T zero (det_of T zero add c) t = nthz T zero (p_det T (ps_p T s)) (t - ps_ti T s).
Proof. exact samples_over_pulse. Qed.
Print Assumptions c06_samples_over_pulse.

(** ... and zero elsewhere *)
Theorem c06_samples_zero_elsewhere :
  forall (T : Type) (zero : T) (add : T -> T -> T),
    (forall x : T, add zero x = x) ->
    forall (c : chan T) (t : Z),
      wf_chan T c = true ->
      0 <= t < duration T c ->
      (forall s : pslot T, In s (pslots_of T (c_slots T c)) -> covers T s t = false) ->
      nthz T zero (amp_of T zero add c) t = zero /\ nthz T zero (det_of T zero add c) t = zero.
Proof. exact samples_zero_elsewhere. Qed.
Print Assumptions c06_samples_zero_elsewhere.

(** the fall-time extension of a [_PulseTargetSlot]'s end covers only zeros *)
Theorem c06_slot_extension_adds_only_zeros :
  forall (T : Type) (zero : T) (add : T -> T -> T),
    (forall x : T, add zero x = x) ->
    forall (c : chan T) (l : list (pslot T)) (from : Z) (x : pslot T * xslot) (t : Z),
      wf_chan T c = true ->
      0 <= from ->
      (forall t' : Z,
         from <= t' -> find_cover T (pslots_of T (c_slots T c)) t' = find_cover T l t') ->
      wf_pslots T from l = true ->
      In x (combine l (ext_slots T c l)) ->
      ps_tf T (fst x) <= t < xs_tf (snd x) ->
      t < duration T c -> nthz T zero (amp_of T zero add c) t = zero.
Proof. exact ext_slots_tail_zero. Qed.
Print Assumptions c06_slot_extension_adds_only_zeros.

(** the phase over every pulse that is not a detuned delay is that pulse's phase *)
Theorem c06_phase_over_pulse_partial :
  forall (T : Type) (zero : T) (c : chan T) (s : pslot T) (t : Z),
    wf_chan T c = true ->
    In s (pslots_of T (c_slots T c)) ->
    p_dd T (ps_p T s) = false ->
    ps_ti T s <= t < ps_tf T s -> nthz T zero (phase_of T zero c) t = p_phase T (ps_p T s).
Proof. exact phase_over_pulse. Qed.
Print Assumptions c06_phase_over_pulse_partial.

(** the missing part of the previous statement is false: a user pulse with
    zero constant amplitude and constant detuning is classified as a detuned
    delay and its phase is not rendered (finding, replayed on /repo) *)
Theorem c06_phase_of_zero_amplitude_pulse_refuted :
  exists (c : chan Z) (s : pslot Z) (t : Z),
    wf_chan Z c = true /\
    In s (pslots_of Z (c_slots Z c)) /\
    ps_ti Z s <= t < ps_tf Z s /\ nthz Z 0 (phase_of Z 0 c) t <> p_phase Z (ps_p Z s).
Proof. exact zero_amplitude_pulse_phase_refuted. Qed.
Print Assumptions c06_phase_of_zero_amplitude_pulse_refuted.

(** extending is refused exactly for a shorter duration ... *)
Theorem c06_extend_fails_iff :
  forall (T : Type) (zero : T) (cs : csamples T) (n : Z),
    extend T zero cs n = None <-> n < lenz T (cs_amp T cs).
Proof. exact extend_fails_iff. Qed.
Print Assumptions c06_extend_fails_iff.

(** ... and otherwise only pads: zeros, the last phase, the off-detuning if
    the last EOM block is still open *)
Theorem c06_extend_only_pads :
  forall (T : Type) (zero : T) (cs cs' : csamples T) (n : Z),
    lenz T (cs_det T cs) = lenz T (cs_amp T cs) ->
    lenz T (cs_phase T cs) = lenz T (cs_amp T cs) ->
    extend T zero cs n = Some cs' ->
    let d := lenz T (cs_amp T cs) in
    lenz T (cs_amp T cs') = n /\
    lenz T (cs_det T cs') = n /\
    lenz T (cs_phase T cs') = n /\
    cs_slots T cs' = cs_slots T cs /\
    (forall t : Z,
       0 <= t < n ->
       nthz T zero (cs_amp T cs') t = (if t <? d then nthz T zero (cs_amp T cs) t else zero) /\
       nthz T zero (cs_det T cs') t =
       (if t <? d
        then nthz T zero (cs_det T cs) t
        else match cs_open_off T cs with
             | Some off => off
             | None => zero
             end) /\
       nthz T zero (cs_phase T cs') t =
       (if t <? d then nthz T zero (cs_phase T cs) t else last (cs_phase T cs) zero)).
Proof. exact extend_pads. Qed.
Print Assumptions c06_extend_only_pads.

Theorem c06_open_off_iff_still_in_eom_mode :
  forall (T : Type) (c : chan T) (off : T),
    open_off T c = Some off <->
    (exists (l : list (eomb T)) (b : eomb T),
        c_eom T c = l ++ [b] /\ e_tf T b = None /\ e_off T b = off).
Proof. exact open_off_spec. Qed.
Print Assumptions c06_open_off_iff_still_in_eom_mode.

(** the per-atom, per-basis view: each entry holds exactly the contributions
    of the (channel, slot, target) triples naming that atom - DMM detuning
    times the atom's weight, XY slices starting at the end of the SLM mask for
    masked atoms - and the global entry the global channels; no law needed *)
Theorem c06_nested_dict_attribution :
  forall (T : Type) (zero one : T) (add mul : T -> T -> T) (all_local : bool)
         (chans : list (chan T)) (mask : list Z) (d : ndict T),
    nested T zero one add mul all_local chans mask = Some d ->
    let N := seq_N T zero add chans in
    let mt := fst (slm_mask T chans mask) in
    let mend := snd (slm_mask T chans mask) in
    forall (s : sel) (t : Z),
      0 <= t < N ->
      (forall b q : Z,
         nthz T zero (q_get T s (lookd T zero N d (KL b q))) t =
         fold_left add
           (flat_map (contrib_local T zero one mul all_local mt mend b q s t)
              (seq_ext T zero add chans)) zero) /\
      (forall b : Z,
         nthz T zero (q_get T s (lookd T zero N d (KG b))) t =
         fold_left add
           (flat_map (contrib_global T zero all_local mend b s t N) (seq_ext T zero add chans)) zero).
Proof. exact nested_spec. Qed.
Print Assumptions c06_nested_dict_attribution.

(** "exactly the pulses that target it": an atom no pulse slot names gets nothing *)
Theorem c06_untargeted_atom_receives_nothing :
  forall (T : Type) (zero one : T) (add mul : T -> T -> T) (all_local : bool)
         (chans : list (chan T)) (mask : list Z) (d : ndict T) (b q : Z),
    nested T zero one add mul all_local chans mask = Some d ->
    (forall c : chan T,
       In c chans ->
       c_basis T c = b ->
       is_global_branch T all_local c = false /\
       (forall sl : pslot T, In sl (pslots_of T (c_slots T c)) -> ~ In q (ps_tg T sl))) ->
    forall (s : sel) (t : Z),
      0 <= t < seq_N T zero add chans ->
      nthz T zero (q_get T s (lookd T zero (seq_N T zero add chans) d (KL b q))) t = zero.
Proof. exact untargeted_atom_receives_nothing. Qed.
Print Assumptions c06_untargeted_atom_receives_nothing.

(** XY pulses are withheld from masked atoms while the SLM mask is on *)
Theorem c06_xy_masked_atom_withheld :
  forall (T : Type) (zero one : T) (add mul : T -> T -> T) (all_local : bool)
         (chans : list (chan T)) (mask : list Z) (d : ndict T) (q : Z),
    nested T zero one add mul all_local chans mask = Some d ->
    In q (fst (slm_mask T chans mask)) ->
    forall (s : sel) (t : Z),
      0 <= t < snd (slm_mask T chans mask) ->
      t < seq_N T zero add chans ->
      nthz T zero (q_get T s (lookd T zero (seq_N T zero add chans) d (KL 2 q))) t = zero /\
      nthz T zero (q_get T s (lookd T zero (seq_N T zero add chans) d (KG 2))) t = zero.
Proof. exact xy_masked_atom_withheld. Qed.
Print Assumptions c06_xy_masked_atom_withheld.

(** for every sequence a per-atom view exists: [to_nested_dict] never raises
    (true since /repo commit 568e94cf; before it, XY mode with an SLM mask and
    a global channel without pulses raised IndexError - the former witness is
    kept as the regression [nested_dict_former_crash] and in corpus/C06) *)
Theorem c06_nested_dict_total :
  forall (T : Type) (zero one : T) (add mul : T -> T -> T) (all_local : bool)
         (chans : list (chan T)) (mask : list Z),
    exists d : ndict T, nested T zero one add mul all_local chans mask = Some d.
Proof. exact nested_total. Qed.
Print Assumptions c06_nested_dict_total.

(** detuning-map weights: no trap under the atom -> weight zero; one trap -> its weight *)
Theorem c06_weight_no_trap :
  forall (T : Type) (zero : T) (add : T -> T -> T) (ms : list bool) (ws : list T),
    (forall m : bool, In m ms -> m = false) -> weight_sum T zero add ms ws = zero.
Proof. exact weight_no_trap. Qed.
Print Assumptions c06_weight_no_trap.

Theorem c06_weight_one_trap :
  forall (T : Type) (zero : T) (add : T -> T -> T) (ms1 ms2 : list bool)
         (ws1 ws2 : list T) (w : T),
    length ms1 = length ws1 ->
    (forall m : bool, In m ms1 -> m = false) ->
    (forall m : bool, In m ms2 -> m = false) ->
    weight_sum T zero add (ms1 ++ true :: ms2) (ws1 ++ w :: ws2) = add zero w.
Proof. exact weight_one_trap. Qed.
Print Assumptions c06_weight_one_trap.

(** the SLM mask window (XY mode) ends with the first real pulse of the global
    non-DMM channel that starts earliest *)
Theorem c06_mask_window :
  forall (T : Type) (chans : list (chan T)) (ti tf : Z),
    find_mask_times T chans = Some (ti, tf) ->
    (exists c : chan T,
        In c chans /\ c_global T c = true /\ c_dmm T c = false /\
        first_real_pulse T c = Some (ti, tf)) /\
    (forall (c : chan T) (ti' tf' : Z),
        In c chans -> c_global T c = true -> c_dmm T c = false ->
        first_real_pulse T c = Some (ti', tf') -> ti <= ti').
Proof. exact mask_window_spec. Qed.
Print Assumptions c06_mask_window.

Theorem c06_mask_window_none :
  forall (T : Type) (chans : list (chan T)),
    find_mask_times T chans = None ->
    forall c : chan T, In c chans -> c_global T c = true -> c_dmm T c = false ->
      first_real_pulse T c = None.
Proof. exact mask_window_none. Qed.
Print Assumptions c06_mask_window_none.

(** SequenceSamples.extend_duration: every channel is kept, in order, each one
    extended by its own extend_duration (so c06_extend_only_pads applies to
    each); extending to the duration a channel already has changes nothing;
    it is refused exactly when some channel is longer *)
Theorem c06_extend_all_channelwise :
  forall (T : Type) (zero : T) (css css' : list (csamples T)) (n : Z),
    extend_all T zero css n = Some css' ->
    Forall2 (fun cs cs' => extend T zero cs n = Some cs') css css'.
Proof. exact extend_all_spec. Qed.
Print Assumptions c06_extend_all_channelwise.

Theorem c06_extend_all_keeps_every_channel :
  forall (T : Type) (zero : T) (css css' : list (csamples T)) (n : Z),
    extend_all T zero css n = Some css' -> length css' = length css.
Proof. exact extend_all_keeps_every_channel. Qed.
Print Assumptions c06_extend_all_keeps_every_channel.

Theorem c06_extend_to_own_duration_is_identity :
  forall (T : Type) (zero : T) (cs : csamples T),
    extend T zero cs (lenz T (cs_amp T cs)) = Some cs.
Proof. exact extend_same. Qed.
Print Assumptions c06_extend_to_own_duration_is_identity.

Theorem c06_extend_all_fails_iff :
  forall (T : Type) (zero : T) (css : list (csamples T)) (n : Z),
    extend_all T zero css n = None <->
    (exists cs : csamples T, In cs css /\ n < lenz T (cs_amp T cs)).
Proof. exact extend_all_fails_iff. Qed.
Print Assumptions c06_extend_all_fails_iff.
