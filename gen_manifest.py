#!/usr/bin/env python3
"""Writes MANIFEST.json from the table below (kept in one place)."""
import json

CHECKS = {
    "C02": dict(
        text="Coq theorems over an executable model of the scheduler (Model/Sched.v, Model/Seq.v): tiling/alignment/duration invariants proved by induction over arbitrary call histories and configurations; the model is tied to /repo on every run by translated definitions (Gen/) and by a correspondence check that evaluates the model inside Coq (vm_compute) on the same call histories as the implementation and compares the state after every call. validate_duration, adjust_duration, _check_duration and the backwards scan of get_duration are REGENERATED from the source on every run (translate/tr_pure.py -> Gen/Pure.v, Gen/PureLoops.v) and proved equal to the model's functions (C02_source_*), so an edit of their arithmetic or control flow breaks a proof obligation.",
        note="Trusted: Coq kernel + VM, primitive floats, translators and harness, Python/numpy runtime. Pulse fall times (FFT modulation) are oracle inputs of the model. The hand-written model's fidelity is what the correspondence measured on this run's cases.",
        technique="Coq proof (induction over call histories) + source-to-Gallina translation with equality proofs (tr_pure) + model/implementation correspondence in vm_compute",
        design="5/C02",
    ),
}
NOT_APPLICABLE = []

import glob, os
for f in sorted(glob.glob("/verif/manifest.d/*.json")):
    pid = os.path.basename(f)[:-5]
    d = json.load(open(f))
    if os.path.exists(f"/verif/harness/props/{pid.lower()}.py") and os.path.exists(f"/verif/coq/Props/{pid}.v"):
        CHECKS[pid] = d
ALL = [json.loads(l)["id"] for l in open("/verif/properties.jsonl")]
NOT_APPLICABLE = [dict(property_id=p, reason="not yet claimed: the check for this property is still being built (see DESIGN.md section 5 for the plan)") for p in ALL if p not in CHECKS]

m = dict(
    version=1,
    setup_cmd="cd /verif && ./setup.sh",
    hooks=dict(
        guard="PULSER_VERIF",
        enable="export PULSER_VERIF=1 (set by ./check); no source hooks exist: the harness reads the private attributes it needs directly",
        baseline_off_cmd="cd /repo && /venv/bin/python -m pytest -ra -q -p no:cacheprovider --timeout=900 --continue-on-collection-errors",
        source_commits=[],
        add_only=True,
    ),
    engines=[
        dict(
            name="coq-models",
            path="/verif/coq",
            serves_properties=sorted(CHECKS),
            kind_free_text="Coq 8.16.1 development: executable Gallina models, lemmas, one Props/Cxx.v per property",
        ),
        dict(
            name="harness",
            path="/verif/harness",
            serves_properties=sorted(CHECKS),
            kind_free_text="Python: translators (source -> Gen/*.v), case generators, implementation runner, Coq case emitter, property oracles, verdict/evidence",
        ),
    ],
    checks=[
        dict(
            property_id=pid,
            quick_cmd=f"./check {pid} --tier quick",
            thorough_cmd=f"./check {pid} --tier thorough",
            evidence_file=f"/verif/evidence/{pid}.json",
            replay_cmd_template=f"./check {pid} --replay {{path}}",
            engine="coq-models",
            level_claimed=dict(category="proof", text=c["text"], design_ref="DESIGN.md section " + c["design"]),
            level_note=c["note"],
            technique=c["technique"],
        )
        for pid, c in sorted(CHECKS.items())
    ],
    notes="See DESIGN.md. Checks run the implementation from /repo (PYTHONPATH forced; the installed pulser 1.9.1 in site-packages is never used).",
    not_applicable=NOT_APPLICABLE,
)
json.dump(m, open("/verif/MANIFEST.json", "w"), indent=1)
print("checks:", len(m["checks"]))
