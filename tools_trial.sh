#!/bin/bash
# usage: tools_trial.sh <prop> <patch.diff> [check-prop ...]
# applies a seeded mutation to the scratch worktree /tmp/wt/trial-<prop>, runs the
# named checks against it (VERIF_REPO), reverts.  Development aid only.
p=$1; patch=$2; shift 2
wt=/tmp/wt/trial-$p
[ -d $wt ] || git -C /repo worktree add -f --detach $wt HEAD >/dev/null 2>&1
git -C $wt checkout -- . ; git -C $wt checkout -q --detach $(git -C /repo rev-parse HEAD); git -C $wt apply $patch || { echo "patch does not apply"; exit 3; }
for c in "$@"; do
  VERIF_REPO=$wt /verif/check $c --tier quick 2>&1 | grep -E "VIOLATION|KNOWN|^\[|INFRA" | cut -c1-300
done
git -C $wt checkout -- .
