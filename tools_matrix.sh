#!/bin/bash
# usage: tools_matrix.sh P [P...] : confirm + trial every mutation of each property (sequential per call)
for p in "$@"; do
  for k in ${KS:-m1 m2 m3}; do
    [ -f /tmp/mut/$p/$k/patch.diff ] || continue
    [ -f /verif/seeded/$p-$k/meta.json ] || /verif/tools_seed_confirm.sh $p $k
    echo "== $p $k"
    /verif/tools_trial.sh $p /tmp/mut/$p/$k/patch.diff $p | grep -v KNOWN
  done
done
