#!/bin/bash
# usage: tools_seed_confirm.sh <prop> <k>   e.g. C02 m1
# Confirms a sub-agent's seeded change in a scratch worktree: demo passes at
# HEAD, fails with the patch, the repo's own tests named in meta.json (run
# against that worktree) show no new failure; then files it under /verif/seeded.
p=$1; k=$2; src=/tmp/mut/$p/$k; wt=/tmp/wt/confirm-$p-$k
id=$p-$k; out=/verif/seeded/$id; mkdir -p $out
git -C /repo worktree add -f --detach $wt HEAD >/dev/null 2>&1
export PYTHONPATH=$wt/pulser-core:$wt/pulser-simulation PYTHONHASHSEED=0 PULSER_ROOT=$wt MPLBACKEND=Agg
sed -e "s#/tmp/wt/$p#$wt#g" $src/demo.py > $wt/_demo.py
cd $wt
/venv/bin/python _demo.py > $out/demo_head.log 2>&1; rc_head=$?
tests=$(/venv/bin/python -c "
import json;m=json.load(open('$src/meta.json'));t=m.get('tests_run',[]);
import os
print(' '.join(sorted({x.split('::')[0] if x.startswith('tests/') else 'tests/'+x.split('::')[0] for x in t if os.path.exists(('$wt/'+ (x.split('::')[0] if x.startswith('tests/') else 'tests/'+x.split('::')[0])))})))" 2>/dev/null)
[ -z "$tests" ] && tests="tests/test_sequence.py"
/venv/bin/python -m pytest -q -p no:cacheprovider $tests -x -q > $out/tests_head.log 2>&1; t_head=$?
git -C $wt apply $src/patch.diff; ap=$?
/venv/bin/python _demo.py > $out/demo_patched.log 2>&1; rc_patch=$?
/venv/bin/python -m pytest -q -p no:cacheprovider $tests -q > $out/tests_patched.log 2>&1; t_patch=$?
git -C $wt checkout -- . ; rm -f $wt/_demo.py
cd /; git -C /repo worktree remove --force $wt
cp $src/patch.diff $out/patch.diff; cp $src/demo.py $out/demo.py
/venv/bin/python - <<PY 2>/dev/null
import json
m=json.load(open("$src/meta.json"))
m.update(dict(id="$id", confirmed=dict(demo_exit_at_head=$rc_head, demo_exit_with_patch=$rc_patch, patch_applies=($ap==0),
  repo_tests_run="$tests", repo_tests_exit_at_head=$t_head, repo_tests_exit_with_patch=$t_patch,
  tests_tail_head=open("$out/tests_head.log").read().strip().splitlines()[-1:], tests_tail_patched=open("$out/tests_patched.log").read().strip().splitlines()[-1:],
  how="tools_seed_confirm.sh: scratch worktree of /repo HEAD; PYTHONPATH forced to the worktree; demo run before and after git apply; repo tests (not the pinned baseline, which imports the site-packages pulser and cannot see the tree) run before and after")))
m["keep"]= ($rc_head==0 and $rc_patch!=0 and $ap==0 and $t_patch==$t_head)
json.dump(m,open("$out/meta.json","w"),indent=1)
print("$id", "keep" if m["keep"] else "REJECT", $rc_head, $rc_patch, $t_head, $t_patch)
PY
