"""Shared infrastructure: environment guard, Coq build, Coq evaluation,
sv encoding, evidence writing, verdict printing."""
from __future__ import annotations

import fcntl
import hashlib
import json
import math
import os
import re
import subprocess
import sys
import time
from pathlib import Path

VERIF = Path("/verif")
# The tree under verification.  /repo by default; VERIF_REPO lets a developer
# point the whole machinery at a scratch worktree (seeded-mutation trials)
# without touching /repo: the Coq development is then built in a private copy
# (Gen/ is regenerated from that tree) and evidence goes to a private directory.
REPO = Path(os.environ.get("VERIF_REPO", "/repo")).resolve()
ALT = REPO != Path("/repo")
_TAG = hashlib.sha1(str(REPO).encode()).hexdigest()[:10]
WORK = (VERIF / ".work" / ("alt-" + _TAG)) if ALT else (VERIF / ".work")
COQ_SRC = VERIF / "coq"
COQ = (WORK / "coq") if ALT else COQ_SRC
EVID = (WORK / "evidence") if ALT else (VERIF / "evidence")
REPLAYS = EVID / "replays"

FORBIDDEN = re.compile(
    r"\b(Admitted|admit|Axiom|Axioms|Parameter|Parameters|Conjecture|Hypothesis"
    r"|Variable|Variables|Hypotheses)\b|Unset\s+Guard|bypass_check|type-in-type"
    r"|impredicative-set|Admit\s+Obligations"
)


class Infra(Exception):
    """Infrastructure failure: not a verdict."""


def assert_repo_imports():
    import pulser

    if not pulser.__file__.startswith(str(REPO) + "/"):
        raise Infra(f"pulser imported from {pulser.__file__}, not /repo")
    try:
        import pulser_simulation

        if not pulser_simulation.__file__.startswith(str(REPO) + "/"):
            raise Infra("pulser_simulation not imported from /repo")
    except ImportError:
        pass


# ---------------------------------------------------------------- sv encoding
def fhex(x: float) -> str:
    x = float(x)
    if math.isnan(x):
        return "nan"
    if math.isinf(x):
        return "infinity" if x > 0 else "neg_infinity"
    if x == 0.0:
        return "neg_zero" if math.copysign(1.0, x) < 0 else "zero"
    h = x.hex()
    if h.startswith("-"):
        return "(-" + h[1:] + ")%float"
    return h + "%float"


def coq_float(x: float) -> str:
    return "(" + fhex(x) + ")"


def coq_Z(z: int) -> str:
    z = int(z)
    return f"({z})" if z < 0 else str(z)


def coq_bool(b) -> str:
    return "true" if b else "false"


def coq_list(items) -> str:
    return "[" + "; ".join(items) + "]"


def coq_opt(x, f) -> str:
    return "None" if x is None else "(Some " + f(x) + ")"


class F(float):
    """marker: encode as SF even when integral"""


def sv(x) -> str:
    """Python value -> Coq [sv] term.  bool->SB, int->SZ, float->SF,
    list/tuple->SL, None->SL []."""
    if x is None:
        return "(SL [])"
    if isinstance(x, bool):
        return "(SB " + coq_bool(x) + ")"
    if isinstance(x, int):
        return "(SZ " + coq_Z(x) + ")"
    if isinstance(x, float):
        return "(SF " + fhex(x) + ")"
    if isinstance(x, (list, tuple)):
        return "(SL [" + "; ".join(sv(y) for y in x) + "])"
    # numpy scalars
    try:
        import numpy as np

        if isinstance(x, np.bool_):
            return sv(bool(x))
        if isinstance(x, np.integer):
            return sv(int(x))
        if isinstance(x, np.floating):
            return sv(float(x))
    except ImportError:
        pass
    raise TypeError(f"cannot encode {type(x)} as sv")


# ---------------------------------------------------------------- coq build
def _run(cmd, cwd=None, timeout=1800, env=None):
    p = subprocess.run(
        cmd,
        cwd=cwd,
        shell=isinstance(cmd, str),
        stdout=subprocess.PIPE,
        stderr=subprocess.STDOUT,
        timeout=timeout,
        text=True,
        env=env,
    )
    return p.returncode, p.stdout


def scan_forbidden() -> list[str]:
    hits = []
    for p in sorted(COQ.rglob("*.v")):
        if "/cases/" in str(p):
            continue
        txt = p.read_text()
        # strip comments (non-nested is enough for our sources)
        txt2 = re.sub(r"\(\*.*?\*\)", "", txt, flags=re.S)
        # string literals cannot declare anything: blank them ("" escapes a quote)
        txt2 = re.sub(r'"(?:[^"]|"")*"', lambda m: '"' + " " * (len(m.group(0)) - 2) + '"' if "\n" not in m.group(0) else m.group(0), txt2)
        in_section = 0
        for ln, line in enumerate(txt2.splitlines(), 1):
            if re.match(r"\s*Section\b", line):
                in_section += 1
            if re.match(r"\s*End\b", line) and in_section:
                in_section -= 1
            m = FORBIDDEN.search(line)
            if m:
                w = m.group(0)
                if in_section and w in (
                    "Variable",
                    "Variables",
                    "Hypothesis",
                    "Hypotheses",
                ):
                    continue
                hits.append(f"{p.relative_to(COQ)}:{ln}: {line.strip()}")
    return hits


def coq_build(jobs: int = 16, clean: bool = False, targets: list[str] | None = None) -> tuple[bool, str]:
    """Regenerate Gen/, then a full .vo build (incremental unless clean) of the
    whole development, or - when `targets` (development files) is given - of
    those files and everything they depend on.  Serialised with flock.
    Returns (ok, log)."""
    WORK.mkdir(parents=True, exist_ok=True)
    lock = open(WORK / "build.lock", "w")
    fcntl.flock(lock, fcntl.LOCK_EX)
    try:
        log = ""
        if ALT:
            COQ.mkdir(parents=True, exist_ok=True)
            _run(
                f"rsync -a --delete --exclude='/Gen/*' --include='*/' --include='*.v' --exclude='*' "
                f"{COQ_SRC}/ {COQ}/"
            )
        (COQ / "Gen").mkdir(exist_ok=True)
        rc, out = _run(
            [sys.executable, str(VERIF / "translate" / "run_all.py"), str(REPO), str(COQ / "Gen")],
            timeout=600,
        )
        log += out
        if rc != 0:
            return False, "TRANSLATOR FAILED\n" + log
        files = sorted(
            str(p.relative_to(COQ))
            for d in ("Gen", "Model", "Proofs", "Props")
            for p in (COQ / d).glob("*.v")
        )
        proj = "-Q . PV\n-arg -w -arg -all\n" + "\n".join(files) + "\n"
        pf = COQ / "_CoqProject"
        if not pf.exists() or pf.read_text() != proj:
            pf.write_text(proj)
            rc, out = _run("coq_makefile -f _CoqProject -o Makefile", cwd=COQ)
            log += out
            if rc != 0:
                return False, log
        if not (COQ / "Makefile").exists():
            rc, out = _run("coq_makefile -f _CoqProject -o Makefile", cwd=COQ)
            log += out
        if clean:
            _run("make clean", cwd=COQ)
        tg = " ".join(t[:-2] + ".vo" for t in (targets or []))
        rc, out = _run(f"timeout 3000 make -j{jobs} -k {tg}", cwd=COQ, timeout=3100)
        log += out
        return rc == 0, log
    finally:
        fcntl.flock(lock, fcntl.LOCK_UN)
        lock.close()


def coq_file_ok(relpath: str) -> bool:
    """Is the .vo of a development file present and newer than its source?"""
    v = COQ / relpath
    vo = v.with_suffix(".vo")
    return vo.exists() and vo.stat().st_mtime >= v.stat().st_mtime


def coq_eval(workdir: Path, name: str, text: str, timeout: int = 900) -> tuple[int, str]:
    workdir.mkdir(parents=True, exist_ok=True)
    f = workdir / f"{name}.v"
    f.write_text(text)
    rc, out = _run(
        f"ulimit -s unlimited 2>/dev/null; timeout {timeout} coqc -w -all -Q {COQ} PV "
        f"-Q {workdir} W_{workdir.name} {f}",
        timeout=timeout + 30,
    )
    return rc, out


def print_assumptions(prop_file: str) -> tuple[list[str], str]:
    """Compile-time output of Print Assumptions in Props/<file>.v is captured
    by re-running coqc on the file (fast: dependencies are compiled)."""
    rc, out = _run(
        f"timeout 600 coqc -w -all -Q {COQ} PV {COQ / prop_file}", cwd=COQ, timeout=700
    )
    if rc != 0:
        return ["<coqc failed>"], out
    axioms = []
    blocks = re.split(r"\n(?=Closed under the global context|Axioms:)", "\n" + out)
    for b in blocks:
        if b.strip().startswith("Axioms:"):
            for line in b.splitlines()[1:]:
                m = re.match(r"^(\S+)\s*:", line)
                if m:
                    axioms.append(m.group(1))
    return sorted(set(axioms)), out


PRIM_OK = re.compile(
    r"^(PrimFloat\.|Uint63\.|PrimInt63\.|FloatOps\.|float$|int$|"
    r"(add|sub|mul|div|opp|abs|sqrt|eqb|ltb|leb|compare|classify|of_uint63|"
    r"normfr_mantissa|frshiftexp|ldshiftexp|next_up|next_down|lsl|lsr|land|lor|lxor"
    r"|addc|addcarryc|subc|subcarryc|mulc|diveucl|diveucl_21|addmuldiv|head0|tail0|mod"
    r")$)"
)
STDLIB_AXIOMS_OK = {
    "functional_extensionality_dep",
    "FunctionalExtensionality.functional_extensionality_dep",
    "Eqdep.Eq_rect_eq.eq_rect_eq",
    "Eq_rect_eq.eq_rect_eq",
    "Classical_Prop.classic",
    "ClassicalDedekindReals.sig_forall_dec",
    "ClassicalDedekindReals.sig_not_dec",
    "JMeq.JMeq_eq",
    "ProofIrrelevance.proof_irrelevance",
}


def classify_axioms(axioms: list[str]) -> tuple[list[str], list[str], list[str]]:
    prim, std, bad = [], [], []
    for a in axioms:
        if PRIM_OK.match(a) or a.startswith("PrimFloat") or a.startswith("Uint63"):
            prim.append(a)
        elif a in STDLIB_AXIOMS_OK or a.split(".")[-1] in {
            x.split(".")[-1] for x in STDLIB_AXIOMS_OK
        }:
            std.append(a)
        else:
            bad.append(a)
    return prim, std, bad


# ---------------------------------------------------------------- findings
def load_known_findings() -> dict:
    p = VERIF / "known_findings.json"
    out = {"findings": [], "fixed": []}
    files = ([p] if p.exists() else []) + sorted((VERIF / "known_findings.d").glob("*.json"))
    for f in files:
        d = json.loads(f.read_text())
        out["findings"] += d.get("findings", [])
        out["fixed"] += d.get("fixed", [])
    return out


def write_replay(prop: str, payload: dict) -> Path:
    REPLAYS.mkdir(parents=True, exist_ok=True)
    h = hashlib.sha1(json.dumps(payload, sort_keys=True, default=str).encode()).hexdigest()[:12]
    p = REPLAYS / f"{prop}-{h}.json"
    p.write_text(json.dumps(payload, indent=1, default=str))
    return p


def write_evidence(prop: str, tier: str, seed: int, coverage: dict, wall: float,
                   violations: int, assumptions: list[str]):
    EVID.mkdir(parents=True, exist_ok=True)
    ev = {
        "property_id": prop,
        "tier": tier,
        "seed": int(seed),
        "level": "proof",
        "coverage": coverage,
        "assumptions": assumptions,
        "wall_s": round(wall, 2),
        "violations": int(violations),
    }
    (EVID / f"{prop}.json").write_text(json.dumps(ev, indent=1, default=str))


def parse_Z_list(out: str, marker: str = "=") -> list[int]:
    """Parse `= [1; 2; 3]` printed by Eval vm_compute (possibly wrapped)."""
    m = re.search(r"=\s*\[(.*?)\]\s*:\s*list Z", out, flags=re.S)
    if not m:
        raise Infra("cannot parse Coq output:\n" + out[-2000:])
    body = m.group(1).replace("\n", " ")
    body = body.replace("(", "").replace(")", "").replace("%Z", "")
    return [int(t) for t in body.split(";") if t.strip()]


def coqchk(prop_file: str, timeout: int = 1500) -> dict:
    """Independent re-check of the compiled property file and everything it
    depends on (coqchk -o); returns the axioms it lists, split as above, and
    the three 'assumed' lines."""
    mod = "PV." + prop_file[:-2].replace("/", ".")
    try:
        rc, out = _run(f"timeout {timeout} coqchk -silent -o -Q {COQ} PV {mod}", cwd=COQ, timeout=timeout + 30)
    except subprocess.TimeoutExpired:
        return dict(ok=False, error="timeout")
    if rc != 0 or "CONTEXT SUMMARY" not in out:
        return dict(ok=False, error=out[-600:])
    body = out.split("* Axioms:", 1)[1]
    ax_part, rest = body.split("* Constants/Inductives relying on type-in-type:", 1)
    axioms = [ln.strip() for ln in ax_part.splitlines() if ln.strip() and ln.strip() != "<none>"]
    prim = [a for a in axioms if ".PrimFloat." in a or ".PrimInt63." in a or ".Uint63." in a or ".Sint63." in a or ".PArray." in a]
    other = [a for a in axioms if a not in prim]
    flags = {}
    for key in ("type-in-type", "unsafe (co)fixpoints", "positivity is assumed"):
        m = re.search(re.escape(key) + r":\s*(.*)", out)
        flags[key] = m.group(1).strip() if m else "?"
    return dict(ok=True, primitive_axioms=len(prim), other_axioms=sorted(other), assumed=flags)
