"""C20 case generators.  Every random choice comes from the rng passed in.

Four kinds of case (see notes/C20.md):
  obs      a synthetic state (ket / density matrix, rational entries), a
           Hermitian H, a target state, an operator; all default observables'
           apply(), probabilities, sampled bitstrings
  alg      operator representations (valid and malformed), +, scalar *, @,
           apply_to, expect, from_state_amplitudes, basis-state indices
  times    Observable.__call__ / Results._store fed with relative times
  backend  a small sequence through QutipBackendV2.run()
"""
from __future__ import annotations

import random

BASES = {
    2: ["rg", "gr", "gh", "ud", "01", "hg"],
    3: ["rgh", "ghr", "udx"],
    4: ["rghx", "01ab"],
}
DENS = [1, 1, 2, 4, 8, 3, 5, 7, 10, 12]


def gint(rng, lim=5, pzero=0.3, real=False):
    if rng.random() < pzero:
        return [0, 0]
    re = rng.randint(-lim, lim)
    im = 0 if (real or rng.random() < 0.3) else rng.randint(-lim, lim)
    return [re, im]


def gen_ket(rng, D, lim=5):
    while True:
        style = rng.random()
        if style < 0.15:
            v = [[0, 0] for _ in range(D)]
            v[rng.randrange(D)] = [rng.choice([1, -1, 2, 3]), 0]
        else:
            pz = rng.choice([0.0, 0.3, 0.6, 0.85])
            v = [gint(rng, lim, pz) for _ in range(D)]
        if any(a != [0, 0] for a in v):
            return v


def outer(v):
    D = len(v)
    M = [[None] * D for _ in range(D)]
    for i in range(D):
        for j in range(D):
            a, b = v[i]
            c, d = v[j][0], -v[j][1]
            M[i][j] = [a * c - b * d, a * d + b * c]
    return M


def madd_int(A, B, w=1):
    return [[[x[0] + w * y[0], x[1] + w * y[1]] for x, y in zip(ra, rb)] for ra, rb in zip(A, B)]


def gen_dm(rng, D):
    """PSD Hermitian with integer entries: sum of weighted projectors; the
    denominator is its trace (so the state is normalised) or another integer"""
    k = rng.choice([1, 2, 2, 3])
    M = [[[0, 0] for _ in range(D)] for _ in range(D)]
    for _ in range(k):
        v = gen_ket(rng, D, lim=3)
        M = madd_int(M, outer(v), rng.choice([1, 1, 2, 3]))
    if rng.random() < 0.2:
        # add a multiple of the identity (full rank)
        w = rng.choice([1, 2])
        for i in range(D):
            M[i][i][0] += w
    tr = sum(M[i][i][0] for i in range(D))
    den = tr if rng.random() < 0.8 else rng.choice([1, 2, 5, tr + 1])
    return M, den


def gen_herm(rng, D, lim=6, diag_only=False):
    M = [[[0, 0] for _ in range(D)] for _ in range(D)]
    pz = rng.choice([0.2, 0.5, 0.8])
    for i in range(D):
        M[i][i] = [rng.randint(-lim, lim), 0]
        if diag_only:
            continue
        for j in range(i + 1, D):
            z = gint(rng, lim, pz)
            M[i][j] = z
            M[j][i] = [z[0], -z[1]]
    return M


def gen_mat(rng, D, lim=4):
    pz = rng.choice([0.3, 0.6])
    return [[gint(rng, lim, pz) for _ in range(D)] for _ in range(D)]


def pick_dims(rng, tier, maxD=256):
    while True:
        d = rng.choice([2, 2, 2, 3, 3, 4])
        n = rng.choice([1, 2, 2, 3, 3, 4])
        if d ** n <= maxD:
            return d, n


def state_json(rng, D, force=None):
    typ = force or rng.choice(["ket", "ket", "dm"])
    if typ == "ket":
        v = gen_ket(rng, D)
        return dict(type="ket", den=rng.choice(DENS), rows=[v])
    M, den = gen_dm(rng, D)
    return dict(type="dm", den=den, rows=M)


def gen_obs(rng, tier):
    big = rng.random() < (0.08 if tier == "quick" else 0.15)
    d, n = pick_dims(rng, tier, 256 if big else 27)
    D = d ** n
    basis = rng.choice(BASES[d])
    if D > 27:
        st = state_json(rng, D, force="ket")
    else:
        st = state_json(rng, D)
    one = rng.choice(list(basis))
    explicit_one = True
    if d == 2 and set(basis) in ({"r", "g"}, {"g", "h"}, {"u", "d"}, {"0", "1"}) and rng.random() < 0.5:
        explicit_one = False
        one = {"rg": "r", "gr": "r", "gh": "h", "hg": "h", "ud": "d", "01": "1"}[basis]
    H = dict(den=rng.choice(DENS), rows=gen_herm(rng, D, diag_only=rng.random() < 0.15))
    # target: a ket, the projector of a ket (given as a density matrix), or a mixed state
    r = rng.random()
    if r < 0.5 or D > 27:
        tgt = dict(type="ket", den=rng.choice(DENS), rows=[gen_ket(rng, D)], pure=True)
    elif r < 0.75:
        v = gen_ket(rng, D, lim=3)
        tgt = dict(type="dm", den=rng.choice([1, 2, 5]), rows=outer(v), pure=True, ket=v)
    else:
        M, den = gen_dm(rng, D)
        tgt = dict(type="dm", den=den, rows=M, pure=False)
    op = dict(den=rng.choice(DENS), rows=gen_mat(rng, D) if rng.random() < 0.6 else gen_herm(rng, D))
    pfp, pfn = rng.choice([(0.0, 0.0), (0.0, 0.0), (0.1, 0.0), (0.0, 0.2), (0.05, 0.3), (0.25, 0.02)])
    return dict(
        kind="obs", d=d, n=n, basis=basis, one=one, explicit_one=explicit_one,
        state=st, H=H, target=tgt, op=op,
        shots=rng.choice([200, 500, 1000, 2000]), p_false_pos=pfp, p_false_neg=pfn,
        seed=rng.randrange(2 ** 31),
    )


# ---------------------------------------------------------------- alg
def gen_quditop(rng, basis, bad=None):
    d = len(basis)
    k = rng.choice([1, 1, 2, 3])
    keys = {}
    for _ in range(k):
        key = rng.choice(basis) + rng.choice(basis)
        keys[key] = gint(rng, 4, 0.05)
    if bad == "key-len":
        keys[rng.choice([basis[0], basis[0] * 3, ""])] = [1, 0]
    if bad == "key-char":
        keys[rng.choice(["z" + basis[0], basis[-1] + "q"])] = [1, 0]
    return keys


def gen_fullop(rng, basis, n, bad=None):
    nt = rng.choice([1, 1, 2, 3])
    ops = []
    bad_at = rng.randrange(nt) if bad else None
    for ti in range(nt):
        free = list(range(n))
        rng.shuffle(free)
        tensor = []
        nq = rng.choice([0, 1, 1, 2, 3]) if n > 1 else rng.choice([0, 1])
        this_bad = bad if ti == bad_at else None
        if this_bad and nq == 0:
            nq = 1
        for qi in range(nq):
            if not free:
                break
            m = rng.choice([1, 1, 1, 2])
            inds = [free.pop() for _ in range(min(m, len(free)))]
            qb = this_bad if (this_bad in ("key-len", "key-char") and qi == 0) else None
            tensor.append([gen_quditop(rng, basis, qb), inds])
        if this_bad == "ind-range" and tensor:
            tensor[-1][1] = tensor[-1][1] + [rng.choice([n, n + 1, -1])]
        if this_bad == "ind-dup" and tensor:
            if len(tensor) >= 2:
                tensor[-1][1] = tensor[-1][1] + [tensor[0][1][0]]
            else:
                tensor.append([gen_quditop(rng, basis), [tensor[0][1][0]]])
        ops.append([gint(rng, 5, 0.0), tensor])
    return ops


def gen_alg(rng, tier):
    d, n = pick_dims(rng, tier, 64 if rng.random() < 0.15 else 16)
    D = d ** n
    basis = rng.choice(BASES[d])
    r = rng.random()
    bad = None
    if r < 0.25:
        bad = rng.choice(["key-len", "key-char", "ind-range", "ind-dup", "empty"])
    opsA = [] if bad == "empty" else gen_fullop(rng, basis, n, bad)
    opsB = gen_fullop(rng, basis, n)
    amps = {}
    for _ in range(rng.choice([1, 2, 3, 5])):
        bs = "".join(rng.choice(basis) for _ in range(n))
        amps[bs] = gint(rng, 5, 0.05)
    bad_amps = None
    if rng.random() < 0.15:
        bad_amps = rng.choice(["len", "char"])
        if bad_amps == "len":
            amps["".join(rng.choice(basis) for _ in range(n + 1))] = [1, 0]
        else:
            amps["Z" * n] = [1, 0]
    return dict(
        kind="alg", d=d, n=n, basis=basis, opsA=opsA, denA=rng.choice(DENS), opsB=opsB,
        denB=rng.choice(DENS), bad=bad, scalar=dict(z=gint(rng, 5, 0.0), den=rng.choice(DENS)),
        state=state_json(rng, D), amps=[[k, v] for k, v in amps.items()], aden=rng.choice(DENS),
        bad_amps=bad_amps, idx=[rng.randrange(D) for _ in range(3)],
    )


# ---------------------------------------------------------------- times
def rel_grid(rng, T):
    """a relative time: multiples of 1/T, simple fractions, or off-grid"""
    r = rng.random()
    if r < 0.4:
        return rng.randint(0, T) / T
    if r < 0.7:
        return rng.choice([0.0, 0.1, 0.2, 0.25, 1 / 3, 0.5, 0.6, 0.75, 0.9, 1.0])
    return round(rng.random(), rng.choice([2, 3, 6]))


def asc_unique(xs):
    return sorted(set(xs))


def gen_own(rng, T):
    if rng.random() < 0.4:
        return None
    return asc_unique([rel_grid(rng, T) for _ in range(rng.choice([1, 1, 2, 3]))])


def gen_times(rng, tier):
    T = rng.choice([0, 1, 4, 16, 52, 100, 100, 200, 333, 1000, 1003, 5000, 100000])
    r = rng.random()
    if r < 0.15:
        dflt = "Full"
    elif r < 0.8:
        dflt = [rng.choice([1.0, 1.0, 0.5, rel_grid(rng, max(T, 1))])]
    else:
        dflt = asc_unique([rel_grid(rng, max(T, 1)) for _ in range(rng.choice([0, 2, 3]))])
    obs = [dict(own=gen_own(rng, max(T, 1))) for _ in range(rng.choice([1, 2, 3]))]
    # fed times: the requested ones (exactly, perturbed within / outside the
    # tolerance), plus noise, ascending (as the solver delivers them)
    tol = 0.5 / T if T else 1e-6
    req = [] if dflt == "Full" else list(dflt)
    for o in obs:
        req += o["own"] or []
    ts = []
    for x in req:
        c = rng.random()
        if c < 0.5:
            ts.append(x)
        elif c < 0.7:
            ts.append(x + rng.choice([-1, 1]) * tol * rng.choice([0.3, 0.6, 0.9]))
        elif c < 0.85:
            ts.append(x + rng.choice([-1, 1]) * tol * rng.choice([1.2, 2.0, 5.0]))
    for _ in range(rng.choice([0, 1, 3])):
        ts.append(rel_grid(rng, max(T, 1)))
    ts += [0.0, 1.0] if rng.random() < 0.7 else []
    ts = [t for t in ts if -0.5 < t < 1.5]
    ts = asc_unique(ts)
    mal = None
    c = rng.random()
    if c < 0.06 and len(ts) >= 2:
        mal = "unsorted"
        i = rng.randrange(len(ts) - 1)
        ts[i], ts[i + 1] = ts[i + 1], ts[i]
    elif c < 0.12 and ts:
        mal = "repeat"
        i = rng.randrange(len(ts))
        ts.insert(i, ts[i])
    elif c < 0.18:
        mal = "outside"
        ts = asc_unique(ts + [rng.choice([-0.01, 1.0000000000000002, 1.2])])
    return dict(kind="times", T=T, dflt=dflt, obs=obs, ts=ts, mal=mal)


# ---------------------------------------------------------------- backend
def c11_rejects(T):
    """durations for which QutipBackendV2 cannot even be built when the final
    time is requested (1.0 * T * 1e-3 > T / 1000): property C11's finding"""
    return 1.0 * T * 1e-3 > T / 1000


OBS_TYPES = ["occupation", "correlation", "energy", "variance", "second_moment", "fidelity",
             "expectation", "bitstrings"]


def gen_backend(rng, tier):
    level = rng.choices(["ising", "xy", "all"], [0.6, 0.15, 0.25])[0]
    n_atoms = rng.choice([1, 2, 2, 3]) if level != "all" else rng.choice([1, 2])
    while True:
        dur = rng.choice([16, 20, 40, 60, 100, 100, 152, 200, 300])
        if not c11_rejects(dur):
            break
    T = dur
    def one_pulse(d_):
        return dict(dur=d_, amp=rng.choice([0.5, 1.0, 2.0, 3.0, 6.0]), det=rng.choice([-2.0, -1.0, 0.0, 1.0, 4.0]),
                    phase=rng.choice([0.0, 0.5, 1.0, 3.0]))

    # a device with a modulation bandwidth, emulated with the modulated output:
    # the emulated duration is then longer than Sequence.get_duration()
    modulated = level == "ising" and rng.random() < 0.2
    if level != "all" and rng.random() < 0.6:
        # two different pulses: H(t) is not the same at all evaluation times
        d1 = max(4, (dur * rng.choice([1, 2, 3])) // 4)
        if modulated:
            d1 = max(16, 4 * (d1 // 4))
        pulses = [one_pulse(d1), one_pulse(dur - d1)] if dur - d1 >= 16 or not modulated else [one_pulse(dur)]
    else:
        pulses = [one_pulse(dur)]
    r = rng.random()
    if r < 0.2:
        dflt = "Full"
    else:
        dflt = [rng.choice([1.0, 1.0, 1.0, 0.5, rng.randint(0, T) / T])]
    # emulation grid: sub-sampled in a part of the cases (needs >= 4 points)
    rate = 1.0
    if rng.random() < (0.6 if dflt == "Full" else 0.15):
        rate = rng.choice([r_ for r_ in (0.5, 0.2, 0.1) if int(T * r_) >= 4] or [1.0])
    obs = []
    types = rng.sample(OBS_TYPES, rng.choice([2, 3, 4, 5]))
    for i, typ in enumerate(types):
        own = None
        if dflt == "Full":
            # own times with "Full": on the grid, between grid points, anywhere
            if rng.random() < 0.5:
                own = asc_unique([rng.choice([rng.randint(0, T) / T, (rng.randint(0, T - 1) + 0.5) / T,
                                              round(rng.random(), 4), 0.3325, 0.671])
                                  for _ in range(rng.choice([1, 2]))])
        elif rng.random() < 0.45:
            own = asc_unique([rng.choice([0.0, 0.25, 0.5, 0.75, 1.0, rng.randint(0, T) / T])
                              for _ in range(rng.choice([1, 2]))])
        obs.append(dict(type=typ, own=own))
    # close-by requested times (closer than the tolerance 0.5/T)
    if rng.random() < 0.08 and dflt != "Full" and len(obs) >= 2:
        base = rng.randint(1, T - 1) / T
        obs[0]["own"] = [base]
        obs[1]["own"] = [base + 0.3 / T]
    nz = rng.random()
    noise = {}
    if nz < 0.45:
        noise = {}
    elif nz < 0.6:
        noise = dict(dephasing_rate=rng.choice([0.05, 0.5]))
        if level == "all":
            noise["hyperfine_dephasing_rate"] = 0.1
    elif nz < 0.68:
        noise = dict(depolarizing_rate=rng.choice([0.05, 0.3])) if level != "all" else dict(dephasing_rate=0.2, hyperfine_dephasing_rate=0.1)
    elif nz < 0.75:
        noise = dict(relaxation_rate=0.2, dephasing_rate=0.1) if level == "ising" else dict(dephasing_rate=0.3)
        if level == "all":
            noise["hyperfine_dephasing_rate"] = 0.05
    elif nz < 0.85:
        noise = dict(state_prep_error=rng.choice([0.1, 0.3]), p_false_pos=rng.choice([0.0, 0.1]),
                     p_false_neg=rng.choice([0.0, 0.15]), runs=rng.choice([3, 6]), samples_per_run=1)
    elif nz < 0.9:
        noise = dict(state_prep_error=0.0, p_false_pos=rng.choice([0.05, 0.2]), p_false_neg=rng.choice([0.0, 0.1]),
                     runs=2, samples_per_run=1)
    elif nz < 0.95:
        noise = dict(amp_sigma=rng.choice([0.05, 0.2]), runs=rng.choice([2, 4]), samples_per_run=1)
    else:
        noise = dict(temperature=rng.choice([20.0, 80.0]), runs=rng.choice([2, 4]), samples_per_run=1)
    if level == "xy":
        # XY mode supports fewer noise types
        if any(k in noise for k in ("relaxation_rate", "temperature", "amp_sigma")):
            noise = dict(dephasing_rate=0.2)
    init = None
    if rng.random() < 0.25 and "state_prep_error" not in noise:
        init = "random"
    return dict(
        kind="backend", level=level, n_atoms=n_atoms, spacing=rng.choice([5.0, 6.0, 8.0]), pulses=pulses,
        raman=dict(amp=rng.choice([1.0, 2.0]), det=rng.choice([0.0, 1.0])) if level == "all" else None,
        dflt=dflt, rate=rate, modulated=modulated, obs=obs, noise=noise, init=init, shots=rng.choice([300, 1000]),
        seed=rng.randrange(2 ** 31),
    )


def gen_case(rng: random.Random, tier: str):
    r = rng.random()
    if r < 0.32:
        return gen_obs(rng, tier)
    if r < 0.54:
        return gen_alg(rng, tier)
    if r < 0.86:
        return gen_times(rng, tier)
    return gen_backend(rng, tier)
