"""C19 - HISTORY oracle: the objects are values.

The Coq model (and every theorem about it) treats a layout, a register and a
detuning map as a *function of what it was built from*.  That is only true of
the implementation if nothing a caller can legitimately do afterwards changes
the object.  This oracle checks it: for every public accessor that hands out
an array (or a dict / AbstractArray of arrays) it edits the returned object in
place and requires that the observable state of the owner - coordinates, trap
ids, traps_dict, hash(), static_hash(), == against an untouched twin built
from the same input, lookups, define_register, qubit weights - is unchanged.

Two histories per accessor: `cold` (the accessor is the first thing touched on
a fresh object; the state is compared with that of the untouched twin) and
`warm` (all caches filled by a snapshot first).  A mutation that numpy refuses
(read-only array) counts as protected.
"""
from __future__ import annotations

import numpy as np

from harness.framework import Violation


def _b(a) -> bytes:
    return np.ascontiguousarray(np.asarray(a, dtype=float)).tobytes()


def _call(f):
    try:
        return ("ok", f())
    except Exception as e:  # noqa: BLE001
        return ("raise", type(e).__name__)


def _raw(x):
    """the ndarray behind what an accessor returned"""
    if hasattr(x, "as_array"):
        return x.as_array()
    return x


EDITS = [
    ("shift", lambda a: a.__iadd__(7.25)),
    ("centre", lambda a: a.__isub__(a.mean(axis=0) + 0.5)),
    ("reverse", lambda a: a.__setitem__(Ellipsis, a[::-1].copy() * 1.5 + 1.0)),
]


def _edit(arr, k) -> bool:
    """in-place edit; False if numpy refuses (read-only)"""
    if isinstance(arr, dict):
        if not arr:
            return False
        try:
            first = next(iter(arr))
            v = arr.pop(first)
            arr["__bogus__"] = v
            return True
        except TypeError:
            return False
    a = _raw(arr)
    if not isinstance(a, np.ndarray) or a.size == 0:
        return False
    try:
        EDITS[k % len(EDITS)][1](a)
        return True
    except (ValueError, TypeError):
        return False


# ---------------------------------------------------------------- snapshots
def snap_layout(L, twin, probe_rows, sel):
    d = {}
    d["coords"] = _call(lambda: _b(L.coords))
    d["sorted_coords"] = _call(lambda: _b(L.sorted_coords))
    d["traps_dict"] = _call(lambda: (lambda td: (tuple(td.keys()), tuple(_b(v) for v in td.values())))(L.traps_dict))
    d["number_of_traps"] = _call(lambda: L.number_of_traps)
    d["static_hash"] = _call(lambda: L.static_hash())
    d["hash"] = _call(lambda: hash(L))
    d["repr"] = _call(lambda: repr(L))
    d["eq_twin"] = _call(lambda: bool(L == twin))
    d["lookup"] = _call(lambda: tuple(L.get_traps_from_coordinates(*probe_rows)))
    d["define_register"] = _call(lambda: tuple(
        (k, _b(v.as_array(detach=True))) for k, v in L.define_register(*sel).qubits.items()))
    return d


def snap_register(R, twin, layout_twin):
    d = {}
    d["qubits"] = _call(lambda: tuple((k, _b(v.as_array(detach=True))) for k, v in R.qubits.items()))
    d["sorted_coords"] = _call(lambda: _b(R.sorted_coords))
    d["coords_hex_hash"] = _call(lambda: R.coords_hex_hash())
    d["eq_twin"] = _call(lambda: bool(R == twin))
    d["layout_eq"] = _call(lambda: bool(R.layout == layout_twin) if R.layout is not None else None)
    d["trap_ids"] = _call(lambda: tuple(R._layout_info.trap_ids) if R._layout_info else None)
    if R.layout is not None:
        d["lookup_in_twin_layout"] = _call(lambda: tuple(layout_twin.get_traps_from_coordinates(
            *[np.array(v.as_array(detach=True), dtype=float) for v in R.qubits.values()])))
    return d


def snap_wmap(M, twin, positions):
    d = {}
    d["sorted_coords"] = _call(lambda: _b(M.sorted_coords))
    d["sorted_weights"] = _call(lambda: _b(M.sorted_weights))
    d["weights"] = _call(lambda: tuple(float(w) for w in M.weights))
    d["trap_coordinates"] = _call(lambda: _b(M.trap_coordinates))
    d["static_hash"] = _call(lambda: M.static_hash())
    d["repr"] = _call(lambda: repr(M))
    d["eq_twin"] = _call(lambda: bool(M == twin))
    qs = {f"p{i}": list(p) for i, p in enumerate(positions)}
    d["qubit_weights"] = _call(lambda: tuple(M.get_qubit_weight_map(qs).values()))
    return d


def _diff(a, b):
    return sorted(k for k in a if a[k] != b.get(k))


# ---------------------------------------------------------------- driver
class History:
    def __init__(self, case, bad):
        self.case = case
        self.bad = bad
        self.n_edits = 0
        self.n_refused = 0

    def _run(self, kind, accessors, make, snap):
        """accessors: [(name, obj -> list of handed-out objects)]"""
        ref = snap(make())
        for ai, (name, acc) in enumerate(accessors):
            for mode in ("cold", "warm"):
                obj = make()
                if mode == "warm":
                    s0 = snap(obj)
                    if s0 != ref:
                        self.bad(f"history:not-deterministic:{kind}",
                                 f"two {kind}s built from the same input differ in {_diff(ref, s0)}")
                        return
                try:
                    handed = acc(obj)
                except Exception:  # noqa: BLE001
                    continue
                edited = False
                for j, h in enumerate(handed):
                    if _edit(h, ai + j):
                        edited = True
                        self.n_edits += 1
                    else:
                        self.n_refused += 1
                if not edited:
                    continue
                s1 = snap(obj)
                if s1 != ref:
                    self.bad(
                        f"history:aliasing:{kind}.{name}",
                        f"after an in-place edit of the array(s) returned by {kind}.{name} ({mode} caches) "
                        f"the {kind} changed its {_diff(ref, s1)}",
                        dict(mode=mode, changed=_diff(ref, s1)),
                    )
                    break

    def run(self):
        from pulser.register.register_layout import RegisterLayout
        from pulser.register.weight_maps import DetuningMap

        c = self.case
        # ------------------------------------------------ layout
        try:
            twinL = RegisterLayout(c["coords2"] if c.get("variant") == "perm" else c["coords"])
            L0 = RegisterLayout(c["coords"])
        except Exception:  # noqa: BLE001
            twinL = L0 = None
        if L0 is not None:
            n = L0.number_of_traps
            probe = [np.array(r, dtype=float) for r in np.array(L0.coords)]
            sel = [t for t in c["ids"] if 0 <= t < n]
            sel = list(dict.fromkeys(sel)) or [n - 1]
            ldm = {int(t): float(w) for t, w in c["ldm"] if 0 <= t < n and 0 <= w <= 1}

            def mkL():
                return RegisterLayout(c["coords"])

            def snapL(L):
                return snap_layout(L, twinL, probe, sel)

            def reg_of(L):
                return L.define_register(*sel)

            accs = [
                ("coords", lambda L: [L.coords]),
                ("sorted_coords", lambda L: [L.sorted_coords]),
                ("traps_dict", lambda L: list(L.traps_dict.values())),
                ("traps_dict[0]", lambda L: [L.traps_dict[0]]),
                ("traps_dict{}", lambda L: [L.traps_dict]),
                ("define_register.qubits", lambda L: list(reg_of(L).qubits.values())),
                ("define_register.sorted_coords", lambda L: [reg_of(L).sorted_coords]),
                ("define_register.layout.coords", lambda L: [reg_of(L).layout.coords]),
                ("make_mappable_register.layout.coords", lambda L: [L.make_mappable_register(1).layout.coords]),
                ("define_detuning_map.sorted_coords", lambda L: [L.define_detuning_map(ldm).sorted_coords]),
                ("define_detuning_map.trap_coordinates", lambda L: [L.define_detuning_map(ldm).trap_coordinates]),
            ]
            self._run("layout", accs, mkL, snapL)

            # -------------------------------------------- register on the layout
            twinR = _call(lambda: RegisterLayout(c["coords"]).define_register(*sel))
            if twinR[0] == "ok":
                def mkR():
                    return RegisterLayout(c["coords"]).define_register(*sel)

                def snapR(R):
                    return snap_register(R, twinR[1], twinL)

                accs = [
                    ("qubits", lambda R: list(R.qubits.values())),
                    ("qubits{}", lambda R: [R.qubits]),
                    ("layout.traps_dict{}", lambda R: [R.layout.traps_dict]),
                    ("sorted_coords", lambda R: [R.sorted_coords]),
                    ("layout.coords", lambda R: [R.layout.coords]),
                    ("layout.traps_dict", lambda R: list(R.layout.traps_dict.values())),
                    ("define_detuning_map.sorted_coords",
                     lambda R: [R.define_detuning_map({R.qubit_ids[0]: 0.5}).sorted_coords]),
                    ("define_detuning_map.trap_coordinates",
                     lambda R: [R.define_detuning_map({R.qubit_ids[0]: 0.5}).trap_coordinates]),
                ]
                self._run("register", accs, mkR, snapR)

        # ------------------------------------------------ detuning map
        try:
            twinM = DetuningMap(c["wcoords2"], c["weights2"])
            M0 = DetuningMap(c["wcoords"], c["weights"])
            same = sorted((tuple(map(float, r)), float(w)) for r, w in zip(c["wcoords"], c["weights"])) == \
                sorted((tuple(map(float, r)), float(w)) for r, w in zip(c["wcoords2"], c["weights2"]))
            if not same:
                twinM = DetuningMap(c["wcoords"], c["weights"])
        except Exception:  # noqa: BLE001
            M0 = None
        if M0 is not None:
            positions = [list(map(float, r)) for r in np.array(M0.sorted_coords)] + [list(p) for p in c["wpos"]]

            def mkM():
                return DetuningMap(c["wcoords"], c["weights"])

            def snapM(M):
                return snap_wmap(M, twinM, positions)

            accs = [
                ("sorted_coords", lambda M: [M.sorted_coords]),
                ("trap_coordinates", lambda M: [M.trap_coordinates]),
                ("sorted_weights", lambda M: [M.sorted_weights]),
                ("traps_dict", lambda M: list(M.traps_dict.values())),
                ("traps_dict{}", lambda M: [M.traps_dict]),
            ]
            self._run("weight-map", accs, mkM, snapM)
            self.ctor_wmap(c, twinM, positions)
        if L0 is not None:
            self.ctor_layout(c, twinL, probe, sel)
        return dict(edits=self.n_edits, refused=self.n_refused)


def run(case, bad):
    return History(case, bad).run()


# ---------------------------------------------------------------- constructor arguments
def _flavours(rows):
    """caller-owned mutable containers holding the same coordinates, each
    with the edit the caller performs afterwards"""
    def as_array():
        a = np.array(rows, dtype=float)
        return a, (lambda: a.__iadd__(7.25))

    def as_lists():
        a = [list(map(float, r)) for r in rows]

        def ed():
            a[0][0] = a[0][0] + 99.5
            a.append([v + 1234.5 for v in a[-1]])
        return a, ed

    def as_list_of_arrays():
        a = [np.array(r, dtype=float) for r in rows]
        return a, (lambda: [r.__imul__(-2.0) for r in a] and None)

    return [("ndarray", as_array), ("list-of-lists", as_lists), ("list-of-arrays", as_list_of_arrays)]


def _ctor(self, kind, argname, builders, snap):
    """builders: [(flavour, () -> (obj, edit))]; the first builder gives the reference state"""
    ref = None
    for flavour, build in builders:
        for mode in ("before-first-use", "after-use"):
            try:
                obj, edit = build()
            except Exception:  # noqa: BLE001
                continue
            if ref is None:
                try:
                    ref = snap(build()[0])
                except Exception:  # noqa: BLE001
                    return
            if mode == "after-use":
                snap(obj)
            try:
                edit()
            except Exception:  # noqa: BLE001
                continue
            self.n_edits += 1
            s1 = snap(obj)
            if s1 != ref:
                self.bad(
                    f"history:ctor-aliasing:{kind}.{argname}:{mode}",
                    f"{kind} built from a caller-owned {flavour} `{argname}`; after the caller edits that container "
                    f"in place ({mode} of the {kind}) the {kind} changed its {_diff(ref, s1)}",
                    dict(flavour=flavour, mode=mode, changed=_diff(ref, s1)),
                )


def _ctor_layout(self, c, twinL, probe, sel):
    from pulser.register.register_layout import RegisterLayout
    import pulser

    rows = c["coords"]

    def snapL(L):
        return snap_layout(L, twinL, probe, sel)

    def mk(fl):
        def build():
            arg, edit = fl()
            return RegisterLayout(arg), edit
        return build

    _ctor(self, "layout", "trap_coordinates", [(n, mk(f)) for n, f in _flavours(rows)], snapL)

    # arguments of the methods that build registers / maps from the layout
    n = len(probe)
    L = RegisterLayout(rows)
    twinR = _call(lambda: L.define_register(*sel))
    if twinR[0] != "ok":
        return

    def snapR(R):
        return snap_register(R, twinR[1], twinL)

    names = [f"q{i}" for i in range(len(sel))]

    def b_qubit_ids():
        q = list(names)
        return L.define_register(*sel, qubit_ids=q), (lambda: (q.reverse(), q.append("zz")))

    def b_build_register():
        d = dict(zip(names, sel))
        m = L.make_mappable_register(len(sel))

        def ed():
            k = next(iter(d))
            d[k] = (d[k] + 1) % n
            d["zz"] = 0
        return m.build_register(d), ed

    def b_direct(cls):
        def build():
            pos = {k: np.array(v.as_array(detach=True), dtype=float) for k, v in twinR[1].qubits.items()}
            ids = list(sel)

            def ed():
                for v in pos.values():
                    v += 3.5
                pos["zz"] = np.zeros(len(probe[0]))
                ids.reverse()
                ids.append(0)
            return cls(pos, layout=L, trap_ids=ids), ed
        return build

    cls = pulser.Register3D if len(probe[0]) == 3 else pulser.Register
    _ctor(self, "register", "define_register.qubit_ids", [("list", b_qubit_ids)], snapR)
    _ctor(self, "register", "build_register.qubits", [("dict", b_build_register)], snapR)
    _ctor(self, "register", "Register.qubits+trap_ids", [("dict-of-arrays", b_direct(cls))], snapR)

    ldm = {int(t): float(w) for t, w in c["ldm"] if 0 <= t < n and 0 <= w <= 1}
    if len(ldm) >= 2:
        twin_map = _call(lambda: L.define_detuning_map(dict(ldm)))
        if twin_map[0] == "ok":
            pos = [list(map(float, r)) for r in probe]

            def snapM(M):
                return snap_wmap(M, twin_map[1], pos)

            def b_ldm():
                d = dict(ldm)

                def ed():
                    for k in d:
                        d[k] = 0.0625
                    d.pop(next(iter(d)))
                return L.define_detuning_map(d), ed

            _ctor(self, "weight-map", "define_detuning_map.detuning_weights", [("dict", b_ldm)], snapM)


def _ctor_wmap(self, c, twinM, positions):
    from pulser.register.weight_maps import DetuningMap

    rows, ws = c["wcoords"], [float(w) for w in c["weights"]]

    def snapM(M):
        return snap_wmap(M, twinM, positions)

    def mkc(fl):
        def build():
            arg, edit = fl()
            return DetuningMap(arg, list(ws)), edit
        return build

    # reference first: an untouched map from plain lists
    ref_builder = ("reference", lambda: (DetuningMap([list(r) for r in rows], list(ws)), (lambda: None)))
    _ctor(self, "weight-map", "trap_coordinates", [ref_builder] + [(n, mkc(f)) for n, f in _flavours(rows)], snapM)

    def w_list():
        w = list(ws)

        def ed():
            for i in range(len(w)):
                w[i] = 0.0625 if w[i] != 0.0625 else 0.5
        return DetuningMap([list(r) for r in rows], w), ed

    def w_array():
        w = np.array(ws, dtype=float)

        def ed():
            w[:] = np.where(w == 0.0625, 0.5, 0.0625)
        return DetuningMap([list(r) for r in rows], w), ed

    def w_reused():
        # the caller reuses the list to prepare the next map
        w = list(ws)

        def ed():
            w.reverse()
            w[0] = 0.03125
        return DetuningMap([list(r) for r in rows], w), ed

    _ctor(self, "weight-map", "weights", [ref_builder, ("list", w_list), ("ndarray", w_array), ("list-reused", w_reused)], snapM)


History.ctor_layout = _ctor_layout
History.ctor_wmap = _ctor_wmap
