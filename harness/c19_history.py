"""C19 - HISTORY oracle: the objects are values.

The Coq model (and every theorem about it) treats a layout, a register and a
detuning map as a *function of what it was built from*.  That is only true of
the implementation if nothing a caller can legitimately do afterwards changes
the object.  This oracle checks it: for every public accessor that hands out
an array (or a dict / AbstractArray of arrays) it edits the returned object in
place and requires that the observable state of the owner - coordinates, trap
ids, traps_dict, hash(), static_hash(), == against an untouched twin built
from the same input, lookups, define_register, qubit weights - is unchanged.

Two histories per accessor: `cold` (the accessor is the first thing touched on
a fresh object; the state is compared with that of the untouched twin) and
`warm` (all caches filled by a snapshot first).  A mutation that numpy refuses
(read-only array) counts as protected.
"""
from __future__ import annotations

import numpy as np

from harness.framework import Violation


def _b(a) -> bytes:
    return np.ascontiguousarray(np.asarray(a, dtype=float)).tobytes()


def _call(f):
    try:
        return ("ok", f())
    except Exception as e:  # noqa: BLE001
        return ("raise", type(e).__name__)


def _raw(x):
    """the ndarray behind what an accessor returned"""
    if hasattr(x, "as_array"):
        return x.as_array()
    return x


EDITS = [
    ("shift", lambda a: a.__iadd__(7.25)),
    ("centre", lambda a: a.__isub__(a.mean(axis=0) + 0.5)),
    ("reverse", lambda a: a.__setitem__(Ellipsis, a[::-1].copy() * 1.5 + 1.0)),
]


def _edit(arr, k) -> bool:
    """in-place edit; False if numpy refuses (read-only)"""
    a = _raw(arr)
    if not isinstance(a, np.ndarray) or a.size == 0:
        return False
    try:
        EDITS[k % len(EDITS)][1](a)
        return True
    except (ValueError, TypeError):
        return False


# ---------------------------------------------------------------- snapshots
def snap_layout(L, twin, probe_rows, sel):
    d = {}
    d["coords"] = _b(L.coords)
    d["sorted_coords"] = _b(L.sorted_coords)
    td = L.traps_dict
    d["traps_dict"] = (tuple(td.keys()), tuple(_b(v) for v in td.values()))
    d["number_of_traps"] = L.number_of_traps
    d["static_hash"] = L.static_hash()
    d["hash"] = hash(L)
    d["repr"] = repr(L)
    d["eq_twin"] = bool(L == twin)
    d["lookup"] = _call(lambda: tuple(L.get_traps_from_coordinates(*probe_rows)))
    d["define_register"] = _call(lambda: tuple(
        (k, _b(v.as_array(detach=True))) for k, v in L.define_register(*sel).qubits.items()))
    return d


def snap_register(R, twin, layout_twin):
    d = {}
    d["qubits"] = tuple((k, _b(v.as_array(detach=True))) for k, v in R.qubits.items())
    d["sorted_coords"] = _b(R.sorted_coords)
    d["coords_hex_hash"] = R.coords_hex_hash()
    d["eq_twin"] = bool(R == twin)
    d["layout_eq"] = bool(R.layout == layout_twin) if R.layout is not None else None
    d["trap_ids"] = tuple(R._layout_info.trap_ids) if R._layout_info else None
    if R.layout is not None:
        pos = [np.array(v.as_array(detach=True), dtype=float) for v in R.qubits.values()]
        d["lookup_in_twin_layout"] = _call(lambda: tuple(layout_twin.get_traps_from_coordinates(*pos)))
    return d


def snap_wmap(M, twin, positions):
    d = {}
    d["sorted_coords"] = _b(M.sorted_coords)
    d["sorted_weights"] = _b(M.sorted_weights)
    d["weights"] = tuple(float(w) for w in M.weights)
    d["trap_coordinates"] = _b(M.trap_coordinates)
    d["static_hash"] = M.static_hash()
    d["repr"] = repr(M)
    d["eq_twin"] = bool(M == twin)
    qs = {f"p{i}": list(p) for i, p in enumerate(positions)}
    d["qubit_weights"] = _call(lambda: tuple(M.get_qubit_weight_map(qs).values()))
    return d


def _diff(a, b):
    return sorted(k for k in a if a[k] != b.get(k))


# ---------------------------------------------------------------- driver
class History:
    def __init__(self, case, bad):
        self.case = case
        self.bad = bad
        self.n_edits = 0
        self.n_refused = 0

    def _run(self, kind, accessors, make, snap):
        """accessors: [(name, obj -> list of handed-out objects)]"""
        ref = snap(make())
        for ai, (name, acc) in enumerate(accessors):
            for mode in ("cold", "warm"):
                obj = make()
                if mode == "warm":
                    s0 = snap(obj)
                    if s0 != ref:
                        self.bad(f"history:not-deterministic:{kind}",
                                 f"two {kind}s built from the same input differ in {_diff(ref, s0)}")
                        return
                try:
                    handed = acc(obj)
                except Exception:  # noqa: BLE001
                    continue
                edited = False
                for j, h in enumerate(handed):
                    if _edit(h, ai + j):
                        edited = True
                        self.n_edits += 1
                    else:
                        self.n_refused += 1
                if not edited:
                    continue
                s1 = snap(obj)
                if s1 != ref:
                    self.bad(
                        f"history:aliasing:{kind}.{name}",
                        f"after an in-place edit of the array(s) returned by {kind}.{name} ({mode} caches) "
                        f"the {kind} changed its {_diff(ref, s1)}",
                        dict(mode=mode, changed=_diff(ref, s1)),
                    )
                    break

    def run(self):
        from pulser.register.register_layout import RegisterLayout
        from pulser.register.weight_maps import DetuningMap

        c = self.case
        # ------------------------------------------------ layout
        try:
            twinL = RegisterLayout(c["coords2"] if c.get("variant") == "perm" else c["coords"])
            L0 = RegisterLayout(c["coords"])
        except Exception:  # noqa: BLE001
            twinL = L0 = None
        if L0 is not None:
            n = L0.number_of_traps
            probe = [np.array(r, dtype=float) for r in np.array(L0.coords)]
            sel = [t for t in c["ids"] if 0 <= t < n]
            sel = list(dict.fromkeys(sel)) or [n - 1]
            ldm = {int(t): float(w) for t, w in c["ldm"] if 0 <= t < n and 0 <= w <= 1}

            def mkL():
                return RegisterLayout(c["coords"])

            def snapL(L):
                return snap_layout(L, twinL, probe, sel)

            def reg_of(L):
                return L.define_register(*sel)

            accs = [
                ("coords", lambda L: [L.coords]),
                ("sorted_coords", lambda L: [L.sorted_coords]),
                ("traps_dict", lambda L: list(L.traps_dict.values())),
                ("traps_dict[0]", lambda L: [L.traps_dict[0]]),
                ("define_register.qubits", lambda L: list(reg_of(L).qubits.values())),
                ("define_register.sorted_coords", lambda L: [reg_of(L).sorted_coords]),
                ("define_register.layout.coords", lambda L: [reg_of(L).layout.coords]),
                ("make_mappable_register.layout.coords", lambda L: [L.make_mappable_register(1).layout.coords]),
                ("define_detuning_map.sorted_coords", lambda L: [L.define_detuning_map(ldm).sorted_coords]),
                ("define_detuning_map.trap_coordinates", lambda L: [L.define_detuning_map(ldm).trap_coordinates]),
            ]
            self._run("layout", accs, mkL, snapL)

            # -------------------------------------------- register on the layout
            twinR = _call(lambda: RegisterLayout(c["coords"]).define_register(*sel))
            if twinR[0] == "ok":
                def mkR():
                    return RegisterLayout(c["coords"]).define_register(*sel)

                def snapR(R):
                    return snap_register(R, twinR[1], twinL)

                accs = [
                    ("qubits", lambda R: list(R.qubits.values())),
                    ("sorted_coords", lambda R: [R.sorted_coords]),
                    ("layout.coords", lambda R: [R.layout.coords]),
                    ("layout.traps_dict", lambda R: list(R.layout.traps_dict.values())),
                    ("define_detuning_map.sorted_coords",
                     lambda R: [R.define_detuning_map({R.qubit_ids[0]: 0.5}).sorted_coords]),
                    ("define_detuning_map.trap_coordinates",
                     lambda R: [R.define_detuning_map({R.qubit_ids[0]: 0.5}).trap_coordinates]),
                ]
                self._run("register", accs, mkR, snapR)

        # ------------------------------------------------ detuning map
        try:
            twinM = DetuningMap(c["wcoords2"], c["weights2"])
            M0 = DetuningMap(c["wcoords"], c["weights"])
            same = sorted((tuple(map(float, r)), float(w)) for r, w in zip(c["wcoords"], c["weights"])) == \
                sorted((tuple(map(float, r)), float(w)) for r, w in zip(c["wcoords2"], c["weights2"]))
            if not same:
                twinM = DetuningMap(c["wcoords"], c["weights"])
        except Exception:  # noqa: BLE001
            M0 = None
        if M0 is not None:
            positions = [list(map(float, r)) for r in np.array(M0.sorted_coords)] + [list(p) for p in c["wpos"]]

            def mkM():
                return DetuningMap(c["wcoords"], c["weights"])

            def snapM(M):
                return snap_wmap(M, twinM, positions)

            accs = [
                ("sorted_coords", lambda M: [M.sorted_coords]),
                ("trap_coordinates", lambda M: [M.trap_coordinates]),
                ("sorted_weights", lambda M: [M.sorted_weights]),
            ]
            self._run("weight-map", accs, mkM, snapM)
        return dict(edits=self.n_edits, refused=self.n_refused)


def run(case, bad):
    return History(case, bad).run()
