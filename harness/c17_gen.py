"""C17 case generators.  A case is a JSON-able dict {"kind": ..., ...}; all
randomness comes from the rng passed in.  Specs are *constructor-level*
descriptions (keyword arguments in neutral form); harness/c17_impl.py builds
the real Pulser objects from them.

Kinds: device, noise, config, results, register, layout, detmap, alias."""
from __future__ import annotations

import random

# ----------------------------------------------------------------- numbers
# non-zero values that np.isclose / allclose-style tests take for zero
TINY = [1.2246467991473532e-16, -1.2246467991473532e-16, 3e-9, -1e-12, 5e-324, -5e-324, 1e-300, 2.220446049250313e-16, 9.9e-9]

NICE_F = [0.1, 0.25, 0.5, 1.0, 1.5, 2.0, 2.5, 3.0, 4.0, 5.0, 7.5, 10.0, 12.5, 20.0, 31.4, 62.8, 125.66]


def num(rng, lo=0.5, hi=200.0, allow_int=True):
    """a positive number: nice float, random float, or int"""
    r = rng.random()
    if r < 0.35:
        return rng.choice(NICE_F)
    if r < 0.6 and allow_int:
        return rng.randint(max(1, int(lo)), max(1, int(hi)))
    return round(rng.uniform(lo, hi), rng.choice([1, 2, 3, 6]))


def opt(rng, p_none, f):
    return None if rng.random() < p_none else f()


def ident(rng, prefix="ch"):
    alphabet = "abcdefghijklmnopqrstuvwxyzABCXYZ0123456789_-"
    return prefix + "".join(rng.choice(alphabet) for _ in range(rng.randint(0, 5)))


# ---------------------------------------------------------------- channels
def gen_eom(rng):
    e = dict(
        mod_bandwidth=num(rng, 1, 400),
        limiting_beam=rng.choice(["RED", "BLUE"]),
        max_limiting_amp=num(rng, 1, 300),
        intermediate_detuning=num(rng, 100, 5000),
        controlled_beams=rng.choice([["RED"], ["BLUE"], ["RED", "BLUE"], ["BLUE", "RED"]]),
    )
    # optional fields: absent / explicitly the default / default in another
    # numeric type / non-default
    r = rng.random()
    if r < 0.5:
        e["custom_buffer_time"] = rng.choice([None, 1, 40, 240, 1000])
    if rng.random() < 0.5:
        e["multiple_beam_control"] = rng.choice([True, False])
    if rng.random() < 0.5:
        e["blue_shift_coeff"] = rng.choice([1.0, 1, 0.5, 2.0, 1.25])
    if rng.random() < 0.5:
        e["red_shift_coeff"] = rng.choice([1.0, 1, 0.5, 2.0, 0.75])
    return e


def gen_channel(rng, cls=None, physical=False, addressing=None):
    cls = cls or rng.choice(["Rydberg", "Rydberg", "Raman", "Microwave"])
    addressing = addressing or rng.choice(["Global", "Local"])
    kw = dict(addressing=addressing)
    pn = 0.0 if physical else 0.35
    kw["max_abs_detuning"] = opt(rng, pn, lambda: num(rng, 1, 800))
    kw["max_amp"] = opt(rng, pn, lambda: num(rng, 1, 300))
    if addressing == "Local":
        kw["min_retarget_interval"] = rng.choice([0, 0, 100, 220, 1000])
        kw["fixed_retarget_t"] = rng.choice([0, 0, 50, 200])
        kw["max_targets"] = opt(rng, pn, lambda: rng.randint(1, 10))
    if rng.random() < 0.7:
        kw["clock_period"] = rng.choice([1, 2, 4, 8])
    mind = 1
    if rng.random() < 0.6:
        mind = rng.choice([1, 4, 16, 20])
        kw["min_duration"] = mind
    r = rng.random()
    if physical:
        if r < 0.7:
            kw["max_duration"] = rng.choice([mind, 1000, 2**26, 100000000, 6000])
    elif r < 0.3:
        kw["max_duration"] = None
    elif r < 0.7:
        kw["max_duration"] = rng.choice([mind, 1000, 2**26, 100000000, 6000])
    if rng.random() < 0.5:
        kw["min_avg_amp"] = rng.choice([0, 0.0, 0.1, 1, 0.5])
    bw = None
    if rng.random() < 0.6:
        bw = rng.choice([None, 4, 4.0, 8.0, 30.0, 40, 120.5, 480])
        kw["mod_bandwidth"] = bw
    if rng.random() < 0.5:
        kw["custom_phase_jump_time"] = rng.choice([None, 0, 20, 140, 1000])
    if addressing == "Global" and rng.random() < 0.35:
        kw["propagation_dir"] = rng.choice(
            [None, [1, 0, 0], [0.0, 1.0, 0.0], [1.0, 1.0, 0.5], [0, 0, 1.0], [-1.0, 0.5, 2.0]]
        )
    spec = dict(cls=cls, kwargs=kw, eom=None)
    if cls == "Rydberg" and bw and rng.random() < 0.6:
        spec["eom"] = gen_eom(rng)
    return spec


def gen_dmm(rng, physical=False):
    kw = {}
    pn = 0.0 if physical else 0.4
    bd = opt(rng, pn, lambda: -num(rng, 1, 300))
    kw["bottom_detuning"] = bd
    r = rng.random()
    if physical or r < 0.5:
        base = abs(bd) if bd is not None else 10
        kw["total_bottom_detuning"] = -(base * rng.choice([1, 2, 10, 100]))
    elif r < 0.7:
        kw["total_bottom_detuning"] = None
    if bd is None and rng.random() < 0.3:
        del kw["bottom_detuning"]
    if rng.random() < 0.6:
        kw["clock_period"] = rng.choice([1, 4])
    mind = 1
    if rng.random() < 0.5:
        mind = rng.choice([1, 16])
        kw["min_duration"] = mind
    r = rng.random()
    if physical:
        if r < 0.6:
            kw["max_duration"] = rng.choice([mind, 4000, 2**26])
    elif r < 0.3:
        kw["max_duration"] = None
    elif r < 0.6:
        kw["max_duration"] = rng.choice([mind, 4000, 2**26])
    if rng.random() < 0.3:
        kw["min_avg_amp"] = rng.choice([0, 0.0])
    if rng.random() < 0.4:
        kw["mod_bandwidth"] = rng.choice([None, 8.0, 20])
    if rng.random() < 0.3:
        kw["custom_phase_jump_time"] = rng.choice([None, 0, 100])
    return dict(cls="DMM", kwargs=kw, eom=None)


# ----------------------------------------------------------------- layouts
def gen_coords(rng, n, dim, spacing=5.0, jitter=False):
    """n distinct points on a grid of the given spacing (exactly representable)"""
    pts = set()
    side = max(2, int(n ** (1 / dim)) + 2)
    while len(pts) < n:
        pts.add(tuple(rng.randint(-side, side) for _ in range(dim)))
    out = []
    for p in sorted(pts, key=lambda _: rng.random()):
        c = [spacing * x for x in p]
        if jitter:
            c = [round(x + rng.choice([0.0, 0.25, 0.125, 1e-3, 0.333333]), 6) for x in c]
        out.append(c)
    return out


def gen_layout(rng, dim=None, n=None, spacing=5.0):
    dim = dim or rng.choice([2, 2, 3])
    n = n or rng.randint(1, 12)
    return dict(
        coordinates=gen_coords(rng, n, dim, spacing, jitter=rng.random() < 0.4),
        slug=opt(rng, 0.5, lambda: ident(rng, "lay")),
    )


# ------------------------------------------------------------------- noise
def gen_matrix(rng, n, complex_p=0.5):
    def entry():
        r = rng.random()
        if r < 0.3:
            return rng.choice([0, 1, -1, 0.0, 1.0, 0.5])
        if r < 0.3 + complex_p * 0.7:
            re = rng.choice([0.0, 1.0, -0.5, 0.25, -1.0, round(rng.uniform(-2, 2), 3)] + ([rng.choice(TINY)] if rng.random() < 0.15 else []))
            im = rng.choice([0.0, 1.0, -1.0, 0.5, round(rng.uniform(-2, 2), 3)])
            if rng.random() < 0.25:
                im = rng.choice(TINY)
            return {"re": re, "im": im}
        return round(rng.uniform(-2, 2), 3)

    return [[entry() for _ in range(n)] for _ in range(n)]


def gen_noise_args(rng, valid_bias=0.85):
    """keyword arguments of NoiseModel(...); mostly valid"""
    a = {}
    prob = lambda: rng.choice([0.0, 0, 0.005, 0.01, 0.05, 0.5, 1.0, 1, round(rng.uniform(0, 1), 4)])
    rate = lambda: rng.choice([0.0, 0, 0.01, 0.05, 0.1, 1.0, 2, round(rng.uniform(0, 3), 4)])
    want = {t for t in ["doppler", "amplitude", "SPAM", "dephasing", "relaxation", "depolarizing", "eff_noise", "leakage"] if rng.random() < 0.3}
    if "leakage" in want and rng.random() < 0.9:
        want.add("eff_noise")
    if "doppler" in want:
        a["temperature"] = rng.choice([50.0, 10, 1000.0, 123.0, 0.5, round(rng.uniform(0.1, 1000), 3)])
    elif rng.random() < 0.15:
        a["temperature"] = rng.choice([0.0, 0, None])
    if "amplitude" in want:
        r = rng.random()
        if r < 0.4:
            a["laser_waist"] = rng.choice([175.0, 100, 50.5])
        elif r < 0.7:
            a["amp_sigma"] = prob()
        else:
            a["laser_waist"] = rng.choice([175.0, 100, 50.5])
            a["amp_sigma"] = prob()
    elif rng.random() < 0.1:
        a["amp_sigma"] = rng.choice([0.0, 0, None])
    if "SPAM" in want:
        for k in ("state_prep_error", "p_false_pos", "p_false_neg"):
            if rng.random() < 0.6:
                a[k] = prob()
    if "dephasing" in want:
        for k in ("dephasing_rate", "hyperfine_dephasing_rate"):
            if rng.random() < 0.7:
                a[k] = rate()
    if "relaxation" in want:
        a["relaxation_rate"] = rate()
    if "depolarizing" in want:
        a["depolarizing_rate"] = rate()
    leak = "leakage" in want
    if leak:
        a["with_leakage"] = True
    elif rng.random() < 0.1:
        a["with_leakage"] = False
    if "eff_noise" in want:
        k = rng.randint(1, 3)
        m = (3 if leak else 2) + rng.choice([0, 0, 1])
        a["eff_noise_rates"] = [rng.choice([0.0, 0.1, 1.0, 0.25, round(rng.uniform(0, 2), 3)]) for _ in range(k)]
        a["eff_noise_opers"] = [gen_matrix(rng, m) for _ in range(k)]
    # runs / samples_per_run: needed by some types; sometimes given although
    # irrelevant, sometimes missing although needed
    r = rng.random()
    needs = "doppler" in want or (a.get("amp_sigma") not in (None, 0, 0.0)) or (a.get("state_prep_error") not in (None, 0, 0.0))
    if r < (0.93 if needs else 0.3):
        a["runs"] = rng.choice([1, 15, 100])
        a["samples_per_run"] = rng.choice([1, 5, 10])
    elif r < (0.96 if needs else 0.4):
        a["runs"] = rng.choice([1, 15])
    # invalid stream
    if rng.random() > valid_bias:
        bad = rng.choice(["neg", "prob", "runs0", "len", "shape", "ratetype", "leak_noeff", "waist0", "leaktype"])
        if bad == "neg":
            a[rng.choice(["temperature", "relaxation_rate", "dephasing_rate", "depolarizing_rate"])] = -0.5
        elif bad == "prob":
            a[rng.choice(["state_prep_error", "p_false_pos", "amp_sigma"])] = rng.choice([1.5, -0.1, 2])
        elif bad == "runs0":
            a["runs"] = rng.choice([0, -1])
        elif bad == "len":
            a["eff_noise_rates"] = [0.1, 0.2]
            a["eff_noise_opers"] = [gen_matrix(rng, 2)]
        elif bad == "shape":
            a["eff_noise_rates"] = [0.1]
            a["eff_noise_opers"] = [gen_matrix(rng, rng.choice([1, 4, 5]))]
        elif bad == "ratetype":
            a["eff_noise_rates"] = [1]
            a["eff_noise_opers"] = [gen_matrix(rng, 2)]
        elif bad == "leak_noeff":
            a["with_leakage"] = True
            a.pop("eff_noise_rates", None)
            a.pop("eff_noise_opers", None)
        elif bad == "waist0":
            a["laser_waist"] = rng.choice([0.0, 0, -5.0])
        elif bad == "leaktype":
            a["with_leakage"] = rng.choice([1, 0])
    return a


def gen_simconfig_args(rng):
    """keyword arguments of SimConfig(...) for the SimConfig -> NoiseModel direction"""
    types = [t for t in ["doppler", "amplitude", "SPAM", "dephasing", "relaxation", "depolarizing"] if rng.random() < 0.35]
    a = dict(noise=types)
    if rng.random() < 0.5:
        a["runs"] = rng.choice([1, 15, 30])
        a["samples_per_run"] = rng.choice([1, 5])
    z = lambda v: rng.choice([v, v, 0.0])  # sometimes an active type with all-zero parameters
    if rng.random() < 0.5:
        a["temperature"] = z(rng.choice([50.0, 10.0, 123.0, 246.0, 1000.0]))
    if rng.random() < 0.4:
        a["laser_waist"] = rng.choice([175.0, 100.0, float("inf")])
    if rng.random() < 0.4:
        a["amp_sigma"] = z(rng.choice([0.05, 0.1, 1.0]))
    if rng.random() < 0.4:
        a["eta"] = z(0.01)
    if rng.random() < 0.4:
        a["epsilon"] = z(0.02)
    if rng.random() < 0.4:
        a["epsilon_prime"] = z(0.05)
    if rng.random() < 0.4:
        a["relaxation_rate"] = z(0.1)
    if rng.random() < 0.4:
        a["dephasing_rate"] = z(0.2)
    if rng.random() < 0.4:
        a["hyperfine_dephasing_rate"] = z(0.001)
    if rng.random() < 0.4:
        a["depolarizing_rate"] = z(0.3)
    return a


# ----------------------------------------------------------------- devices
def gen_device(rng):
    virtual = rng.random() < 0.55
    dim = rng.choice([2, 2, 3])
    kw = dict(name=ident(rng, "Dev"), dimensions=dim, rydberg_level=rng.choice([50, 60, 61, 70, 100]))
    chans = []
    nch = rng.randint(0, 4)
    for _ in range(nch):
        chans.append(gen_channel(rng, physical=not virtual))
    has_mw = any(c["cls"] == "Microwave" for c in chans)
    if has_mw or rng.random() < 0.3:
        kw["interaction_coeff_xy"] = rng.choice([3700.0, 1000.5, 3700.0])
    kw["channel_objects"] = chans
    if chans and rng.random() < 0.4:
        ids = []
        while len(ids) < len(chans):
            i = ident(rng, "c")
            if i not in ids and not i.startswith("dmm_"):
                ids.append(i)
        kw["channel_ids"] = ids
    # DMMs / SLM mask
    r = rng.random()
    if virtual:
        if r < 0.3:
            pass  # class default (DMM(),), supports_slm_mask default True
        elif r < 0.45:
            kw["dmm_objects"] = []
            kw["supports_slm_mask"] = False
        elif r < 0.55:
            kw["dmm_objects"] = [dict(cls="DMM", kwargs={}, eom=None)]  # == class default, given explicitly
        else:
            kw["dmm_objects"] = [gen_dmm(rng) for _ in range(rng.randint(1, 3))]
            if rng.random() < 0.5:
                kw["supports_slm_mask"] = rng.choice([True, False])
    else:
        if r < 0.5:
            kw["dmm_objects"] = [gen_dmm(rng, physical=True) for _ in range(rng.randint(1, 2))]
            if rng.random() < 0.6:
                kw["supports_slm_mask"] = True
        elif r < 0.6:
            kw["dmm_objects"] = []
    spacing = rng.choice([4, 5, 5.0])
    if virtual:
        if rng.random() < 0.5:
            kw["min_atom_distance"] = rng.choice([0, 0.0, 4, spacing])
        if rng.random() < 0.5:
            kw["max_atom_num"] = rng.choice([None, 20, 100])
        if rng.random() < 0.5:
            kw["max_radial_distance"] = rng.choice([None, 50, 100])
        if rng.random() < 0.4:
            kw["reusable_channels"] = rng.choice([True, False])
        if rng.random() < 0.3:
            kw["requires_layout"] = rng.choice([True, False])
    else:
        kw["min_atom_distance"] = rng.choice([4, spacing, 1, 2.5])
        kw["max_atom_num"] = rng.choice([20, 100, 25])
        kw["max_radial_distance"] = rng.choice([60, 100, 75])
        if rng.random() < 0.4:
            kw["requires_layout"] = rng.choice([True, False])
        if rng.random() < 0.4:
            kw["accepts_new_layouts"] = rng.choice([True, False])
    filling = 0.5
    if rng.random() < 0.4:
        filling = rng.choice([0.5, 0.4, 1.0, 0.75])
        kw["max_layout_filling"] = filling
    if rng.random() < 0.35:
        kw["optimal_layout_filling"] = rng.choice([None, filling, round(filling / 2, 3), 0.1])
    if rng.random() < 0.35:
        kw["min_layout_traps"] = rng.choice([1, 1, 2])
    if rng.random() < 0.3:
        kw["max_layout_traps"] = rng.choice([None, 1000, 400])
    if rng.random() < 0.4:
        kw["max_sequence_duration"] = rng.choice([None, 6000, 100000])
    if rng.random() < 0.4:
        kw["max_runs"] = rng.choice([None, 500, 2000])
    if rng.random() < 0.3:
        kw["short_description"] = rng.choice(["", "a test device", "x"])
    if rng.random() < 0.35:
        nm = gen_noise_args(rng, valid_bias=1.0)
        kw["default_noise_model"] = nm
    if not virtual and rng.random() < 0.5:
        kw["pre_calibrated_layouts"] = [
            gen_layout(rng, dim=dim, n=rng.randint(2, 8), spacing=5.0) for _ in range(rng.randint(0, 2))
        ]
    return dict(virtual=virtual, kwargs=kw)


# ---------------------------------------------------------- backend objects
BASES = [["r", "g"], ["g", "h"], ["u", "d"], ["r", "g", "h"], ["r", "g", "x"], ["0", "1"]]


def gen_scalar(rng):
    r = rng.random()
    if r < 0.35:
        return rng.choice([1.0, 0.5, -1.0, 2, 0.25, 0, 1])
    if r < 0.75:
        im = rng.choice([0.0, 1.0, -1.0, 0.5, -0.0, round(rng.uniform(-1, 1), 3)])
        if rng.random() < 0.25:
            im = rng.choice(TINY)
        return {
            "re": rng.choice([0.0, 1.0, -0.5, 0.5, -1.0, round(rng.uniform(-1, 1), 3)] + ([rng.choice(TINY)] if rng.random() < 0.15 else [])),
            "im": im,
        }
    return round(rng.uniform(-2, 2), 4)


def gen_state(rng, eig=None, n=None):
    eig = eig or rng.choice(BASES)
    n = n or rng.randint(1, 4)
    k = min(rng.randint(1, 4), len(eig) ** n)
    amps = {}
    while len(amps) < k:
        amps["".join(rng.choice(eig) for _ in range(n))] = gen_scalar(rng)
    return dict(eigenstates=eig, amplitudes=amps)


def gen_operator(rng, eig=None, n=None):
    eig = eig or rng.choice(BASES)
    n = n or rng.randint(1, 4)
    ops = []
    for _ in range(rng.randint(0, 3)):
        free = list(range(n))
        rng.shuffle(free)
        tensor = []
        for _ in range(rng.randint(0, 2)):
            if not free:
                break
            take = [free.pop() for _ in range(rng.randint(1, min(2, len(free))))]
            qop = {}
            for _ in range(rng.randint(1, 3)):
                qop[rng.choice(eig) + rng.choice(eig)] = gen_scalar(rng)
            tensor.append([qop, take])
        ops.append([gen_scalar(rng), tensor])
    return dict(eigenstates=eig, n_qudits=n, operations=ops)


def gen_eval_times(rng):
    if rng.random() < 0.5:
        return None
    ts = sorted({rng.choice([0.0, 0.1, 0.25, 0.5, 0.75, 1.0, 0.333]) for _ in range(rng.randint(1, 4))})
    return ts


OBS = ["bitstrings", "expectation", "fidelity", "occupation", "correlation_matrix", "energy", "energy_second_moment", "energy_variance"]


def gen_observable(rng, eig, n, kind=None):
    kind = kind or rng.choice(OBS)
    o = dict(observable=kind, evaluation_times=gen_eval_times(rng), tag_suffix=opt(rng, 0.6, lambda: ident(rng, "t")))
    if kind == "bitstrings":
        if rng.random() < 0.6:
            o["num_shots"] = rng.choice([1, 10, 1000, 250])
        if rng.random() < 0.5:
            o["one_state"] = rng.choice([None] + eig)
    if kind in ("occupation", "correlation_matrix") and rng.random() < 0.5:
        o["one_state"] = rng.choice([None] + eig)
    if kind == "expectation":
        o["operator"] = gen_operator(rng, eig, n)
    if kind == "fidelity":
        o["state"] = gen_state(rng, eig, n)
    return o


def gen_config(rng):
    eig = rng.choice(BASES[:5])
    n = rng.randint(1, 4)
    obs = []
    tags = set()
    for _ in range(rng.randint(0, 4)):
        o = gen_observable(rng, eig, n)
        tag = (o["observable"], o["tag_suffix"])
        if tag in tags:
            continue
        tags.add(tag)
        obs.append(o)
    kw = dict(observables=obs)
    r = rng.random()
    if r < 0.2:
        kw["default_evaluation_times"] = "Full"
    elif r < 0.7:
        kw["default_evaluation_times"] = gen_eval_times(rng) or [1.0]
    if rng.random() < 0.4:
        kw["initial_state"] = gen_state(rng, eig, n)
    if rng.random() < 0.4:
        kw["with_modulation"] = rng.choice([True, False])
    if rng.random() < 0.35:
        m = [[0.0] * n for _ in range(n)]
        for i in range(n):
            for j in range(i + 1, n):
                m[i][j] = m[j][i] = rng.choice([0.0, 1.5, 2.0, 0.125, round(rng.uniform(0, 5), 3)])
        kw["interaction_matrix"] = m
    if rng.random() < 0.3:
        kw["prefer_device_noise_model"] = rng.choice([True, False])
    if rng.random() < 0.5:
        kw["noise_model"] = gen_noise_args(rng, valid_bias=1.0)
    if rng.random() < 0.3:
        kw["extra"] = dict(dt=rng.choice([1, 5, 10]), opts=[1, 2.5, "x", None, {"a": [1, 2]}])
    return kw


def gen_results(rng):
    n = rng.randint(1, 4)
    order = [f"q{i}" for i in range(n)]
    stores = []
    tags = set()
    for _ in range(rng.randint(0, 5)):
        kind = rng.choice(["bitstrings", "energy", "occupation", "expectation", "correlation_matrix", "fidelity"])
        suffix = opt(rng, 0.6, lambda: ident(rng, "s"))
        if tags and rng.random() < 0.25:
            kind, suffix = rng.choice(sorted(tags, key=str))  # colliding tag
        if (kind, suffix) in tags and rng.random() < 0.5:
            continue  # otherwise: a second observable instance with the same tag (its own uuid)
        tags.add((kind, suffix))
        times = sorted({rng.choice([0.0, 0.1, 0.25, 0.5, 0.75, 1.0]) for _ in range(rng.randint(1, 3))})
        vals = []
        for _ in times:
            if kind == "bitstrings":
                vals.append({"".join(rng.choice("01") for _ in range(n)): rng.randint(1, 100) for _ in range(rng.randint(1, 3))})
            elif kind in ("energy", "fidelity"):
                vals.append(rng.choice([1.5, -0.25, 0.0, 2, {"re": 0.5, "im": 0.0}, {"re": -1.25, "im": 0.5}]))
            elif kind == "expectation":
                vals.append(gen_scalar(rng))
            elif kind == "occupation":
                vals.append({"array": [round(rng.random(), 3) for _ in range(n)]})
            else:
                vals.append([[round(rng.random(), 3) for _ in range(n)] for _ in range(n)])
        stores.append(dict(kind=kind, suffix=suffix, times=times, values=vals))
    return dict(atom_order=order, total_duration=rng.choice([0, 100, 1000, 12345]), stores=stores)


# ------------------------------------------------------- registers / maps
def gen_register(rng):
    dim = rng.choice([2, 2, 3])
    n = rng.randint(1, 8)
    from_layout = rng.random() < 0.45
    r = rng.random()
    if r < 0.7:
        ids = [f"q{i}" for i in range(n)]
    elif r < 0.85:
        ids = []
        while len(ids) < n:
            i = ident(rng, "a")
            if i not in ids:
                ids.append(i)
    else:
        ids = list(range(n))  # documented lossy conversion to str
    if from_layout:
        lay = gen_layout(rng, dim=dim, n=n + rng.randint(0, 5))
        traps = rng.sample(range(len(lay["coordinates"])), n)
        return dict(dim=dim, layout=lay, traps=traps, ids=ids)
    coords = gen_coords(rng, n, dim, spacing=rng.choice([4.0, 5.0, 6.5]), jitter=rng.random() < 0.5)
    if rng.random() < 0.3:
        coords = [[round(x + rng.uniform(-1, 1), rng.choice([3, 7, 9])) for x in c] for c in coords]
    return dict(dim=dim, layout=None, coords=coords, ids=ids)


def gen_detmap(rng):
    n = rng.randint(1, 8)
    coords = gen_coords(rng, n, 2, spacing=5.0, jitter=rng.random() < 0.4)
    weights = [rng.choice([0.0, 1.0, 0.5, 0.25, round(rng.random(), 3)]) for _ in range(n)]
    return dict(coords=coords, weights=weights, slug=opt(rng, 0.5, lambda: ident(rng, "dm")))


def gen_alias(rng):
    """an interleaving of constructions of several instances of the same class"""
    cls = rng.choice(["StateRepr", "OperatorRepr", "NoiseModel", "Channel", "Device", "Results", "Config", "Layout"])
    k = rng.randint(2, 4)
    if cls == "StateRepr":
        specs = [gen_state(rng) for _ in range(k)]
    elif cls == "OperatorRepr":
        specs = [gen_operator(rng) for _ in range(k)]
    elif cls == "NoiseModel":
        specs = [gen_noise_args(rng, valid_bias=1.0) for _ in range(k)]
    elif cls == "Channel":
        specs = [gen_channel(rng) for _ in range(k)]
    elif cls == "Device":
        specs = [gen_device(rng) for _ in range(k)]
    elif cls == "Results":
        specs = [gen_results(rng) for _ in range(k)]
    elif cls == "Config":
        specs = [gen_config(rng) for _ in range(k)]
    else:
        specs = [gen_layout(rng) for _ in range(k)]
    # after building all, decode some of them again (decoding is a construction too)
    decode_order = [rng.randrange(k) for _ in range(rng.randint(0, 3))]
    return dict(cls=cls, specs=specs, decode_order=decode_order)


def gen_argalias(rng):
    """one instance built from caller-owned mutable arguments, which the caller
    then updates in place and re-uses for a second instance"""
    cls = rng.choice(
        ["Config", "Config", "Config", "Observable", "StateRepr", "OperatorRepr", "Layout", "DetuningMap",
         "Register", "NoiseModel", "Device", "Channel"]
    )
    d = dict(cls=cls, use_numpy=rng.random() < 0.6, mut_seed=rng.randrange(1 << 30))
    if cls == "Config":
        n = rng.randint(2, 4)
        m = [[0.0] * n for _ in range(n)]
        for i in range(n):
            for j in range(i + 1, n):
                m[i][j] = m[j][i] = rng.choice([1.5, 2.0, 0.125, round(rng.uniform(0.1, 5), 3)])
        d["spec"] = dict(
            matrix=m if rng.random() < 0.8 else None,
            et=gen_eval_times(rng) or [0.5, 1.0],
            observables=[dict(observable=k, evaluation_times=gen_eval_times(rng), tag_suffix=None)
                         for k in rng.sample(["bitstrings", "occupation", "energy", "correlation_matrix"], rng.randint(1, 3))],
            extra=dict(opts=[1, 2.5, {"a": [1, 2]}], table={"k": [0.5]}, dt=rng.choice([1, 5])) if rng.random() < 0.8 else {},
        )
    elif cls == "Observable":
        d["spec"] = dict(kind=rng.choice(["bitstrings", "occupation", "energy"]), et=gen_eval_times(rng) or [0.25, 1.0])
    elif cls == "StateRepr":
        d["spec"] = gen_state(rng, n=rng.randint(2, 3))
    elif cls == "OperatorRepr":
        sp = gen_operator(rng, n=rng.randint(2, 3))
        if not any(t for _, t in sp["operations"]):
            sp["operations"].append([1.0, [[{sp["eigenstates"][0] * 2: 1.0}, [0]]]])
        d["spec"] = sp
    elif cls == "Layout":
        d["spec"] = gen_layout(rng, n=rng.randint(2, 6))
    elif cls == "DetuningMap":
        d["spec"] = gen_detmap(rng)
    elif cls == "Register":
        n = rng.randint(2, 5)
        dim = rng.choice([2, 3])
        d["spec"] = dict(dim=dim, ids=[f"q{i}" for i in range(n)], coords=gen_coords(rng, n, dim, spacing=5.0))
    elif cls == "NoiseModel":
        k = rng.randint(1, 2)
        d["spec"] = dict(rates=[rng.choice([0.1, 0.5, 1.0]) for _ in range(k)], opers=[gen_matrix(rng, 2, complex_p=0.0) for _ in range(k)])
    elif cls == "Device":
        d["spec"] = dict(chans=[gen_channel(rng) for _ in range(rng.randint(1, 3))], dmms=[gen_dmm(rng) for _ in range(rng.randint(1, 2))],
                         layouts=[])
    else:
        d["spec"] = dict(dir=rng.choice([[1, 0, 0], [0.0, 1.0, 0.0], [1.0, 1.0, 0.5]]), beams=rng.choice([["RED"], ["BLUE", "RED"]]))
    return d


def gen_history(rng):
    """several objects that share a key-like part (trap coordinates, name,
    parameters) and differ in another field, decoded one after the other in
    the same process in a random order with repetitions: decoding must be a
    function of the JSON alone"""
    family = rng.choice(["layouts", "layouts", "registers", "devices", "mixed", "mixed", "detmaps", "noise", "devices_same_name"])
    dim = 2 if family in ("detmaps",) else rng.choice([2, 2, 3])
    n = rng.randint(2, 7)
    coords = gen_coords(rng, n, dim, spacing=5.0)
    slugs = [None]
    while len(slugs) < 3:
        sl = ident(rng, rng.choice(["cal", "lay", "S"]))
        if sl not in slugs:
            slugs.append(sl)
    rng.shuffle(slugs)

    def lay(i, reorder=False):
        c = [list(x) for x in coords]
        if reorder:
            rng.shuffle(c)
        return dict(coordinates=c, slug=slugs[i % len(slugs)])

    def reg(i):
        k = rng.randint(1, n)
        return dict(dim=dim, layout=lay(i), traps=rng.sample(range(n), k), ids=[f"q{j}" for j in range(k)])

    def dev(i, name=None, layouts=None):
        kw = dict(
            name=name or ident(rng, "HDev"), dimensions=dim, rydberg_level=60, min_atom_distance=4,
            max_atom_num=rng.choice([20, 50]), max_radial_distance=100,
            channel_objects=[gen_channel(rng, cls=rng.choice(["Rydberg", "Raman"]), physical=True)],
            pre_calibrated_layouts=layouts if layouts is not None else [lay(i)] + ([lay(i + 1)] if rng.random() < 0.3 else []),
        )
        if rng.random() < 0.5:
            kw["max_runs"] = rng.choice([100, 500, 2000])
        if rng.random() < 0.5:
            kw["max_sequence_duration"] = rng.choice([4000, 6000])
        return dict(virtual=False, kwargs=kw)

    items = []
    if family == "layouts":
        for i in range(rng.randint(2, 3)):
            items.append(dict(type="layout", spec=lay(i, reorder=rng.random() < 0.3)))
    elif family == "registers":
        for i in range(rng.randint(2, 3)):
            items.append(dict(type="register", spec=reg(i)))
    elif family == "devices":
        for i in range(rng.randint(2, 3)):
            items.append(dict(type="device", spec=dev(i)))
    elif family == "mixed":
        kinds = ["device", "register", "layout"]
        rng.shuffle(kinds)
        for i, k in enumerate(kinds[: rng.randint(2, 3)]):
            items.append(dict(type=k, spec=dict(device=dev, register=reg, layout=lay)[k](i)))
    elif family == "detmaps":
        for i in range(rng.randint(2, 3)):
            items.append(dict(type="detmap", spec=dict(coords=[list(x) for x in coords], slug=slugs[i],
                                                        weights=[rng.choice([0.0, 1.0, 0.5, 0.25]) for _ in range(n)])))
    elif family == "noise":
        base = dict(relaxation_rate=0.1, dephasing_rate=0.05)
        for i in range(rng.randint(2, 3)):
            a = dict(base)
            a[rng.choice(["relaxation_rate", "dephasing_rate", "hyperfine_dephasing_rate", "depolarizing_rate"])] = rng.choice([0.2, 0.3, 1.0])
            if rng.random() < 0.4:
                a.update(p_false_pos=rng.choice([0.01, 0.05]))
            items.append(dict(type="noise", args=a))
    else:
        name = ident(rng, "Same")
        for i in range(rng.randint(2, 3)):
            items.append(dict(type="device", spec=dev(i, name=name, layouts=[] if rng.random() < 0.5 else None)))
    order = list(range(len(items)))
    rng.shuffle(order)
    order += [rng.randrange(len(items)) for _ in range(rng.randint(1, 4))]
    return dict(family=family, items=items, order=order)


KINDS = [
    ("device", 0.24),
    ("history", 0.07),
    ("argalias", 0.08),
    ("noise", 0.18),
    ("simconfig", 0.06),
    ("config", 0.11),
    ("results", 0.06),
    ("register", 0.08),
    ("layout", 0.03),
    ("detmap", 0.03),
    ("alias", 0.06),
]


def gen_case(rng: random.Random, tier: str):
    r = rng.random()
    acc = 0.0
    kind = KINDS[-1][0]
    for k, w in KINDS:
        acc += w
        if r < acc:
            kind = k
            break
    if kind == "device":
        return dict(kind=kind, spec=gen_device(rng), foreign_seed=rng.randrange(1 << 30))
    if kind == "argalias":
        return dict(kind=kind, spec=gen_argalias(rng))
    if kind == "history":
        return dict(kind=kind, spec=gen_history(rng))
    if kind == "noise":
        return dict(kind=kind, args=gen_noise_args(rng))
    if kind == "simconfig":
        return dict(kind=kind, args=gen_simconfig_args(rng))
    if kind == "config":
        return dict(kind=kind, spec=gen_config(rng))
    if kind == "results":
        return dict(kind=kind, spec=gen_results(rng))
    if kind == "register":
        return dict(kind=kind, spec=gen_register(rng))
    if kind == "layout":
        return dict(kind=kind, spec=gen_layout(rng))
    if kind == "detmap":
        return dict(kind=kind, spec=gen_detmap(rng))
    return dict(kind="alias", spec=gen_alias(rng))
