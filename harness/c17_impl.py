"""C17 implementation runner and property oracle.

For every case kind: build the real Pulser objects from the spec, serialise,
validate, deserialise, snapshot everything (neutral form, see c17_snap) and
evaluate the property statement directly:

  * schema-valid JSON (the object's own to_abstract_repr validates; results of
    internal encoders are validated explicitly),
  * decoded == original, and field by field,
  * NoiseModel: active types are exactly those with a truthy parameter
    (mapping written down here independently of the tree's tables),
  * NoiseModel <-> SimConfig keeps types and relevant parameters,
  * no shared state: snapshots of earlier instances are re-taken after every
    later construction/decoding of the same class."""
from __future__ import annotations

import json
import math
import random
import warnings

import numpy as np

from harness import c17_snap as S
from harness.framework import Violation

# documented mapping noise type -> parameters (docstring of NoiseModel)
TYPE_PARAMS = {
    "leakage": ("with_leakage",),
    "doppler": ("temperature",),
    "amplitude": ("laser_waist", "amp_sigma"),
    "SPAM": ("p_false_pos", "p_false_neg", "state_prep_error"),
    "dephasing": ("dephasing_rate", "hyperfine_dephasing_rate"),
    "relaxation": ("relaxation_rate",),
    "depolarizing": ("depolarizing_rate",),
    "eff_noise": ("eff_noise_rates", "eff_noise_opers"),
}
SC_NAME = {"state_prep_error": "eta", "p_false_pos": "epsilon", "p_false_neg": "epsilon_prime"}


def cx(x):
    """spec scalar -> Python number ({"re","im"} -> complex)"""
    if isinstance(x, dict) and set(x) == {"re", "im"}:
        return complex(x["re"], x["im"])
    if isinstance(x, dict) and set(x) == {"array"}:
        return np.array(x["array"])
    if isinstance(x, list):
        return [cx(y) for y in x]
    if isinstance(x, dict):
        return {k: cx(v) for k, v in x.items()}
    return x


# ------------------------------------------------------------ value equality
def veq(a, b):
    """Python == on neutral values (numbers across int/float/complex, lists
    elementwise, dicts by key)"""
    if isinstance(a, (list, tuple)) and isinstance(b, (list, tuple)):
        return len(a) == len(b) and all(veq(x, y) for x, y in zip(a, b))
    if isinstance(a, dict) and isinstance(b, dict):
        return a.keys() == b.keys() and all(veq(a[k], b[k]) for k in a)
    if isinstance(a, (list, tuple, dict)) or isinstance(b, (list, tuple, dict)):
        return False
    if a is None or b is None:
        return a is None and b is None
    if isinstance(a, str) or isinstance(b, str):
        return isinstance(a, str) and isinstance(b, str) and a == b
    return a == b


def diff_paths(a, b, prefix=""):
    """paths (dots for dict keys, [] for list positions) at which two neutral
    values differ"""
    if isinstance(a, dict) and isinstance(b, dict):
        out = []
        for k in a:
            if k not in b:
                out.append(f"{prefix}{k}")
            else:
                out += diff_paths(a[k], b[k], f"{prefix}{k}.")
        out += [f"{prefix}{k}" for k in b if k not in a]
        return out
    if isinstance(a, list) and isinstance(b, list) and len(a) == len(b):
        out = []
        for x, y in zip(a, b):
            for p in diff_paths(x, y, prefix.rstrip(".") + "[]."):
                if p not in out:
                    out.append(p)
        return out
    return [] if veq(a, b) else [prefix.rstrip(".")]


def noise_path_sig(path, orig_nm_snap, dec_nm_snap):
    """suffix that narrows a difference inside a noise model snapshot"""
    leaf = path.split(".")[-1]
    if leaf in ("runs", "samples_per_run") and dec_nm_snap.get(leaf) is None and orig_nm_snap.get(leaf) is not None:
        types = orig_nm_snap["noise_types"]
        needs = (
            "doppler" in types
            or ("amplitude" in types and orig_nm_snap["amp_sigma"] != 0.0)
            or ("SPAM" in types and orig_nm_snap["state_prep_error"] != 0.0)
        )
        if not needs:
            return ":irrelevant-dropped"
    return ""


def diff_fields(a: dict, b: dict):
    out = []
    for k in a:
        if k not in b or not veq(a[k], b[k]):
            out.append(k)
    for k in b:
        if k not in a:
            out.append(k)
    return out


# ------------------------------------------------------------------ builders
def build_eom(e):
    from pulser.channels.eom import RydbergBeam, RydbergEOM

    kw = dict(e)
    kw["limiting_beam"] = RydbergBeam[kw["limiting_beam"]]
    kw["controlled_beams"] = tuple(RydbergBeam[b] for b in kw["controlled_beams"])
    return RydbergEOM(**kw)


def build_channel(spec):
    import pulser.channels as ch

    cls = getattr(ch, spec["cls"])
    kw = dict(spec["kwargs"])
    if kw.get("propagation_dir") is not None:
        kw["propagation_dir"] = tuple(kw["propagation_dir"])
    if spec.get("eom"):
        kw["eom_config"] = build_eom(spec["eom"])
    return cls(**kw)


def build_layout(spec):
    from pulser.register.register_layout import RegisterLayout

    return RegisterLayout(spec["coordinates"], slug=spec.get("slug"))


def build_noise(args):
    from pulser import NoiseModel

    kw = {k: cx(v) for k, v in args.items()}
    return NoiseModel(**kw)


def build_device(spec):
    from pulser.devices import Device, VirtualDevice

    kw = dict(spec["kwargs"])
    kw["channel_objects"] = tuple(build_channel(c) for c in kw.get("channel_objects", []))
    if "channel_ids" in kw and kw["channel_ids"] is not None:
        kw["channel_ids"] = tuple(kw["channel_ids"])
    if "dmm_objects" in kw:
        kw["dmm_objects"] = tuple(build_channel(c) for c in kw["dmm_objects"])
    if kw.get("default_noise_model") is not None:
        kw["default_noise_model"] = build_noise(kw["default_noise_model"])
    if "pre_calibrated_layouts" in kw:
        kw["pre_calibrated_layouts"] = tuple(build_layout(l) for l in kw["pre_calibrated_layouts"])
    return (VirtualDevice if spec["virtual"] else Device)(**kw)


def build_state(spec):
    from pulser.backend.state import StateRepr

    return StateRepr.from_state_amplitudes(
        eigenstates=tuple(spec["eigenstates"]), amplitudes={k: cx(v) for k, v in spec["amplitudes"].items()}
    )


def build_operator(spec):
    from pulser.backend.operator import OperatorRepr

    ops = [(cx(c), [({k: cx(v) for k, v in q.items()}, list(inds)) for q, inds in t]) for c, t in spec["operations"]]
    return OperatorRepr.from_operator_repr(eigenstates=tuple(spec["eigenstates"]), n_qudits=spec["n_qudits"], operations=ops)


def build_observable(o):
    import pulser.backend as pb

    kw = dict(evaluation_times=o["evaluation_times"], tag_suffix=o["tag_suffix"])
    k = o["observable"]
    if k == "bitstrings":
        for f in ("num_shots", "one_state"):
            if f in o:
                kw[f] = o[f]
        return pb.BitStrings(**kw)
    if k == "expectation":
        return pb.Expectation(build_operator(o["operator"]), **kw)
    if k == "fidelity":
        return pb.Fidelity(build_state(o["state"]), **kw)
    if k in ("occupation", "correlation_matrix"):
        if "one_state" in o:
            kw["one_state"] = o["one_state"]
        return (pb.Occupation if k == "occupation" else pb.CorrelationMatrix)(**kw)
    return {"energy": pb.Energy, "energy_second_moment": pb.EnergySecondMoment, "energy_variance": pb.EnergyVariance}[k](**kw)


def build_config(spec):
    from pulser.backend import EmulationConfig

    kw = {k: v for k, v in spec.items() if k != "extra"}
    kw["observables"] = [build_observable(o) for o in spec["observables"]]
    if "initial_state" in kw:
        kw["initial_state"] = build_state(kw["initial_state"])
    if "noise_model" in kw:
        kw["noise_model"] = build_noise(kw["noise_model"])
    kw.update(spec.get("extra", {}))
    return EmulationConfig(**kw)


def build_results(spec):
    import pulser.backend as pb
    from pulser.backend import Results

    r = Results(atom_order=tuple(spec["atom_order"]), total_duration=spec["total_duration"])
    cls = dict(
        bitstrings=pb.BitStrings,
        energy=pb.Energy,
        occupation=pb.Occupation,
        correlation_matrix=pb.CorrelationMatrix,
    )
    for st in spec["stores"]:
        if st["kind"] in cls:
            obs = cls[st["kind"]](tag_suffix=st["suffix"])
        elif st["kind"] == "expectation":
            obs = pb.Expectation(build_operator(dict(eigenstates=["r", "g"], n_qudits=1, operations=[])), tag_suffix=st["suffix"])
        else:
            obs = pb.Fidelity(build_state(dict(eigenstates=["r", "g"], amplitudes={"r": 1.0})), tag_suffix=st["suffix"])
        for t, v in zip(st["times"], st["values"]):
            r._store(observable=obs, time=t, value=cx(v))
    return r


# ---------------------------------------------------------------- snapshots
def snap_state(st):
    return dict(
        eigenstates=S.neutral(st.eigenstates),
        amplitudes=S.neutral(dict(st._amplitudes)) if st._amplitudes is not None else None,
        n_qudits=st.n_qudits,
    )


def snap_operator(op):
    return dict(
        eigenstates=S.neutral(op._eigenstates),
        n_qudits=op._n_qudits,
        operations=S.neutral(op._operations),
    )


def snap_observable(o):
    d = dict(cls=type(o).__name__, evaluation_times=S.neutral(o.evaluation_times), tag_suffix=o._tag_suffix, tag=o.tag)
    for f in ("num_shots", "one_state"):
        if hasattr(o, f):
            d[f] = getattr(o, f)
    if hasattr(o, "operator"):
        d["operator"] = snap_operator(o.operator)
    if hasattr(o, "state"):
        d["state"] = snap_state(o.state)
    return d


def snap_config(c):
    d = {}
    for k, v in c._backend_options.items():
        if k == "observables":
            d[k] = [snap_observable(o) for o in v]
        elif k == "initial_state":
            d[k] = None if v is None else snap_state(v)
        elif k == "noise_model":
            d[k] = S.snap_noise(v)
        else:
            d[k] = S.neutral(v)
    return d


def snap_results(r):
    """every field, private stores included: _results / _times per uuid (uuids
    in storage order, several uuids may carry the same tag), _tagmap"""
    uuids = list(r._results)
    d = dict(
        atom_order=S.neutral(r.atom_order),
        total_duration=r.total_duration,
        uuids=[str(u) for u in uuids],
        time_uuids=[str(u) for u in r._times],
        tagmap={tag: str(u) for tag, u in r._tagmap.items()},
        stores=[dict(times=S.neutral(r._times.get(u)), values=S.neutral(r._results[u])) for u in uuids],
        tags={},
    )
    for tag, u in r._tagmap.items():
        d["tags"][tag] = dict(times=S.neutral(r._times.get(u)), values=S.neutral(r._results.get(u)))
    return d


def results_model_inst(sn):
    """the instance shape of Model/RtBackend.v"""
    return {
        "__class__": "Results",
        "atom_order": sn["atom_order"],
        "total_duration": sn["total_duration"],
        "tagmap": dict(sn["tagmap"]),
        "results": {u: st["values"] for u, st in zip(sn["uuids"], sn["stores"])},
        "times": {u: st["times"] for u, st in zip(sn["uuids"], sn["stores"]) if st["times"] is not None},
    }


def snap_simconfig(sc):
    import dataclasses

    d = {"__class__": "SimConfig"}
    for f in dataclasses.fields(sc):
        if f.name == "solver_options":
            continue
        d[f.name] = S.neutral(getattr(sc, f.name))
    return d


def snap_register(reg):
    return dict(
        cls=type(reg).__name__,
        ids=list(reg.qubit_ids),
        coords=S.neutral(reg._coords_arr),
        layout=None if reg.layout is None else S.snap_layout(reg.layout),
    )


def snap_detmap(dm):
    return dict(coords=S.neutral(dm.sorted_coords), weights=S.neutral(dm.sorted_weights), slug=dm.slug)


def snap_any(o):
    n = type(o).__name__
    if n == "StateRepr":
        return snap_state(o)
    if n == "OperatorRepr":
        return snap_operator(o)
    if n == "NoiseModel":
        return S.snap_noise(o)
    if n == "RegisterLayout":
        return S.snap_layout(o)
    if n == "Results":
        return snap_results(o)
    if n == "EmulationConfig":
        return snap_config(o)
    return S.snap_dataclass(o)


# ------------------------------------------------------------------ runners
def _quiet(f, *a, **k):
    with warnings.catch_warnings():
        warnings.simplefilter("ignore")
        return f(*a, **k)


def validate(s: str, name: str):
    from pulser.json.abstract_repr.validation import validate_abstract_repr

    validate_abstract_repr(s, name)


def foreign_variants(json_obj, seed):
    """JSON objects that differ from the encoder's output only in which
    defaulted keys are spelled out: decoding them exercises the decoder's
    default logic independently of the encoder."""
    rng = random.Random(seed)
    import copy

    CH_DEFAULTS = dict(min_avg_amp=0, custom_phase_jump_time=None, propagation_dir=None)
    EOM_DEFAULTS = dict(multiple_beam_control=True, custom_buffer_time=None, blue_shift_coeff=1.0, red_shift_coeff=1.0)
    out = []
    # v1: spell out elided optional keys
    j = copy.deepcopy(json_obj)
    for ch in j.get("channels", []) + j.get("dmm_objects", []):
        for k, d in CH_DEFAULTS.items():
            if k not in ch and rng.random() < 0.6:
                ch[k] = d
        if "bottom_detuning" in ch and "total_bottom_detuning" not in ch and rng.random() < 0.6:
            ch["total_bottom_detuning"] = None
        if ch.get("eom_config"):
            for k, d in EOM_DEFAULTS.items():
                if k not in ch["eom_config"] and rng.random() < 0.6:
                    ch["eom_config"][k] = d
    DEV_DEFAULTS = dict(max_sequence_duration=None, max_runs=None, optimal_layout_filling=None, max_layout_traps=None, min_layout_traps=1)
    for k, d in DEV_DEFAULTS.items():
        if k not in j and rng.random() < 0.5:
            j[k] = d
    out.append(j)
    # v2: drop keys that have a dataclass default (chosen so that the object
    # stays valid: constructor validation is outside the model)
    j = copy.deepcopy(json_obj)
    all_ch = j.get("channels", []) + j.get("dmm_objects", [])
    for ch in all_ch:
        for k in ("clock_period", "min_duration", "max_duration", "custom_phase_jump_time"):
            if k in ch and rng.random() < 0.3:
                if k == "max_duration" and ch.get("min_duration", 1) > 100000000:
                    continue
                if k == "max_duration" and ch[k] is None:
                    pass
                del ch[k]
        if ch.get("eom_config") is None and "mod_bandwidth" in ch and rng.random() < 0.2:
            del ch["mod_bandwidth"]
    has_xy = any(ch.get("basis") == "XY" for ch in j.get("channels", []))
    simple_layout = "optimal_layout_filling" not in j and "max_layout_traps" not in j
    for k in ("max_layout_filling", "supports_slm_mask", "interaction_coeff_xy", "reusable_channels"):
        if k in j and rng.random() < 0.25:
            if k == "interaction_coeff_xy" and has_xy:
                continue
            if k == "max_layout_filling" and not simple_layout:
                continue
            if k == "supports_slm_mask" and j.get("is_virtual") and not j.get("dmm_objects"):
                continue  # the class default True needs a DMM
            del j[k]
    out.append(j)
    # v3: drop one key that has no default anywhere (KeyError / TypeError expected)
    j = copy.deepcopy(json_obj)
    target = rng.choice(["name", "dimensions", "rydberg_level", "channels", "ch:addressing", "ch:max_amp", "ch:basis", "ch:eom_config", "is_virtual"])
    if target.startswith("ch:"):
        chs = j.get("channels", []) + j.get("dmm_objects", [])
        if chs:
            rng.choice(chs).pop(target[3:], None)
    else:
        j.pop(target, None)
    out.append(j)
    return out


def run_device(case):
    viols = []

    def bad(sig, what, detail=None):
        viols.append(Violation(sig, what, case, detail))

    run = dict(kind="device")
    try:
        dev = _quiet(build_device, case["spec"])
    except Exception as e:  # noqa: BLE001
        run["invalid"] = f"{type(e).__name__}: {e}"[:300]
        return run, viols
    inst = S.snap_dataclass(dev)
    run["inst"] = inst
    try:
        s = _quiet(dev.to_abstract_repr)
    except Exception as e:  # noqa: BLE001
        bad(f"device:serialize-raises:{type(e).__name__}", f"to_abstract_repr raised {type(e).__name__}: {e}"[:400])
        return run, viols
    run["json"] = json.loads(s)
    try:
        validate(s, "device")
    except Exception as e:  # noqa: BLE001
        bad("device:schema-invalid", f"serialised device is not schema-valid: {e}"[:400])
    try:
        dec = _quiet(type(dev).from_abstract_repr, s)
    except Exception as e:  # noqa: BLE001
        c = e.__cause__
        bad(
            f"device:deserialize-raises:{type(c or e).__name__}",
            f"from_abstract_repr raised {type(e).__name__} ({type(c).__name__ if c else ''}: {c})"[:400],
        )
        return run, viols
    dinst = S.snap_dataclass(dec)
    run["dec"] = dinst
    fields = diff_fields(inst, dinst)
    for f in fields:
        if f == "default_noise_model" and isinstance(inst[f], dict) and isinstance(dinst.get(f), dict):
            sigs = [
                f"device:field-differs:{p}" + noise_path_sig(p, inst[f], dinst[f])
                for p in diff_paths(inst[f], dinst[f], "default_noise_model.")
            ]
        else:
            sigs = [f"device:field-differs:{p}" for p in diff_paths(inst.get(f), dinst.get(f), f + ".")]
        for sig in sigs:
            bad(sig, f"field {f!r}: original {inst.get(f)!r}, decoded {dinst.get(f)!r}"[:500])
    if not fields and not (dec == dev):
        bad("device:decoded-not-equal", "decoded device != original although all fields compare equal")
    if [f for f in fields if f != "short_description"] == [] and type(dec) is not type(dev):
        bad("device:class-differs", f"{type(dev).__name__} decoded as {type(dec).__name__}")
    # foreign JSON: the decoder alone
    from pulser.json.abstract_repr.deserializer import _deserialize_device_object

    run["foreign"] = []
    for j in foreign_variants(run["json"], case.get("foreign_seed", 0)):
        import copy

        jj = copy.deepcopy(j)
        try:
            d2 = _quiet(_deserialize_device_object, jj)
            run["foreign"].append((j, S.snap_dataclass(d2)))
        except Exception as e:  # noqa: BLE001
            run["foreign"].append((j, None, type(e).__name__))
    # variant 1 spells out defaults: must decode to the same device
    f1 = run["foreign"][0]
    if f1[1] is None:
        bad("device:explicit-defaults-rejected", f"decoder rejects the JSON with elided defaults spelled out: {f1[2]}")
    elif "dec" in run and diff_fields(run["dec"], f1[1]):
        bad(
            "device:explicit-defaults-differ",
            f"spelling out elided defaults changes the decoded device in {diff_fields(run['dec'], f1[1])}",
        )
    return run, viols


def truthy_arg(v):
    v = cx(v)
    if isinstance(v, (list, tuple)):
        return len(v) > 0
    return bool(v)


def expected_types(args):
    return {t for t, ps in TYPE_PARAMS.items() if any(p in args and truthy_arg(args[p]) for p in ps)}


def relevant_params(nm):
    """the parameters that matter for the noise model's active types"""
    rel = set()
    for t in nm.noise_types:
        rel.update(TYPE_PARAMS[t])
        if t == "doppler" or (t == "amplitude" and nm.amp_sigma != 0.0) or (t == "SPAM" and nm.state_prep_error != 0.0):
            rel.update(("runs", "samples_per_run"))
    if nm.laser_waist is None:
        rel.discard("laser_waist")
    return rel


def run_noise(case):
    viols = []

    def bad(sig, what, detail=None):
        viols.append(Violation(sig, what, case, detail))

    run = dict(kind="noise", args=S.neutral(cx(case["args"])))
    try:
        nm = _quiet(build_noise, case["args"])
    except (ValueError, TypeError) as e:
        run["init"] = None
        run["error"] = f"{type(e).__name__}: {e}"[:200]
        return run, viols
    inst = S.snap_noise(nm)
    run["init"] = inst
    exp = expected_types(case["args"])
    if set(nm.noise_types) != exp:
        bad("noise:types-not-exact", f"active types {sorted(nm.noise_types)} but parameters were set for {sorted(exp)}")
    try:
        s = _quiet(nm.to_abstract_repr)
    except Exception as e:  # noqa: BLE001
        bad(f"noise:serialize-raises:{type(e).__name__}", f"{e}"[:300])
        return run, viols
    run["json"] = json.loads(s)
    from pulser import NoiseModel

    try:
        nm2 = _quiet(NoiseModel.from_abstract_repr, s)
    except Exception as e:  # noqa: BLE001
        bad(f"noise:deserialize-raises:{type(e).__name__}", f"{e}"[:300])
        run["dec"] = None
        nm2 = None
    if nm2 is not None:
        dinst = S.snap_noise(nm2)
        run["dec"] = dinst
        rel = relevant_params(nm)
        fields = diff_fields(inst, dinst)
        for f in fields:
            if f in ("runs", "samples_per_run") and f not in rel and dinst.get(f) is None:
                sig = f"noise:field-differs:{f}:irrelevant-dropped"
            else:
                sig = f"noise:field-differs:{f}"
            bad(sig, f"field {f!r}: original {inst.get(f)!r}, decoded {dinst.get(f)!r}"[:400])
        if not fields and nm2 != nm:
            bad("noise:decoded-not-equal", "decoded noise model != original although all fields compare equal")
    # NoiseModel -> SimConfig -> NoiseModel
    try:
        from pulser_simulation import SimConfig
    except ImportError:  # pragma: no cover
        return run, viols
    try:
        sc = _quiet(SimConfig.from_noise_model, nm)
    except Exception as e:  # noqa: BLE001
        bad(f"simconfig:from_noise_model-raises:{type(e).__name__}", f"{e}"[:300])
        run["sc"] = None
        return run, viols
    run["sc"] = snap_simconfig(sc)
    if set(sc.noise) != set(nm.noise_types):
        bad("simconfig:from_noise_model:types-differ", f"{sc.noise} vs {nm.noise_types}")
    try:
        nm3 = _quiet(sc.to_noise_model)
    except Exception as e:  # noqa: BLE001
        bad(f"simconfig:to_noise_model-raises:{type(e).__name__}", f"{e}"[:300])
        run["back"] = None
        return run, viols
    run["back"] = S.snap_noise(nm3)
    if set(nm3.noise_types) != set(nm.noise_types):
        bad("simconfig:roundtrip:types-differ", f"{nm.noise_types} -> {nm3.noise_types}")
    for p in sorted(relevant_params(nm)):
        a, b = S.neutral(getattr(nm, p)), S.neutral(getattr(nm3, p))
        if not veq(a, b):
            if p == "temperature" and isinstance(a, (int, float)) and isinstance(b, float) and abs(a - b) <= 4e-16 * abs(a):
                sig = "simconfig:roundtrip:param-differs:temperature:rounding"
            else:
                sig = f"simconfig:roundtrip:param-differs:{p}"
            bad(sig, f"relevant parameter {p!r}: {a!r} -> {b!r}"[:300])
    return run, viols


def run_simconfig(case):
    viols = []

    def bad(sig, what, detail=None):
        viols.append(Violation(sig, what, case, detail))

    from pulser_simulation import SimConfig

    run = dict(kind="simconfig", args=S.neutral(case["args"]))
    kw = dict(case["args"])
    kw["noise"] = tuple(kw["noise"])
    try:
        sc = _quiet(SimConfig, **kw)
    except (ValueError, TypeError) as e:
        run["sc"] = None
        run["error"] = str(e)[:200]
        return run, viols
    run["sc"] = snap_simconfig(sc)
    try:
        nm = _quiet(sc.to_noise_model)
    except Exception as e:  # noqa: BLE001
        bad(f"simconfig:to_noise_model-raises:{type(e).__name__}", f"{e}"[:300])
        run["nm"] = None
        return run, viols
    run["nm"] = S.snap_noise(nm)
    lost = set(sc.noise) - set(nm.noise_types)
    extra = set(nm.noise_types) - set(sc.noise)
    for t in sorted(lost):
        allzero = all(not getattr(sc, SC_NAME.get(p, p)) or (p == "laser_waist" and math.isinf(sc.laser_waist)) for p in TYPE_PARAMS[t])
        bad(
            "simconfig:to_noise_model:type-lost" + (":all-zero-params" if allzero else ""),
            f"SimConfig noise type {t!r} is not active in to_noise_model() = {nm.noise_types}",
        )
    for t in sorted(extra):
        bad("simconfig:to_noise_model:type-added", f"type {t!r} appears in {nm.noise_types}, SimConfig.noise = {sc.noise}")
    # relevant parameters preserved
    for t in set(sc.noise) & set(nm.noise_types):
        for p in TYPE_PARAMS[t]:
            a = getattr(sc, SC_NAME.get(p, p))
            if p == "temperature":
                a = case["args"].get("temperature", 50.0)
            if p == "laser_waist" and math.isinf(a):
                a = None
            b = getattr(nm, p)
            if not veq(S.neutral(a), S.neutral(b)):
                if p == "temperature" and abs(a - b) <= 4e-16 * abs(a):
                    sig = "simconfig:to_noise_model:param-differs:temperature:rounding"
                else:
                    sig = f"simconfig:to_noise_model:param-differs:{p}"
                bad(sig, f"{p}: SimConfig {a!r} -> NoiseModel {b!r}")
    return run, viols


def contains_obs(spec, kind):
    return any(o["observable"] == kind for o in spec["observables"])


def run_config(case):
    viols = []

    def bad(sig, what, detail=None):
        viols.append(Violation(sig, what, case, detail))

    run = dict(kind="config")
    try:
        cfg = _quiet(build_config, case["spec"])
    except Exception as e:  # noqa: BLE001
        run["invalid"] = f"{type(e).__name__}: {e}"[:300]
        return run, viols
    inst = snap_config(cfg)
    run["inst"] = inst
    try:
        s = _quiet(cfg.to_abstract_repr)
    except Exception as e:  # noqa: BLE001
        if type(e).__name__ == "ValidationError" and contains_obs(case["spec"], "energy_second_moment") and "energy_second_moment" in str(e)[:400]:
            sig = "config:serialize-raises:schema-rejects-energy_second_moment"
        elif type(e).__name__ == "AttributeError" and inst["noise_model"]["eff_noise_rates"] and "has no attribute 'get'" in str(e):
            sig = "config:serialize-raises:jsonschema-crashes-on-eff_noise"
        else:
            sig = f"config:serialize-raises:{type(e).__name__}"
        bad(sig, f"EmulationConfig.to_abstract_repr raised {type(e).__name__}: {str(e)[:300]}")
        # still exercise the codec without the schema
        try:
            s = _quiet(cfg.to_abstract_repr, skip_validation=True)
        except Exception:  # noqa: BLE001
            return run, viols
        run["json"] = json.loads(s)
        return run, viols
    run["json"] = json.loads(s)
    from pulser.backend import EmulationConfig

    try:
        cfg2 = _quiet(EmulationConfig.from_abstract_repr, s)
    except Exception as e:  # noqa: BLE001
        bad(f"config:deserialize-raises:{type(e).__name__}", f"{e}"[:300])
        return run, viols
    dinst = snap_config(cfg2)
    run["dec"] = dinst
    for f in diff_fields(inst, dinst):
        for p in diff_paths(inst.get(f), dinst.get(f), f + "."):
            sub = noise_path_sig(p, inst[f], dinst[f]) if f == "noise_model" else ""
            bad(f"config:field-differs:{p}{sub}", f"field {f!r}: original {inst.get(f)!r}, decoded {dinst.get(f)!r}"[:500])
    return run, viols


def only_unrestored_complex(a, b):
    """True iff b is a with every complex number of non-zero imaginary part
    replaced by exactly its {"real", "imag"} dictionary (the known finding of
    Results) and nothing else differs"""
    if isinstance(a, complex) and a.imag != 0:
        return isinstance(b, dict) and set(b) == {"real", "imag"} and veq(b["real"], a.real) and veq(b["imag"], a.imag) \
            and repr(float(b["real"])) == repr(a.real) and repr(float(b["imag"])) == repr(a.imag)
    if isinstance(a, list) and isinstance(b, list) and len(a) == len(b):
        return all(only_unrestored_complex(x, y) for x, y in zip(a, b))
    if isinstance(a, dict) and isinstance(b, dict) and a.keys() == b.keys():
        return all(only_unrestored_complex(a[k], b[k]) for k in a)
    return veq(a, b)


def has_true_complex(v):
    if isinstance(v, complex):
        return v.imag != 0
    if isinstance(v, list):
        return any(has_true_complex(x) for x in v)
    if isinstance(v, dict):
        return any(has_true_complex(x) for x in v.values())
    return False


def run_results(case):
    viols = []

    def bad(sig, what, detail=None):
        viols.append(Violation(sig, what, case, detail))

    from pulser.backend import Results

    run = dict(kind="results")
    try:
        res = _quiet(build_results, case["spec"])
    except Exception as e:  # noqa: BLE001
        run["invalid"] = f"{type(e).__name__}: {e}"[:300]
        return run, viols
    inst = snap_results(res)
    run["inst"] = inst
    try:
        s = _quiet(res.to_abstract_repr)
    except Exception as e:  # noqa: BLE001
        bad(f"results:serialize-raises:{type(e).__name__}", f"{e}"[:300])
        return run, viols
    run["json"] = json.loads(s)
    try:
        r2 = _quiet(Results.from_abstract_repr, s)
    except Exception as e:  # noqa: BLE001
        bad(f"results:deserialize-raises:{type(e).__name__}", f"{e}"[:300])
        return run, viols
    dinst = snap_results(r2)
    run["dec"] = dinst
    for f in ("atom_order", "total_duration"):
        if not veq(inst[f], dinst[f]) or type(getattr(res, f)) is not type(getattr(r2, f)):
            bad(f"results:field-differs:{f}", f"{getattr(res, f)!r} -> {getattr(r2, f)!r}")
    # private stores, field-exact
    if inst["tagmap"] != dinst["tagmap"]:
        bad("results:tagmap-differs", f"_tagmap {inst['tagmap']} -> {dinst['tagmap']}"[:400])
    if inst["uuids"] != dinst["uuids"]:
        lost = [u for u in inst["uuids"] if u not in dinst["uuids"]]
        shared = len(set(inst["tagmap"].values())) < len(inst["uuids"])
        bad(
            "results:stored-uuids-differ" + (":colliding-tags" if shared else ""),
            f"_results keys {inst['uuids']} -> {dinst['uuids']} (lost {lost})"[:400],
        )
    if inst["time_uuids"] != dinst["time_uuids"]:
        bad("results:time-uuids-differ", f"_times keys {inst['time_uuids']} -> {dinst['time_uuids']}"[:400])
    for u, a in zip(inst["uuids"], inst["stores"]):
        if u not in dinst["uuids"]:
            continue
        b = dinst["stores"][dinst["uuids"].index(u)]
        if not veq(a["times"], b["times"]):
            bad("results:times-differ", f"{u}: {a['times']} -> {b['times']}")
        if not veq(a["values"], b["values"]):
            cxs = has_true_complex(a["values"]) and only_unrestored_complex(a["values"], b["values"])
            bad(
                "results:value-differs" + (":complex-not-restored" if cxs else ""),
                f"{u}: {a['values']!r} -> {b['values']!r}"[:400],
            )
    # public getters
    if list(inst["tags"]) != list(dinst["tags"]):
        bad("results:tags-differ", f"{list(inst['tags'])} -> {list(dinst['tags'])}")
    try:
        g1, g2 = S.neutral(res.get_tagged_results()), S.neutral(r2.get_tagged_results())
        t1 = {t: res.get_result_times(t) for t in res.get_result_tags()}
        t2 = {t: r2.get_result_times(t) for t in r2.get_result_tags()}
        if not veq(t1, t2):
            bad("results:getter-times-differ", f"{t1} -> {t2}"[:300])
        if not veq(g1, g2) and not only_unrestored_complex(g1, g2):
            bad("results:getter-values-differ", f"{g1!r} -> {g2!r}"[:300])
    except Exception as e:  # noqa: BLE001
        bad(f"results:getter-raises:{type(e).__name__}", f"{e}"[:200])
    return run, viols


def run_register(case):
    viols = []

    def bad(sig, what, detail=None):
        viols.append(Violation(sig, what, case, detail))

    import pulser

    sp = case["spec"]
    run = dict(kind="register")
    try:
        if sp["layout"] is not None:
            lay = build_layout(sp["layout"])
            reg = _quiet(lay.define_register, *sp["traps"], qubit_ids=sp["ids"])
        else:
            cls = pulser.Register3D if sp["dim"] == 3 else pulser.Register
            reg = cls(dict(zip(sp["ids"], [tuple(c) for c in sp["coords"]])))
    except Exception as e:  # noqa: BLE001
        run["invalid"] = f"{type(e).__name__}: {e}"[:300]
        return run, viols
    inst = snap_register(reg)
    run["inst"] = inst
    try:
        s = _quiet(reg.to_abstract_repr)
    except Exception as e:  # noqa: BLE001
        bad(f"register:serialize-raises:{type(e).__name__}", f"{e}"[:300])
        return run, viols
    run["json"] = json.loads(s)
    try:
        reg2 = _quiet(type(reg).from_abstract_repr, s)
    except Exception as e:  # noqa: BLE001
        bad(f"register:deserialize-raises:{type(e).__name__}", f"{e}"[:300])
        return run, viols
    dinst = snap_register(reg2)
    run["dec"] = dinst
    nonstr = any(not isinstance(i, str) for i in inst["ids"])
    for f in diff_fields(inst, dinst):
        if f == "ids" and nonstr and dinst["ids"] == [str(i) for i in inst["ids"]]:
            sig = "register:field-differs:ids:non-string-ids-stringified"
        else:
            sig = f"register:field-differs:{f}"
        bad(sig, f"{f}: {inst[f]!r} -> {dinst[f]!r}"[:400])
    if not diff_fields(inst, dinst) and reg2 != reg:
        bad("register:decoded-not-equal", "decoded register != original")
    return run, viols


def run_layout(case):
    viols = []

    def bad(sig, what, detail=None):
        viols.append(Violation(sig, what, case, detail))

    from pulser.register.register_layout import RegisterLayout

    run = dict(kind="layout")
    try:
        lay = build_layout(case["spec"])
    except Exception as e:  # noqa: BLE001
        run["invalid"] = str(e)[:200]
        return run, viols
    inst = S.snap_layout(lay)
    run["inst"] = inst
    try:
        s = lay.to_abstract_repr()
        lay2 = RegisterLayout.from_abstract_repr(s)
    except Exception as e:  # noqa: BLE001
        bad(f"layout:roundtrip-raises:{type(e).__name__}", f"{e}"[:300])
        return run, viols
    run["json"] = json.loads(s)
    dinst = S.snap_layout(lay2)
    run["dec"] = dinst
    for f in diff_fields(inst, dinst):
        bad(f"layout:field-differs:{f}", f"{f}: {inst[f]!r} -> {dinst[f]!r}"[:300])
    if lay2 != lay:
        bad("layout:decoded-not-equal", "decoded layout != original")
    return run, viols


def run_detmap(case):
    viols = []

    def bad(sig, what, detail=None):
        viols.append(Violation(sig, what, case, detail))

    from pulser.json.abstract_repr.deserializer import _deserialize_det_map
    from pulser.json.abstract_repr.serializer import AbstractReprEncoder
    from pulser.register.weight_maps import DetuningMap

    sp = case["spec"]
    run = dict(kind="detmap")
    try:
        dm = DetuningMap(sp["coords"], sp["weights"], slug=sp["slug"])
    except Exception as e:  # noqa: BLE001
        run["invalid"] = str(e)[:200]
        return run, viols
    inst = snap_detmap(dm)
    run["inst"] = inst
    try:
        s = json.dumps(dm, cls=AbstractReprEncoder)
        dm2 = _deserialize_det_map(json.loads(s))
    except Exception as e:  # noqa: BLE001
        bad(f"detmap:roundtrip-raises:{type(e).__name__}", f"{e}"[:300])
        return run, viols
    dinst = snap_detmap(dm2)
    run["dec"] = dinst
    for f in diff_fields(inst, dinst):
        bad(f"detmap:field-differs:{f}", f"{f}: {inst[f]!r} -> {dinst[f]!r}"[:300])
    if dm2 != dm:
        bad("detmap:decoded-not-equal", "decoded detuning map != original")
    return run, viols


def _build_one(cls, spec):
    if cls == "StateRepr":
        return build_state(spec)
    if cls == "OperatorRepr":
        return build_operator(spec)
    if cls == "NoiseModel":
        return build_noise(spec)
    if cls == "Channel":
        return build_channel(spec)
    if cls == "Device":
        return build_device(spec)
    if cls == "Results":
        return build_results(spec)
    if cls == "Config":
        return build_config(spec)
    return build_layout(spec)


def _redecode(cls, obj):
    """decoding is a construction too"""
    from pulser.json.abstract_repr.serializer import AbstractReprEncoder

    if cls == "StateRepr":
        from pulser.json.abstract_repr.backend import _deserialize_state

        return _deserialize_state(json.loads(json.dumps(obj, cls=AbstractReprEncoder)), type(obj))
    if cls == "OperatorRepr":
        from pulser.json.abstract_repr.backend import _deserialize_operator

        return _deserialize_operator(json.loads(json.dumps(obj, cls=AbstractReprEncoder)), type(obj))
    if cls == "Channel":
        from pulser.json.abstract_repr.deserializer import _deserialize_channel

        return _deserialize_channel(json.loads(json.dumps(obj._to_abstract_repr("x"), cls=AbstractReprEncoder)))
    if cls == "Config":
        return type(obj).from_abstract_repr(obj.to_abstract_repr(skip_validation=True))
    if cls == "Results":
        return type(obj).from_abstract_repr(obj.to_abstract_repr())
    return type(obj).from_abstract_repr(obj.to_abstract_repr())


def run_alias(case):
    viols = []

    def bad(sig, what, detail=None):
        viols.append(Violation(sig, what, case, detail))

    sp = case["spec"]
    cls = sp["cls"]
    run = dict(kind="alias", cls=cls, built=0)
    objs, snaps = [], []

    def recheck(event):
        for i, (o, s0) in enumerate(zip(objs, snaps)):
            s1 = snap_any(o)
            changed = diff_paths(s0, s1)
            for f in changed:
                bad(
                    f"shared-state:{cls}:{f}",
                    f"{event} changed {f!r} of the earlier instance #{i}"[:400],
                )
            snaps[i] = s1

    for spec in sp["specs"]:
        try:
            o = _quiet(_build_one, cls, spec)
        except Exception:  # noqa: BLE001
            continue
        recheck(f"constructing instance #{len(objs)}")
        objs.append(o)
        snaps.append(snap_any(o))
    run["built"] = len(objs)
    for i in sp["decode_order"]:
        if i < len(objs):
            try:
                _quiet(_redecode, cls, objs[i])
            except Exception:  # noqa: BLE001
                continue
            recheck(f"decoding a copy of instance #{i}")
    if cls == "StateRepr":
        # readings the Coq heap model predicts: n_qudits of every instance at the end
        run["n_qudits_created"] = [len(next(iter(s["amplitudes"]))) for s in sp["specs"][: len(objs)]]
        run["n_qudits_final"] = [o.n_qudits for o in objs]
        run["decodes"] = [i for i in sp["decode_order"] if i < len(objs)]
    return run, viols


# ------------------------------------------------- caller-owned mutable arguments
def aa_buffers(cls, sp, use_numpy):
    """the caller's own mutable objects, exactly as a user would hold them"""
    arr = (lambda x: np.array(x, dtype=float)) if use_numpy else (lambda x: [list(r) if isinstance(r, list) else r for r in x])
    if cls == "Config":
        return dict(
            matrix=None if sp["matrix"] is None else arr(sp["matrix"]),
            et=list(sp["et"]),
            observables=[build_observable(o) for o in sp["observables"]],
            extra=json.loads(json.dumps(sp["extra"])),
        )
    if cls == "Observable":
        return dict(kind=sp["kind"], et=list(sp["et"]))
    if cls == "StateRepr":
        return dict(eig=list(sp["eigenstates"]), amps={k: cx(v) for k, v in sp["amplitudes"].items()})
    if cls == "OperatorRepr":
        return dict(
            eig=list(sp["eigenstates"]),
            n=sp["n_qudits"],
            ops=[(cx(c), [({k: cx(v) for k, v in q.items()}, list(inds)) for q, inds in t]) for c, t in sp["operations"]],
        )
    if cls == "Layout":
        return dict(coords=arr(sp["coordinates"]), slug=sp["slug"])
    if cls == "DetuningMap":
        return dict(coords=arr(sp["coords"]), weights=list(sp["weights"]), slug=sp["slug"])
    if cls == "Register":
        return dict(dim=sp["dim"], qubits={i: (np.array(c, dtype=float) if use_numpy else list(c)) for i, c in zip(sp["ids"], sp["coords"])})
    if cls == "NoiseModel":
        return dict(rates=list(sp["rates"]), opers=[(np.array(cx(o), dtype=complex) if use_numpy else cx(o)) for o in sp["opers"]])
    if cls == "Device":
        return dict(chans=[build_channel(c) for c in sp["chans"]], dmms=[build_channel(c) for c in sp["dmms"]], ids=[f"ch{i}" for i in range(len(sp["chans"]))])
    return dict(dir=list(sp["dir"]), beams=list(sp["beams"]))


def aa_build(cls, b):
    """hands the caller's objects to the constructor without copying them"""
    import pulser
    import pulser.backend as pb

    if cls == "Config":
        kw = dict(observables=b["observables"], default_evaluation_times=b["et"], **b["extra"])
        if b["matrix"] is not None:
            kw["interaction_matrix"] = b["matrix"]
        return pb.EmulationConfig(**kw)
    if cls == "Observable":
        k = dict(bitstrings=pb.BitStrings, occupation=pb.Occupation, energy=pb.Energy)[b["kind"]]
        return k(evaluation_times=b["et"])
    if cls == "StateRepr":
        from pulser.backend.state import StateRepr

        return StateRepr.from_state_amplitudes(eigenstates=b["eig"], amplitudes=b["amps"])
    if cls == "OperatorRepr":
        from pulser.backend.operator import OperatorRepr

        return OperatorRepr.from_operator_repr(eigenstates=b["eig"], n_qudits=b["n"], operations=b["ops"])
    if cls == "Layout":
        from pulser.register.register_layout import RegisterLayout

        return RegisterLayout(b["coords"], slug=b["slug"])
    if cls == "DetuningMap":
        from pulser.register.weight_maps import DetuningMap

        return DetuningMap(b["coords"], b["weights"], slug=b["slug"])
    if cls == "Register":
        return (pulser.Register3D if b["dim"] == 3 else pulser.Register)(b["qubits"])
    if cls == "NoiseModel":
        return pulser.NoiseModel(eff_noise_rates=b["rates"], eff_noise_opers=b["opers"])
    if cls == "Device":
        from pulser.devices import VirtualDevice

        return VirtualDevice(name="AA", dimensions=2, rydberg_level=60, interaction_coeff_xy=3700.0,
                             channel_objects=b["chans"], channel_ids=b["ids"], dmm_objects=b["dmms"])
    from pulser.channels import Rydberg
    from pulser.channels.eom import RydbergBeam, RydbergEOM

    eom = RydbergEOM(mod_bandwidth=40.0, limiting_beam=RydbergBeam.RED, max_limiting_amp=100.0, intermediate_detuning=1000.0,
                     controlled_beams=[RydbergBeam[x] for x in b["beams"]] if isinstance(b["beams"][0], str) else b["beams"])
    return Rydberg("Global", 100.0, 10.0, mod_bandwidth=8.0, propagation_dir=b["dir"], eom_config=eom)


def _bump(x, rng):
    """in-place update of a numeric buffer (list of lists or ndarray): one entry + 0.37"""
    if isinstance(x, np.ndarray):
        idx = tuple(rng.randrange(n) for n in x.shape)
        x[idx] = x[idx] + 0.37
        return idx
    i = rng.randrange(len(x))
    if isinstance(x[i], list):
        j = rng.randrange(len(x[i]))
        x[i][j] = x[i][j] + 0.37
        return (i, j)
    x[i] = x[i] + 0.37
    return (i,)


def aa_mutate(cls, b, rng):
    """what a user does between two constructions: update the buffers in place"""
    if cls == "Config":
        if b["matrix"] is not None:
            m = b["matrix"]
            n = len(m)
            i, j = 0, n - 1
            if isinstance(m, np.ndarray):
                m[i, j] = m[j, i] = m[i, j] + 1.25
            else:
                m[i][j] = m[j][i] = m[i][j] + 1.25
        b["et"][0] = b["et"][0] / 2 if b["et"][0] > 0 else b["et"][0]
        if len(b["et"]) > 1:
            b["et"].pop()
        import pulser.backend as pb

        b["observables"].append(pb.EnergyVariance(tag_suffix="added"))
        for k, v in b["extra"].items():
            if isinstance(v, list):
                v.append(99)
                for e in v:
                    if isinstance(e, dict):
                        for vv in e.values():
                            if isinstance(vv, list):
                                vv.append(98)
            elif isinstance(v, dict):
                for vv in v.values():
                    if isinstance(vv, list):
                        vv[0] = 97
                v["new"] = 1
    elif cls == "Observable":
        b["et"][0] = b["et"][0] / 2 if b["et"][0] > 0 else 0.0
        if len(b["et"]) > 1:
            b["et"].pop()
    elif cls == "StateRepr":
        k0 = next(iter(b["amps"]))
        b["amps"][k0] = b["amps"][k0] * 0.5 + 0.125
        b["amps"][k0[::-1] if k0[::-1] != k0 else b["eig"][0] * len(k0)] = 0.25
        b["eig"].append("x" if "x" not in b["eig"] else "h")
    elif cls == "OperatorRepr":
        for c, t in b["ops"]:
            for q, inds in t:
                k0 = next(iter(q))
                q[k0] = q[k0] * 2 + 1
                q[b["eig"][0] + b["eig"][-1]] = 0.5
        b["ops"].append((0.75, []))
    elif cls in ("Layout", "DetuningMap"):
        _bump(b["coords"], rng)
        if cls == "DetuningMap":
            i = rng.randrange(len(b["weights"]))
            b["weights"][i] = 0.5 if b["weights"][i] != 0.5 else 0.25
    elif cls == "Register":
        q = next(iter(b["qubits"]))
        b["qubits"][q][0] = b["qubits"][q][0] + 0.37
    elif cls == "NoiseModel":
        b["rates"][0] = b["rates"][0] + 0.25
        o = b["opers"][0]
        if isinstance(o, np.ndarray):
            o[0, 1] = o[0, 1] + 1
        else:
            o[0][1] = o[0][1] + 1
    elif cls == "Device":
        b["chans"].pop()
        b["ids"].pop()
        b["dmms"].append(b["dmms"][0])
    else:
        b["dir"][0] = b["dir"][0] + 1
        b["beams"].reverse()
        b["beams"].append(b["beams"][0]) if len(b["beams"]) == 1 else b["beams"].pop()


def aa_snap(cls, o):
    if cls == "Observable":
        return snap_observable(o)
    if cls == "Register":
        return snap_register(o)
    if cls == "DetuningMap":
        return snap_detmap(o)
    if cls == "Layout":
        return S.snap_layout(o)
    return snap_any(o)


AA_NAME = dict(Config="EmulationConfig", Layout="RegisterLayout")


def run_argalias(case):
    """Two instances built from the same caller-owned buffers, updated in place
    in between, must not influence each other: after the second construction
    the first instance must still equal an instance built from a private deep
    copy of the original buffers (this also sees lazily evaluated references)."""
    import copy

    viols = []
    sp = case["spec"]
    cls = sp["cls"]
    name = AA_NAME.get(cls, cls)
    run = dict(kind="argalias", cls=cls, built=0)
    rng = random.Random(sp["mut_seed"])
    try:
        bufs = aa_buffers(cls, sp["spec"], sp["use_numpy"])
        ref_bufs = copy.deepcopy(bufs)
        first = _quiet(aa_build, cls, bufs)
        ref = _quiet(aa_build, cls, ref_bufs)
    except Exception as e:  # noqa: BLE001
        run["invalid"] = f"{type(e).__name__}: {e}"[:300]
        return run, viols
    run["built"] = 1
    if cls == "Register":
        name = type(first).__name__
    aa_mutate(cls, bufs, rng)
    try:
        _quiet(aa_build, cls, bufs)
        run["built"] = 2
    except Exception as e:  # noqa: BLE001
        run["second_rejected"] = f"{type(e).__name__}: {e}"[:200]
    a, r = aa_snap(cls, first), aa_snap(cls, ref)
    seen = set()
    for p_ in diff_paths(r, a):
        top = p_.split(".")[0].replace("[]", "")
        if top in seen:
            continue
        seen.add(top)
        viols.append(
            Violation(
                f"arg-alias:{name}:{top}",
                f"{name} built from caller-owned mutable arguments changed in {p_!r} when the caller updated those "
                f"arguments in place and built a second instance from them",
                case,
            )
        )
    # the serialised form must not move either
    try:
        from pulser.json.abstract_repr.serializer import AbstractReprEncoder

        if hasattr(first, "_to_abstract_repr") and cls not in ("Channel",):
            ja = json.loads(json.dumps(first, cls=AbstractReprEncoder))
            jr = json.loads(json.dumps(ref, cls=AbstractReprEncoder))
            if ja != jr and not seen:
                viols.append(Violation(f"arg-alias:{name}:serialised-form", "the JSON of the first instance changed", case))
    except Exception:  # noqa: BLE001
        pass
    return run, viols


# ------------------------------------------------------------ decoding histories
def _hist_build(item):
    import pulser

    t = item["type"]
    if t == "layout":
        return build_layout(item["spec"])
    if t == "register":
        sp = item["spec"]
        return _quiet(build_layout(sp["layout"]).define_register, *sp["traps"], qubit_ids=sp["ids"])
    if t == "device":
        return _quiet(build_device, item["spec"])
    if t == "detmap":
        from pulser.register.weight_maps import DetuningMap

        sp = item["spec"]
        return DetuningMap(sp["coords"], sp["weights"], slug=sp["slug"])
    return _quiet(build_noise, item["args"])


def _hist_snap(t, o):
    if t == "layout":
        return S.snap_layout(o)
    if t == "register":
        return snap_register(o)
    if t == "detmap":
        return snap_detmap(o)
    if t == "device":
        return S.snap_dataclass(o)
    return S.snap_noise(o)


def _hist_roundtrip(t, o):
    """-> (json object, decoded object); public API wherever there is one"""
    from pulser.json.abstract_repr.serializer import AbstractReprEncoder

    if t == "detmap":
        from pulser.json.abstract_repr.deserializer import _deserialize_det_map

        j = json.loads(json.dumps(o, cls=AbstractReprEncoder))
        return j, _deserialize_det_map(json.loads(json.dumps(j)))
    s = _quiet(o.to_abstract_repr)
    return json.loads(s), _quiet(type(o).from_abstract_repr, s)


def run_history(case):
    """Objects sharing a key-like part are decoded one after the other in one
    process.  Every decoded object must equal ITS OWN original in every field
    (slug included), whatever was decoded before, and a decoded object must
    not change when another one is decoded later."""
    viols = []
    sp = case["spec"]
    run = dict(kind="history", family=sp["family"], steps=[])
    try:
        objs = [_hist_build(it) for it in sp["items"]]
    except Exception as e:  # noqa: BLE001
        run["invalid"] = f"{type(e).__name__}: {e}"[:300]
        return run, viols
    origs = [_hist_snap(it["type"], o) for it, o in zip(sp["items"], objs)]
    decoded = []  # (type, object, snapshot at decoding time, step)
    reported = set()

    def bad(sig, what):
        if sig not in reported:
            reported.add(sig)
            viols.append(Violation(sig, what, case))

    for step, i in enumerate(sp["order"]):
        t = sp["items"][i]["type"]
        try:
            j, dec = _hist_roundtrip(t, objs[i])
        except Exception as e:  # noqa: BLE001
            bad(f"history:{t}:roundtrip-raises:{type(e).__name__}", f"step {step}: {e}"[:300])
            run["steps"].append(dict(type=t, json=None, dec=None))
            continue
        dsnap = _hist_snap(t, dec)
        run["steps"].append(dict(type=t, json=j, dec=dsnap))
        for p_ in diff_paths(origs[i], dsnap):
            bad(
                f"history:{t}:field-differs:{p_}",
                f"step {step} of a decoding history ({sp['family']}): {t} #{i} decoded with {p_!r} different from its own "
                f"original (original {origs[i].get(p_.split('.')[0].replace('[]', ''))!r})"[:500],
            )
        if type(dec) is not type(objs[i]):
            bad(f"history:{t}:class-differs", f"step {step}: {type(objs[i]).__name__} decoded as {type(dec).__name__}")
        # earlier decoded objects must not move
        for (t0, o0, s0, st0) in decoded:
            for p_ in diff_paths(s0, _hist_snap(t0, o0)):
                bad(f"history-shared-state:{t0}:{p_}", f"decoding {t} at step {step} changed {p_!r} of the {t0} decoded at step {st0}")
        decoded.append((t, dec, dsnap, step))
    # the originals must not move either
    for it, o, s0 in zip(sp["items"], objs, origs):
        for p_ in diff_paths(s0, _hist_snap(it["type"], o)):
            bad(f"history-shared-state:original-{it['type']}:{p_}", f"decoding changed {p_!r} of an original {it['type']}")
    return run, viols


RUNNERS = dict(
    history=run_history,
    argalias=run_argalias,
    device=run_device,
    noise=run_noise,
    simconfig=run_simconfig,
    config=run_config,
    results=run_results,
    register=run_register,
    layout=run_layout,
    detmap=run_detmap,
    alias=run_alias,
)


def run_case(case):
    return RUNNERS[case["kind"]](case)
