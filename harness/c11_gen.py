"""C11 - seeded case generators.  All randomness comes from the rng passed in
(random.Random); floats are drawn on dyadic grids so that the JSON round trip
is exact."""
from __future__ import annotations

import math
import random

TWO_PI = 2 * math.pi

# durations whose final evaluation time computed by the V2 backend
# (1.0 * T * 1e-3) exceeds the legacy validator's T / 1000
def overshoots(T: int, rel: float = 1.0) -> bool:
    return rel * T * 1e-3 > T / 1000


def grid(rng: random.Random, lo: float, hi: float, steps: int = 64) -> float:
    return lo + (hi - lo) * rng.randrange(steps + 1) / steps


CH_SETS_ISING = [
    [("ryd", "rydberg_global")],
    [("ryd", "rydberg_global")],
    [("ram", "raman_global")],
    [("rl", "rydberg_local")],
    [("ml", "raman_local")],
    [("ryd", "rydberg_global"), ("ml", "raman_local")],
    [("ryd", "rydberg_global"), ("ram", "raman_global")],
    [("rl", "rydberg_local"), ("ram", "raman_global")],
]
CH_SET_XY = [("mw", "mw_global")]


def rand_pulse(rng, ch, dur=None, maxamp=2.0):
    dur = dur or rng.choice([4, 5, 8, 13, 16, 20, 32, 50, 52, 64, 100, 104, 150, 200])
    k = rng.random()
    phase = grid(rng, 0.0, TWO_PI, 32) if rng.random() < 0.6 else 0.0
    if k < 0.6:
        return dict(op="pulse", ch=ch, dur=dur, amp=grid(rng, 0.0, maxamp * TWO_PI), det=grid(rng, -TWO_PI, TWO_PI) if rng.random() < 0.6 else 0.0, phase=phase)
    if k < 0.8:
        return dict(
            op="pulse", ch=ch, phase=phase,
            amp_wf=dict(k="ramp", dur=dur, a=grid(rng, 0.0, TWO_PI), b=grid(rng, 0.0, maxamp * TWO_PI)),
            det_wf=dict(k="ramp", dur=dur, a=grid(rng, -TWO_PI, TWO_PI), b=grid(rng, -TWO_PI, TWO_PI)),
        )
    dur = max(dur, 8)
    return dict(
        op="pulse", ch=ch, phase=phase,
        amp_wf=dict(k="blackman", dur=dur, area=grid(rng, 0.25, 3.5, 26)),
        det_wf=dict(k="const", dur=dur, v=grid(rng, -TWO_PI, TWO_PI) if rng.random() < 0.5 else 0.0),
    )


def op_dur(op):
    if "dur" in op:
        return op["dur"]
    return op["amp_wf"]["dur"]


NOISES = [
    dict(dephasing_rate=0.25),
    dict(dephasing_rate=0.5, hyperfine_dephasing_rate=0.125),
    dict(relaxation_rate=0.5),
    dict(relaxation_rate=0.25, dephasing_rate=0.25),
    dict(depolarizing_rate=0.5),
    dict(depolarizing_rate=0.25, dephasing_rate=0.125),
]


def eff_noise(dim, leak):
    """a dyadic collapse operator of the right dimension"""
    m = [[0.0] * dim for _ in range(dim)]
    if leak:
        m[dim - 1][0] = 1.0  # first state -> x
        m[0][1] = 0.5
    else:
        m[0][1] = 1.0
        m[1][1] = 0.5
    return m


def gen_emu(rng: random.Random, tier: str, family: str | None = None):
    fam = family or rng.choices(
        ["random", "noisy", "rabi", "zero", "pilocal", "idle", "stoch", "leak", "evtimes", "noisyidle"],
        [28, 15, 10, 5, 8, 8, 10, 4, 12, 7],
    )[0]
    n = rng.choice([1, 1, 2, 2, 3, 3, 4]) if fam in ("random", "zero", "evtimes") else rng.choice([1, 2, 2, 3])
    case = dict(kind="emu", family=fam, n=n, spacing=rng.choice([6.0, 8.0, 10.0, 14.0]), seed=rng.randrange(1 << 30))
    xy = fam in ("random", "noisy", "zero", "evtimes") and rng.random() < 0.18
    chans = CH_SET_XY if xy else rng.choice(CH_SETS_ISING)
    if fam in ("rabi", "idle", "noisyidle"):
        case["n"] = n = 1
        chans = [rng.choice([("ryd", "rydberg_global"), ("ram", "raman_global"), ("rl", "rydberg_local"), ("ml", "raman_local"), ("mw", "mw_global")])]
    if fam in ("rabi", "idle", "noisyidle") and chans[0][1] != "mw_global" and rng.random() < 0.5:
        # a second channel that is declared but never used: its samples are one
        # long constant stretch (the default max_step must still follow the
        # busiest channel)
        main = chans[0]
        spare = rng.choice([("sp", "raman_global"), ("sp", "rydberg_local")] if main[1] == "rydberg_global"
                           else [("sp", "rydberg_global"), ("sp", "raman_local" if main[1] != "raman_local" else "rydberg_local")])
        chans = [main, spare]
    if fam == "noisyidle" and chans[0][1] == "mw_global":
        chans = [("ryd", "rydberg_global")]  # amplitude noise is not emulated in XY mode
    if fam == "stoch" and rng.random() < 0.8:
        # one basis: the stochastic branch of V2 only works for two levels
        chans = [rng.choice([("ryd", "rydberg_global"), ("ram", "raman_global"), ("rl", "rydberg_local")])]
    if fam == "pilocal":
        case["n"] = n = rng.choice([2, 3, 4])
        chans = [("ml", "raman_local")]
    case["channels"] = [dict(name=nm, id=cid, target=rng.randrange(n)) for nm, cid in chans]
    names = [c[0] for c in chans]
    ops = []
    if fam == "noisyidle":
        # an idle period, then a short resonant pulse, emulated on the
        # Monte-Carlo (NoisyResults) path with a negligible stochastic noise
        dur = rng.choice([100, 200])
        area = rng.choice([1.0, 1.0, 0.5, 0.75, 1.5]) * math.pi
        ops.append(dict(op="delay", ch=names[0], dur=rng.choice([1000, 2000, 4000])))
        ops.append(dict(op="pulse", ch=names[0], dur=dur, amp=area / (dur * 1e-3), det=0.0, phase=grid(rng, 0.0, TWO_PI, 16)))
        if rng.random() < 0.4:
            ops.append(dict(op="delay", ch=names[0], dur=rng.choice([16, 500])))
        case["eval"] = rng.choice([dict(t="Minimal"), dict(t="Minimal"), dict(t="list", rel=[0.5, 1.0])])
        if rng.random() < 0.75:
            case["noise"] = dict(amp_sigma=2.0**-20, runs=rng.choice([2, 4]), samples_per_run=rng.choice([50, 100]))
        else:
            case["noise"] = dict(state_prep_error=2.0**-30, p_false_pos=0.0, p_false_neg=0.0, runs=rng.choice([2, 4]), samples_per_run=rng.choice([50, 100]))
    elif fam in ("rabi", "idle"):
        dur = rng.choice([40, 52, 64, 100, 104, 160, 200, 300])
        area = grid(rng, 0.25, 3.0, 22) * math.pi
        amp = area / (dur * 1e-3)
        if amp > 4 * TWO_PI:
            amp = 4 * TWO_PI
        if fam == "idle":
            ops.append(dict(op="delay", ch=names[0], dur=rng.choice([16, 100, 400, 1000, 2000, 3000])))
        ops.append(dict(op="pulse", ch=names[0], dur=dur, amp=amp, det=0.0, phase=grid(rng, 0.0, TWO_PI, 16)))
        if fam == "idle" and rng.random() < 0.6:
            ops.append(dict(op="delay", ch=names[0], dur=rng.choice([16, 100, 500, 1500])))
        case["eval"] = dict(t="Full") if fam == "rabi" else dict(t="Minimal")
    elif fam == "zero":
        for nm in names:
            ops.append(dict(op="pulse", ch=nm, dur=rng.choice([16, 50, 52, 100, 250]), amp=0.0, det=0.0, phase=0.0))
            if rng.random() < 0.5:
                ops.append(dict(op="delay", ch=nm, dur=rng.choice([16, 100])))
        case["eval"] = rng.choice([dict(t="Full"), dict(t="Minimal")])
    elif fam == "pilocal":
        # pi pulses on a chosen subset of atoms, one after the other
        subset = sorted(rng.sample(range(n), rng.randrange(1, n + 1)))
        first = True
        for q in subset:
            if not (first and case["channels"][0]["target"] == q):
                ops.append(dict(op="target", ch="ml", q=q))
            first = False
            dur = rng.choice([100, 200])
            ops.append(dict(op="pulse", ch="ml", dur=dur, amp=math.pi / (dur * 1e-3), det=0.0, phase=grid(rng, 0.0, TWO_PI, 8)))
        case["subset"] = subset
        case["eval"] = dict(t="Minimal")
    else:
        for nm in names:
            k = rng.randrange(1, 4)
            for _ in range(k):
                r = rng.random()
                if r < 0.2:
                    ops.append(dict(op="delay", ch=nm, dur=rng.choice([4, 16, 37, 100])))
                elif r < 0.3 and nm in ("rl", "ml") and n > 1:
                    ops.append(dict(op="target", ch=nm, q=rng.randrange(n)))
                else:
                    ops.append(rand_pulse(rng, nm))
            if not any(o["op"] == "pulse" and o["ch"] == nm for o in ops):
                ops.append(rand_pulse(rng, nm))
        rng.shuffle(ops)
        ev = rng.random()
        if ev < 0.35:
            case["eval"] = dict(t="Full")
        elif ev < 0.55:
            case["eval"] = dict(t="Minimal")
        elif ev < 0.7:
            case["eval"] = dict(t="float", v=rng.choice([0.1, 0.25, 0.5, 0.75, 1.0]))
        else:
            k = rng.randrange(1, 5)
            rel = sorted(set(rng.randrange(0, 65) / 64 for _ in range(k)))
            case["eval"] = dict(t="list", rel=rel)
    case["ops"] = ops
    case["rate"] = rng.choice([1.0, 1.0, 1.0, 0.5, 0.25, 0.8]) if fam in ("random", "evtimes", "noisy") else 1.0
    bases_declared = {c[1] for c in chans}
    if rng.random() < 0.35 and fam in ("random", "noisy", "evtimes", "stoch"):
        if xy:
            case["meas"] = "XY"
        else:
            opts = []
            if any(b.startswith("rydberg") for b in bases_declared):
                opts.append("ground-rydberg")
            if any(b.startswith("raman") for b in bases_declared):
                opts.append("digital")
            case["meas"] = rng.choice(opts)
    if fam == "noisy":
        nz = dict(rng.choice(NOISES))
        if xy:
            nz.pop("relaxation_rate", None)
            if not nz:
                nz = dict(dephasing_rate=0.25)
        if "relaxation_rate" in nz and not any(c[1].startswith("rydberg") for c in chans):
            nz = dict(dephasing_rate=0.25)
        if "depolarizing_rate" in nz and len({("r" if c[1].startswith("rydberg") else "d") for c in chans}) > 1:
            nz = dict(dephasing_rate=0.25, hyperfine_dephasing_rate=0.125)
        case["noise"] = nz
        case["n"] = min(case["n"], 3)
    if fam == "leak":
        # the dimension follows the bases that carry a non-zero drive, plus x
        from harness.c11_impl import expected_eigenbasis as _eb

        dim = len(_eb(dict(case, ops=ops, noise=None))) + 1
        case["n"] = min(case["n"], 2)
        case["noise"] = dict(with_leakage=True, eff_noise_rates=[0.5], eff_noise_opers=[eff_noise(dim, True)])
    if fam == "stoch":
        case["n"] = min(case["n"], 2)
        k = rng.random()
        if k < 0.6:
            # state-preparation errors only: identical bad-atom configurations
            # are grouped (reps > 1 as soon as runs exceeds the 2^n configurations)
            case["noise"] = dict(state_prep_error=rng.choice([0.125, 0.25, 0.5]), p_false_pos=rng.choice([0.0, 0.125]), p_false_neg=rng.choice([0.0, 0.25]), runs=rng.choice([4, 8, 20, 40]), samples_per_run=rng.choice([1, 5]))
        elif k < 0.8:
            case["noise"] = dict(amp_sigma=0.125, runs=rng.choice([3, 6]), samples_per_run=rng.choice([1, 5]))
        else:
            case["noise"] = dict(temperature=50.0, runs=rng.choice([3, 6]), samples_per_run=rng.choice([1, 5]))
        if rng.random() < 0.5:
            # ... combined with a dissipative channel: every run is a master-equation
            # run and the average is taken over density matrices
            ryd = all(c[1].startswith("rydberg") for c in chans)
            opts = [dict(dephasing_rate=0.25, hyperfine_dephasing_rate=0.125)]
            if len(chans) == 1:
                opts.append(dict(depolarizing_rate=0.25))
            if ryd:
                opts += [dict(relaxation_rate=0.5), dict(relaxation_rate=0.25, dephasing_rate=0.25)]
            case["noise"].update(rng.choice(opts))
    if fam == "stoch" and len(chans) == 1:
        # keep the total duration away from the durations V2 cannot construct
        T = sum(op_dur(o) for o in case["ops"] if o["op"] in ("pulse", "delay"))
        pad = 0
        while overshoots(T + pad):
            pad += 1
        if pad:
            case["ops"].append(dict(op="delay", ch=names[0], dur=pad))
    # clip atoms declared as local targets
    for c in case["channels"]:
        c["target"] = c["target"] % case["n"]
    for o in case["ops"]:
        if o["op"] == "target":
            o["q"] = o["q"] % case["n"]
    # a custom device that carries a default noise model; the V2 configuration
    # prefers it or not (the analytic families never do)
    if fam in ("random", "noisy", "evtimes", "zero", "rabi", "idle") and rng.random() < 0.25:
        groups = {("x" if c[1] == "mw_global" else "r" if c[1].startswith("rydberg") else "d") for c in chans}
        dopts = [dict(dephasing_rate=0.5, hyperfine_dephasing_rate=0.25)]
        if len(groups) == 1:
            dopts.append(dict(depolarizing_rate=0.5))
        if groups == {"r"}:
            dopts.append(dict(relaxation_rate=0.5, dephasing_rate=0.25))
        case["device_noise"] = rng.choice(dopts)
        case["prefer"] = (rng.random() < 0.5) if fam not in ("rabi", "idle", "zero") else False
    # a user-supplied initial state (un-normalised on purpose), in every accepted form
    if fam in ("random", "noisy", "evtimes") and rng.random() < 0.45:
        tmp = dict(case, ops=ops)
        from harness.c11_impl import expected_eigenbasis

        size = len(expected_eigenbasis(tmp)) ** case["n"]
        amps = [[grid(rng, -2.0, 2.0, 64) if rng.random() < 0.7 else 0.0,
                 grid(rng, -2.0, 2.0, 64) if rng.random() < 0.5 else 0.0] for _ in range(size)]
        if all(a == [0.0, 0.0] for a in amps):
            amps[rng.randrange(size)] = [2.0, 0.0]
        case["init"] = dict(amps=amps, form=rng.choice(["array", "qobj", "qobj", "qobj_unit"]))
    # V2 configuration mirrors the legacy evaluation times
    ev = case.get("eval", dict(t="Full"))
    if ev["t"] == "Full":
        case["v2"] = dict(default="Full")
    elif ev["t"] == "list":
        rel = list(ev["rel"])
        case["v2"] = dict(obs_times=rel) if rng.random() < 0.8 or len(rel) != 1 else dict(default=rel)
    else:
        case["v2"] = dict()
    case["n_samples"] = rng.choice([20, 50, 100])
    case["spam"] = rng.choice([None, None, dict(eps=0.25, eps_p=0.5), dict(eps=0.0625, eps_p=0.125), dict(eps=1.0, eps_p=0.0), dict(eps=0.0, eps_p=1.0)])
    return case


def gen_weights(rng: random.Random, tier: str):
    """synthetic states fed directly to QutipResult._weights and
    QutipState.bitstring_probabilities: every dimension, basis, size,
    matching flag, with exact zeros, unnormalised states, kets and density
    matrices"""
    d = rng.choice([2, 2, 3, 3, 4])
    n = rng.choice([1, 2, 2, 3, 3, 4]) if d < 4 else rng.choice([1, 2, 3])
    meas = rng.choice(["ground-rydberg", "digital", "XY", "ground-rydberg", "digital"])
    if rng.random() < 0.04:
        meas = "bogus"
    matching = rng.random() < 0.6
    size = d**n
    style = rng.random()
    amps = []
    for _ in range(size):
        r = rng.random()
        if style < 0.25 and r < 0.6:
            amps.append([0.0, 0.0])
        elif r < 0.1:
            amps.append([0.0, 0.0])
        elif r < 0.2:
            amps.append([rng.choice([1e-7, 1e-6, 2.0**-20, 1e-3]), 0.0])
        else:
            amps.append([grid(rng, -1.0, 1.0, 256), grid(rng, -1.0, 1.0, 256)])
    if all(a == [0.0, 0.0] for a in amps):
        amps[rng.randrange(size)] = [1.0, 0.0]
    return dict(
        kind="weights", d=d, n=n, meas=meas, matching=matching, amps=amps,
        dm=rng.random() < 0.3, normalise=rng.random() < 0.7,
        cutoff=rng.choice([None, None, 1e-12, 1e-6, 0.0]),
        one_state=rng.choice([None, None, "r", "h", "d", "g"]),
        seed=rng.randrange(1 << 30), n_samples=rng.choice([10, 40, 100]),
        rates=rng.choice([[0.0, 0.0], [0.25, 0.5], [0.0625, 0.0], [0.0, 0.125], [1.0, 0.0], [0.0, 1.0]]),
    )


BOUNDARY_T = [4, 5, 8, 9, 13, 16, 18, 26, 36, 43, 50, 51, 52, 59, 64, 71, 100, 104, 141, 142, 282, 563, 1000, 1003, 1024]


def gen_times(rng: random.Random, tier: str):
    """evaluation-time settings on a sequence of a chosen total duration"""
    T = rng.choice(BOUNDARY_T) if rng.random() < 0.6 else rng.randrange(4, 1500)
    rate = rng.choice([1.0, 1.0, 0.5, 0.25, 0.1, 0.8, 0.3])
    k = rng.random()
    if k < 0.2:
        ev = dict(t="Full")
    elif k < 0.3:
        ev = dict(t="Minimal")
    elif k < 0.5:
        ev = dict(t="float", v=rng.choice([0.05, 0.1, 0.25, 0.3, 0.5, 0.75, 1.0, 1.5, 0.0, -0.5]))
    elif k < 0.8:
        m = rng.randrange(0, 5)
        rel = sorted(set(rng.randrange(0, 65) / 64 for _ in range(m)))
        ev = dict(t="list", rel=rel)
    else:
        # absolute times in microseconds, possibly out of range / negative / unsorted
        us = [rng.choice([0.0, T / 1000, T * 1e-3, T / 2000, (T + 1) / 1000, -0.001, T / 4000]) for _ in range(rng.randrange(1, 4))]
        ev = dict(t="abs", us=us)
    v2k = rng.random()
    if v2k < 0.3:
        v2 = dict()
    elif v2k < 0.45:
        v2 = dict(default="Full")
    elif v2k < 0.6:
        v2 = dict(default="Full", obs_times=sorted(set(rng.randrange(0, 17) / 16 for _ in range(rng.randrange(1, 4)))))
    elif v2k < 0.8:
        v2 = dict(obs_times=sorted(set(rng.randrange(0, 65) / 64 for _ in range(rng.randrange(1, 5)))))
    else:
        v2 = dict(default=sorted(set(rng.randrange(0, 65) / 64 for _ in range(rng.randrange(0, 4)))))
    return dict(kind="times", T=T, rate=rate, eval=ev, v2=v2)


HIST_CONFIGS = {
    "prep": lambda rng: dict(noise=["SPAM"], eta=rng.choice([0.25, 0.5, 1.0]), epsilon=rng.choice([0.0, 0.0625]),
                             epsilon_prime=rng.choice([0.0, 0.125]), runs=rng.choice([2, 3, 5]), samples_per_run=rng.choice([1, 3])),
    "det": lambda rng: dict(noise=["SPAM"], eta=0.0, epsilon=0.0625, epsilon_prime=0.125),
    "none": lambda rng: dict(noise=[]),
    "deph": lambda rng: dict(noise=["dephasing"], dephasing_rate=0.25),
    "prep+deph": lambda rng: dict(noise=["SPAM", "dephasing"], eta=rng.choice([0.5, 1.0]), epsilon=0.0, epsilon_prime=0.0,
                                  dephasing_rate=0.25, runs=rng.choice([2, 4]), samples_per_run=1),
    "det+deph": lambda rng: dict(noise=["SPAM", "dephasing"], eta=0.0, epsilon=0.0625, epsilon_prime=0.0, dephasing_rate=0.25),
}


def gen_hist(rng: random.Random, tier: str):
    """a history of configurations and runs on ONE QutipEmulator (interacting
    atoms): constructor config, then set_config / add_config, runs in between"""
    n = rng.choice([2, 2, 3])
    dur = rng.choice([100, 200, 300])
    case = dict(kind="hist", n=n, spacing=rng.choice([5.0, 6.0, 7.0]), seed=rng.randrange(1 << 30),
                channels=[dict(name="ryd", id="rydberg_global", target=0)],
                ops=[dict(op="pulse", ch="ryd", dur=dur, amp=grid(rng, 0.5, 2.0, 12) * TWO_PI,
                          det=grid(rng, -1.0, 1.0, 8), phase=0.0)])
    names = list(HIST_CONFIGS)
    if rng.random() < 0.4:
        kinds = [rng.choice(["prep", "prep+deph"]), rng.choice(["det", "det+deph", "none", "deph"])]
    else:
        kinds = [rng.choice(names) for _ in range(rng.randrange(2, 5))]
    steps = []
    for i, k in enumerate(kinds):
        how = "init" if i == 0 else ("set" if rng.random() < 0.8 else "add")
        steps.append(dict(how=how, name=k, cfg=HIST_CONFIGS[k](rng), run=(rng.random() < 0.8)))
    case["steps"] = steps
    return case


def gen_flip(rng: random.Random, tier: str):
    """detection errors on a classical state: the JOINT distribution of the
    read bitstring (every atom flips independently)"""
    n = rng.choice([2, 2, 3])
    return dict(kind="flip", n=n, index=rng.randrange(2**n), pfp=rng.choice([0.125, 0.25, 0.5]),
                pfn=rng.choice([0.125, 0.25, 0.375]), shots=600, seed=rng.randrange(1 << 30))


def gen_case(rng: random.Random, tier: str):
    k = rng.random()
    if k >= 0.97:
        return gen_flip(rng, tier)
    if k < 0.45:
        return gen_emu(rng, tier)
    if k < 0.70:
        return gen_weights(rng, tier)
    if k < 0.92:
        return gen_times(rng, tier)
    return gen_hist(rng, tier)
