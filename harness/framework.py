"""Generic check driver: tie (translators + Coq build), proof status,
correspondence (model vs implementation inside Coq), property oracle on the
implementation, verdict, evidence.  See DESIGN.md section 4."""
from __future__ import annotations

import concurrent.futures as cf
import json
import os
import random
import re
import sys
import time
import traceback
from pathlib import Path

from harness import common
from harness.common import COQ, VERIF, WORK, Infra


class Violation:
    def __init__(self, signature: str, what: str, case, detail=None):
        self.signature = signature  # used for known-findings matching
        self.what = what
        self.case = case
        self.detail = detail


class PropCheck:
    """Base class; one subclass per property."""

    id = "C00"
    props_file = "Props/C00.v"  # theorems of this property
    # development files whose compilation the property's proof depends on
    # (beyond what Props/Cxx.v imports, which make tracks itself)
    # development files the generated cases files import (built with the property)
    extra_targets: list[str] = []
    shard = 100
    quick_cases = 300
    thorough_cases = 3000
    trusted_base_extra: list[str] = []
    # implementation files (relative to the tree) whose line/branch coverage by this
    # run's cases is measured and reported in the evidence
    coverage_files: list[str] = []
    # how cases are generated and what makes one distinct / non-trivial (evidence text)
    rule: str = ("seeded structured generator (see DESIGN.md Appendix C) + committed corpus; a case is "
                 "non-trivial if at least one building call succeeds after the first declaration; "
                 "distinct = distinct JSON text")
    assumptions: list[str] = []

    # ---- to override
    def gen_case(self, rng: random.Random, tier: str):
        raise NotImplementedError

    def corpus(self) -> list:
        d = VERIF / "corpus" / self.id
        out = []
        if d.exists():
            for p in sorted(d.glob("*.json")):
                out.append(json.loads(p.read_text()))
        return out

    def run_impl(self, case):
        """-> (run, [Violation])"""
        raise NotImplementedError

    def coq_item(self, case, run):
        raise NotImplementedError

    def cases_file(self, items) -> str:
        raise NotImplementedError

    def nontrivial_key(self, case, run):
        """hashable key of a non-trivial case, or None if trivial"""
        return json.dumps(case, sort_keys=True, default=str)

    def sample_of(self, case, run):
        return case

    def stats(self, case, run, acc: dict):
        pass

    def focused_search(self, rng, broken: list[str], budget: int):
        """extra cases aimed at what broke; default: more random cases"""
        return [self.gen_case(rng, "thorough") for _ in range(budget)]

    def extra_checks(self, tier: str, rng) -> list[Violation]:
        """property-specific additional machinery (finite sweeps etc.)"""
        return []

    def replay(self, payload: dict) -> int:
        case = payload.get("case")
        if case is None:
            print("replay file names a broken obligation, no input to run:")
            print(json.dumps(payload.get("broken"), indent=1))
            return 1
        run, viols = self.run_impl(case)
        for v in viols:
            print("REPRODUCED:", v.signature, "-", v.what)
        return 1 if viols else 0


# --------------------------------------------------------------------------
def make_failures(log: str) -> list[str]:
    fails = []
    for m in re.finditer(r'File "\./([^"]+\.v)", line (\d+)[^\n]*\n((?:.*\n){0,12}?)(?=make|File|COQC|$)', log):
        fails.append(m.group(1))
    for m in re.finditer(r"make(?:\[\d+\])?: \*\*\* \[[^\]]*?:\s*\d+:\s*([^\]\s]+\.vo)\]", log):
        fails.append(m.group(1).replace(".vo", ".v"))
    return sorted(set(fails))


def deps_of(relfile: str) -> set[str]:
    """transitive PV-internal dependencies of a development file"""
    seen = set()
    todo = [relfile]
    while todo:
        f = todo.pop()
        if f in seen:
            continue
        seen.add(f)
        p = COQ / f
        if not p.exists():
            continue
        txt = p.read_text()
        for m in re.finditer(r"From\s+PV\s+Require\s+(?:Import|Export)\s+((?:[A-Za-z_0-9]+(?:\.[A-Za-z_0-9]+)*\s*)+)\.(?:\s|$)", txt):
            for mod in m.group(1).split():
                todo.append(mod.replace(".", "/") + ".v")
    return seen


def count_obligations(relfile: str) -> tuple[int, list[str]]:
    names = []
    for f in sorted(deps_of(relfile)):
        p = COQ / f
        if not p.exists():
            continue
        for m in re.finditer(r"^\s*(?:Theorem|Lemma|Corollary|Example|Fact|Proposition)\s+([A-Za-z_0-9']+)", p.read_text(), flags=re.M):
            names.append(f"{f}:{m.group(1)}")
    return len(names), names


def run_check(pc: PropCheck, tier: str, seed: int) -> int:
    t0 = time.time()
    common.assert_repo_imports()
    rng = random.Random(seed)
    known = common.load_known_findings()
    known_sigs = {f["signature"]: f for f in known.get("findings", []) if f["property"] == pc.id}
    workdir = WORK / pc.id
    workdir.mkdir(parents=True, exist_ok=True)
    for old in workdir.glob("cases_*.v*"):
        old.unlink()
    if common.REPLAYS.exists():
        for old in common.REPLAYS.glob(pc.id + "-*.json"):
            old.unlink()

    # ---------------- A/B: tie by translation + proofs
    ok, log = common.coq_build(clean=(tier == "thorough" and os.environ.get("VERIF_CLEAN") == "1"),
                               targets=(None if common.ALT else [pc.props_file] + list(pc.extra_targets)))
    (workdir / "build.log").write_text(log)
    deps = deps_of(pc.props_file)
    for t in pc.extra_targets:
        deps |= deps_of(t)
    failed = [f for f in make_failures(log) if f in deps] if not ok else []
    if not ok and not failed:
        # something else in the development is broken; is our file built?
        missing = [f for f in deps if not common.coq_file_ok(f)]
        failed = sorted(missing)
    broken: list[str] = []
    if "TRANSLATOR FAILED" in log:
        broken.append("translator: " + log.strip().splitlines()[-1][:300])
    for f in failed:
        broken.append("coq: " + f + " no longer compiles")
    model_ok = all(common.coq_file_ok(f) for f in deps if f.startswith("Model/") or f.startswith("Gen/"))

    forb = common.scan_forbidden()
    if forb:
        raise Infra("forbidden constructs in the development:\n" + "\n".join(forb))
    axioms, pa_out = ([], "")
    if not failed:
        axioms, pa_out = common.print_assumptions(pc.props_file)
        if axioms == ["<coqc failed>"]:
            broken.append("coq: " + pc.props_file + " no longer compiles")
            axioms = []
    prim, std, badax = common.classify_axioms(axioms)
    if badax:
        raise Infra("theorems depend on non-allow-listed axioms: " + ", ".join(badax))
    n_obl, obl_names = count_obligations(pc.props_file)
    n_closed = pa_out.count("Closed under the global context")
    n_thm = len(re.findall(r"^\s*Theorem\s", (COQ / pc.props_file).read_text(), flags=re.M)) if (COQ / pc.props_file).exists() else 0

    # ---------------- C/D: correspondence and oracle on the implementation
    n_cases = pc.quick_cases if tier == "quick" else pc.thorough_cases
    n_cases = int(os.environ.get("VERIF_CASES", n_cases))
    cases = list(pc.corpus())
    n_corpus = len(cases)
    cases += [pc.gen_case(rng, tier) for _ in range(n_cases)]
    violations: list[Violation] = []
    runs = []
    acc: dict = {}
    keys = set()
    cov = None
    if pc.coverage_files and os.environ.get("VERIF_COVERAGE", "1") != "0":
        try:
            import coverage as _coverage

            cov = _coverage.Coverage(branch=True, include=[str(common.REPO / f) for f in pc.coverage_files], data_file=None)
            cov.start()
        except Exception:  # noqa: BLE001
            cov = None
    for case in cases:
        try:
            run, viols = pc.run_impl(case)
        except Infra:
            raise
        except Exception as e:  # noqa: BLE001
            raise Infra("implementation runner crashed on a case: " + repr(e) + "\n" + traceback.format_exc() + "\n" + json.dumps(case, default=str)[:3000])
        runs.append(run)
        violations += viols
        k = pc.nontrivial_key(case, run)
        if k is not None:
            keys.add(k)
        pc.stats(case, run, acc)
    violations += pc.extra_checks(tier, rng)
    impl_cov = {}
    if cov is not None:
        try:
            cov.stop()
            for f in pc.coverage_files:
                fn, stmts, excl, missing, _ = cov.analysis2(str(common.REPO / f))
                nb = cov._analyze(str(common.REPO / f)).numbers
                impl_cov[f] = dict(statements=len(stmts), missed=len(missing),
                                   line_pct=round(100.0 * (len(stmts) - len(missing)) / max(1, len(stmts)), 1),
                                   branches=nb.n_branches, branches_missed=nb.n_missing_branches)
        except Exception as e:  # noqa: BLE001
            impl_cov = {"error": repr(e)}

    mismatched: list[int] = []
    corr_note = ""
    if model_ok:
        items = []
        for case, run in zip(cases, runs):
            items.append(pc.coq_item(case, run))
        shards = [list(range(i, min(i + pc.shard, len(items)))) for i in range(0, len(items), pc.shard)]
        # the development files the generated cases import must be built too
        if shards and not common.ALT:
            first = pc.cases_file([items[i] for i in shards[0][:1]])
            need = set()
            for m in re.finditer(r"From\s+PV\s+Require\s+(?:Import|Export)\s+((?:[A-Za-z_0-9]+(?:\.[A-Za-z_0-9]+)*\s*)+)\.(?:\s|$)", first):
                for mod in m.group(1).split():
                    need.add(mod.replace(".", "/") + ".v")
            need = sorted(f for f in need if (COQ / f).exists() and not common.coq_file_ok(f))
            if need:
                ok2, log2 = common.coq_build(targets=need)
                if not ok2:
                    broken.append("coq: files imported by the cases do not build: " + ", ".join(need))

        def do_shard(si):
            idxs = shards[si]
            text = pc.cases_file([items[i] for i in idxs])
            rc, out = common.coq_eval(workdir, f"cases_{si}", text)
            if rc != 0:
                return si, None, out
            return si, common.parse_Z_list(out), out

        with cf.ThreadPoolExecutor(max_workers=14) as ex:
            for si, bad, out in ex.map(do_shard, range(len(shards))):
                if bad is None:
                    # the cases file itself does not compile: the model's interface
                    # changed or a generated term is ill-typed
                    (workdir / f"cases_{si}.err").write_text(out)
                    broken.append(f"correspondence: cases_{si}.v does not evaluate: " + out.strip().splitlines()[-1][:200])
                else:
                    mismatched += [shards[si][b] for b in bad]
    else:
        corr_note = "model files do not compile; correspondence not evaluated"
        broken.append("correspondence: " + corr_note)

    for i in mismatched[:50]:
        broken.append(f"correspondence: model and implementation differ on case #{i}")

    # ---------------- verdict
    exit_code = 0
    lines = []
    new_viols = []
    seen_known = set()
    for v in violations:
        if v.signature in known_sigs:
            if v.signature not in seen_known:
                seen_known.add(v.signature)
                lines.append(f"KNOWN-FINDING: property={pc.id} {v.signature}: {known_sigs[v.signature]['what']}")
        else:
            new_viols.append(v)

    if new_viols:
        seen = set()
        for v in new_viols:
            if v.signature in seen:
                continue
            seen.add(v.signature)
            path = common.write_replay(pc.id, dict(property=pc.id, signature=v.signature, what=v.what, case=v.case, detail=v.detail, broken=broken))
            lines.append(f"VIOLATION property={pc.id} replay={path}")
            if len(seen) >= 10:
                break
        exit_code = 1
    elif broken:
        # a proof obligation or the correspondence no longer checks: search
        found = []
        if mismatched:
            # the differing cases themselves and their neighbours were already
            # run through the oracle (they are in `cases`); search further
            pass
        budget = 400 if tier == "quick" else 3000
        try:
            for case in pc.focused_search(rng, broken, budget):
                run, viols = pc.run_impl(case)
                for v in viols:
                    if v.signature not in known_sigs:
                        found.append(v)
                if found:
                    break
        except Exception as e:  # noqa: BLE001
            broken.append("search crashed: " + repr(e))
        if found:
            v = found[0]
            path = common.write_replay(pc.id, dict(property=pc.id, signature=v.signature, what=v.what, case=v.case, detail=v.detail, broken=broken))
            lines.append(f"VIOLATION property={pc.id} replay={path}")
        else:
            payload = dict(property=pc.id, broken=broken, case=None,
                           differing_cases=[cases[i] for i in mismatched[:3]])
            path = common.write_replay(pc.id, payload)
            lines.append(f"VIOLATION property={pc.id} replay={path} no-failing-input-found")
        exit_code = 1

    chk = None
    if tier == "thorough" and not failed and os.environ.get("VERIF_COQCHK", "1") != "0":
        chk = common.coqchk(pc.props_file)
        if chk.get("ok"):
            std_ok = {x.split(".")[-1] for x in common.STDLIB_AXIOMS_OK}
            alien = [a for a in chk["other_axioms"] if a.split(".")[-1] not in std_ok
                     and not a.startswith("Coq.") ]
            if alien or any(v not in ("<none>",) for v in chk["assumed"].values()):
                raise Infra("coqchk reports assumptions outside the allow-list: " + json.dumps(chk)[:800])

    # ---------------- evidence
    samples = [pc.sample_of(c, r) for c, r in list(zip(cases, runs))[n_corpus:n_corpus + 2]]
    coverage = dict(
        obligations=n_obl,
        discharged=(n_obl if not failed and not any(b.startswith("coq:") for b in broken) else 0),
        property_theorems=n_thm,
        property_theorems_closed_under_global_context=n_closed,
        checker_cmd=f"cd /verif/coq && coq_makefile -f _CoqProject -o Makefile && make -j16 (full .vo build) ; coqc {pc.props_file} (Print Assumptions)",
        trusted_base=[
            "Coq 8.16.1 kernel and its bytecode VM (vm_compute); no native_compute",
            "primitive floats/ints reported by Print Assumptions: " + (", ".join(prim) if prim else "none"),
            "standard-library axioms reported by Print Assumptions: " + (", ".join(std) if std else "none"),
            "translators in /verif/translate and the correspondence harness in /verif/harness",
            "the Python/numpy runtime executing the implementation",
        ] + list(pc.trusted_base_extra),
        evaluations=len(cases),
        distinct_nontrivial=len(keys),
        rule=pc.rule,
        samples=samples,
        correspondence=dict(cases=len(cases), corpus=n_corpus, mismatches=len(mismatched), note=corr_note),
        oracle_violations=len(violations),
        known_findings_seen=sorted(seen_known),
        broken=broken,
        distribution=acc,
        coqchk=chk,
        implementation_coverage=impl_cov,
        implementation_coverage_note="lines/branches of the anchored implementation files executed while this run's cases ran; module-level and def/class lines executed at import time (before measurement starts) count as missed, so the figures are lower bounds",
        obligations_list=obl_names[:400],
    )
    common.write_evidence(pc.id, tier, seed, coverage, time.time() - t0, 0 if exit_code == 0 else max(1, len(new_viols)), list(pc.assumptions))
    for ln in lines:
        print(ln)
    print(f"[{pc.id}] tier={tier} seed={seed} cases={len(cases)} mismatches={len(mismatched)} "
          f"oracle_violations={len(violations)} new={len(new_viols)} broken={len(broken)} wall={time.time()-t0:.1f}s exit={exit_code}")
    return exit_code
