"""C06 - implementation side: builds a concrete sequence on /repo's Pulser,
extracts the schedule (the model's input), samples it through the public
sampler (the model's expected output) and evaluates the property oracle (a
direct reading of the property statement that does not call get_samples /
to_nested_dict / get_qubit_weight_map to form its expectation)."""
from __future__ import annotations

import struct
import warnings

import numpy as np

from harness import seqimpl
from harness.framework import Violation
from pulser import Pulse, Sequence
from pulser.sampler import sample
from pulser.sequence._schedule import _DMMSchedule
from pulser.waveforms import ConstantWaveform

BASIS_NAME = seqimpl.BASIS_NAME
BASIS_CODE = seqimpl.BASIS_CODE


def arr(x) -> np.ndarray:
    if hasattr(x, "as_array"):
        x = x.as_array(detach=True)
    return np.asarray(x, dtype=float)


def bits(x: float) -> bytes:
    x = float(x)
    if x != x:
        return b"nan"
    return struct.pack("<d", x)


def rle(a) -> list:
    """greedy run-length encoding with bit equality (NaNs identified), the
    same function as Model/Sampler.v [rle]"""
    out = []
    cur = None
    for x in arr(a).tolist():
        b = bits(x)
        if cur is not None and b == cur:
            out[-1][1] += 1
        else:
            out.append([seqimpl_F(x), 1])
            cur = b
    return out


def seqimpl_F(x):
    from harness.common import F

    return F(x)


def is_dd_shape(p: Pulse) -> bool:
    """a pulse that the scheduler classifies as 'a delay with a constant
    detuning' (own reading of the definition, not the implementation's)"""
    return (
        isinstance(p.amplitude, ConstantWaveform)
        and float(arr(p.amplitude.samples)[0]) == 0.0
        and isinstance(p.detuning, ConstantWaveform)
    )


# ------------------------------------------------------------------ running
def run_ops(case, hook=None):
    cd = seqimpl.Coder(case)
    with warnings.catch_warnings():
        warnings.simplefilter("ignore")
        dev = seqimpl.build_device(case["device"])
        reg = seqimpl.build_register(case["register"])
        seq = Sequence(reg, dev)
        ids = case["register"]["ids"]
        maps = [reg.define_detuning_map({q: w for q, w in zip(ids, m)}) for m in case.get("maps", [])]
        outcomes = []
        for i, op in enumerate(case["ops"]):
            try:
                if op["op"] == "config_slm":
                    seq.config_slm_mask(op["qubits"], op.get("dmm_id", "dmm_0"))
                else:
                    seqimpl.exec_op(cd, seq, op, maps, {})
                ok = True
            except Exception:  # noqa: BLE001  (rejected calls are simply skipped)
                ok = False
            outcomes.append(ok)
            if hook is not None:
                hook(i, op, seq, ok, maps)
    return cd, seq, outcomes


# ------------------------------------------------------------------ extraction
def extract(cd, seq):
    """the model's input: per channel, the raw slots with explicit samples"""
    chans = []
    qids = list(seq.register.qubit_ids)
    qpos = [[float(v) for v in arr(seq.register.qubits[q])] for q in qids]
    for name, cs in seq._schedule.items():
        ch = cs.channel_obj
        slots = []
        for s in cs.slots:
            tg = sorted(cd.q(q) for q in s.targets)
            if isinstance(s.type, Pulse):
                p = s.type
                with warnings.catch_warnings():
                    warnings.simplefilter("ignore")
                    fs = int(p.fall_time(ch, in_eom_mode=False))
                    fe = int(p.fall_time(ch, in_eom_mode=True)) if ch.supports_eom() else 0
                slots.append(
                    dict(
                        k="pulse",
                        ti=int(s.ti),
                        tf=int(s.tf),
                        tg=tg,
                        amp=arr(p.amplitude.samples).tolist(),
                        det=arr(p.detuning.samples).tolist(),
                        phase=float(p.phase),
                        dd=bool(cs.is_detuned_delay(p)),
                        fs=fs,
                        fe=fe,
                    )
                )
            else:
                slots.append(dict(k=s.type, ti=int(s.ti), tf=int(s.tf), tg=tg))
        eom = [
            dict(ti=int(b.ti), tf=None if b.tf is None else int(b.tf), off=float(b.detuning_off))
            for b in cs.eom_blocks
        ]
        is_dmm = isinstance(cs, _DMMSchedule)
        traps = None
        if is_dmm:
            dm = cs.detuning_map
            traps = [
                [[float(v) for v in c], float(w)]
                for c, w in zip(np.asarray(dm.sorted_coords, dtype=float), np.asarray(dm.sorted_weights, dtype=float))
            ]
        chans.append(
            dict(
                name=name,
                slots=slots,
                eom=eom,
                pjt=int(ch.phase_jump_time),
                glob=ch.addressing == "Global",
                basis=BASIS_CODE[ch.basis],
                dmm=is_dmm,
                traps=traps,
            )
        )
    mask = sorted(cd.q(q) for q in seq._slm_mask_targets)
    return dict(chans=chans, mask=mask, qids=[cd.q(q) for q in qids], qpos=qpos)


# ------------------------------------------------------------------ outputs
def nested_sv(cd, seq, d):
    qids = list(seq.register.qubit_ids)

    def q3(e):
        if e is None:
            return []
        return [rle(e["amp"]), rle(e["det"]), rle(e["phase"])]

    g = [q3(d["Global"].get(BASIS_NAME[b])) for b in (0, 1, 2)]
    loc = [[q3(d["Local"].get(BASIS_NAME[b], {}).get(q)) for q in qids] for b in (0, 1, 2)]
    return [g, loc]


def impl_outputs(cd, seq, ext_delta, bad_delta):
    """-> (expected sv as python lists, raw objects for the oracle, crashes)"""
    crashes = []
    with warnings.catch_warnings():
        warnings.simplefilter("ignore")
        try:
            s = sample(seq)
        except Exception as e:  # noqa: BLE001
            return None, None, [("sample", e)]
        names = list(s.channels)
        css = [s.channel_samples[n] for n in names]
        maxdur = max(c.duration for c in css)
        ext_ok = maxdur + ext_delta
        ext_bad = max(0, maxdur - 1 - bad_delta)
        per_chan = []
        for c in css:
            per_chan.append(
                [
                    rle(c.amp),
                    rle(c.det),
                    rle(c.phase),
                    [[int(t.ti), int(t.tf), sorted(cd.q(q) for q in t.targets)] for t in c.slots],
                    sorted(cd.q(q) for q in c.initial_targets),
                ]
            )
        mask = [sorted(cd.q(q) for q in s._slm_mask.targets), int(s._slm_mask.end)]
        if not any(ch.basis == "XY" for ch in s._ch_objs.values()):
            # the model only represents the mask where to_nested_dict reads it
            mask = [[], 0]
        # extension through the public entry point
        try:
            se = sample(seq, extended_duration=ext_ok)
            ext = [[rle(c.amp), rle(c.det), rle(c.phase)] for c in se.samples_list]
            ext_raw = list(se.samples_list)
        except Exception as e:  # noqa: BLE001
            crashes.append(("sample-extended", e))
            ext = [[] for _ in css]
            ext_raw = None
        bad = []
        bad_raw = []
        for c in css:
            try:
                r = c.extend_duration(ext_bad)
                bad.append(False)
                bad_raw.append(r)
            except ValueError:
                bad.append(True)
                bad_raw.append(None)
            except Exception as e:  # noqa: BLE001
                crashes.append(("extend_duration", e))
                bad.append(True)
                bad_raw.append(None)
        # SequenceSamples.extend_duration: to the common duration (a duration some
        # channel already has), twice; and to ext_ok.  Rendered BY NAME so that a
        # dropped or mis-paired channel shows.
        seq_ext_raw = {}
        for key, target, twice in (("max2", maxdur, True), ("ok", ext_ok, False)):
            try:
                e = s.extend_duration(target)
                if twice:
                    e = e.extend_duration(target)
                seq_ext_raw[key] = e
            except Exception as e:  # noqa: BLE001
                crashes.append(("SequenceSamples.extend_duration", e))
                seq_ext_raw[key] = None
        if seq_ext_raw["max2"] is None:
            seq_ext = False
        else:
            by_name = seq_ext_raw["max2"].channel_samples
            seq_ext = [
                ([rle(by_name[n].amp), rle(by_name[n].det), rle(by_name[n].phase)] if n in by_name else [])
                for n in names
            ]
        nd = []
        nd_raw = []
        for al in (False, True):
            try:
                d = s.to_nested_dict(all_local=al)
                nd.append(nested_sv(cd, seq, d))
                nd_raw.append(d)
            except Exception as e:  # noqa: BLE001
                crashes.append((f"to_nested_dict(all_local={al})", e))
                nd.append(False)
                nd_raw.append(None)
        weights = []
        wraw = []
        qids = list(seq.register.qubit_ids)
        for n in names:
            cs = seq._schedule[n]
            if isinstance(cs, _DMMSchedule):
                wm = cs.detuning_map.get_qubit_weight_map(seq.register.qubits)
                weights.append([[cd.q(q), seqimpl_F(wm[q])] for q in qids])
                wraw.append({q: float(wm[q]) for q in qids})
            else:
                weights.append([])
                wraw.append(None)
    exp = [True, per_chan, mask, ext, bad, seq_ext, nd[0], nd[1], weights]
    raw = dict(s=s, names=names, css=css, maxdur=maxdur, ext_ok=ext_ok, ext_bad=ext_bad, ext_raw=ext_raw,
               bad_raw=bad_raw, nd_raw=nd_raw, wraw=wraw, seq_ext_raw=seq_ext_raw)
    return exp, raw, crashes


# ------------------------------------------------------------------ oracle
def same(a, b) -> bool:
    a = np.asarray(a, dtype=float)
    b = np.asarray(b, dtype=float)
    return a.shape == b.shape and bool(np.array_equal(a, b, equal_nan=True))


def close(a, b) -> bool:
    a = np.asarray(a, dtype=float)
    b = np.asarray(b, dtype=float)
    return a.shape == b.shape and bool(np.allclose(a, b, rtol=1e-9, atol=1e-12, equal_nan=True))


def first_bad(a, b):
    a = np.asarray(a, dtype=float)
    b = np.asarray(b, dtype=float)
    if a.shape != b.shape:
        return f"shapes {a.shape} vs {b.shape}"
    bad = ~(np.isclose(a, b, rtol=1e-9, atol=1e-12, equal_nan=True))
    i = int(np.argmax(bad))
    return f"t={i}: got {a[i]!r}, expected {b[i]!r}"


def oracle(case, cd, seq, raw, crashes, info):
    """info: user_pulses {(name, ti)}, dmm_weights {name: {qid: w}}"""
    v = []

    def bad(sig, what):
        v.append(Violation(sig, what, case))

    if raw is None:
        for where, e in crashes:
            sig = f"crash:{where}:{type(e).__name__}"
            dmm = seq._slm_mask_dmm
            if (
                isinstance(e, IndexError)
                and seq._in_ising
                and dmm in seq._schedule
                and not seq._schedule[dmm]._waiting_for_first_pulse
                and len(seq._schedule[dmm].slots) < 2
            ):
                # an `add` whose SLM-DMM follow-up raised left the DMM channel
                # marked as modulated without a pulse (atomicity, C09)
                sig += ":slm-dmm-unmodulated-after-failed-add"
            elif isinstance(e, IndexError) and any(
                cs.slots
                and cs.slots[-1].tf == 0
                and any(b.ti == 0 for b in cs.eom_blocks)
                and any(sl.ti == 0 and sl.tf == 0 for sl in cs.slots)
                for cs in seq._schedule.values()
            ):
                # get_samples' EOM-buffer detection reads det[s.tf - 1] with s.tf == 0
                # on a channel of duration 0
                sig += ":eom-enabled-at-t0-on-empty-channel-after-zero-length-slot"
            bad(sig, f"{where}(seq) raised {e!r} on a concrete sequence")
        return v

    s = raw["s"]
    qids = list(seq.register.qubit_ids)
    names = raw["names"]
    sched = seq._schedule
    xy = any(cs.channel_obj.basis == "XY" for cs in sched.values())
    # the documented SLM mask window: until the end of the first pulse of the
    # global channel that starts earliest
    mask_targets = set(seq._slm_mask_targets)
    mask_end = 0
    if mask_targets and xy:
        best = None
        for cs in sched.values():
            if cs.channel_obj.addressing != "Global" or isinstance(cs, _DMMSchedule):
                continue
            for sl in cs.slots:
                if isinstance(sl.type, Pulse) and not is_dd_shape(sl.type):
                    if best is None or sl.ti < best[0]:
                        best = (sl.ti, sl.tf)
                    break
        if best is not None:
            mask_end = best[1]
        else:
            mask_targets = set()
    else:
        mask_targets = set()

    for where, e in crashes:
        sig = f"crash:{where.split('(')[0]}:{type(e).__name__}"
        bad(sig, f"{where} raised {e!r} on a concrete sequence")

    chan_exp = {}
    for name, c in zip(names, raw["css"]):
        cs = sched[name]
        dur = cs.slots[-1].tf if cs.slots else 0
        amp, det, ph = arr(c.amp), arr(c.det), arr(c.phase)
        if not (len(amp) == len(det) == len(ph) == dur):
            bad("length", f"channel {name}: lengths {len(amp)},{len(det)},{len(ph)} != duration {dur}")
            continue
        ea = np.zeros(dur)
        ed = np.zeros(dur)
        cover = np.zeros(dur, dtype=int)
        for sl in cs.slots:
            if isinstance(sl.type, Pulse):
                ea[sl.ti:sl.tf] += arr(sl.type.amplitude.samples)
                ed[sl.ti:sl.tf] += arr(sl.type.detuning.samples)
                cover[sl.ti:sl.tf] += 1
        single = bool(np.all(cover <= 1))
        cmp_ = same if single else close
        if not cmp_(amp, ea):
            bad("amp", f"channel {name}: amplitude is not the sum of the scheduled pulses; " + first_bad(amp, ea))
        if not cmp_(det, ed):
            bad("det", f"channel {name}: detuning is not the sum of the scheduled pulses; " + first_bad(det, ed))
        chan_exp[name] = (ea, ed)
        # idling in EOM mode
        for b in cs.eom_blocks:
            lo, hi = b.ti, (b.tf if b.tf is not None else dur)
            off = float(b.detuning_off)
            idle = np.ones(dur, dtype=bool)
            idle[:lo] = False
            idle[hi:] = False
            for sl in cs.slots:
                if isinstance(sl.type, Pulse) and not is_dd_shape(sl.type):
                    idle[sl.ti:sl.tf] = False
            if np.any(det[idle] != off):
                t = int(np.flatnonzero(idle & (det != off))[0])
                bad("eom-idle-detuning", f"channel {name}: idle in EOM mode at t={t}: detuning {det[t]} != detuning_off {off}")
        # every pulse is scheduled on the atoms the channel was last pointed at
        for sl in cs.slots:
            want_tg = info.get("pulse_targets", {}).get((name, sl.ti))
            if isinstance(sl.type, Pulse) and want_tg is not None and set(sl.targets) != set(want_tg):
                bad("targets:pulse-not-on-the-atoms-last-targeted",
                    f"channel {name}: pulse at [{sl.ti},{sl.tf}) is attributed to {sorted(sl.targets)} but the channel was last pointed at {sorted(want_tg)}")
        # phases
        for sl in cs.slots:
            if not isinstance(sl.type, Pulse):
                continue
            p = sl.type
            user = (name, sl.ti) in info["user_pulses"]
            if is_dd_shape(p) and not user:
                continue  # a delay in EOM mode / an EOM buffer, not a pulse of the program
            want = float(p.phase)
            got = ph[sl.ti:sl.tf]
            if not np.all(got == want):
                t = sl.ti + int(np.argmax(got != want))
                sig = "phase"
                if is_dd_shape(p):
                    sig = "phase:zero-amplitude-constant-detuning-pulse"
                bad(sig, f"channel {name}: pulse at [{sl.ti},{sl.tf}) has phase {want} but the samples hold {ph[t]} at t={t}")
        # extension
        if raw["ext_raw"] is not None:
            e = raw["ext_raw"][names.index(name)]
            X = raw["ext_ok"]
            if not X:
                X = dur
            xa, xd, xp = arr(e.amp), arr(e.det), arr(e.phase)
            in_eom = bool(cs.eom_blocks) and cs.eom_blocks[-1].tf is None
            padd = float(cs.eom_blocks[-1].detuning_off) if in_eom else 0.0
            padp = ph[-1] if dur else 0.0
            ok = (
                len(xa) == len(xd) == len(xp) == X
                and same(xa[:dur], amp) and same(xd[:dur], det) and same(xp[:dur], ph)
                and np.all(xa[dur:] == 0.0) and np.all(xd[dur:] == padd) and np.all(xp[dur:] == padp)
            )
            if not ok:
                bad("extend", f"channel {name}: extension to {X} does not only pad (zeros / {padd} / {padp})")
        r = raw["bad_raw"][names.index(name)]
        if raw["ext_bad"] < dur and r is not None:
            bad("extend:shorter-accepted", f"channel {name}: extend_duration({raw['ext_bad']}) accepted for duration {dur}")
        if raw["ext_bad"] >= dur and r is None:
            bad("extend:refused", f"channel {name}: extend_duration({raw['ext_bad']}) refused for duration {dur}")

    # ---- SequenceSamples.extend_duration only pads, for every channel
    for key, X in (("max2", raw["maxdur"]), ("ok", raw["ext_ok"])):
        e = raw["seq_ext_raw"].get(key)
        if e is None:
            continue
        if list(e.channels) != names or len(e.samples_list) != len(names):
            bad("extend:sequence:channels",
                f"SequenceSamples.extend_duration({X}): {len(e.samples_list)} samples for channels {list(e.channels)} (declared: {names})")
            continue
        for name, c0 in zip(names, raw["css"]):
            cs = sched[name]
            c1 = e.channel_samples[name]
            dur = cs.slots[-1].tf if cs.slots else 0
            a0, d0, p0 = arr(c0.amp), arr(c0.det), arr(c0.phase)
            a1, d1, p1 = arr(c1.amp), arr(c1.det), arr(c1.phase)
            in_eom = bool(cs.eom_blocks) and cs.eom_blocks[-1].tf is None
            padd = float(cs.eom_blocks[-1].detuning_off) if in_eom else 0.0
            padp = p0[-1] if len(p0) else 0.0
            ok = (
                len(a0) == dur and len(a1) == len(d1) == len(p1) == X
                and same(a1[:dur], a0) and same(d1[:dur], d0) and same(p1[:dur], p0)
                and np.all(a1[dur:] == 0.0) and np.all(d1[dur:] == padd) and np.all(p1[dur:] == padp)
            )
            if not ok:
                bad("extend:sequence", f"SequenceSamples.extend_duration({X}): channel {name} is not its own samples followed by padding (zeros / {padd} / {padp})")

    # ---- per-atom, per-basis view
    N = raw["maxdur"]
    for al, d in zip((False, True), raw["nd_raw"]):
        if d is None:
            continue
        for bname in ("ground-rydberg", "digital", "XY"):
            chs = [n for n in names if sched[n].channel_obj.basis == bname]
            if not chs:
                if d["Local"].get(bname) or (bname in d["Global"] and bname != "XY"):
                    bad("nested:basis-without-channel", f"all_local={al}: entries for basis {bname} without a channel")
                continue
            # times where the padded off-detuning of an open EOM block is visible
            dontcare_det = np.zeros(N, dtype=bool)
            for n in chs:
                cs = sched[n]
                if cs.eom_blocks and cs.eom_blocks[-1].tf is None and float(cs.eom_blocks[-1].detuning_off) != 0.0:
                    dur = cs.slots[-1].tf if cs.slots else 0
                    dontcare_det[dur:] = True
            for q in qids:
                ea = np.zeros(N)
                ed = np.zeros(N)
                ncontrib = np.zeros(N, dtype=int)
                for n in chs:
                    cs = sched[n]
                    w = 1.0
                    if isinstance(cs, _DMMSchedule):
                        w = info["dmm_weights"].get(n, {}).get(q, 0.0)
                    for sl in cs.slots:
                        if not isinstance(sl.type, Pulse) or q not in sl.targets:
                            continue
                        lo = sl.ti
                        if bname == "XY" and q in mask_targets:
                            lo = max(lo, mask_end)
                        if lo >= sl.tf:
                            continue
                        ea[lo:sl.tf] += arr(sl.type.amplitude.samples)[lo - sl.ti:]
                        ed[lo:sl.tf] += arr(sl.type.detuning.samples)[lo - sl.ti:] * w
                        ncontrib[lo:sl.tf] += 1
                loc = d["Local"].get(bname, {}).get(q)
                glo = d["Global"].get(bname)
                ga = np.zeros(N)
                gd = np.zeros(N)
                if loc is not None:
                    ga = ga + arr(loc["amp"])
                    gd = gd + arr(loc["det"])
                if glo is not None:
                    if bname == "XY" and q in mask_targets:
                        # the global entry describes the unmasked atoms; a masked
                        # atom sees it only after the mask is off
                        ga[mask_end:] += arr(glo["amp"])[mask_end:]
                        gd[mask_end:] += arr(glo["det"])[mask_end:]
                        if np.any(arr(glo["amp"])[:mask_end] != 0) or np.any(arr(glo["det"])[:mask_end] != 0):
                            bad("nested:global-xy-before-mask-end", f"all_local={al}: global XY entry is non-zero while the SLM mask is on")
                    else:
                        ga = ga + arr(glo["amp"])
                        gd = gd + arr(glo["det"])
                if len(ga) != N:
                    bad("nested:length", f"all_local={al}: arrays of length {len(ga)} != {N}")
                    continue
                if not close(ga, ea):
                    kind = "masked" if (bname == "XY" and q in mask_targets) else ("dmm" if any(isinstance(sched[n], _DMMSchedule) for n in chs) else "plain")
                    bad(f"nested:amp:{kind}", f"all_local={al} basis {bname} atom {q}: amplitude is not the sum of the pulses targeting it; " + first_bad(ga, ea))
                keep = ~dontcare_det
                if not close(gd[keep], ed[keep]):
                    kind = "masked" if (bname == "XY" and q in mask_targets) else ("dmm" if any(isinstance(sched[n], _DMMSchedule) for n in chs) else "plain")
                    bad(f"nested:det:{kind}", f"all_local={al} basis {bname} atom {q}: detuning is not the (weighted) sum of the pulses targeting it; " + first_bad(gd[keep], ed[keep]))
                # phase of the atom's view where a single channel drives the basis
                if len(chs) == 1 and (loc is not None or glo is not None):
                    cs = sched[chs[0]]
                    lp = np.zeros(N)
                    if loc is not None:
                        lp = lp + arr(loc["phase"])
                    if glo is not None:
                        if bname == "XY" and q in mask_targets:
                            lp[mask_end:] += arr(glo["phase"])[mask_end:]
                        else:
                            lp = lp + arr(glo["phase"])
                    for sl in cs.slots:
                        if not isinstance(sl.type, Pulse) or q not in sl.targets or is_dd_shape(sl.type):
                            continue
                        lo = sl.ti
                        if bname == "XY" and q in mask_targets:
                            lo = max(lo, mask_end)
                        if lo < sl.tf and not np.all(lp[lo:sl.tf] == float(sl.type.phase)):
                            bad("nested:phase", f"all_local={al} basis {bname} atom {q}: phase over the pulse at [{sl.ti},{sl.tf}) is not {float(sl.type.phase)}")
                            break
            # atoms that are never targeted on this basis have no non-zero entry
    return v
