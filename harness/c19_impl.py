"""C19 - implementation runner and property oracle.

`run(case)` executes the register/layout/map code of the tree under
verification on one case and returns
  * `out`: the observable results in the neutral nested-list form that
    `common.sv` turns into the Coq `sv` compared with `TrapMap.run_case`,
  * a list of `Violation`s: the property statement C19 read directly on the
    real objects (independent of the Coq model; exact rational arithmetic for
    distances, numpy's `round` as the rounding primitive).
"""
from __future__ import annotations

import hashlib
from fractions import Fraction

import numpy as np

from harness.common import F
from harness.framework import Violation

PREC = 6
ATOL = Fraction(1, 10**PREC)
RTOL = Fraction(1, 10**5)  # numpy.isclose default


def _ecode(e: BaseException) -> int:
    if isinstance(e, NotImplementedError):
        return 5
    if isinstance(e, IndexError):
        return 4
    if isinstance(e, KeyError):
        return 6
    if isinstance(e, ZeroDivisionError):
        return 7
    if isinstance(e, ValueError):
        return 1
    if isinstance(e, TypeError):
        return 2
    if isinstance(e, RuntimeError):
        return 3
    return 8


def _try(f):
    try:
        return True, f()
    except Exception as e:  # noqa: BLE001
        return False, e


def _fl(x):
    return F(float(x))


def _rows(arr):
    return [[_fl(v) for v in row] for row in np.asarray(arr, dtype=float)]


def _res(ok, val, enc):
    if ok:
        return [0, enc(val)]
    return [1, _ecode(val)]


def qname(code: int) -> str:
    return f"q{code}"


def qcode(name) -> int:
    return int(str(name)[1:])


def _bits(a) -> bytes:
    return np.ascontiguousarray(np.asarray(a, dtype=float)).tobytes()


def _expected_layout_hash(dim: int, sorted_coords) -> str:
    h = hashlib.sha256(bytes(dim))
    h.update(_bits(sorted_coords))
    return h.hexdigest()


def _expected_wmap_hash(dim: int, sorted_coords, sorted_weights, typename: str) -> str:
    h = hashlib.sha256(bytes(dim))
    h.update(_bits(sorted_coords))
    h.update(_bits(sorted_weights))
    h.update(typename.encode())
    return h.hexdigest()


def _well_formed(coords) -> bool:
    """a non-empty list of equally long coordinates of size 2 or 3"""
    if not coords:
        return False
    d = len(coords[0])
    return d in (2, 3) and all(len(c) == d for c in coords)


def _np_round_rows(coords):
    return [tuple(float(v) for v in row) for row in np.round(np.array(coords, dtype=float), PREC)]


def _has_value_dups(rows) -> bool:
    rows = [tuple(r) for r in rows]
    return len(set(rows)) != len(rows)  # float == / hash: -0.0 and 0.0 coincide


def _twin_groups(rows):
    """value-equal rows -> same group id"""
    ids = {}
    out = []
    for r in rows:
        out.append(ids.setdefault(tuple(r), len(ids)))
    return out


def _dist_class(trap, pos):
    """'must' (within the tolerance 1e-6 of the position, clearly), 'maybe'
    (at the tolerance, up to float rounding), 'rtol' (further than 1e-6 but
    within numpy's default relative tolerance 1e-5*|pos|), 'far'."""
    if len(trap) != len(pos):
        return "far"
    ds = [abs(Fraction(float(t)) - Fraction(float(p))) for t, p in zip(trap, pos)]
    eps = Fraction(1, 10**6)
    if all(d <= ATOL * (1 - eps) for d in ds):
        return "must"
    if all(d <= ATOL * (1 + eps) for d in ds):
        return "maybe"
    if all(d <= (ATOL + RTOL * abs(Fraction(float(p)))) * (1 + eps) for d, p in zip(ds, pos)):
        return "rtol"
    return "far"


def _weight_verdict(pairs, pos, got):
    """pairs: [(trap coordinate (rounded, as the map holds it), weight)].
    None if `got` is the weight of the trap at `pos` (0 if none), else a
    signature suffix."""
    must, maybe, rtol = [], [], []
    for t, w in pairs:
        c = _dist_class(t, pos)
        if c == "must":
            must.append(w)
        elif c == "maybe":
            maybe.append(w)
        elif c == "rtol":
            rtol.append(w)

    def sums(base, opt):
        vals = {0}
        for w in opt:
            vals |= {v + Fraction(w) for v in vals}
        return {sum(map(Fraction, base), Fraction(0)) + v for v in vals}

    g = Fraction(float(got))
    tol = Fraction(1, 10**12)
    ok_vals = sums(must, maybe)
    if any(abs(g - v) <= tol for v in ok_vals):
        if len(must) + len(maybe) <= 1:
            # the single-trap case must be exact, not merely close
            exact = {float(w) for w in must + maybe} | ({0.0} if not must else set())
            if float(got) not in exact:
                return "inexact"
        return None
    if rtol and any(abs(g - v) <= tol for v in sums(must, maybe + rtol)):
        return "far-trap-matched:within-rtol"
    return "wrong-weight"


class Runner:
    def __init__(self, case):
        self.case = case
        self.viol: list[Violation] = []

    def bad(self, sig, what, detail=None):
        self.viol.append(Violation(sig, what, self.case, detail))

    # ------------------------------------------------------------------
    def run(self):
        import pulser  # noqa: F401
        from pulser.register.mappable_reg import MappableRegister
        from pulser.register.register_layout import RegisterLayout
        from pulser.register.weight_maps import DetuningMap

        c = self.case
        out = []
        info = {}

        # ---------------- layouts A, B
        okA, A = _try(lambda: RegisterLayout(c["coords"]))
        okB, B = _try(lambda: RegisterLayout(c["coords2"]))
        info["A_ok"], info["B_ok"] = okA, okB

        def enc_layout(L):
            return [int(L.dimensionality), _rows(L.coords)]

        out.append(_res(okA, A, enc_layout))
        out.append([int(i) for i in A._calc_sorting_order()] if okA else [])
        out.append(_res(okB, B, enc_layout))
        eqAB = bool(okA and okB and (A == B))
        out.append(eqAB)
        if okA:
            self.check_layout(A, c["coords"], "A")
        elif _well_formed(c["coords"]) and not _has_value_dups(c["coords"]):
            self.bad("layout:rejected-valid", f"RegisterLayout rejected distinct well-formed coordinates: {A!r}")
        if okA and okB:
            self.check_pair(A, B, c["coords"], c["coords2"], eqAB)
        twinsA = okA and _has_value_dups(A.coords.tolist())
        info["twins"] = bool(twinsA)

        # ---------------- define_register + lookup of its coordinates
        ids, qids = c["ids"], c["qids"]
        names = [qname(q) for q in qids]
        okR, R = (False, ValueError("no layout"))
        if okA:
            okR, R = _try(lambda: A.define_register(*ids, qubit_ids=names))

        def enc_reg(reg):
            qs = [[qcode(k), [_fl(x) for x in np.asarray(v.as_array(detach=True), dtype=float)]]
                  for k, v in reg.qubits.items()]
            tr = [int(t) for t in reg._layout_info.trap_ids] if reg._layout_info else []
            return [int(reg.dimensionality), qs, tr]

        out.append(_res(okR, R, enc_reg) if okA else [1, _ecode(A)])
        info["reg_ok"] = bool(okA and okR)
        reg_pos = []
        if okA and okR:
            reg_pos = [np.asarray(v.as_array(detach=True), dtype=float) for v in R.qubits.values()]
            okL, got = _try(lambda: A.get_traps_from_coordinates(*reg_pos))
            out.append(_res(okL, got, lambda g: [int(t) for t in g]))
            self.check_register(A, R, ids, names, okL, got, "define_register")
        elif okA:
            out.append([1, _ecode(R)])
            self.check_register_rejected(A, ids, names, R)
        else:
            out.append([1, _ecode(A)])

        # ---------------- extra lookups
        if okA:
            okL, got = _try(lambda: A.get_traps_from_coordinates(*c["lookup"]))
            out.append(_res(okL, got, lambda g: [int(t) for t in g]))
            self.check_lookup(A, c["lookup"], okL, got)
        else:
            out.append([1, _ecode(A)])

        # ---------------- mappable register
        decl, chosen = c["decl"], c["chosen"]
        if okA:
            def mk():
                if decl == list(range(len(decl))):
                    m = A.make_mappable_register(len(decl))
                else:
                    m = MappableRegister(A, *[qname(q) for q in decl])
                return m.build_register({qname(q): t for q, t in chosen})

            okM, M = _try(mk)
            out.append(_res(okM, M, enc_reg))
            self.check_mappable(A, decl, chosen, okM, M)
            info["mreg_ok"] = okM
        else:
            out.append([1, _ecode(A)])

        # ---------------- detuning maps given directly
        okW, Wm = _try(lambda: DetuningMap(c["wcoords"], c["weights"]))
        okW2, Wm2 = _try(lambda: DetuningMap(c["wcoords2"], c["weights2"]))
        info["wm_ok"] = okW

        def enc_wmap(m):
            return [int(m.dimensionality), _rows(m.sorted_coords), [_fl(w) for w in m.sorted_weights]]

        out.append(_res(okW, Wm, enc_wmap))
        out.append(_res(okW2, Wm2, enc_wmap))
        eqW = bool(okW and okW2 and (Wm == Wm2))
        out.append(eqW)

        def weights_at(ok, m, poss, tag, pairs):
            if not ok:
                return [1, _ecode(m)]
            res = []
            for i, p in enumerate(poss):
                w = m.get_qubit_weight_map({f"p{i}": p})[f"p{i}"]
                res.append(_fl(w))
                if pairs is not None:
                    v = _weight_verdict(pairs, [float(x) for x in p], w)
                    if v is not None:
                        self.bad(f"weight-map:{v}", f"{tag}: qubit at {list(map(float, p))} gets weight {w!r}; "
                                 f"traps/weights {pairs}")
            return [0, res]

        pairsW = None
        if okW:
            self.check_wmap(Wm, c["wcoords"], c["weights"])
            pairsW = list(zip(_np_round_rows(c["wcoords"]), [float(w) for w in c["weights"]]))
        elif (_well_formed(c["wcoords"]) and not _has_value_dups(c["wcoords"]) and len(c["wcoords"]) == len(c["weights"])
              and all(0 <= w <= 1 for w in c["weights"])):
            self.bad("weight-map:rejected-valid", f"DetuningMap rejected valid traps and weights: {Wm!r}")
        wA = weights_at(okW, Wm, c["wpos"], "DetuningMap", pairsW)
        wB = weights_at(okW2, Wm2, c["wpos"], "DetuningMap (reordered)", None)
        out.append(wA)
        out.append(wB)
        if okW and okW2:
            self.check_wmap_pair(Wm, Wm2, c, eqW, wA, wB)

        # ---------------- layout.define_detuning_map, register.define_detuning_map
        ldm = c["ldm"]
        if okA:
            okD, D = _try(lambda: A.define_detuning_map({int(t): w for t, w in ldm}))
            out.append(_res(okD, D, enc_wmap))
            pairs = None
            if okD:
                pairs = [(tuple(float(x) for x in A.coords[t]), float(w)) for t, w in ldm]
            else:
                self.check_ldm_rejected(A, ldm, D)
            out.append(weights_at(okD, D, reg_pos, "layout.define_detuning_map", pairs))
            info["ldm_ok"] = okD
        else:
            out.append([1, _ecode(A)])
            out.append([1, _ecode(A)])

        rdm = c["rdm"]
        if okA and okR:
            okD, D = _try(lambda: R.define_detuning_map({qname(q): w for q, w in rdm}))
            out.append(_res(okD, D, enc_wmap))
            pairs = None
            if okD:
                pos_of = {k: tuple(float(x) for x in np.asarray(v.as_array(detach=True), dtype=float))
                          for k, v in R.qubits.items()}
                pairs = [(pos_of[qname(q)], float(w)) for q, w in rdm]
            else:
                self.check_rdm_rejected(R, rdm, D)
            out.append(weights_at(okD, D, reg_pos, "register.define_detuning_map", pairs))
            info["rdm_ok"] = okD
        else:
            e = _ecode(R if okA else A)
            out.append([1, e])
            out.append([1, e])

        tail = self.run_direct(A, okA, enc_reg)
        # hash ties (the model's hash input is what sha256 is applied to)
        out.append(bool(not okA or A.static_hash() == _expected_layout_hash(A.dimensionality, A.coords)))
        out.append(bool(not okW or Wm.static_hash() == _expected_wmap_hash(
            Wm.dimensionality, Wm.sorted_coords, Wm.sorted_weights, "DetuningMap")))
        out.append(tail)
        info["direct_ok"] = bool(tail[0] == 0)
        if okA and _has_value_dups([tuple(map(float, r)) for r in c["coords"]]):
            self.bad("layout:accepted-duplicate-traps", f"RegisterLayout accepted duplicate coordinates {c['coords']}")
        if c.get("history"):
            # HISTORY oracle: in-place edits of handed-out arrays must not change the objects
            from harness import c19_history

            h = c19_history.run(c, self.bad)
            info["history_edits"] = h["edits"]
            info["history_refused"] = h["refused"]
            # abstract-repr listing / sequence round trip of the detuning maps of this case
            from harness import c19_repr

            info["history_repr_checks"] = c19_repr.run(c, self.bad)
        return dict(out=out, info=info), self.viol

    # ------------------------------------------------------------------
    def run_direct(self, A, okA, enc_reg):
        """Register({qid: coord}, layout=A, trap_ids=ids): _validate_layout"""
        import pulser

        c = self.case
        direct, dids = c.get("direct", []), c.get("dids", [])
        if not okA:
            return [1, _ecode(A)]
        cls = pulser.Register3D if (direct and len(direct[0][1]) == 3) else pulser.Register
        okD, RD = _try(lambda: cls({qname(q): list(p) for q, p in direct}, layout=A, trap_ids=list(dids)))
        n = A.number_of_traps
        rows = A.coords
        shape_ok = bool(direct) and all(len(p) == A.dimensionality for _, p in direct)
        ids_ok = len(set(dids)) == len(dids) and len(dids) == len(direct) and all(0 <= t < n for t in dids)
        on_traps = shape_ok and ids_ok and all(
            _bits(np.asarray(p, dtype=float) + 0.0) == _bits(rows[t] + 0.0) for (_, p), t in zip(direct, dids))
        if okD and not on_traps:
            neg = shape_ok and len(set(dids)) == len(dids) and len(dids) == len(direct) and \
                all(-n <= t < n for t in dids) and any(t < 0 for t in dids)
            self.bad("register-with-layout:accepted-mismatch" + (":negative-trap-id" if neg else ""),
                     f"Register({direct}, layout, trap_ids={dids}) accepted; traps {rows.tolist()}")
        if not okD and on_traps:
            self.bad("register-with-layout:rejected-valid", f"Register({direct}, trap_ids={dids}) raised {RD!r}")
        return _res(okD, RD, enc_reg)

    # ------------------------------------------------------------------ clauses
    def check_layout(self, L, given, tag):
        """ids = positions in ascending (x, y, z) order of the rounded coordinates"""
        got = [tuple(float(v) for v in row) for row in L.coords]
        want = sorted(_np_round_rows(given))
        if got != want:
            self.bad("trap-ids:not-canonical", f"layout {tag}: coords {got} are not the sorted rounded input {want}")
        td = L.traps_dict
        if sorted(td) != list(range(len(given))) or any(tuple(map(float, td[i])) != got[i] for i in td):
            self.bad("trap-ids:traps-dict", f"layout {tag}: traps_dict is not the enumeration of coords")
        if L.number_of_traps != len(given):
            self.bad("trap-ids:count", f"layout {tag}: {L.number_of_traps} traps for {len(given)} coordinates")

    def check_pair(self, A, B, ca, cb, eq):
        ra, rb = _np_round_rows(ca), _np_round_rows(cb)
        same_given = sorted(_bits(r) for r in ca) == sorted(_bits(r) for r in cb)
        same_rounded = len(ca[0]) == len(cb[0]) and sorted(ra) == sorted(rb)
        h_eq = A.static_hash() == B.static_hash()
        if eq != h_eq or (eq and hash(A) != hash(B)):
            self.bad("layout-eq:hash-inconsistent", "== and static_hash()/hash() disagree")
        ids_same = A.coords.shape == B.coords.shape and bool(np.all(A.coords == B.coords))
        if same_given:
            # the same coordinates in another order
            if not ids_same:
                self.bad("trap-ids:order-dependent", "same coordinates in another order give different trap ids")
            if not eq:
                twins = _has_value_dups(ra)
                self.bad("layout-eq:order-dependent" + (":rounded-duplicate-twins" if twins else ""),
                         "the same coordinates in another order give an unequal layout / another static hash")
        elif same_rounded:
            if not ids_same:
                self.bad("trap-ids:not-function-of-rounded-set", "equal rounded coordinates, different trap ids")
            if not eq:
                negz = _bits(A.coords) != _bits(B.coords) and _bits(A.coords + 0.0) == _bits(B.coords + 0.0)
                self.bad("layout-eq:rounded-equal-but-unequal" + (":negative-zero" if negz else ""),
                         "two layouts whose rounded coordinates are equal compare unequal")
        else:
            if eq:
                self.bad("layout-eq:unsound", "layouts with different rounded coordinates compare equal")

    def check_register(self, A, R, ids, names, okL, got, tag):
        exp_names = tuple(names) if names else tuple(qname(i) for i in range(len(ids)))
        if tuple(R.qubit_ids) != exp_names:
            self.bad(f"{tag}:qubit-ids", f"qubit ids {R.qubit_ids} != {exp_names}")
        n = A.number_of_traps
        if any(not (0 <= t < n) for t in ids) or len(set(ids)) != len(ids):
            self.bad(f"{tag}:accepted-invalid-trap-ids", f"trap ids {ids} accepted for {n} traps")
            return
        pos = [np.asarray(v.as_array(detach=True), dtype=float) for v in R.qubits.values()]
        if len(pos) != len(ids):
            self.bad(f"{tag}:qubit-count", f"{len(pos)} qubits for {len(ids)} traps")
            return
        for q, p, t in zip(R.qubit_ids, pos, ids):
            if p.shape != A.coords[t].shape or _bits(p + 0.0) != _bits(A.coords[t] + 0.0):
                self.bad(f"{tag}:qubit-not-on-trap", f"qubit {q} at {p.tolist()} but trap {t} is at {A.coords[t].tolist()}")
        if R.layout is None or not (R.layout == A) or tuple(R._layout_info.trap_ids) != tuple(ids):
            self.bad(f"{tag}:layout-info", "register does not remember its layout / trap ids")
        if not okL:
            self.bad("lookup-not-inverse:raises", f"looking up the register's coordinates raises {got!r}")
        elif list(got) != list(ids):
            rows = A.coords
            twin = len(got) == len(ids) and all(
                g == t or (0 <= g < n and bool(np.all(rows[g] == rows[t]))) for g, t in zip(got, ids))
            self.bad("lookup-not-inverse" + (":rounded-duplicate-twin" if twin else ""),
                     f"register defined from traps {list(ids)}; looking its coordinates up returns {list(got)}")

    def check_register_rejected(self, A, ids, names, err):
        n = A.number_of_traps
        valid = (len(ids) > 0 and len(set(ids)) == len(ids) and all(0 <= t < n for t in ids)
                 and (not names or (len(set(names)) == len(names) and len(names) == len(ids))))
        if valid:
            self.bad("define_register:rejected-valid", f"define_register({ids}, {names}) raised {err!r}")

    def check_lookup(self, A, look, okL, got):
        if not look:
            if not okL or list(got) != []:
                self.bad("lookup:empty", "lookup of no coordinates")
            return
        d = A.dimensionality
        uniform = all(len(c) == len(look[0]) for c in look)
        rows = [tuple(float(v) for v in r) for r in A.coords]
        exp = []
        if uniform and len(look[0]) == d:
            for key in _np_round_rows(look):
                cands = [i for i, r in enumerate(rows) if r == key]
                exp.append(cands)
        else:
            exp = None
        if exp is None or any(not cnd for cnd in exp):
            if okL:
                self.bad("lookup:accepted-foreign-coordinate", f"lookup of {look} returned {got}")
            return
        if not okL:
            self.bad("lookup:rejected-trap-coordinate", f"lookup of {look} raised {got!r}")
            return
        if len(got) != len(exp) or any(g not in cnd for g, cnd in zip(got, exp)):
            self.bad("lookup:wrong-trap", f"lookup of {look} returned {list(got)}, candidates {exp}")

    def check_mappable(self, A, decl, chosen, okM, M):
        n = A.number_of_traps
        keys = [q for q, _ in chosen]
        traps = [t for _, t in chosen]
        valid = (len(set(decl)) == len(decl) and len(decl) <= n and len(keys) > 0
                 and set(keys) == set(decl[: len(keys)]) and len(set(keys)) == len(keys)
                 and len(set(traps)) == len(traps) and all(0 <= t < n for t in traps))
        if not okM:
            if valid:
                self.bad("mappable:rejected-valid", f"build_register({chosen}) on {decl} raised {M!r}")
            return
        if not valid:
            if len(set(decl)) == len(decl):
                self.bad("mappable:accepted-invalid", f"build_register({chosen}) on declared {decl} accepted")
            return
        exp_ids = tuple(qname(q) for q in decl[: len(keys)])
        if tuple(M.qubit_ids) != exp_ids:
            self.bad("mappable:order", f"qubit ids {M.qubit_ids}, declared order is {exp_ids}")
            return
        m = dict(chosen)
        for q, v in M.qubits.items():
            p = np.asarray(v.as_array(detach=True), dtype=float)
            t = m[qcode(q)]
            if _bits(p + 0.0) != _bits(A.coords[t] + 0.0):
                self.bad("mappable:qubit-not-on-trap", f"qubit {q} at {p.tolist()}, mapped trap {t} at {A.coords[t].tolist()}")
        if M.layout is None or not (M.layout == A) or \
                tuple(M._layout_info.trap_ids) != tuple(m[q] for q in decl[: len(keys)]):
            self.bad("mappable:layout-info", "register built from the mappable register has wrong layout info")

    def check_wmap(self, m, coords, weights):
        rows = _np_round_rows(coords)
        got = [(tuple(float(v) for v in r), float(w)) for r, w in zip(m.sorted_coords, m.sorted_weights)]
        if [g[0] for g in got] != sorted(rows):
            self.bad("weight-map:coords-not-canonical", f"sorted_coords {got} vs {sorted(rows)}")
        if sorted(got) != sorted(zip(rows, map(float, weights))):
            self.bad("weight-map:weights-detached", "sorted weights are not attached to their traps")

    def check_wmap_pair(self, m1, m2, c, eq, wA, wB):
        p1 = sorted((tuple(map(float, r)), float(w)) for r, w in zip(c["wcoords"], c["weights"]))
        p2 = sorted((tuple(map(float, r)), float(w)) for r, w in zip(c["wcoords2"], c["weights2"]))
        if p1 != p2:
            if eq:
                self.bad("weight-map-eq:unsound", "different maps compare equal")
            return
        twins = _has_value_dups(_np_round_rows(c["wcoords"]))
        h_eq = m1.static_hash() == m2.static_hash()
        if eq != h_eq:
            self.bad("weight-map-eq:hash-inconsistent", "== and static_hash() disagree")
        if not eq:
            only_twins = False
            if twins:
                g = _twin_groups([tuple(map(float, r)) for r in m1.sorted_coords])
                a = sorted(zip(g, map(float, m1.sorted_weights)))
                b = sorted(zip(g, map(float, m2.sorted_weights)))
                only_twins = bool(np.all(m1.sorted_coords == m2.sorted_coords)) and a == b
            self.bad("weight-map-eq:order-dependent" + (":rounded-duplicate-twins" if only_twins else ""),
                     "the same traps and weights in another order give an unequal map / another static hash")
        if wA[0] == 0 and wB[0] == 0 and [float(x) for x in wA[1]] != [float(x) for x in wB[1]] and not twins:
            self.bad("weight-map:order-dependent", f"qubit weights {wA[1]} vs {wB[1]} for the reordered map")

    def check_ldm_rejected(self, A, ldm, err):
        n = A.number_of_traps
        keys = [t for t, _ in ldm]
        if not keys or any(not (0 <= t < n) for t in keys) or any(not (0 <= w <= 1) for _, w in ldm):
            return
        if len(keys) == 1:
            self.bad("define-detuning-map:rejected-valid:single-trap",
                     f"layout.define_detuning_map({dict(ldm)}) raised {err!r}")
            return
        rows = [tuple(map(float, A.coords[t])) for t in keys]
        if _has_value_dups(rows):
            self.bad("define-detuning-map:rejected-valid:rounded-duplicate-twins",
                     f"layout.define_detuning_map on twin traps raised {err!r}")
            return
        self.bad("define-detuning-map:rejected-valid", f"layout.define_detuning_map({dict(ldm)}) raised {err!r}")

    def check_rdm_rejected(self, R, rdm, err):
        names = set(R.qubit_ids)
        keys = [qname(q) for q, _ in rdm]
        if not keys or any(k not in names for k in keys) or any(not (0 <= w <= 1) for _, w in rdm):
            return
        pos = {k: tuple(float(x) for x in np.asarray(v.as_array(detach=True), dtype=float)) for k, v in R.qubits.items()}
        if _has_value_dups([pos[k] for k in keys]):
            self.bad("define-detuning-map:rejected-valid:rounded-duplicate-twins",
                     f"register.define_detuning_map on twin traps raised {err!r}")
            return
        self.bad("register-detuning-map:rejected-valid", f"register.define_detuning_map({dict(rdm)}) raised {err!r}")


def run(case):
    return Runner(case).run()
