"""C16 helper: builds real pulser waveforms / pulses from neutral JSON cases,
records canonical outcomes (what the Coq model must reproduce), evaluates the
property oracle on the real outputs, collects the oracle environment
(np.blackman / np.kaiser windows, PCHIP samples) the model needs, and emits
Coq terms.

Case formats (all JSON):
  {"kind":"wf",   "wf": W, "ops":[OP...]}
  {"kind":"pulse","amp": W, "det": W, "phase": f, "post": f}
  {"kind":"arb",  "amp": W, "phase_wf": W, "post": f}
  {"kind":"bmv",  "max_val": f, "area": f}
  {"kind":"kmv",  "max_val": f, "area": f, "beta": f}
W  = ["const",d,v] | ["ramp",d,a,b] | ["custom",[..]] | ["comp",[W..]]
   | ["blackman",d,area] | ["kaiser",d,area,beta] | ["interp",d,[vals],[times]|null]
OP = ["samples"]|["dur"]|["integral"]|["index",i]|["slice",a,b,c]|["mul",k]|["neg"]
   | ["div",k]|["chdur",d]|["eq",W]|["datapts"]
"""
from __future__ import annotations

import math
import warnings

import numpy as np
import scipy.interpolate as _interp

from harness.common import coq_Z, coq_float, coq_list, coq_opt, sv
from harness.framework import Violation

from pulser import Pulse
from pulser.waveforms import (
    BlackmanWaveform,
    CompositeWaveform,
    ConstantWaveform,
    CustomWaveform,
    InterpolatedWaveform,
    KaiserWaveform,
    RampWaveform,
    Waveform,
)

TWO_PI = 2 * math.pi

ERR = {
    ValueError: 1,
    TypeError: 2,
    RuntimeError: 3,
    IndexError: 4,
    NotImplementedError: 5,
    KeyError: 6,
    ZeroDivisionError: 7,
}


def err_code(e: BaseException) -> int:
    for cls, c in ERR.items():
        if type(e) is cls:
            return c
    for cls, c in ERR.items():
        if isinstance(e, cls):
            return c
    return 8


def nz(x) -> float:
    """float with the sign of zero normalised (see Model/Wave.v [fnz])"""
    x = float(x)
    return 0.0 if x == 0.0 else x


def fl(xs) -> list:
    return [nz(x) for x in np.asarray(xs, dtype=float).ravel()]


def arr(w: Waveform) -> np.ndarray:
    return np.asarray(w.samples.as_array(detach=True), dtype=float)


# ------------------------------------------------------------------ building
def pydur(x):
    """duration argument as the user passes it: int, float, or a numpy scalar
    (["i64", n] / ["f64", x]); every form is int-castable"""
    if isinstance(x, (list, tuple)):
        if x[0] == "i64":
            return np.int64(x[1])
        if x[0] == "f64":
            return np.float64(x[1])
        raise ValueError("unknown duration form " + str(x))
    return x


def dur_int(x) -> int:
    """what _cast_check(int, duration) must yield"""
    return int(pydur(x))


def idur(x):
    """a duration as the object stores it: must be an integer type"""
    if isinstance(x, (int, np.integer)) and not isinstance(x, bool):
        return int(x)
    return float(x)


def case_cfg(W) -> dict:
    """interpolator configuration of an ["interp", d, vals, times, cfg?] case:
    {"interpolator": name, **interpolator_kwargs}; {} = the defaults"""
    if W[0] == "interp" and len(W) > 4 and W[4]:
        return dict(W[4])
    return {}


def obj_cfg(w) -> dict:
    """the same, read from an InterpolatedWaveform object"""
    kw = {k: v for k, v in w._kwargs.items() if k != "times"}
    if kw.get("interpolator") == "PchipInterpolator" and len(kw) == 1:
        return {}
    return kw


def build(W):
    k = W[0]
    if k == "const":
        return ConstantWaveform(pydur(W[1]), W[2])
    if k == "ramp":
        return RampWaveform(pydur(W[1]), W[2], W[3])
    if k == "custom":
        return CustomWaveform(list(W[1]))
    if k == "comp":
        return CompositeWaveform(*[build(x) for x in W[1]])
    if k == "blackman":
        return BlackmanWaveform(pydur(W[1]), W[2])
    if k == "kaiser":
        return KaiserWaveform(pydur(W[1]), W[2], W[3])
    if k == "interp":
        kw = dict(case_cfg(W))
        if W[3] is not None:
            kw["times"] = list(W[3])
        return InterpolatedWaveform(pydur(W[1]), list(W[2]), **kw)
    raise ValueError("unknown waveform kind " + str(k))


def quiet():
    cm = warnings.catch_warnings()
    cm.__enter__()
    warnings.simplefilter("ignore")
    es = np.errstate(all="ignore")
    es.__enter__()
    return cm, es


def unquiet(h):
    cm, es = h
    es.__exit__(None, None, None)
    cm.__exit__(None, None, None)


# ---------------------------------------------------- canonical object dumps
def interp_times_param(w: InterpolatedWaveform):
    t = w._kwargs.get("times")
    return None if t is None else [float(x) for x in np.asarray(t, dtype=float)]


def wf_dump(w: Waveform):
    """mirror of Coq [wf_sv]"""
    if isinstance(w, ConstantWaveform):
        return [0, idur(w._duration), nz(w._value)]
    if isinstance(w, RampWaveform):
        return [1, idur(w._duration), nz(w._start), nz(w._stop)]
    if isinstance(w, CustomWaveform):
        return [2, fl(w._samples_arr.as_array(detach=True))]
    if isinstance(w, CompositeWaveform):
        return [3, [wf_dump(x) for x in w._waveforms]]
    if isinstance(w, BlackmanWaveform):
        return [4, idur(w._duration), nz(w._area), 0.0]
    if isinstance(w, KaiserWaveform):
        return [5, idur(w._duration), nz(w._area), nz(w._beta)]
    if isinstance(w, InterpolatedWaveform):
        t = interp_times_param(w)
        return [6, idur(w._duration), fl(w._values), [] if t is None else [fl(t)]]
    raise TypeError("unknown waveform class " + type(w).__name__)


def wf_full(w: Waveform):
    return [wf_dump(w), idur(w.duration), fl(arr(w))]


# --------------------------------------------------------- oracle environment
class Env:
    """np.blackman / np.kaiser values and reference PCHIP samples handed to
    the model; every value is validated against the hypotheses the theorems
    assume (finite, 0 <= clipped window <= 1, right length)."""

    def __init__(self):
        self.win = {}
        self.itp = {}
        self.viol = []

    def add_win(self, kind: int, d: int, beta: float):
        d = int(d)
        if d <= 0 or d > 200000:
            return
        key = (kind, d, float(beta))
        if key in self.win:
            return
        w = np.blackman(d) if kind == 4 else np.kaiser(d, beta)
        self.win[key] = [float(x) for x in w]

    def add_interp(self, d, vals, times, cfg=None):
        """reference samples for (duration, values, times); the model keys its
        oracle by these three, the interpolator configuration is carried by
        the reference itself.  First registration wins: expectations derived
        from the case are registered before objects the implementation built."""
        key = (int(d), tuple(float(v) for v in vals), None if times is None else tuple(float(t) for t in times))
        if key in self.itp:
            return
        s = ref_interp(int(d), list(key[1]), None if times is None else list(key[2]), cfg or {})
        if s is not None:
            self.itp[key] = [float(x) for x in s]

    def expect_interp(self, W, new_dur=None, factor=None):
        """what an interpolated waveform described by the case W must be after
        change_duration(new_dur) / scaling by factor: same times, same
        interpolator and interpolator kwargs"""
        if W[0] != "interp":
            return
        try:
            d = dur_int(W[1]) if new_dur is None else dur_int(new_dur)
            vals = np.array(W[2], dtype=float)
            if factor is not None:
                vals = vals * np.array(factor, dtype=float)
            if d > 0:
                self.add_interp(d, vals, W[3], case_cfg(W))
        except Exception:  # noqa: BLE001
            pass

    def add_obj(self, w):
        if isinstance(w, CompositeWaveform):
            for x in w._waveforms:
                self.add_obj(x)
        elif isinstance(w, BlackmanWaveform):
            self.add_win(4, w._duration, 0.0)
        elif isinstance(w, KaiserWaveform):
            self.add_win(5, w._duration, w._beta)
        elif isinstance(w, InterpolatedWaveform):
            self.add_interp(w._duration, w._values, interp_times_param(w), obj_cfg(w))

    def coq(self) -> str:
        wins = coq_list(
            "(%s, %s, %s, %s)"
            % ("KBlackman" if k == 4 else "KKaiser", coq_Z(d), coq_float(b), coq_list(coq_float(x) for x in w))
            for (k, d, b), w in self.win.items()
        )
        its = coq_list(
            "(%s, %s, %s, %s)"
            % (
                coq_Z(d),
                coq_list(coq_float(x) for x in vals),
                coq_opt(times, lambda t: coq_list(coq_float(x) for x in t)),
                coq_list(coq_float(x) for x in s),
            )
            for (d, vals, times), s in self.itp.items()
        )
        return "(mk_env %s %s)" % (wins, its)


def ref_data_x(d, vals, times):
    n = len(vals)
    ts = np.linspace(0, 1, num=n) if times is None else np.array(times, dtype=float)
    return [round(float(t)) for t in ts * (d - 1)]


def ref_interp(d, vals, times, cfg=None):
    """independent reading of InterpolatedWaveform._samples (the scipy
    interpolator named by cfg, default PCHIP, on the rounded data points,
    then np.round to a range-dependent precision)"""
    h = quiet()
    try:
        cfg = dict(cfg or {})
        name = cfg.pop("interpolator", "PchipInterpolator")
        if name not in ("PchipInterpolator", "interp1d"):
            return None
        xs = ref_data_x(d, vals, times)
        f = getattr(_interp, name)(np.array(xs, dtype=float), np.array(vals, dtype=float), **cfg)
        s = f(np.arange(d))
        rng = np.max(np.abs(s))
        dec = int(min(np.finfo(s.dtype).precision - np.log10(rng), 9))
        return np.round(s, decimals=dec)
    except Exception:  # noqa: BLE001
        return None
    finally:
        unquiet(h)


# ------------------------------------------------------------------- oracle
def leaf_sig(w: Waveform) -> str:
    d = w.duration
    dd = str(d) if d <= 3 else "n"
    return f"{type(w).__name__}:d={dd}"


def close(a, b, rtol=1e-9, atol=0.0) -> bool:
    return abs(a - b) <= atol + rtol * max(abs(a), abs(b))


def py_isclose(x, y) -> bool:
    """np.isclose with default tolerances, read directly from its docstring"""
    if x == y:
        return True
    if math.isnan(x) or math.isnan(y) or math.isinf(x) or math.isinf(y):
        return False
    return abs(x - y) <= 1e-8 + 1e-5 * abs(y)


class Oracle:
    def __init__(self, case):
        self.case = case
        self.v: list[Violation] = []

    def bad(self, sig, what, detail=None):
        self.v.append(Violation(sig, what, self.case, detail))

    def asked_duration(self, w: Waveform, W, origin: str):
        """duration == int(requested duration), for every int-castable form"""
        if W[0] in ("custom", "comp"):
            if W[0] == "comp" and isinstance(w, CompositeWaveform):
                for x, X in zip(w._waveforms, W[1]):
                    self.asked_duration(x, X, origin + "/part")
            return
        want = dur_int(W[1])
        d = w.duration
        if not (isinstance(d, (int, np.integer)) and not isinstance(d, bool)) or int(d) != want:
            self.bad("duration:cast", f"{origin}: asked duration {W[1]!r} (= {want} ns), object reports {d!r}")

    # -- every waveform object that comes into existence goes through here
    def waveform(self, w: Waveform, origin: str):
        try:
            return self._waveform(w, origin)
        except Exception as e:  # noqa: BLE001
            self.bad(
                "accessor-raises:" + type(e).__name__,
                f"{origin}: reading samples/integral/first/last of {type(w).__name__} raised {type(e).__name__}: {e}",
            )
            return False

    def _waveform(self, w: Waveform, origin: str):
        s = arr(w)
        d = w.duration
        if not (isinstance(d, (int, np.integer)) and d > 0):
            self.bad("duration:not-positive-int", f"{origin}: duration {d!r}")
            return False
        if len(s) != d:
            self.bad("samples:length", f"{origin}: {type(w).__name__} has {len(s)} samples, duration {d}")
            return False
        if isinstance(w, CompositeWaveform):
            ok = True
            for x in w._waveforms:
                ok = self.waveform(x, origin + "/part") and ok
            cat = np.concatenate([arr(x) for x in w._waveforms])
            if d != sum(x.duration for x in w._waveforms):
                self.bad("composite:duration", f"{origin}: duration {d} is not the sum of the parts")
            elif not np.array_equal(cat, s, equal_nan=True):
                self.bad("composite:values", f"{origin}: samples are not the concatenation of the parts")
            if ok and not np.all(np.isfinite(s)):
                self.bad("samples:non-finite:CompositeWaveform", f"{origin}: non-finite samples from finite parts")
                ok = False
            return ok
        if not np.all(np.isfinite(s)):
            self.bad("samples:non-finite:" + leaf_sig(w), f"{origin}: {w!r} has non-finite samples {s[:4]}")
            return False
        scale = float(np.max(np.abs(s))) if d else 0.0
        if isinstance(w, ConstantWaveform):
            if not np.all(s == float(w._value)):
                self.bad("constant:values", f"{origin}: samples differ from the value {float(w._value)}")
        elif isinstance(w, RampWaveform):
            a, b = float(w._start), float(w._stop)
            lo, hi = min(a, b), max(a, b)
            tol = 1e-12 * max(abs(a), abs(b)) + 1e-300
            if d >= 2:
                if abs(s[0] - a) > tol or abs(s[-1] - b) > tol:
                    self.bad("ramp:endpoints", f"{origin}: first/last = {s[0]}/{s[-1]}, start/stop = {a}/{b}")
                exp = a + (b - a) * np.arange(d) / (d - 1)
                if np.max(np.abs(s - exp)) > 1e-9 * max(abs(a), abs(b)) + 1e-300:
                    self.bad("ramp:affine", f"{origin}: samples are not the affine interpolation")
            if np.any(s < lo) or np.any(s > hi):
                self.bad("ramp:outside-range", f"{origin}: samples leave [{lo},{hi}]")
        elif isinstance(w, CustomWaveform):
            pass  # checked against the input list by the caller
        elif isinstance(w, (BlackmanWaveform, KaiserWaveform)):
            area = float(w._area)
            if not close(w.integral, area, rtol=1e-9, atol=1e-300):
                self.bad("window:area:" + type(w).__name__, f"{origin}: integral {w.integral} != area {area}")
            if area > 0 and np.any(s < 0) or area < 0 and np.any(s > 0):
                self.bad("window:sign:" + type(w).__name__, f"{origin}: samples of the wrong sign")
        elif isinstance(w, InterpolatedWaveform):
            # documented points: value v_i sits at sample round(t_i * (duration - 1))
            xs = ref_data_x(d, list(w._values), interp_times_param(w))
            if [int(x) for x in w.data_points[:, 0]] != xs or [float(v) for v in w.data_points[:, 1]] != [float(v) for v in w._values]:
                self.bad("interpolated:data-points-attr", f"{origin}: data_points {w.data_points.tolist()} are not (round(t*(d-1)), value)")
            pts = list(zip(xs, [float(v) for v in w._values]))
            tol = 1e-9 + 1e-12 * scale
            for x, v in pts:
                xi = int(x)
                if not (0 <= xi < d) or abs(s[xi] - v) > tol + 1e-12 * abs(v):
                    self.bad("interpolated:data-point", f"{origin}: sample at {xi} is not the given value {v}")
                    break
        integ = w.integral
        ref = math.fsum(float(x) for x in s) * 1e-3
        if abs(integ - ref) > 1e-9 * (abs(ref) + 1e-3 * scale * 1e-3) + 1e-300:
            self.bad("integral", f"{origin}: integral {integ} vs sum of samples {ref}")
        if float(w.first_value) != float(s[0]) or float(w.last_value) != float(s[-1]):
            self.bad("first-last-value", f"{origin}: first/last value differ from the samples")
        return True



# ----------------------------------------------------- history (aliasing) oracle
_CHAN = None


def _mod_channel():
    global _CHAN
    if _CHAN is None:
        from pulser.channels import Rydberg

        _CHAN = Rydberg.Global(None, None, mod_bandwidth=4)
    return _CHAN


def obs_state(w: Waveform):
    """everything a user can observe of a waveform, as plain Python values"""
    s = np.array(w.samples.as_array(detach=True), dtype=float, copy=True)
    return (
        int(w.duration),
        [float(x) for x in s],
        float(w.integral),
        float(w.first_value),
        float(w.last_value),
        float(w[0]),
        [float(x) for x in np.array(w[:].as_array(detach=True), dtype=float, copy=True)],
    )


def same_state(a, b) -> bool:
    def eq(x, y):
        if isinstance(x, list):
            return len(x) == len(y) and all(eq(p, q) for p, q in zip(x, y))
        return x == y or (x != x and y != y)

    return all(eq(x, y) for x, y in zip(a, b))


SENTINEL = -98765.4321

# accessor name -> (function returning a handle the caller may write to)
ACCESSORS = [
    ("samples-setitem", lambda w: w.samples, lambda a: a.__setitem__(0, SENTINEL)),
    ("samples.as_array", lambda w: w.samples.as_array(), lambda a: a.__setitem__(slice(None), SENTINEL)),
    ("samples.as_array-detach", lambda w: w.samples.as_array(detach=True), lambda a: a.__setitem__(-1, SENTINEL)),
    ("index", lambda w: w[0].as_array(), lambda a: a.__setitem__((), SENTINEL)),
    ("slice-view", lambda w: w[0:].as_array(), lambda a: a.__setitem__(0, SENTINEL)),
    ("slice-view", lambda w: w[:1], lambda a: a.__setitem__(0, SENTINEL)),
]


def history_check(orc: "Oracle", make, origin: str, modulated: bool = True):
    """Read every array-returning accessor of a freshly built waveform, write
    into the returned array, read the waveform again: its observable state
    must not have changed.  [make] builds a fresh, independent object."""
    seen = set()
    for name, get, write in ACCESSORS:
        try:
            w = make()
            before = obs_state(w)
            h = get(w)
            write(h)
            after = obs_state(w)
        except (TypeError, ValueError) as e:
            # a read-only result is a legitimate way of protecting the state
            if "read-only" in str(e) or "not support item assignment" in str(e):
                continue
            raise
        if not same_state(before, after) and name not in seen:
            seen.add(name)
            orc.bad("aliasing:" + name, f"{origin}: writing into the array returned by {name} changed the waveform ({type(w).__name__}, first sample {before[1][0]} -> {after[1][0]}, integral {before[2]} -> {after[2]})")
    if isinstance(make(), InterpolatedWaveform):
        w = make()
        before = (obs_state(w), w.data_points.tolist())
        w.data_points[0, 1] = SENTINEL
        if not same_state(before[0], obs_state(w)) or before[1] != w.data_points.tolist():
            orc.bad("aliasing:data_points", f"{origin}: writing into data_points changed the waveform")
    if isinstance(make(), CompositeWaveform):
        w = make()
        before = obs_state(w)
        w.waveforms.clear()
        if not same_state(before, obs_state(w)) or len(w.waveforms) == 0:
            orc.bad("aliasing:waveforms-list", f"{origin}: clearing the list returned by .waveforms changed the composite")
    if modulated:
        w = make()
        if w.duration <= 400 and np.all(np.isfinite(arr(w))):
            ch = _mod_channel()
            before = obs_state(w)
            m0 = np.array(w.modulated_samples(ch).as_array(detach=True), dtype=float, copy=True)
            h = w.modulated_samples(ch).as_array(detach=True)
            try:
                h[:] = SENTINEL
            except ValueError:
                h = None
            m1 = np.array(w.modulated_samples(ch).as_array(detach=True), dtype=float, copy=True)
            if not same_state(before, obs_state(w)):
                orc.bad("aliasing:modulated-samples-input", f"{origin}: writing into modulated_samples() changed the waveform's samples")
            elif not np.array_equal(m0, m1, equal_nan=True):
                orc.bad("aliasing:modulated-samples-cache", f"{origin}: writing into the array returned by modulated_samples() changed what the next call returns")


def history_check_custom(orc: "Oracle", vals, origin: str):
    """CustomWaveform must not stay tied to the caller's array"""
    a = np.array(vals, dtype=float)
    w = CustomWaveform(a)
    before = obs_state(w)
    a[0] = SENTINEL
    if not same_state(before, obs_state(w)):
        orc.bad("aliasing:custom-caller-array", f"{origin}: CustomWaveform(arr) changes when the caller later writes to arr")
    w = CustomWaveform(list(vals))
    before = obs_state(w)
    if not same_state(before, obs_state(w)):
        orc.bad("aliasing:unstable", f"{origin}: two reads differ")


# ---------------------------------------------------------------- runner
def run_wf_case(case, env: Env, orc: Oracle):
    out = []
    try:
        w = build(case["wf"])
    except Exception as e:  # noqa: BLE001
        return [err_code(e)], None
    env.expect_interp(case["wf"])
    env.add_obj(w)
    finite = orc.waveform(w, "wf")
    orc.asked_duration(w, case["wf"], "wf")
    if case["wf"][0] == "custom":
        if not np.array_equal(arr(w), np.array(case["wf"][1], dtype=float)):
            orc.bad("custom:values", "samples differ from the given list")
    s = arr(w)
    sl = list(s)
    d = w.duration
    out.append(0)
    for op in case["ops"]:
        k = op[0]
        try:
            if k == "samples":
                r = [0, fl(s)]
            elif k == "dur":
                r = [0, idur(d)]
            elif k == "integral":
                r = [0, nz(w.integral)]
            elif k == "index":
                i = op[1]
                try:
                    exp = ("ok", sl[i])
                except IndexError:
                    exp = ("IndexError", None)
                try:
                    got = ("ok", float(w[i]))
                except IndexError:
                    got = ("IndexError", None)
                if exp[0] != got[0] or (exp[0] == "ok" and not (exp[1] == got[1] or (exp[1] != exp[1] and got[1] != got[1]))):
                    orc.bad("index:list-semantics", f"wf[{i}] -> {got}, list semantics -> {exp}")
                r = [0, nz(w[i])]
            elif k == "slice":
                slc = slice(op[1], op[2], op[3])
                if op[3] in (None, 1):
                    exp = sl[slc]
                    got = list(np.asarray(w[slc].as_array(detach=True), dtype=float))
                    if len(exp) != len(got) or any(not (a == b or (a != a and b != b)) for a, b in zip(exp, got)):
                        orc.bad("slice:list-semantics", f"wf[{op[1]}:{op[2]}:{op[3]}] has {len(got)} items, list semantics {len(exp)}")
                r = [0, fl(w[slc].as_array(detach=True))]
            elif k in ("mul", "neg", "div"):
                if k == "mul":
                    env.expect_interp(case["wf"], factor=float(op[1]))
                    w2 = w * op[1]
                    fac = float(op[1])
                elif k == "neg":
                    env.expect_interp(case["wf"], factor=-1.0)
                    w2 = -w
                    fac = -1.0
                else:
                    if float(op[1]) != 0.0:
                        env.expect_interp(case["wf"], factor=1 / np.float64(op[1]))
                    w2 = w / op[1]
                    fac = None
                env.add_obj(w2)
                if isinstance(w, InterpolatedWaveform) and isinstance(w2, InterpolatedWaveform) and not same_cfg(w, w2):
                    orc.bad("scale:interpolator-config", f"{k}: interpolator configuration changed: {obj_cfg(w)} -> {obj_cfg(w2)}")
                f2 = orc.waveform(w2, k)
                if type(w2) is not type(w) or w2.duration != d:
                    orc.bad("scale:class-or-duration", f"{k}: {type(w).__name__}({d}) became {type(w2).__name__}({w2.duration})")
                elif finite and f2:
                    s2 = arr(w2)
                    exp = s * fac if fac is not None else s / float(op[1])
                    sc = float(np.max(np.abs(exp))) if d else 0.0
                    # interpolated samples are rounded to <= 9 decimals (abs. error 0.5e-9)
                    # before and after the scaling
                    f_abs = abs(fac) if fac is not None else abs(1.0 / float(op[1]))
                    tol = 1e-9 * sc + (0.6e-9 * (1.0 + f_abs) if has_interp(w) else 0.0) + 1e-300
                    if np.max(np.abs(s2 - exp)) > tol:
                        orc.bad("scale:samples:" + k, f"{k} by {op[1] if len(op) > 1 else -1}: samples are not the scaled samples (max dev {np.max(np.abs(s2 - exp))})")
                r = [0, wf_full(w2)]
            elif k == "chdur":
                env.expect_interp(case["wf"], new_dur=op[1])
                w2 = w.change_duration(pydur(op[1]))
                env.add_obj(w2)
                orc.waveform(w2, "chdur")
                if type(w2) is not type(w):
                    orc.bad("change-duration:class", f"{type(w).__name__} became {type(w2).__name__}")
                elif w2.duration != dur_int(op[1]):
                    orc.bad("change-duration:duration", f"asked {op[1]}, got {w2.duration}")
                else:
                    a, b = wf_dump(w), wf_dump(w2)
                    a[1] = b[1] = 0
                    if a != b:
                        orc.bad("change-duration:parameters", f"defining parameters changed: {a} -> {b}")
                    elif isinstance(w, InterpolatedWaveform) and not same_cfg(w, w2):
                        orc.bad("change-duration:parameters", f"interpolator configuration changed: {obj_cfg(w)} -> {obj_cfg(w2)}")
                    # the result is the waveform one gets by building the class from
                    # the same defining parameters at the new duration
                    W2 = list(case["wf"])
                    W2[1] = op[1]
                    ref = build(W2)
                    sr, s2 = arr(ref), arr(w2)
                    same = len(sr) == len(s2) and (
                        bool(np.allclose(s2, sr, rtol=1e-9, atol=1e-9, equal_nan=True))
                        if has_interp(w)
                        else bool(np.array_equal(s2, sr, equal_nan=True))
                    )
                    if not same:
                        orc.bad("change-duration:differs-from-rebuilt", f"change_duration({op[1]}) is not {type(w).__name__} rebuilt with the same defining parameters")
                r = [0, wf_full(w2)]
            elif k == "eq":
                o = build(op[1])
                env.add_obj(o)
                so = arr(o)
                try:
                    got = bool(w == o)
                except Exception as e:  # noqa: BLE001
                    orc.bad("equality:raises:" + type(e).__name__, f"== between durations {d} and {o.duration} raised {type(e).__name__}: {e}")
                    raise
                exp = o.duration == d and all(py_isclose(float(a), float(b)) for a, b in zip(s, so))
                if got != exp:
                    orc.bad("equality:closeness", f"== says {got}, sample-wise closeness says {exp}")
                r = [0, got]
            elif k == "datapts":
                if isinstance(w, InterpolatedWaveform):
                    r = [0, [int(x) for x in w.data_points[:, 0]]]
                else:
                    r = [8]
            else:
                raise AssertionError("unknown op " + k)
        except AssertionError:
            raise
        except Exception as e:  # noqa: BLE001
            c = err_code(e)
            r = [c]
            # raising is only legitimate where documented
            legit = (
                (k == "index" and c == 4)
                or (k == "slice" and c == 4 and op[3] not in (None, 1))
                or (k == "div" and c == 7 and float(op[1]) == 0.0)
                or (k == "chdur" and c == 5 and isinstance(w, (CustomWaveform, CompositeWaveform)))
                or (k == "chdur" and c == 1 and (dur_int(op[1]) <= 0 or isinstance(w, InterpolatedWaveform)))
                or (k == "eq" and c == 1)
            )
            if k == "index" and c == 4 and -d <= op[1] < d:
                legit = False
            if not legit:
                orc.bad(f"op-raises:{k}:{type(e).__name__}", f"{k}{op[1:]} raised {type(e).__name__}: {e}")
        out.append(r)
    if finite and d <= 400:
        history_check(orc, lambda: build(case["wf"]), "wf")
        if case["wf"][0] == "custom":
            history_check_custom(orc, case["wf"][1], "wf")
    return out, w


def same_cfg(w1, w2) -> bool:
    a, b = obj_cfg(w1), obj_cfg(w2)
    if set(a) != set(b):
        return False
    for k in a:
        x, y = a[k], b[k]
        try:
            if not bool(np.all(np.asarray(x) == np.asarray(y))):
                return False
        except Exception:  # noqa: BLE001
            if x is not y:
                return False
    return True


def has_interp(w) -> bool:
    if isinstance(w, InterpolatedWaveform):
        return True
    if isinstance(w, CompositeWaveform):
        return any(has_interp(x) for x in w._waveforms)
    return False


def pulse_dump(p: Pulse):
    return [
        wf_dump(p.amplitude),
        wf_dump(p.detuning),
        nz(p.phase),
        nz(p.post_phase_shift),
        [0, fl(arr(p.detuning))],
    ]


def check_pulse(p: Pulse, orc: Oracle, origin: str, phase_defined: bool = True):
    a = arr(p.amplitude)
    if p.amplitude.duration != p.detuning.duration or len(a) != len(arr(p.detuning)):
        orc.bad("pulse:unequal-lengths", f"{origin}: amplitude {p.amplitude.duration} vs detuning {p.detuning.duration}")
    if not np.all(a >= 0):
        if np.any(a < 0):
            orc.bad("pulse:negative-amplitude", f"{origin}: amplitude has negative samples")
        else:
            orc.bad("pulse:amplitude-not-nonneg:nan-sample", f"{origin}: amplitude has NaN samples and was accepted")
    ph = float(p.phase)
    if phase_defined and not (0.0 <= ph < TWO_PI):
        if ph == TWO_PI:
            orc.bad("pulse:phase-equals-2pi", f"{origin}: phase {ph!r} == 2*pi, not in [0, 2pi)")
        else:
            orc.bad("pulse:phase-out-of-range", f"{origin}: phase {ph!r} not in [0, 2pi)")


def run_pulse_case(case, env: Env, orc: Oracle):
    try:
        amp = build(case["amp"])
        env.add_obj(amp)
        det = build(case["det"])
        env.add_obj(det)
    except Exception as e:  # noqa: BLE001
        return [err_code(e)], None
    orc.waveform(amp, "amp")
    orc.waveform(det, "det")
    orc.asked_duration(amp, case["amp"], "amp")
    orc.asked_duration(det, case["det"], "det")
    try:
        p = Pulse(amp, det, case["phase"], case["post"])
    except Exception as e:  # noqa: BLE001
        c = err_code(e)
        why = amp.duration != det.duration or bool(np.any(arr(amp) < 0))
        if not (c == 1 and why):
            orc.bad("pulse:rejected-valid:" + type(e).__name__, f"Pulse(...) raised {type(e).__name__}: {e}")
        return [c], None
    check_pulse(p, orc, "pulse")
    if np.all(np.isfinite(arr(amp))) and np.all(np.isfinite(arr(det))):
        pulse_history(orc, lambda: Pulse(build(case["amp"]), build(case["det"]), case["phase"], case["post"]))
    return [0, pulse_dump(p)], p


def pulse_history(orc: Oracle, make):
    """a pulse's waveforms cannot be changed through arrays handed out earlier
    (in particular the amplitude cannot be made negative after construction)"""
    for name, get, write in ACCESSORS[:3]:
        for attr in ("amplitude", "detuning"):
            p = make()
            before = (obs_state(p.amplitude), obs_state(p.detuning), float(p.phase))
            try:
                write(get(getattr(p, attr)))
            except (TypeError, ValueError) as e:
                if "read-only" in str(e):
                    continue
                raise
            after = (obs_state(p.amplitude), obs_state(p.detuning), float(p.phase))
            if not (same_state(before[0], after[0]) and same_state(before[1], after[1]) and before[2] == after[2]):
                neg = any(x < 0 for x in after[0][1])
                orc.bad("aliasing:pulse-" + attr + ":" + name, f"writing into pulse.{attr}.{name} changed the pulse" + (" (amplitude now negative)" if neg else ""))
                return


def run_arb_case(case, env: Env, orc: Oracle):
    try:
        amp = build(case["amp"])
        env.add_obj(amp)
        ph = build(case["phase_wf"])
        env.add_obj(ph)
    except Exception as e:  # noqa: BLE001
        return [err_code(e)], None
    orc.waveform(amp, "amp")
    fin = orc.waveform(ph, "phase_wf")
    orc.asked_duration(amp, case["amp"], "amp")
    orc.asked_duration(ph, case["phase_wf"], "phase_wf")
    try:
        p = Pulse.ArbitraryPhase(amp, ph, case["post"])
    except Exception as e:  # noqa: BLE001
        c = err_code(e)
        why = amp.duration != ph.duration or bool(np.any(arr(amp) < 0))
        one = ph.duration == 1 and not isinstance(ph, (ConstantWaveform, RampWaveform))
        if not (c == 1 and (why or one)):
            orc.bad("arbitrary-phase:rejected-valid:" + type(e).__name__, f"ArbitraryPhase raised {type(e).__name__}: {e}")
        return [c], None
    check_pulse(p, orc, "arb", phase_defined=fin)
    if fin:
        ps = arr(ph)
        det = arr(p.detuning)
        if np.all(np.isfinite(det)) and len(det) == len(ps):
            pc = float(p.phase)
            acc = 0.0
            terms = []
            worst = 0.0
            for t in range(len(ps)):
                terms.append(float(det[t]))
                acc = math.fsum(terms)
                rec = pc - acc * 1e-3
                dv = (rec - float(ps[t]) + math.pi) % TWO_PI - math.pi
                worst = max(worst, abs(dv))
            tol = 1e-9 + 1e-11 * (float(np.max(np.abs(ps))) + 1.0) * len(ps)
            if worst > tol:
                orc.bad("arbitrary-phase:not-reproduced", f"phase_c - cumsum(det)*1e-3 deviates from the phase waveform by {worst}")
        else:
            orc.bad("arbitrary-phase:detuning-non-finite", "detuning extracted from a finite phase waveform is not finite")
    return [0, pulse_dump(p)], p


def peak_of(cls, d, area, beta=None):
    h = quiet()
    try:
        w = cls(d, area) if beta is None else cls(d, area, beta)
        return float(np.max(np.abs(arr(w))))
    finally:
        unquiet(h)


def check_from_max_val(w, cls, max_val, area, beta, orc: Oracle):
    name = cls.__name__
    if type(w) is not cls:
        orc.bad("from-max-val:class", f"{name}.from_max_val returned {type(w).__name__}")
        return
    if not orc.waveform(w, "from_max_val"):
        return
    if not close(float(w._area), area, rtol=1e-12):
        orc.bad("from-max-val:area:" + name, f"area {float(w._area)} != requested {area}")
    s = arr(w)
    pk = float(np.max(np.abs(s)))
    mv = abs(max_val)
    if pk > mv * (1 + 1e-9):
        orc.bad("from-max-val:exceeds:" + name, f"peak {pk} exceeds max_val {mv} (duration {w.duration})")
    d = w.duration
    if d >= 2 and not (cls is BlackmanWaveform and d - 1 == 2):
        pk1 = peak_of(cls, d - 1, area, beta)
        # a duration whose peak EQUALS max_val does not exceed it: decided
        # exactly, up to the few ulps by which the class's samples
        # (area/sum*1e3*w) and from_max_val's own estimate (w*(1000*area/sum))
        # may differ
        fits = math.isfinite(pk1) and pk1 <= mv * (1 + 4e-15)
        known = None
        if fits:
            # two narrow, understood defects of the unchanged tree (see
            # notes/C16.md); anything else that fits is reported in general
            a = abs(area)
            if cls is BlackmanWaveform:
                sc1 = abs(float(cls(d - 1, area)._scaling))
                if mv < sc1 <= mv * (1 + 4e-15) and (d - 1) % 2 == 1:
                    known = "from-max-val:peak-fits-but-scaling-1ulp-above:BlackmanWaveform"
            else:
                k1 = np.kaiser(d - 1, beta)
                e1 = float(np.max(k1) * (1000 * a / np.sum(k1)))
                guess = int(a * 1000.0 / (mv * float(np.sum(np.kaiser(100, beta))) / 100))
                if e1 == mv and guess > d - 1 and guess >= 11:
                    known = "from-max-val:exact-hit-skipped-when-descending:KaiserWaveform"
        if known:
            orc.bad(known, f"duration {d-1} peaks at {pk1!r} <= max_val {mv!r} but duration {d} ({pk!r}) was returned")
        elif fits and pk1 > pk * (1 + 1e-9):
            orc.bad(
                "from-max-val:not-closest:" + name,
                f"duration {d-1} would peak at {pk1!r} <= max_val {mv!r}, closer than duration {d} ({pk!r})",
            )
        elif fits and d > 16 and not (cls is BlackmanWaveform and d % 2 == 1):
            orc.bad(
                "from-max-val:not-minimal:" + name,
                f"duration {d-1} does not exceed max_val {mv!r} (peak {pk1!r}); returned duration {d}",
            )


def run_bmv_case(case, env: Env, orc: Oracle):
    mv, area = case["max_val"], case["area"]
    try:
        w = BlackmanWaveform.from_max_val(mv, area)
    except Exception as e:  # noqa: BLE001
        c = err_code(e)
        if not (c == 1 and np.sign(mv) != np.sign(area)):
            orc.bad("from-max-val:raises:Blackman:" + type(e).__name__, f"raised {type(e).__name__}: {e}")
        return [c], None
    a, m = abs(area), abs(mv)
    d0 = int(np.ceil(a / (0.42 * m) * 1e3))
    lo, hi = max(1, min(d0, w.duration) - 1), max(d0, w.duration) + 2
    if hi - lo <= 64:
        for d in range(lo, hi + 1):
            env.add_win(4, d, 0.0)
    env.add_obj(w)
    check_from_max_val(w, BlackmanWaveform, mv, area, None, orc)
    return [0, wf_full(w)], w


def run_kmv_case(case, env: Env, orc: Oracle):
    mv, area, beta = case["max_val"], case["area"], case["beta"]
    try:
        w = KaiserWaveform.from_max_val(mv, area, beta)
    except Exception as e:  # noqa: BLE001
        c = err_code(e)
        if not (c == 1 and np.sign(mv) != np.sign(area)):
            orc.bad("from-max-val:raises:Kaiser:" + type(e).__name__, f"raised {type(e).__name__}: {e}")
        return [c], None
    a, m = abs(area), abs(mv)
    env.add_win(5, 100, beta)
    ratio = m * float(np.sum(np.kaiser(100, beta))) / 100
    guess = int(a * 1000.0 / ratio)
    if guess < 11:
        for d in range(1, 16):
            env.add_win(5, d, beta)
    else:
        lo, hi = max(1, min(guess, w.duration) - 2), max(guess, w.duration) + 2
        if hi - lo <= 64:
            for d in range(lo, hi + 1):
                env.add_win(5, d, beta)
    env.add_obj(w)
    check_from_max_val(w, KaiserWaveform, mv, area, beta, orc)
    return [0, wf_full(w)], w


def validate_env(env: Env, orc: Oracle):
    """hypotheses the theorems assume about oracle values"""
    for (k, d, b), w in env.win.items():
        a = np.array(w)
        name = "blackman" if k == 4 else "kaiser"
        if len(a) != d or not np.all(np.isfinite(a)):
            orc.bad("oracle-hypothesis:window-shape", f"np.{name}({d}) has wrong length or non-finite values")
            continue
        c = np.clip(a, 0, np.inf)
        if np.any(c > 1.0 + 1e-12):
            orc.bad("oracle-hypothesis:window-le-1", f"np.{name}({d}) exceeds 1")
        if not (k == 4 and d == 2) and not float(np.sum(c)) > 0:
            orc.bad("oracle-hypothesis:window-sum-positive", f"np.{name}({d}) has non-positive sum")


def run_case(case):
    env = Env()
    orc = Oracle(case)
    h = quiet()
    try:
        kind = case["kind"]
        if kind == "wf":
            out, obj = run_wf_case(case, env, orc)
        elif kind == "pulse":
            out, obj = run_pulse_case(case, env, orc)
        elif kind == "arb":
            out, obj = run_arb_case(case, env, orc)
        elif kind == "bmv":
            out, obj = run_bmv_case(case, env, orc)
        elif kind == "kmv":
            out, obj = run_kmv_case(case, env, orc)
        else:
            raise ValueError("unknown case kind " + str(kind))
        validate_env(env, orc)
    except (AssertionError, KeyError):
        raise
    except Exception as e:  # noqa: BLE001
        # a public accessor of an already-built object raised: never legitimate
        orc.bad("unexpected-exception:" + type(e).__name__, f"{type(e).__name__}: {e}")
        out, obj = [8], None
    finally:
        unquiet(h)
    run = dict(out=out, env=env, built=obj is not None)
    return run, orc.v


# ------------------------------------------------------------- Coq emission
def coq_fl(xs) -> str:
    return coq_list(coq_float(x) for x in xs)


def coq_rawdur(x) -> str:
    v = pydur(x)
    if isinstance(v, (int, np.integer)) and not isinstance(v, bool):
        return "(RI %s)" % coq_Z(int(v))
    return "(RF %s)" % coq_float(float(v))


def coq_wf(W) -> str:
    """source expression ([wsrc]): durations as the user passes them"""
    k = W[0]
    if k == "const":
        return "(SConst %s %s)" % (coq_rawdur(W[1]), coq_float(W[2]))
    if k == "ramp":
        return "(SRamp %s %s %s)" % (coq_rawdur(W[1]), coq_float(W[2]), coq_float(W[3]))
    if k == "custom":
        return "(SCustom %s)" % coq_fl(W[1])
    if k == "comp":
        return "(SComp %s)" % coq_list(coq_wf(x) for x in W[1])
    if k == "blackman":
        return "(SWin KBlackman %s %s zero)" % (coq_rawdur(W[1]), coq_float(W[2]))
    if k == "kaiser":
        return "(SWin KKaiser %s %s %s)" % (coq_rawdur(W[1]), coq_float(W[2]), coq_float(W[3]))
    if k == "interp":
        return "(SInterp %s %s %s)" % (coq_rawdur(W[1]), coq_fl(W[2]), coq_opt(W[3], coq_fl))
    raise ValueError(k)


def coq_op(op) -> str:
    k = op[0]
    if k == "samples":
        return "OSamples"
    if k == "dur":
        return "ODur"
    if k == "integral":
        return "OIntegral"
    if k == "index":
        return "(OIndex %s)" % coq_Z(op[1])
    if k == "slice":
        return "(OSlice %s %s %s)" % tuple(coq_opt(x, coq_Z) for x in op[1:4])
    if k == "mul":
        return "(OMul %s)" % coq_float(op[1])
    if k == "neg":
        return "ONeg"
    if k == "div":
        return "(ODiv %s)" % coq_float(op[1])
    if k == "chdur":
        return "(OChDur %s)" % coq_rawdur(op[1])
    if k == "eq":
        return "(OEq %s)" % coq_wf(op[1])
    if k == "datapts":
        return "ODataPts"
    raise ValueError(k)


def coq_got(case, i: int) -> str:
    kind = case["kind"]
    e = f"env_{i}"
    if kind == "wf":
        return "run_wf_case %s %s %s" % (e, coq_wf(case["wf"]), coq_list(coq_op(o) for o in case["ops"]))
    if kind == "pulse":
        return "run_pulse_case %s %s %s %s %s" % (
            e, coq_wf(case["amp"]), coq_wf(case["det"]), coq_float(case["phase"]), coq_float(case["post"]))
    if kind == "arb":
        return "run_arb_case %s %s %s %s" % (e, coq_wf(case["amp"]), coq_wf(case["phase_wf"]), coq_float(case["post"]))
    if kind == "bmv":
        return "run_bmv_case %s %s %s" % (e, coq_float(case["max_val"]), coq_float(case["area"]))
    if kind == "kmv":
        return "run_kmv_case %s %s %s %s" % (
            e, coq_float(case["max_val"]), coq_float(case["area"]), coq_float(case["beta"]))
    raise ValueError(kind)


HEADER = """From Coq Require Import ZArith List Bool.
From Coq Require Import PrimFloat.
From PV Require Import Model.Base Model.Wave.
Import ListNotations.
Open Scope Z_scope.
"""


def cases_file(items) -> str:
    """items: list of (case, env_term, expected_sv_term)"""
    out = [HEADER]
    for i, (case, envt, exp) in enumerate(items):
        out.append(f"Definition env_{i} : env float := {envt}.")
        out.append(f"Definition got_{i} : sv := {coq_got(case, i)}.")
        out.append(f"Definition exp_{i} : sv := {exp}.")
    pairs = coq_list(f"(got_{i}, exp_{i})" for i in range(len(items)))
    out.append(f"Definition all_pairs : list (sv * sv) := {pairs}.")
    out.append("Definition bad : list Z := Eval vm_compute in mismatches all_pairs.")
    out.append("Eval vm_compute in bad.")
    return "\n".join(out) + "\n"


def debug_file(case, run) -> str:
    return (
        HEADER
        + f"Definition env_0 : env float := {run['env'].coq()}.\n"
        + f"Eval vm_compute in ({coq_got(case, 0)}).\n"
        + f"Eval vm_compute in ({sv(run['out'])}).\n"
    )
