"""Seeded generator of sequence-building cases (devices with adversarial
timing parameters, small registers, mostly-valid call histories with
injected invalid calls and interleaved read-only queries)."""
from __future__ import annotations

import math
import random

GRID = [0.0, 0.125, 0.25, 0.5, 1.0, 1.5, 2.0, 3.0, 4.0, 6.0, 8.0]
PHASES = [0.0, 0.0, 0.5, 1.0, math.pi, -0.75, 7.5, 2 * math.pi, 3.25, -10.0]


def gen_channel(rng: random.Random, idx: int, kind=None, addressing=None, eom=None, force_bw=False):
    kind = kind or rng.choice(["Rydberg", "Rydberg", "Raman", "Raman"])
    addressing = addressing or rng.choice(["Global", "Local"])
    clock = rng.choice([1, 1, 2, 4, 4, 5, 8])
    min_dur = rng.choice([1, 4, 5, 16, 17])
    max_dur = rng.choice([10**8, 10**8, None, 2**26, 400, 403])
    if max_dur is not None and max_dur < min_dur:
        max_dur = 10**8
    bw = rng.choice([None, None, 4.0, 8.0, 40.0, 120.0, 2.5])
    if (eom or force_bw) and bw is None:
        bw = rng.choice([4.0, 8.0, 40.0])
    spec = dict(
        id=f"ch{idx}",
        kind=kind,
        addressing=addressing,
        clock_period=clock,
        min_duration=min_dur,
        max_duration=max_dur,
        mod_bandwidth=bw,
        custom_phase_jump_time=rng.choice([None, None, 0, 7, 100]),
        max_amp=rng.choice([None, 8.0, 8.0, 100.0]),
        max_abs_detuning=rng.choice([None, 8.0, 50.0, None, 8.0, 50.0, 0.0]),
        min_avg_amp=rng.choice([0, 0, 0, 0.25]),
    )
    if addressing == "Local":
        ret, fix = rng.choice([(0, 0), (220, 0), (0, 40), (220, 40), (37, 53)])
        spec.update(
            min_retarget_interval=ret,
            fixed_retarget_t=fix,
            max_targets=rng.choice([None, 1, 2, 3]),
        )
    want_eom = eom if eom is not None else (rng.random() < 0.5)
    if kind == "Rydberg" and bw is not None and want_eom:
        spec["eom"] = dict(
            mod_bandwidth=rng.choice([24.0, 40.0, 60.0, bw, 2.0]),
            custom_buffer_time=rng.choice([None, None, 37, 240]),
            limiting_beam=rng.choice(["RED", "BLUE"]),
            controlled_beams=rng.choice([["BLUE"], ["RED"], ["BLUE", "RED"]]),
            multiple_beam_control=rng.random() < 0.5,
            max_limiting_amp=rng.choice([100.0, 188.0]),
            intermediate_detuning=rng.choice([2000.0, 4398.0]),
        )
    return spec


def gen_device(rng: random.Random, xy=False, focus=None):
    n = rng.choice([1, 2, 2, 3, 3, 4])
    if focus == "conflict":
        n = rng.choice([2, 3, 3, 4])
    chans = [gen_channel(rng, i, force_bw=(focus == "conflict" and rng.random() < 0.8)) for i in range(n)]
    if focus == "eom":
        chans[0] = gen_channel(rng, 0, kind="Rydberg", addressing=rng.choice(["Global", "Global", "Local"]), eom=True)
    if focus == "local":
        for i in range(n):
            if rng.random() < 0.7:
                chans[i] = gen_channel(rng, i, addressing="Local", force_bw=rng.random() < 0.6)
    if focus == "conflict" and n >= 2 and rng.random() < 0.7:
        # same basis on two channels so that they share phase references
        chans[1]["kind"] = chans[0]["kind"]
        if chans[1]["kind"] != "Rydberg":
            chans[1].pop("eom", None)
    if xy:
        chans.append(
            dict(
                id=f"ch{n}",
                kind="Microwave",
                addressing="Global",
                clock_period=rng.choice([1, 4]),
                min_duration=rng.choice([1, 16]),
                max_duration=10**8,
                mod_bandwidth=rng.choice([None, 8.0]),
                max_amp=None,
                max_abs_detuning=None,
            )
        )
    dmms = []
    for _ in range(rng.choice([0, 0, 1, 2]) if focus != "dmm" else rng.choice([1, 1, 2])):
        dmms.append(
            dict(
                clock_period=rng.choice([1, 4]),
                min_duration=rng.choice([1, 16]),
                max_duration=10**8,
                mod_bandwidth=rng.choice([None, 8.0]),
                bottom_detuning=rng.choice([None, -20.0, -6.0] if focus != "dmm" else [None, -20.0, -6.0, -6.0, -2.0]),
                total_bottom_detuning=rng.choice([None, -40.0, -8.0]),
            )
        )
    for d in dmms:
        if (
            d["bottom_detuning"] is not None
            and d["total_bottom_detuning"] is not None
            and d["bottom_detuning"] < d["total_bottom_detuning"]
        ):
            d["total_bottom_detuning"] = d["bottom_detuning"] * 2
    return dict(
        channels=chans,
        dmms=dmms,
        max_sequence_duration=rng.choice([None, None, None, 3000, 700] if focus != "limits" else [None, 3000, 700, 400]),
        reusable=rng.random() < (0.5 if focus == "typestate" else 0.65 if focus == "dmm" else 0.3),
        # SLM mask support needs a DMM; sequences that configure a mask are run through
        # the implementation and the property oracles only (the Coq model has no SLM mask)
        slm=bool(dmms) and rng.random() < (0.5 if focus == "typestate" else 0.25),
    )


# set by harness/seqprop.py (the sequence properties' own generator settings; other users of
# this module keep string ids and list-valued targets)
INT_IDS_RATE = 0.0
SCALAR_TARGET_RATE = 0.0
SHORTHAND_RATE = 0.0
UNBUILDABLE_RATE = 0.0


def gen_register(rng: random.Random):
    n = rng.choice([1, 2, 3, 4])
    ids = [f"q{i}" for i in range(n)]
    if INT_IDS_RATE and rng.random() < INT_IDS_RATE:
        ids = list(range(n))  # the default ids of Register.from_coordinates / square / ...
    rng.shuffle(ids)
    coords = [[10.0 * i, 0.0] for i in range(n)]
    return dict(ids=ids, coords=coords)


def gen_wf(rng: random.Random, d: int, amp: bool):
    vals = GRID if amp else [-x for x in GRID] + GRID
    k = rng.choice(["const", "const", "ramp", "blackman", "custom", "composite", "interp", "kaiser"])
    if k == "const":
        return dict(k="const", d=d, v=rng.choice(vals))
    if k == "ramp":
        return dict(k="ramp", d=d, a=rng.choice(vals), b=rng.choice(vals))
    if k == "blackman":
        if amp and d >= 3:
            return dict(k="blackman", d=d, area=rng.choice([0.5, 1.0, math.pi]))
        return dict(k="const", d=d, v=rng.choice(vals))
    if k == "kaiser":
        if amp and d >= 3:
            return dict(k="kaiser", d=d, area=rng.choice([0.5, 1.0, math.pi]), beta=rng.choice([14.0, 2.0, 5.0, 0.5]))
        return dict(k="const", d=d, v=rng.choice(vals))
    if k == "custom":
        return dict(k="custom", samples=[rng.choice(vals) for _ in range(d)])
    if k == "interp":
        if d >= 4:
            return dict(k="interp", d=d, values=[rng.choice(vals) for _ in range(rng.choice([2, 3, 4]))])
        return dict(k="const", d=d, v=rng.choice(vals))
    if d >= 2:
        d1 = rng.randint(1, d - 1)
        return dict(
            k="composite",
            parts=[
                dict(k="const", d=d1, v=rng.choice(vals)),
                dict(k="ramp", d=d - d1, a=rng.choice(vals), b=rng.choice(vals)),
            ],
        )
    return dict(k="const", d=d, v=rng.choice(vals))


def gen_duration(rng: random.Random, ch):
    c = ch.get("clock_period", 1)
    m = ch.get("min_duration", 1)
    r = rng.random()
    if r < 0.35:
        return c * rng.randint(max(1, -(-m // c)), max(1, -(-m // c)) + 30)
    if r < 0.6:
        return rng.randint(m, m + 60)
    if r < 0.7:
        return rng.choice([1, 2, 3, m - 1 if m > 1 else 1, m])
    if r < 0.8:
        return rng.choice([200, 400, 403, 404, 1000])
    return rng.randint(1, 300)


def gen_pulse(rng: random.Random, ch, big=False):
    d = gen_duration(rng, ch)
    amp = gen_wf(rng, d, True)
    det = gen_wf(rng, d, False)
    if big and amp["k"] == "const":
        amp["v"] = rng.choice([8.0, 8.5, 100.0, 101.0])
    p = dict(amp=amp, det=det, phase=rng.choice(PHASES), post=rng.choice([0.0, 0.0, 0.0, 0.5, -1.0, 7.0]))
    if SHORTHAND_RATE and rng.random() < SHORTHAND_RATE:
        p["via"] = True  # build it with Pulse.ConstantPulse / ConstantAmplitude / ConstantDetuning when its shape allows
    return p


class Live:
    """The generator steps a real Sequence so that its choices follow the
    actual state (which channels exist, EOM mode, targets, measured)."""

    def __init__(self, case):
        import warnings

        from harness import seqimpl

        self.seqimpl = seqimpl
        self.case = case
        with warnings.catch_warnings():
            warnings.simplefilter("ignore")
            self.dev = seqimpl.build_device(case["device"])
            self.reg = seqimpl.build_register(case["register"])
            self.seq = seqimpl.Sequence(self.reg, self.dev)
            self.maps = [
                self.reg.define_detuning_map({q: w for q, w in zip(case["register"]["ids"], m)})
                for m in case.get("maps", [])
            ]
        self.cd = seqimpl.Coder(case)

    def do(self, op):
        import warnings

        with warnings.catch_warnings():
            warnings.simplefilter("ignore")
            try:
                self.seqimpl.exec_op(self.cd, self.seq, op, self.maps, {})
                return True
            except Exception:  # noqa: BLE001
                return False

    def channels(self):
        return dict(self.seq.declared_channels)

    def in_eom(self, name):
        try:
            return self.seq.is_in_eom_mode(name)
        except Exception:  # noqa: BLE001
            return False

    def has_target(self, name):
        return bool(self.seq._schedule[name].slots)

    def targets(self, name):
        sl = self.seq._schedule[name].slots
        return list(sl[-1].targets) if sl else []


def chan_spec_of(obj):
    return dict(
        clock_period=obj.clock_period,
        min_duration=obj.min_duration,
        max_duration=obj.max_duration,
        addressing=obj.addressing,
        max_targets=obj.max_targets,
        eom=obj.eom_config if obj.supports_eom() else None,
        max_amp=obj.max_amp,
    )


OP_WEIGHTS = {
    None: dict(add=45, delay=10, target=11, align=8, phase=9, eom=10, detmap=3, bad_disable=1.5, bad_addeom=1.5, mag=1, slm=2.5),
    "eom": dict(add=25, delay=8, target=6, align=6, phase=6, eom=40, detmap=1, bad_disable=2, bad_addeom=2, mag=0.5, slm=2.5),
    "conflict": dict(add=55, delay=10, target=10, align=10, phase=6, eom=5, detmap=3, bad_disable=0.5, bad_addeom=0.5, mag=0.5, slm=2.5),
    "local": dict(add=35, delay=8, target=35, align=5, phase=8, eom=4, detmap=1, bad_disable=0.5, bad_addeom=0.5, mag=0.5, slm=2.5),
    "phase": dict(add=45, delay=6, target=10, align=4, phase=28, eom=8, detmap=1, bad_disable=0.5, bad_addeom=0.5, mag=0.5, slm=2.5),
    "limits": dict(add=60, delay=12, target=6, align=8, phase=2, eom=6, detmap=6, bad_disable=0.5, bad_addeom=0.5, mag=0.5, slm=2.5),
    # several DMM channels (also the same DMM id declared twice on a reusable device, each
    # with its own detuning map), pulses on them near the per-atom / total bottom detuning
    "dmm": dict(add=40, delay=8, target=4, align=8, phase=3, eom=3, detmap=22, bad_disable=0.5, bad_addeom=0.5, mag=0.5, slm=2.5),
    "typestate": dict(add=30, delay=8, target=10, align=6, phase=6, eom=14, detmap=8, bad_disable=6, bad_addeom=6, mag=5, slm=2.5),
}


def gen_ops(rng: random.Random, case, n_ops: int, invalid_rate: float, query_rate: float, focus=None):
    from pulser.channels import DMM

    weights = OP_WEIGHTS.get(focus, OP_WEIGHTS[None])
    wkeys = list(weights)
    wvals = [weights[k] for k in wkeys]

    dev = case["device"]
    qids = case["register"]["ids"]
    live = Live(case)
    ops = []
    names_pool = ["a", "b", "c", "d", "e"]
    chan_ids = [c["id"] for c in dev["channels"]]
    measure_early = rng.random() < 0.05

    def emit(op):
        ops.append(op)
        live.do(op)

    def bad_name():
        return rng.choice(["zz", "dmm_zz"] + names_pool)

    def qsubset(maxn=None):
        k = rng.randint(1, max(1, min(len(qids), maxn or len(qids))))
        return rng.sample(qids, k)

    def declare():
        decl = live.channels()
        free = [n for n in names_pool if n not in decl] or names_pool
        name = rng.choice(free) if rng.random() > 0.06 else rng.choice(names_pool + ["dmm_x"])
        avail = [c for c in live.seq.available_channels if c in chan_ids]
        if avail and rng.random() > 0.1:
            cid = rng.choice(avail)
        else:
            cid = rng.choice(chan_ids + ["nope"])
        spec = next((c for c in dev["channels"] if c["id"] == cid), None)
        it = None
        if spec and spec["addressing"] == "Local" and rng.random() < 0.7:
            it = qsubset(spec.get("max_targets"))
            if rng.random() < 0.05:
                it = it + ["ghost"]
        if spec and spec["addressing"] == "Global" and rng.random() < 0.03:
            it = qsubset()
        if it is not None and len(it) == 1 and SCALAR_TARGET_RATE and rng.random() < SCALAR_TARGET_RATE:
            it = it[0]  # a bare qubit id is accepted wherever a collection of ids is
        return dict(op="declare", name=name, channel_id=cid, initial_target=it)

    def pulse_for(obj, big=False):
        spec = chan_spec_of(obj)
        p = gen_pulse(rng, spec, big=big)
        # non-extensible waveforms: mostly keep the duration a clock multiple
        c = spec["clock_period"]
        if (p["amp"]["k"] in ("custom", "composite") or p["det"]["k"] in ("custom", "composite")) and rng.random() < 0.85:
            d = wf_dur(p["amp"])
            d2 = max(spec["min_duration"], d)
            d2 = -(-d2 // c) * c
            p = dict(p, amp=gen_wf(rng, d2, True), det=gen_wf(rng, d2, False))
        if spec["max_amp"] is not None and not big and rng.random() < 0.9:
            p["amp"] = scale_down(p["amp"], spec["max_amp"])
        return p

    i = 0
    while len(ops) < n_ops:
        i += 1
        decl = live.channels()
        remaining = n_ops - len(ops)
        slm_first = [o for o in ops if o["op"] == "config_slm"] if not decl else []
        if slm_first and case["maps"] and rng.random() < 0.5 and not any(o["op"] == "config_detmap" for o in ops):
            # a detuning map on the DMM the (still pending) SLM mask has reserved
            emit(dict(op="config_detmap", map=rng.randrange(len(case["maps"])), dmm_id=slm_first[0]["dmm_id"]))
            continue
        if not decl and rng.random() < (0.3 if focus == "typestate" else 0.12):
            # mode-setting calls on a sequence without any channel yet
            r0 = rng.random()
            if r0 < 0.35 and dev.get("dmms") and case["maps"]:
                k = rng.randrange(len(dev["dmms"]))
                did = f"dmm_{k}" if rng.random() > 0.3 else "dmm_9"
                emit(dict(op="config_detmap", map=rng.randrange(len(case["maps"])), dmm_id=did))
            elif r0 < 0.75 and dev.get("slm") and dev.get("dmms") and not any(o["op"] == "config_slm" for o in ops):
                emit(dict(op="config_slm", qubits=qsubset(), dmm_id=f"dmm_{rng.randrange(len(dev['dmms']))}"))
            else:
                emit(dict(op="set_mag", bx=rng.choice([0.0, 1.0]), by=0.0, bz=rng.choice([0.0, 30.0])))
            continue
        if not decl or rng.random() < 0.06 + (0.25 if len(decl) < 2 and i < 6 else 0):
            emit(declare())
            continue
        if focus == "dmm" and dev.get("dmms") and case["maps"] and decl:
            nd = sum(1 for o in ops if o["op"] == "config_detmap")
            if nd < 3 and rng.random() < (0.5 if nd < 2 else 0.1):
                k = 0 if rng.random() < 0.7 else rng.randrange(len(dev["dmms"]))
                emit(dict(op="config_detmap", map=nd % len(case["maps"]), dmm_id=f"dmm_{k}"))
                continue
        if rng.random() < query_rate:
            qk = rng.choice(["q_duration", "q_duration", "estimate", "estimate", "q_phase_ref", "q_in_eom", "q_available"])
            name = rng.choice(list(decl)) if rng.random() > 0.08 else bad_name()
            if qk == "q_duration":
                emit(dict(op=qk, channel=rng.choice([None, name]), fall=rng.random() < 0.5))
            elif qk == "estimate":
                obj = decl.get(name) or next(iter(decl.values()))
                emit(dict(op="estimate", pulse=pulse_for(obj), channel=name, protocol=rng.choice([0, 0, 1, 2])))
            elif qk == "q_phase_ref":
                bases = list(live.seq._basis_ref) or ["digital"]
                emit(dict(op=qk, qubit=rng.choice(qids + ["ghost"]) if rng.random() < 0.1 else rng.choice(qids),
                          basis=rng.choice(bases) if rng.random() > 0.1 else "digital"))
            elif qk == "q_in_eom":
                emit(dict(op=qk, channel=name))
            else:
                emit(dict(op=qk))
            continue
        if (remaining <= 2 and rng.random() < 0.35) or (measure_early and rng.random() < 0.08):
            bases = list(live.seq._basis_ref) or ["ground-rydberg"]
            emit(dict(op="measure", basis=rng.choice(bases + ["XY", "digital"])))
            continue
        name = rng.choice(list(decl))
        if focus == "dmm":
            dn = [x for x in decl if isinstance(decl[x], DMM)]
            if dn and rng.random() < 0.5:
                name = rng.choice(dn)
        obj = decl[name]
        spec = chan_spec_of(obj)
        if rng.random() < invalid_rate * 0.3:
            name = bad_name()
        r = rng.random()
        is_dmm = isinstance(obj, DMM)
        if is_dmm:
            if r < 0.6:
                d = gen_duration(rng, spec)
                wf = rng.choice(
                    [
                        dict(k="const", d=d, v=rng.choice([-1.0, -4.0, -6.0, -7.0, -20.0, -25.0, 0.0, 1.0])),
                        dict(k="ramp", d=d, a=rng.choice([-4.0, 0.0]), b=rng.choice([-6.0, -1.0, 0.5])),
                    ]
                )
                emit(dict(op="add_dmm", wf=wf, channel=name, protocol=rng.choice([1, 1, 0, 2])))
            elif r < 0.85:
                emit(dict(op="delay", duration=gen_duration(rng, spec), channel=name, at_rest=rng.random() < 0.3))
            else:
                emit(dict(op="add", pulse=pulse_for(obj), channel=name, protocol=0))
            continue
        if live.in_eom(name):
            if r < 0.5:
                emit(
                    dict(
                        op="add_eom",
                        channel=name,
                        duration=gen_duration(rng, spec),
                        phase=rng.choice(PHASES),
                        post=rng.choice([0.0, 0.0, 0.5]),
                        protocol=rng.choice([0, 0, 1, 2]),
                        correct=rng.random() < 0.4,
                    )
                )
            elif r < 0.65:
                d = gen_duration(rng, spec)
                pj = int(getattr(obj, "phase_jump_time", 0) or 0)
                if pj > spec["min_duration"] + 2 and rng.random() < 0.45:
                    # leave a few ns of the phase-jump buffer: the wait the scheduler then
                    # inserts has to be rounded to the channel's clock / minimum duration
                    c = spec["clock_period"]
                    d = max(spec["min_duration"], pj - rng.randint(1, spec["min_duration"] + c))
                    d = -(-d // c) * c
                emit(dict(op="delay", duration=d, channel=name, at_rest=rng.random() < 0.3))
            elif r < 0.78:
                emit(dict(op="disable_eom", channel=name, correct=rng.random() < 0.4))
            elif r < 0.92:
                emit(
                    dict(
                        op="modify_eom",
                        channel=name,
                        amp_on=rng.choice([1.0, 2.0, 4.0]),
                        det_on=rng.choice([0.0, -1.0, 2.0]),
                        opt_off=rng.choice([0.0, -5.0, 3.0]),
                        correct=rng.random() < 0.4,
                    )
                )
            elif r < 0.96:
                emit(dict(op="add", pulse=pulse_for(obj), channel=name, protocol=0))  # refused in EOM mode
            else:
                emit(dict(op="target", qubits=qsubset(1), channel=name))  # refused in EOM mode
            continue
        local = spec["addressing"] == "Local"
        if local and name in live.seq._schedule and not live.has_target(name) and rng.random() < 0.8:
            qs_ = qsubset(spec["max_targets"])
            if len(qs_) == 1 and SCALAR_TARGET_RATE and rng.random() < SCALAR_TARGET_RATE:
                qs_ = qs_[0]
            emit(dict(op="target", qubits=qs_, channel=name))
            continue
        kind = rng.choices(wkeys, wvals)[0]
        if kind == "add":
            pr = rng.choice([0, 0, 0, 1, 2])
            if rng.random() < 0.015:
                pr = 3
            big = rng.random() < (0.25 if focus == "limits" else 0.05)
            pl = pulse_for(obj, big=big)
            if UNBUILDABLE_RATE and rng.random() < UNBUILDABLE_RATE * (3 if focus == "limits" else 1):
                # an amplitude that is negative on part of the pulse: the Pulse itself must refuse it
                # (such cases are judged by the oracles only: no pulse reaches the model)
                d_ = wf_dur(pl["amp"])
                pl = dict(pl, amp=rng.choice([dict(k="ramp", d=d_, a=-2.0, b=1.0), dict(k="ramp", d=d_, a=0.5, b=-0.25),
                                              dict(k="custom", samples=[1.0, -0.5] + [0.25] * max(0, d_ - 2))]), unbuildable=True)
                pl.pop("via", None)
            if pr != 3 and rng.random() < (0.35 if focus == "conflict" else 0.12):
                # the estimate for exactly the add that follows (C03)
                emit(dict(op="estimate", pulse=pl, channel=name, protocol=pr))
            emit(dict(op="add", pulse=pl, channel=name, protocol=pr))
        elif kind == "delay":
            d = gen_duration(rng, spec)
            if rng.random() < invalid_rate:
                d = rng.choice([0, -4, 1])
            elif UNBUILDABLE_RATE and rng.random() < UNBUILDABLE_RATE:
                # "castable to an int": a float duration is accepted and truncated
                # (oracle-only cases: the model's durations are integers)
                d = d + rng.choice([0.4, 0.5, 0.75])
            emit(dict(op="delay", duration=d, channel=name, at_rest=rng.random() < 0.4))
        elif kind == "target":
            if local or rng.random() < 0.08:
                qs = qsubset(spec["max_targets"] if rng.random() > 0.08 else None)
                if name in live.seq._schedule and live.targets(name) and rng.random() < 0.15:
                    qs = live.targets(name)  # retarget to the same atoms
                if rng.random() < invalid_rate * 0.4:
                    qs = qs + ["ghost"]
                if rng.random() < 0.3:
                    idx = [qids.index(q) if q in qids else 9 for q in qs]
                    if rng.random() < 0.2:
                        idx = [j - len(qids) for j in idx]
                    emit(dict(op="target_index", qubits=idx, channel=name))
                else:
                    emit(dict(op="target", qubits=qs, channel=name))
            else:
                emit(dict(op="add", pulse=pulse_for(obj), channel=name, protocol=rng.choice([0, 1, 2])))
        elif kind == "align":
            names = list(decl)
            if len(names) >= 2:
                chs = rng.sample(names, rng.randint(2, min(3, len(names))))
            else:
                chs = names
            if rng.random() < invalid_rate * 0.6:
                chs = rng.choice([chs[:1], chs + chs[:1], chs + ["zz"]])
            emit(dict(op="align", channels=chs, at_rest=rng.random() < 0.6))
        elif kind == "phase" and rng.random() < (0.3 if focus in ("phase", "conflict") else 0.12) and any(
                len({float(r.phase.last_phase) for r in d.values()}) > 1 for d in live.seq._basis_ref.values()):
            # equalise: bring every atom of a basis back to ONE reference (so that multi-target pulses
            # are accepted again) - the atoms then have equal references last shifted at DIFFERENT times
            b = rng.choice([b_ for b_, d in live.seq._basis_ref.items() if len({float(r.phase.last_phase) for r in d.values()}) > 1])
            d = live.seq._basis_ref[b]
            goal = float(next(iter(d.values())).phase.last_phase)
            for q in list(d):
                cur_ = float(live.seq._basis_ref[b][q].phase.last_phase)
                if cur_ != goal and len(ops) < n_ops + 4:
                    emit(dict(op="phase_shift", phi=goal - cur_, targets=[q], basis=b))
        elif kind == "phase":
            bases = list(live.seq._basis_ref) or ["digital"]
            basis = rng.choice(bases) if rng.random() > 0.08 else rng.choice(["digital", "ground-rydberg", "XY"])
            rr = rng.random()
            if rr < 0.3:
                tg = []
            elif rr < 0.75 and name in live.seq._schedule and live.targets(name):
                tg = live.targets(name)
            else:
                tg = qsubset()
            if rng.random() < invalid_rate * 0.4:
                tg = tg + ["ghost"]
            if rng.random() < 0.25:
                idx = [qids.index(q) if q in qids else 9 for q in tg]
                emit(dict(op="phase_shift_index", phi=rng.choice(PHASES + [0.3]), targets=idx, basis=basis))
            else:
                emit(dict(op="phase_shift", phi=rng.choice(PHASES + [0.3]), targets=tg, basis=basis))
        elif kind == "eom":
            if spec["eom"] is not None or rng.random() < 0.1:
                emit(
                    dict(
                        op="enable_eom",
                        channel=name,
                        amp_on=rng.choice([1.0, 2.0, 4.0, 4.0, 4.0, 9.0, -1.0]),
                        det_on=rng.choice([0.0, 0.0, -1.0, 2.0, 60.0]),
                        opt_off=rng.choice([0.0, 0.0, -5.0, 3.0, -40.0]),
                        correct=rng.random() < 0.4,
                    )
                )
            else:
                emit(dict(op="add", pulse=pulse_for(obj), channel=name, protocol=rng.choice([0, 1, 2])))
        elif kind == "detmap":
            if dev.get("dmms") and case["maps"]:
                k = rng.randrange(len(dev["dmms"]))
                did = f"dmm_{k}" if rng.random() > 0.05 else "dmm_9"
                emit(dict(op="config_detmap", map=rng.randrange(len(case["maps"])), dmm_id=did))
            else:
                emit(dict(op="delay", duration=gen_duration(rng, spec), channel=name, at_rest=True))
        elif kind == "slm":
            if dev.get("slm") and dev.get("dmms") and not any(o["op"] == "config_slm" for o in ops):
                k = rng.randrange(len(dev["dmms"]))
                qs = qsubset()
                if rng.random() < 0.08:
                    qs = qs + ["ghost"]
                emit(dict(op="config_slm", qubits=qs, dmm_id=f"dmm_{k}"))
            else:
                emit(dict(op="add", pulse=pulse_for(obj), channel=name, protocol=rng.choice([0, 1, 2])))
        elif kind == "bad_disable":
            emit(dict(op="disable_eom", channel=name, correct=False))
        elif kind == "bad_addeom":
            emit(dict(op="add_eom", channel=name, duration=16, phase=0.0, post=0.0, protocol=0, correct=False))
        else:
            emit(dict(op="set_mag", bx=rng.choice([0.0, 1.0]), by=0.0, bz=rng.choice([0.0, 30.0])))
    return ops


def wf_dur(w):
    if w["k"] == "custom":
        return len(w["samples"])
    if w["k"] == "composite":
        return sum(wf_dur(p) for p in w["parts"])
    return w["d"]


def scale_down(w, mx):
    """keep amplitude waveforms under a channel maximum (most of the time)"""
    w = dict(w)
    if w["k"] == "const":
        w["v"] = min(w["v"], mx)
    elif w["k"] == "ramp":
        w["a"], w["b"] = min(w["a"], mx), min(w["b"], mx)
    elif w["k"] == "custom":
        w["samples"] = [min(x, mx) for x in w["samples"]]
    elif w["k"] == "interp":
        w["values"] = [min(x, mx * 0.5) for x in w["values"]]
    elif w["k"] == "composite":
        w["parts"] = [scale_down(p, mx) for p in w["parts"]]
    elif w["k"] in ("blackman", "kaiser"):
        w["area"] = min(w["area"], 0.3 * mx * w["d"] / 1000.0) if w["d"] * mx * 0.3 / 1000.0 > 0 else w["area"]
    return w


FOCI = [None, "eom", "conflict", "local", "phase", "limits", "typestate", "dmm"]


def gen_case(rng: random.Random, n_ops=None, invalid_rate=0.12, query_rate=0.12, xy=None, focus=None, slm=True):
    if focus == "mix":
        focus = rng.choice(FOCI)
    if focus == "typestate":
        invalid_rate = 0.3
    xy = (rng.random() < (0.3 if focus == "typestate" else 0.1)) if xy is None else xy
    dev = gen_device(rng, xy=xy, focus=focus)
    if not slm:
        dev["slm"] = False  # callers whose model has no SLM mask
    reg = gen_register(rng)
    n = len(reg["ids"])
    maps = []
    for _ in range(2):
        w = [rng.choice([0.0, 0.25, 0.5, 1.0]) for _ in range(n)]
        if sum(w) == 0:
            w[0] = 1.0
        maps.append(w)
    if focus == "dmm" and maps[0] == maps[1]:
        maps[1] = [1.0 if x < 1.0 else 0.25 for x in maps[0]]
    case = dict(device=dev, register=reg, maps=maps, ops=[])
    case["ops"] = gen_ops(rng, case, n_ops or rng.randint(3, 25), invalid_rate, query_rate, focus=focus)
    return case
