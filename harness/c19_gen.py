"""C19 - seeded case generator (all randomness from the rng passed in).

A case is one layout A, a second layout B (mostly the same coordinates in
another order), a trap-id selection with qubit ids, coordinates to look up, a
mappable register with a qubit->trap mapping, a detuning map given directly
(and the same map in another order), qubit positions, and weight dicts for
layout.define_detuning_map / register.define_detuning_map.  Mostly valid,
with every rejection cause injected at a low rate.
"""
from __future__ import annotations

import numpy as np

STYLES = [
    ("lattice", 22),
    ("decimal", 22),
    ("float", 18),
    ("micro", 14),
    ("negzero", 10),
    ("twins", 6),
    ("big", 8),
]


def _pick(rng, table):
    tot = sum(w for _, w in table)
    x = rng.random() * tot
    for k, w in table:
        x -= w
        if x < 0:
            return k
    return table[-1][0]


def _distinct(rows):
    seen = set()
    out = []
    for r in rows:
        t = tuple(r)  # value equality: -0.0 == 0.0, as np.unique sees it
        if t in seen:
            continue
        seen.add(t)
        out.append(list(r))
    return out


def gen_coords(rng, dim, n, style):
    rows = []
    if style == "lattice":
        s = rng.choice([1.0, 4.0, 5.0, 0.5, 2.5, 6.25])
        off = rng.choice([0.0, 0.0, 0.1, -3.3])
        for _ in range(n * 3):
            rows.append([s * rng.randint(-4, 4) + off for _ in range(dim)])
    elif style in ("decimal", "float", "big"):
        k = rng.choice([0, 1, 2, 3, 6, 6])
        span = 60.0 if style != "big" else rng.choice([1e3, 1e4, 1e5])
        pools = []
        for _ in range(dim):
            m = rng.randint(1, max(1, n))
            vals = [rng.uniform(-span, span) for _ in range(m)]
            if style == "decimal":
                vals = [round(v, k) for v in vals]
            pools.append(vals)
        for _ in range(n * 3):
            rows.append([rng.choice(pools[a]) for a in range(dim)])
    elif style == "micro":
        # neighbours 1e-6 apart and rounding half-way points, away from zero
        base = [rng.choice([1.0, -2.0, 7.5, 50.0, 12.345678, -33.000001]) for _ in range(dim)]
        for _ in range(n * 3):
            r = []
            for a in range(dim):
                j = rng.randint(-3, 3)
                h = rng.choice([0.0, 0.0, 0.5, 0.25, -0.49])
                r.append(base[a] + (j + h) * 1e-6 if rng.random() < 0.7 else base[a] + rng.randint(-2, 2))
            rows.append(r)
    elif style == "negzero":
        tiny = [-0.0, -1e-9, -4e-7, 0.0, 1e-9, 4e-7, -4.9e-7]
        a = rng.randrange(dim)  # the axis that keeps rows apart: no rounded duplicates
        for i in range(n * 2):
            r = [float(rng.choice(tiny)) if rng.random() < 0.6 else float(rng.randint(-5, 5)) for _ in range(dim)]
            r[a] = float(3 * (i - n) + rng.choice([0, 1])) + 1.0
            rows.append(r)
    elif style == "twins":
        # distinct as given, equal after rounding (the constructor accepts them)
        for i in range(n):
            r = [float(rng.choice([1, 2, 5, -7, 20])) + rng.choice([0.0, 0.25]) for _ in range(dim)]
            r[0] = float(2 * i + 1)
            rows.append(r)
            if rng.random() < 0.5:
                t = list(r)
                a = rng.randrange(dim)
                t[a] = t[a] + rng.choice([4e-7, -3e-7, 1e-7, 2.5e-7])
                rows.append(t)
    rows = _distinct(rows)
    rng.shuffle(rows)
    rows = rows[:n] if style != "twins" else rows[: n + 2]
    return rows or [[0.0] * dim]


def _wf(coords):
    return bool(coords) and len(coords[0]) in (2, 3) and all(len(c) == len(coords[0]) for c in coords)


def _same_cell(x, y):
    return float(np.round(x, 6)) == float(np.round(y, 6))


def gen_case(rng, tier):
    dim = 2 if rng.random() < 0.68 else 3
    big = tier == "thorough" and rng.random() < 0.2
    n = rng.randint(1, 25 if big else 10)
    style = _pick(rng, STYLES)
    coords = gen_coords(rng, dim, n, style)
    n = len(coords)
    case = dict(style=style, dim=dim, coords=coords)

    # ---- malformed layouts
    r = rng.random()
    if r < 0.02:
        case["coords"] = coords = coords + [list(coords[rng.randrange(n)])]  # exact duplicate
        case["style"] = style = "dup"
    elif r < 0.035:
        case["coords"] = coords = coords[:1] + [coords[0][: dim - 1]] + coords[1:]  # ragged
        case["style"] = style = "ragged"
    elif r < 0.045:
        case["coords"] = coords = [c + [1.0, 2.0] for c in coords]  # width 4/5
        case["style"] = style = "width"
    elif r < 0.05:
        case["coords"] = coords = []
        case["style"] = style = "empty"
    elif r < 0.06 and n >= 2 and style not in ("twins",):
        # -0.0 / 0.0 duplicates: equal for np.unique
        c0 = [0.0 if rng.random() < 0.5 else float(v) for v in coords[0]]
        c1 = [(-0.0 if v == 0.0 else v) for v in c0]
        case["coords"] = coords = [c0, c1] + coords[1:]
        case["style"] = style = "zero-dup"
    n = len(coords)

    # ---- layout B
    r = rng.random()
    coords2 = [list(c) for c in coords]
    variant = "perm"
    if r < 0.72 or n == 0:
        rng.shuffle(coords2)
        if rng.random() < 0.1:
            coords2 = list(reversed([list(c) for c in coords]))
    elif r < 0.84:
        variant = "cell"
        for c in coords2:
            for a in range(len(c)):
                cand = rng.choice([float(np.round(c[a], 6)), c[a] + 1e-7, c[a] - 1e-7, c[a] + 3e-8, -c[a] if abs(c[a]) < 4e-7 else c[a]])
                if _same_cell(cand, c[a]):
                    c[a] = cand
        coords2 = _distinct(coords2)
        if len(coords2) != len(coords):
            coords2 = [list(c) for c in coords]
        rng.shuffle(coords2)
    else:
        variant = "other"
        k = rng.randrange(n)
        rr = rng.random()
        if rr < 0.5 and len(coords2[k]) > 0:
            a = rng.randrange(len(coords2[k]))
            coords2[k][a] += rng.choice([2e-6, -1e-6, 1.0, 1e-6])
        elif rr < 0.75 and n > 1:
            del coords2[k]
        else:
            coords2.append([c + 0.5 for c in coords2[k]])
        coords2 = _distinct(coords2)
        rng.shuffle(coords2)
    case["coords2"] = coords2
    case["variant"] = variant

    nn = max(n, 1)
    # ---- trap selection and qubit ids
    r = rng.random()
    k = rng.randint(1, min(nn, 8))
    ids = rng.sample(range(nn), k)
    if r < 0.06:
        ids = ids + [ids[0]]
    elif r < 0.12:
        ids[rng.randrange(len(ids))] = rng.choice([nn, nn + 3, -1, -nn])
    elif r < 0.15:
        ids = []
    r = rng.random()
    if r < 0.4:
        qids = []
    elif r < 0.87:
        qids = rng.sample(range(60), len(ids))
    elif r < 0.93 and ids:
        qids = rng.sample(range(60), len(ids))
        qids[-1] = qids[0] if len(qids) > 1 else qids[0]
        if len(qids) == 1:
            qids = qids + qids
    else:
        qids = rng.sample(range(60), len(ids) + rng.choice([1, 2]))
        if rng.random() < 0.5 and len(qids) > 2:
            qids = qids[: len(ids) - 1] or qids
    case["ids"], case["qids"] = ids, qids

    # ---- coordinates to look up
    look = []
    if n:
        for _ in range(rng.choice([0, 1, 2, 3, 5])):
            c = list(coords[rng.randrange(n)])
            rr = rng.random()
            if rr < 0.35:
                pass
            elif rr < 0.5:
                c = [float(np.round(v, 6)) for v in c]
            elif rr < 0.7:
                c = [v + rng.choice([1e-7, -1e-7, 4e-7, -4e-7, 4.9e-7]) for v in c]
            elif rr < 0.8:
                a = rng.randrange(len(c)) if c else 0
                if c:
                    c[a] += rng.choice([1e-6, -1e-6, 2e-6, 6e-7])
            elif rr < 0.9:
                c = [rng.uniform(-60, 60) for _ in c]
            look.append(c)
        rr = rng.random()
        if look and rr < 0.04:
            look = [c + [0.0] for c in look]
        elif look and rr < 0.07:
            look = [c[:-1] for c in look]
        elif len(look) > 1 and rr < 0.09:
            look[0] = look[0] + [0.0]
    case["lookup"] = look

    # ---- mappable register
    nd = rng.randint(0, min(nn, 8) + (1 if rng.random() < 0.1 else 0))
    r = rng.random()
    if r < 0.6:
        decl = list(range(nd))
    else:
        decl = rng.sample(range(60), nd)
        if r > 0.96 and nd >= 2:
            decl[-1] = decl[0]
    m = rng.randint(0 if rng.random() < 0.1 else min(1, len(decl)), len(decl))
    keys = decl[:m]
    rng.shuffle(keys)
    r = rng.random()
    if r < 0.06 and len(decl) > m and m > 0:
        keys[0] = decl[-1] if decl[-1] not in keys else keys[0]  # not the first m
    elif r < 0.1:
        keys = keys + [77]  # undeclared
    traps = rng.sample(range(nn), min(len(keys), nn))
    while len(traps) < len(keys):
        traps.append(rng.randrange(nn))
    r = rng.random()
    if r < 0.05 and len(traps) > 1:
        traps[-1] = traps[0]
    elif r < 0.1 and traps:
        traps[rng.randrange(len(traps))] = rng.choice([nn, -1])
    seen = set()
    chosen = []
    for q, t in zip(keys, traps):
        if q in seen:
            continue
        seen.add(q)
        chosen.append([q, t])
    case["decl"], case["chosen"] = decl, chosen

    # ---- detuning map given directly
    if rng.random() < 0.5 and n:
        wc = [list(c) for c in coords[: rng.randint(1, min(n, 8))]]
    else:
        wstyle = _pick(rng, STYLES)
        wc = gen_coords(rng, dim, rng.randint(1, 8), wstyle)
        if rng.random() < 0.03:
            wc = wc + [list(wc[0])]

    def weight():
        r = rng.random()
        if r < 0.12:
            return 0.0
        if r < 0.24:
            return 1.0
        if r < 0.26:
            return -0.0
        if r < 0.4:
            return rng.choice([0.5, 0.25, 0.1, 0.2, 0.3, 0.7])
        return rng.random()

    ws = [weight() for _ in wc]
    r = rng.random()
    if r < 0.03:
        ws[rng.randrange(len(ws))] = rng.choice([1.5, -0.25, 1.0000000000000002, -1e-300])
    elif r < 0.05:
        ws = ws + [0.5]
    elif r < 0.07 and len(ws) > 1:
        ws = ws[:-1]
    idx = list(range(max(len(wc), len(ws))))
    wc2, ws2 = [list(c) for c in wc], list(ws)
    if len(wc) == len(ws):
        rng.shuffle(idx)
        wc2 = [list(wc[i]) for i in idx]
        ws2 = [ws[i] for i in idx]
        if rng.random() < 0.1 and ws2:
            ws2[0] = 0.125 if ws2[0] != 0.125 else 0.5  # a different map
    case["wcoords"], case["weights"], case["wcoords2"], case["weights2"] = wc, ws, wc2, ws2

    wpos = []
    for _ in range(rng.choice([0, 1, 2, 3, 4, 6])):
        c = list(wc[rng.randrange(len(wc))])
        rr = rng.random()
        if rr < 0.3:
            c = [float(np.round(v, 6)) for v in c]
        elif rr < 0.4:
            pass
        elif rr < 0.75 and c:
            a = rng.randrange(len(c))
            c = [float(np.round(v, 6)) for v in c]
            c[a] += rng.choice([5e-7, -5e-7, 9e-7, -9e-7, 1.1e-6, -1.1e-6, 2e-6, 1e-5, 1e-4, -1e-4, 1e-3, 0.1, -1.0])
        else:
            c = [rng.uniform(-60, 60) for _ in c]
        wpos.append(c)
    case["wpos"] = wpos

    # ---- layout.define_detuning_map / register.define_detuning_map
    r = rng.random()
    valid_ids = [t for t in ids if 0 <= t < nn]
    if r < 0.03:
        keys = []
    elif r < 0.1:
        keys = [rng.randrange(nn)]
    else:
        pool = list(dict.fromkeys(valid_ids + rng.sample(range(nn), min(nn, 3))))
        rng.shuffle(pool)
        keys = pool[: rng.randint(2, 6)]
    if rng.random() < 0.05:
        keys = keys + [rng.choice([nn, -1, nn + 5])]
    ldm = [[t, weight()] for t in keys]
    if ldm and rng.random() < 0.03:
        ldm[0][1] = 1.25
    case["ldm"] = ldm

    names = qids if qids else list(range(len(ids)))
    r = rng.random()
    if r < 0.03 or not names:
        keys = []
    else:
        keys = rng.sample(names, rng.randint(1, len(names))) if len(set(names)) == len(names) else list(dict.fromkeys(names))
    if rng.random() < 0.05:
        keys = keys + [99]
    rdm = [[q, weight()] for q in keys]
    if rdm and rng.random() < 0.03:
        rdm[-1][1] = -0.5
    case["rdm"] = rdm

    # ---- Register({qid: coord}, layout=A, trap_ids=ids) built by hand
    direct, dids = [], []
    if n and _wf(coords):
        srt = sorted(tuple(float(v) for v in row) for row in np.round(np.array(coords, dtype=float), 6))
        k = rng.randint(1, min(n, 6))
        dids = rng.sample(range(n), k)
        codes = rng.sample(range(60), k)
        direct = [[q, list(srt[t])] for q, t in zip(codes, dids)]
        r = rng.random()
        if r < 0.55:
            pass
        elif r < 0.63:
            j = rng.randrange(k)
            a = rng.randrange(len(direct[j][1]))
            direct[j][1][a] += rng.choice([1e-6, -1e-6, 1e-9, 1.0])
        elif r < 0.7 and k > 1:
            dids[0], dids[1] = dids[1], dids[0]
        elif r < 0.76:
            # the coordinates as given to the layout (not rounded)
            given = {tuple(float(v) for v in np.round(np.array(c0, dtype=float), 6)): c0 for c0 in coords}
            direct = [[q, list(given.get(tuple(p), p))] for q, p in direct]
        elif r < 0.8:
            dids = dids + [rng.randrange(n)]
        elif r < 0.84:
            dids[rng.randrange(k)] = rng.choice([n, n + 2])
        elif r < 0.88 and k > 1:
            dids[-1] = dids[0]
        elif r < 0.91:
            direct = [[q, p + [0.0]] for q, p in direct]
        elif r < 0.94:
            direct = [[q, [(-v if v == 0.0 else v) for v in p]] for q, p in direct]
        elif r < 0.96 and k > 1:
            direct[0][1] = direct[0][1][:-1]
        elif r < 0.98:
            direct, dids = [], []
    case["direct"], case["dids"] = direct, dids
    # run the HISTORY oracle (in-place edits of handed-out arrays) on this case
    case["history"] = rng.random() < 0.3
    return case
