"""Base class for the properties decided on the sequence state machine
(Model/Seq.v): shared generator, runner, Coq emission and statistics; each
property adds its own oracle (a direct executable reading of its statement,
evaluated on the implementation's states)."""
from __future__ import annotations

import json
import random
import warnings

from harness import seqcoq, seqgen, seqimpl
from harness.framework import PropCheck, Violation
from pulser import Pulse


seqgen.INT_IDS_RATE = 0.2
seqgen.SCALAR_TARGET_RATE = 0.25
seqgen.SHORTHAND_RATE = 0.35
seqgen.UNBUILDABLE_RATE = 0.02


def indep_rise(ch):
    """rise time from the documented formula: int(0.48 / mod_bandwidth * 1e3), 0 without a bandwidth"""
    bw = ch.mod_bandwidth
    return int(0.48 / bw * 1e3) if bw else 0


def indep_phase_jump(ch):
    """phase-jump time from the dataclass fields: the custom value when defined, else two rise times"""
    c = ch.custom_phase_jump_time
    return int(c) if c is not None else 2 * indep_rise(ch)


class SeqProp(PropCheck):
    focus = None
    shard = 60
    extra_targets = ["Model/Chan.v", "Model/SeqSnap.v"]
    coverage_files = [
        "pulser-core/pulser/sequence/_schedule.py",
        "pulser-core/pulser/sequence/sequence.py",
        "pulser-core/pulser/sequence/_basis_ref.py",
        "pulser-core/pulser/channels/base_channel.py",
    ]

    def gen_case(self, rng: random.Random, tier: str):
        n_ops = rng.randint(3, 25) if tier == "quick" else rng.randint(3, 60)
        return seqgen.gen_case(rng, n_ops=n_ops, focus=self.pick_focus(rng))

    def pick_focus(self, rng):
        return self.focus

    # oracle interface: called after every call with the live sequence
    def oracle_init(self, case):
        return {}

    def oracle_step(self, st, i, op, seq, out, exc, case) -> list[Violation]:
        return []

    def oracle_final(self, st, case, run) -> list[Violation]:
        return []

    def run_impl(self, case):
        st = self.oracle_init(case)
        viols: list[Violation] = []

        def hook(i, op, seq, out, exc):
            with warnings.catch_warnings():
                warnings.simplefilter("ignore")
                viols.extend(self.oracle_step(st, i, op, seq, out, exc, case))

        run = seqimpl.run_case(case, hook)
        with warnings.catch_warnings():
            warnings.simplefilter("ignore")
            viols.extend(self.oracle_final(st, case, run))
        return run, viols

    def coq_item(self, case, run):
        if any(o["op"] == "config_slm" for o in case["ops"]):
            return None  # oracle-only case (SLM mask: not in the Coq model)
        if any(isinstance(o.get("duration"), float) for o in case["ops"]):
            return None  # oracle-only case (non-integer duration: the model's durations are integers)
        if any((o.get("pulse") or {}).get("unbuildable") for o in case["ops"]):
            return None  # oracle-only case (a Pulse that cannot be built never reaches the model)
        return seqcoq.case_terms(case, run)

    def cases_file(self, items):
        return seqcoq.cases_file(items)

    def nontrivial_key(self, case, run):
        oks = [t[0][0] == 0 for t in run["trace"][:-1]]
        if sum(oks) < 2:
            return None
        return json.dumps(case, sort_keys=True, default=str)

    def sample_of(self, case, run):
        return dict(
            device=case["device"],
            register=case["register"],
            ops=case["ops"],
            outcomes=[t[0][0] for t in run["trace"][:-1]],
        )

    def stats(self, case, run, acc):
        ops = acc.setdefault("ops_by_kind", {})
        errs = acc.setdefault("outcomes", {})
        for op, t in zip(case["ops"], run["trace"][:-1]):
            ops[op["op"]] = ops.get(op["op"], 0) + 1
            k = "ok" if t[0][0] == 0 else f"err{t[0][0]}"
            errs[k] = errs.get(k, 0) + 1
        acc["calls"] = acc.get("calls", 0) + len(case["ops"])
        if any(o["op"] == "config_slm" for o in case["ops"]):
            acc["oracle_only_cases_with_slm_mask"] = acc.get("oracle_only_cases_with_slm_mask", 0) + 1
        acc["max_history"] = max(acc.get("max_history", 0), len(case["ops"]))
        nch = len(run["trace"][-1][0])
        h = acc.setdefault("channels_per_case", {})
        h[str(nch)] = h.get(str(nch), 0) + 1


def slots_of(seq):
    return {name: list(cs.slots) for name, cs in seq._schedule.items()}


def slot_kind(s):
    if isinstance(s.type, Pulse):
        return "pulse"
    return s.type


def indep_fall(pulse, ch, in_eom: bool) -> int:
    """fall time of a pulse recomputed from the waveforms' own end buffers
    (documented definition: rise time + the longer of the amplitude's and the
    detuning's END modulation buffers), independently of Pulse.fall_time"""
    if in_eom and ch.supports_eom():
        rise = ch.eom_config.rise_time
    else:
        rise = ch.rise_time
        in_eom = False
    a = pulse.amplitude.modulation_buffers(ch, eom=in_eom)[1]
    d = pulse.detuning.modulation_buffers(ch, eom=in_eom)[1]
    return int(rise + max(a, d))
