import json, random, sys, time
sys.path.insert(0, "/verif")
from harness import common, seqgen, seqimpl, seqcoq
common.assert_repo_imports()
seed = int(sys.argv[1]) if len(sys.argv) > 1 else 1
n = int(sys.argv[2]) if len(sys.argv) > 2 else 50
rng = random.Random(seed)
items = []; cases = []
t0 = time.time()
nops = 0; nok = 0
for i in range(n):
    case = seqgen.gen_case(rng)
    run = seqimpl.run_case(case)
    cases.append((case, run))
    items.append(seqcoq.case_terms(case, run))
    for t in run["trace"][:-1]:
        nops += 1; nok += (t[0][0] == 0)
print("impl", time.time() - t0, "ops", nops, "ok", nok)
t0 = time.time()
rc, out = common.coq_eval(common.WORK / "smoke", "cases_0", seqcoq.cases_file(items))
print("coq", time.time() - t0, rc)
print(out[-3000:])
if rc == 0:
    bad = common.parse_Z_list(out)
    print("bad", bad)
    if bad:
        i = bad[0]
        case, run = cases[i]
        rc, out = common.coq_eval(common.WORK / "smoke", "dbg", seqcoq.debug_file(*items[i]))
        print(out[-6000:])
        import re
        m = re.search(r"= (\d+)", out)
        k = int(m.group(1)) if m else 0
        print("OPS up to diff:")
        for j, o in enumerate(case["ops"][: k + 1]):
            print(j, json.dumps(o), run["trace"][j][0])
        json.dump(case, open("/verif/.work/smoke/bad_case.json", "w"))
