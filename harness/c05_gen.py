"""C05 case generator: small sequences covering global/local channels, one
or several bases, several channels on one basis, DMM with per-atom weights,
SLM mask (Ising and XY), XY mode with arbitrary magnetic field, 2D/3D
registers in shuffled order, several Rydberg levels, sampling rates.
All randomness comes from the rng that is passed in."""
from __future__ import annotations

import math
import random

LEVELS = [50, 53, 60, 61, 70, 75, 80, 90, 100]
ID_POOL = ["q0", "q1", "q2", "q3", "a", "b", "zz", "atom7", "k", "m"]
GRID = [-10.0, -5.0, 0.0, 5.0, 10.0]
JIT = [0.0, 0.25, -0.5, 1.0, -1.25]
PHASES = [0.0, 0.0, 0.5, 1.0, 1.25, 2.0, math.pi / 2, math.pi, 3.0, 4.5, 6.0]
AMPS = [0.0, 0.5, 1.0, 2.0, 3.0, 6.5, 10.0]
DETS = [0.0, 0.0, -0.5, 0.5, 1.0, -2.0, 4.0, -7.5]


def gen_ids(rng, k, spare=0):
    """k distinct atom labels: strings, or Python ints that are NOT the atoms'
    positions (a shuffled 0..k-1, or arbitrary ints incl. labels >= k): the
    k-th tensor factor belongs to the k-th atom of the register whatever its
    label is."""
    r = rng.random()
    if r < 0.5:
        return rng.sample(ID_POOL, k)
    if r < 0.8:
        # the last label may be the spare atom (emulator-only): keep the
        # first k - spare labels a permutation of their own positions
        m = k - spare
        perm = list(range(m))
        rng.shuffle(perm)
        if m > 1 and perm == list(range(m)):
            perm = perm[1:] + perm[:1]
        return perm + list(range(m, k))
    return rng.sample([0, 1, 2, 3, 4, 5, 7, 12, 57, 100], k)


def gen_atoms(rng, n, dim3):
    pts = []
    tries = 0
    while len(pts) < n and tries < 1000:
        tries += 1
        p = [rng.choice(GRID) + rng.choice(JIT), rng.choice(GRID) + rng.choice(JIT)]
        if dim3:
            p.append(rng.choice(GRID) + rng.choice(JIT))
        if all(math.dist(p, q) >= 4.0 for q in pts):
            pts.append(p)
    return pts


def gen_wf(rng, pool, dur, allow_blackman=True, sign=None):
    r = rng.random()
    v = rng.choice(pool)
    if sign == "neg":
        v = -abs(v)
    if r < 0.55:
        return ["const", v]
    if r < 0.85 or not allow_blackman:
        w = rng.choice(pool)
        if sign == "neg":
            w = -abs(w)
        return ["ramp", v, w]
    return ["blackman", abs(v) * dur / 1000.0 if v else 0.1]


def noisy_step(rng, xy):
    """a configuration with shot-to-shot randomness (bad atoms, doppler shifts,
    amplitude fluctuations) or collapse operators"""
    kinds = ["spam", "spam", "spam-meas"] if xy else \
        ["spam", "spam", "spam", "doppler", "doppler", "amplitude", "spam+doppler", "dephasing", "spam-meas"]
    k = rng.choice(kinds)
    how = rng.choice(["set", "set", "add"])
    if k == "spam":
        return [how, dict(noise=["SPAM"], eta=rng.choice([0.5, 0.9, 0.99, 1.0]),
                          epsilon=rng.choice([0.0, 0.01]), epsilon_prime=rng.choice([0.0, 0.05]))]
    if k == "spam-meas":
        return [how, dict(noise=["SPAM"], eta=0.0, epsilon=0.02, epsilon_prime=0.03)]
    if k == "doppler":
        return [how, dict(noise=["doppler"], temperature=rng.choice([50.0, 1000.0, 5000.0]))]
    if k == "amplitude":
        return [how, dict(noise=["amplitude"], amp_sigma=rng.choice([0.05, 0.3]),
                          laser_waist=rng.choice([50.0, 175.0]))]
    if k == "spam+doppler":
        return [how, dict(noise=["SPAM", "doppler"], eta=rng.choice([0.5, 0.99]), epsilon=0.01,
                          epsilon_prime=0.0, temperature=1000.0)]
    return [how, dict(noise=["dephasing"], dephasing_rate=0.1, hyperfine_dephasing_rate=0.0)]


def clean_step(rng, xy):
    """a configuration under which no atom is badly prepared and nothing is
    drawn at random: the Hamiltonian must be the documented one again"""
    k = rng.choice(["reset", "none", "spam-meas", "spam-meas", "spam-meas", "dephasing"] if not xy
                   else ["reset", "none", "spam-meas", "spam-meas"])
    if k == "reset":
        return ["reset", None]
    if k == "none":
        return ["set", dict(noise=[])]
    if k == "spam-meas":
        return ["set", dict(noise=["SPAM"], eta=0.0, epsilon=rng.choice([0.01, 0.02]),
                            epsilon_prime=rng.choice([0.0, 0.05]))]
    return ["set", dict(noise=["dephasing"], dephasing_rate=0.05, hyperfine_dephasing_rate=0.0)]


def gen_history(rng, xy):
    """set_config / add_config / reset_config calls on ONE emulator, ending in a
    clean configuration; the oracle is applied after the history"""
    steps = [noisy_step(rng, xy) for _ in range(rng.choice([1, 1, 2, 3]))]
    if rng.random() < 0.25:
        steps.insert(rng.randint(0, len(steps)), clean_step(rng, xy))
    steps.append(clean_step(rng, xy))
    if not xy and rng.random() < 0.15:
        steps.append(["add", dict(noise=["dephasing"], dephasing_rate=0.2, hyperfine_dephasing_rate=0.0)])
    return steps


def gen_eom_case(rng: random.Random):
    """A Global Rydberg channel going through EOM mode one to three times
    (possibly left in EOM mode, with non-zero detuning_off), next to another
    channel (DMM, Local Rydberg or Raman) that may run longer, so that the EOM
    channel is padded up to the sequence duration."""
    dim3 = rng.random() < 0.2
    n = rng.choice([1, 2, 2, 3])
    pts = gen_atoms(rng, n, dim3)
    n = len(pts)
    names = gen_ids(rng, n)
    atoms = [[names[i], pts[i]] for i in range(n)]
    ids = [a[0] for a in atoms]
    other = rng.choice(["dmm", "dmm", "dmm", "local", "raman", "none"])
    ops = [dict(op="declare", name="ryd", id="rydberg_global")]
    if other == "dmm":
        ops.append(dict(op="detmap", dmm="dmm_0",
                        weights=[[q, rng.choice([0.0, 0.25, 0.5, 1.0])] for q in ids]))
    elif other == "local":
        ops.append(dict(op="declare", name="rydl", id="rydberg_local", target=rng.choice(ids)))
    elif other == "raman":
        ops.append(dict(op="declare", name="ramg", id="raman_global"))
    n_blocks = rng.choice([1, 2, 2, 2, 3])
    leave_open = rng.random() < 0.65
    for b in range(n_blocks):
        if rng.random() < 0.4:
            dur = rng.choice([8, 16, 24])
            ops.append(dict(op="add", ch="ryd", dur=dur, amp=gen_wf(rng, AMPS[1:], dur),
                            det=gen_wf(rng, DETS, dur, False), phase=rng.choice(PHASES),
                            post=0.0, protocol=0))
        ops.append(dict(op="enable_eom", ch="ryd", amp_on=rng.choice([2.0, 6.0, 9.0, 12.5]),
                        det_on=rng.choice([0.0, 0.5, -1.5, 3.0]),
                        opt_off=rng.choice([0.0, -3.0, -10.0, 5.0, -40.0]),
                        correct=rng.random() < 0.3))
        for _ in range(rng.choice([0, 1, 1, 2])):
            if rng.random() < 0.3:
                ops.append(dict(op="delay", dur=rng.choice([4, 10, 25]), ch="ryd"))
            ops.append(dict(op="add_eom", ch="ryd", dur=rng.choice([8, 12, 20, 40]),
                            phase=rng.choice(PHASES), post=rng.choice([0.0, 0.0, 0.5]),
                            protocol=rng.choice([0, 0, 1]), correct=rng.random() < 0.3))
        if rng.random() < 0.25:
            ops.append(dict(op="delay", dur=rng.choice([4, 10, 25]), ch="ryd"))
        if b < n_blocks - 1 or not leave_open:
            ops.append(dict(op="disable_eom", ch="ryd", correct=rng.random() < 0.2))
    # the other channel, often outlasting the EOM channel
    long_dur = rng.choice([20, 60, 150, 300, 500])
    if other == "dmm":
        ops.append(dict(op="add_dmm", ch="dmm_0", dur=long_dur,
                        det=gen_wf(rng, DETS[2:], long_dur, False, "neg")))
    elif other in ("local", "raman"):
        ch = "rydl" if other == "local" else "ramg"
        for _ in range(rng.choice([1, 2])):
            d = max(8, long_dur // 2)
            ops.append(dict(op="add", ch=ch, dur=d, amp=gen_wf(rng, AMPS[1:], d, False),
                            det=gen_wf(rng, DETS, d, False), phase=rng.choice(PHASES),
                            post=0.0, protocol=rng.choice([0, 1])))
    rate = 1.0 if rng.random() < 0.75 else rng.choice([0.5, 0.3, 0.8])
    probes = [["frac", 0.0], ["frac", 1.0], ["frac", rng.random()],
              ["tail", 0.0], ["tail", rng.random()], ["tail", rng.random()], ["tail", 1.0],
              ["edge", rng.randint(0, 11), -1], ["edge", rng.randint(0, 11), 0]]
    return dict(
        level=rng.choice(LEVELS), c3=3700.0, xy=False, mag=None, atoms=atoms, extra_atoms=[],
        bw=rng.choice([40.0, 15.0, 4.0]),
        eom=dict(bw=rng.choice([40.0, 30.0, 10.0]),
                 controlled=rng.choice([["BLUE"], ["BLUE"], ["BLUE", "RED"], ["RED"]]),
                 limiting=rng.choice(["RED", "BLUE"]),
                 buffer=rng.choice([None, None, 30])),
        ops=ops, rate=rate, direct=rng.random() < 0.4, probes=probes,
        profile="eom+" + other + ("+open" if leave_open else "") + f"+{n_blocks}blocks",
        history=gen_history(rng, False) if rng.random() < 0.25 else [],
        np_seed=rng.randrange(2**31),
    )


def gen_case(rng: random.Random, tier: str):
    if rng.random() < 0.15:
        return gen_eom_case(rng)
    xy = rng.random() < 0.3
    dim3 = rng.random() < 0.3
    profile = rng.choice(
        ["mw", "mw", "mw+local", "mw+slm", "mw+slm", "mw+shared", "mw+slm+local", "mw+slm+idle"]
        if xy else
        ["gr", "gr+local", "gr+local", "digital", "all", "all", "shared-gr", "shared-local",
         "shared-raman", "dmm", "dmm", "dmm+local", "slm", "slm", "slm+dmm", "local-only"]
    )
    d3 = profile in ("all",)
    nmax = 3 if d3 else 4
    n = rng.choice([1, 2, 2, 3, 3, 4][: (5 if nmax == 3 else 6)])
    pts = gen_atoms(rng, n + 1, dim3)
    n = min(n, max(1, len(pts) - 1))
    names = gen_ids(rng, n + 1, spare=1)
    atoms = [[names[i], pts[i]] for i in range(n)]
    ids = [a[0] for a in atoms]
    bw = rng.choice([None, None, None, 40.0, 15.0])
    ops = []
    chans = []  # (name, id, local?)

    def declare(name, cid, local=False):
        op = dict(op="declare", name=name, id=cid)
        if local:
            op["target"] = rng.choice(ids)
        ops.append(op)
        chans.append((name, cid, local))

    if xy:
        declare("mw", "mw_global")
        if "local" in profile:
            declare("mwl", "mw_local", True)
        if "shared" in profile or "idle" in profile:
            declare("mw2", "mw_global")
    else:
        if profile in ("gr", "gr+local", "all", "shared-gr", "dmm", "dmm+local", "slm", "slm+dmm"):
            declare("ryd", "rydberg_global")
        if profile in ("gr+local", "dmm+local", "shared-local", "local-only") or (profile == "all" and rng.random() < 0.5):
            declare("rydl", "rydberg_local", True)
        if profile == "shared-gr":
            declare("ryd2", "rydberg_global")
        if profile == "shared-local":
            declare("rydl2", "rydberg_local", True)
        if profile in ("digital", "all", "shared-raman"):
            if rng.random() < 0.6 or profile == "shared-raman":
                declare("ram", "raman_local", True)
            if rng.random() < 0.6 or not any(c[1].startswith("raman") for c in chans):
                declare("ramg", "raman_global")
        if profile == "shared-raman":
            declare("ram2", rng.choice(["raman_local", "raman_global"]), True)
            if chans[-1][1] == "raman_global":
                ops[-1].pop("target", None)
                chans[-1] = (chans[-1][0], chans[-1][1], False)

    dmm_chs = []
    if "dmm" in profile:
        for k in range(rng.choice([1, 1, 2])):
            dmm_id = rng.choice(["dmm_0", "dmm_1"])
            sub = rng.sample(ids, rng.randint(1, len(ids)))
            ops.append(dict(op="detmap", dmm=dmm_id,
                            weights=[[q, rng.choice([0.0, 0.25, 0.5, 1.0, 0.3, 0.75])] for q in sub]))
            cnt = sum(1 for o in ops if o["op"] in ("detmap",) and o["dmm"] == dmm_id)
            dmm_chs.append(dmm_id if cnt == 1 else f"{dmm_id}_{cnt - 1}")
    slm_pos = None
    if "slm" in profile:
        k = rng.randint(0, max(0, len(ids) - 1)) if len(ids) > 1 else 1
        tg = rng.sample(ids, max(1, min(len(ids), k)))
        used_dmm = {o["dmm"] for o in ops if o["op"] == "detmap"}
        free = [d for d in ("dmm_0", "dmm_1") if d not in used_dmm] or ["dmm_1"]
        slm_op = dict(op="slm", targets=tg, dmm=free[0])
        slm_pos = rng.choice(["before", "after-first"])
        if slm_pos == "before":
            ops.append(slm_op)

    # ---- pulses
    n_ops = rng.randint(1, 6)
    first_pulse_done = False
    for _ in range(n_ops):
        name, cid, local = rng.choice(chans)
        if profile.endswith("idle") and name == "mw2":
            name, cid, local = chans[0]
        r = rng.random()
        if local and r < 0.25 and len(ids) > 1:
            ops.append(dict(op="target", q=rng.choice(ids), ch=name))
            continue
        if r < 0.33 and first_pulse_done:
            ops.append(dict(op="delay", dur=rng.choice([1, 4, 8, 16, 30]), ch=name))
            continue
        if r < 0.40 and first_pulse_done and dmm_chs:
            ch = rng.choice(dmm_chs)
            dur = rng.choice([8, 12, 16, 20, 32, 50])
            ops.append(dict(op="add_dmm", ch=ch, dur=dur, det=gen_wf(rng, DETS[2:], dur, False, "neg")))
            continue
        if r < 0.46 and first_pulse_done:
            basis = {"rydberg": "ground-rydberg", "raman": "digital", "mw": "XY"}[cid.split("_")[0]]
            # one atom for Local channels; every atom otherwise (a Global pulse
            # needs equal phase references on all its targets)
            has_global = any((not c[2]) and c[1].split("_")[0] == cid.split("_")[0] for c in chans)
            ops.append(dict(op="phase_shift", phi=rng.choice(PHASES[2:]),
                            q=([] if has_global else [rng.choice(ids)]), basis=basis))
            continue
        dur = rng.choice([4, 8, 8, 12, 16, 20, 32, 50, 64])
        ops.append(dict(
            op="add", ch=name, dur=dur, amp=gen_wf(rng, AMPS, dur),
            det=gen_wf(rng, DETS, dur, False), phase=rng.choice(PHASES),
            post=rng.choice([0.0, 0.0, 0.0, 0.5, -1.0]),
            protocol=rng.choice([0, 0, 1, 2]),
        ))
        if not first_pulse_done:
            first_pulse_done = True
            if slm_pos == "after-first":
                ops.append(slm_op)
                slm_pos = "done"
    if not first_pulse_done:
        name, cid, local = chans[0]
        ops.append(dict(op="add", ch=name, dur=16, amp=["const", 2.0], det=["const", -1.0],
                        phase=0.5, post=0.0, protocol=0))
        if slm_pos == "after-first":
            ops.append(slm_op)
    if dmm_chs and not any(o["op"] == "add_dmm" for o in ops):
        dur = rng.choice([8, 16, 24])
        ops.append(dict(op="add_dmm", ch=rng.choice(dmm_chs), dur=dur,
                        det=gen_wf(rng, DETS[2:], dur, False, "neg")))
    if profile == "all":
        # make sure both bases are driven, so that the 3-level basis is used
        for name, cid, local in chans:
            if not any(o["op"] == "add" and o["ch"] == name and o["amp"] != ["const", 0.0] for o in ops):
                dur = rng.choice([8, 12, 20])
                ops.append(dict(op="add", ch=name, dur=dur, amp=["const", rng.choice(AMPS[1:])],
                                det=gen_wf(rng, DETS, dur, False), phase=rng.choice(PHASES),
                                post=0.0, protocol=rng.choice([0, 1])))
    if rng.random() < 0.15 and len(chans) > 1:
        ops.append(dict(op="align", chs=[c[0] for c in chans[:2]]))
        name, cid, local = rng.choice(chans[:2])
        ops.append(dict(op="add", ch=name, dur=12, amp=["const", 1.5], det=["const", 0.5],
                        phase=rng.choice(PHASES), post=0.0, protocol=0))

    mag = None
    if xy:
        r = rng.random()
        if r < 0.3:
            mag = None  # default (0, 0, 30)
        elif r < 0.5 and len(pts) >= 2:
            # parallel to the first pair: cos = +-1
            a, b = pts[0], pts[1]
            v = [a[i] - b[i] for i in range(len(a))] + [0.0] * (3 - len(a))
            mag = [x * 1.5 for x in v]
        else:
            mag = [rng.choice([0.0, 1.0, -2.0, 30.0, 7.5]) for _ in range(3)]
            if not any(mag):
                mag = [0.0, 10.0, 5.0]

    extra = []
    # emulator register larger than the sequence's (constructor path): Global
    # channels must then reach the additional atoms too
    p_extra = 0.4 if (xy and "slm" in profile) else 0.2
    if n < nmax and rng.random() < p_extra and len(pts) > n:
        extra = [[names[n], pts[n]]]
    history = gen_history(rng, xy) if rng.random() < 0.4 else []
    rate = 1.0 if rng.random() < 0.7 else rng.choice([0.5, 0.3, 0.8, 0.25, 0.9])
    probes = [["frac", 0.0], ["frac", 1.0], ["frac", rng.random()], ["frac", rng.random()],
              ["mask", -1], ["mask", 0], ["mask", 1],
              ["edge", rng.randint(0, 7), -1], ["edge", rng.randint(0, 7), 0],
              ["tail", rng.random()]]
    return dict(
        level=rng.choice(LEVELS), c3=rng.choice([3700.0, 3700.0, 1234.5]), xy=xy, mag=mag,
        atoms=atoms, extra_atoms=extra, bw=bw, ops=ops, rate=rate,
        direct=rng.random() < 0.25, probes=probes, profile=profile,
        history=history, np_seed=rng.randrange(2**31),
    )
